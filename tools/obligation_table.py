#!/usr/bin/env python3
"""Rewrites the obligation table of DESIGN.md §11.1 (between the OBLIGATIONS markers) from evidence/*.json."""
import json, glob, re, sys
root = '/verif'
rows = []
total = 0
for f in sorted(glob.glob(root + '/evidence/C*.json')):
    d = json.load(open(f))
    pr = d['coverage']['per_rule']
    items = sorted(pr.items(), key=lambda kv: [int(x) for x in kv[0][1:].split('.')])
    own = d['property_id'][1:]
    def fmt(k, v):
        s = f"{k} ({v['sites']})"
        return s if k[1:3] == own else s + '°'
    total += d['coverage']['obligations']
    rows.append(f"| {d['property_id']} | {d['coverage']['obligations']} | " + ' · '.join(fmt(k, v) for k, v in items) + ' |')
table = ("| prop | obligations | rules (sites on the current tree; ° = rule shared from another property) |\n|---|---|---|\n"
         + '\n'.join(rows) + f"\n\nTotal: {total} obligations (a shared rule's obligations count once per property that claims it).")
p = root + '/DESIGN.md'
s = open(p).read()
a, b = '<!-- OBLIGATIONS-BEGIN -->', '<!-- OBLIGATIONS-END -->'
if a not in s:
    sys.exit('markers missing')
s = s[:s.index(a) + len(a)] + '\n' + table + '\n' + s[s.index(b):]
open(p, 'w').write(s)
print('table rewritten:', len(rows), 'properties,', total, 'obligations')
