#!/usr/bin/env python3
"""make_round_table.py <round-root> <round-no> <missed-list-file>: writes <round-root>/table.tsv for store_round.sh
(name, property, seed id, rules, initially missed, also-check) from lbcheck -trypatch run over every patch_k.diff."""
import sys, os, re, glob, subprocess
root, rnd, missedf = sys.argv[1], sys.argv[2], sys.argv[3]
missed = set(open(missedf).read().split())
rows = []
for out in sorted(glob.glob(root + '/out-C*')):
    prop = os.path.basename(out)[4:]
    for patch in sorted(glob.glob(out + '/patch_*.diff')):
        k = re.search(r'patch_(\d+)', patch).group(1)
        name = f'{prop}-{k}'
        title = ''
        mt = f'{out}/meta_{k}.txt'
        if os.path.exists(mt):
            for line in open(mt):
                if line.strip():
                    title = re.sub(r'^(TITLE|Title|title)\s*[:\-]\s*', '', line.strip()); break
        slug = re.sub(r'[^a-z0-9]+', '-', title.lower())[:50].strip('-')
        sid = f'S{rnd}-{prop}-{k}-{slug}'
        r = subprocess.run(['/verif/bin/lbcheck', '-trypatch', patch], capture_output=True, text=True)
        hits = re.findall(r'^(C\d\d) (R\d\d\.\d+) \[(violated|undecided|anchor-unresolved)\]', r.stdout, re.M)
        own = sorted({h[1] for h in hits if h[0] == prop and h[2] != 'anchor-unresolved'}) or sorted({h[1] for h in hits if h[0] == prop})
        also = sorted({h[0] for h in hits if h[0] != prop})
        if not own and hits:  # caught only under another property: name that property's rules
            own = sorted({h[1] for h in hits})
        rows.append('\t'.join([name, prop, sid, ','.join(own), 'true' if name in missed else 'false', ','.join(also)]))
        print(rows[-1])
open(root + '/table.tsv', 'w').write('\n'.join(rows) + '\n')
