#!/usr/bin/env python3
"""store_seed.py <id> <property> <applied.diff> <demo_test.go> <agent meta.txt> <caught:true|false> <rules,comma> <initially_missed:true|false> <what_was_run> [also_check,comma]
Stores a confirmed seeded change under /verif/seeded/<id>/ (patch.diff, demo_test.go, agent_meta.txt, meta.json)."""
import json, os, shutil, sys, re
sid, prop, diff, demo, metatxt, caught, rules, missed, ran = sys.argv[1:10]
also = sys.argv[10].split(',') if len(sys.argv) > 10 and sys.argv[10] else []
d = f'/verif/seeded/{sid}'
os.makedirs(d, exist_ok=True)
shutil.copy(diff, f'{d}/patch.diff')
shutil.copy(demo, f'{d}/demo_test.go')
txt = open(metatxt).read() if os.path.exists(metatxt) else ''
open(f'{d}/agent_meta.txt', 'w').write(txt)
def section(title):
    m = re.search(title + r'[^\n]*\n[-=]*\n(.*?)(?:\n\n[A-Z][^\n]*\n[-=]{3,}|\Z)', txt, re.S)
    return ' '.join(m.group(1).split()) if m else ''
def needs():
    m = re.search(r'(?is)((?:exactly )?what (?:is|it) need(?:ed|s)[^\n]*\n.*?)(?:\n\s*\n|\Z)', txt)
    return ' '.join(m.group(1).split())[:800] if m else ''
meta = {
 'property': prop,
 'also_check': also,
 'origin': 'independent sub-agent given only the property text and its own scratch worktree; confirmed by tools/confirm_seed.sh in a fresh worktree of /repo HEAD (builds, existing suite passes with the change, demo fails with it and passes without it)',
 'breaks': section('What it breaks')[:1500] or txt[:800],
 'needs_to_manifest': section('What it needs')[:800] or needs(),
 'what_was_run': ran,
 'caught_by_static_check': caught == 'true',
 'caught_by_rules': [r for r in rules.split(',') if r],
 'initially_missed': missed == 'true',
}
json.dump(meta, open(f'{d}/meta.json', 'w'), indent=1)
print('stored', d)
