#!/usr/bin/env python3
"""round13_table.py: regenerates the round-13 seed table of DESIGN.md between the ROUND13-BEGIN/END markers from
seeded/S13-*/meta.json (the change column is the title line of the agent's own description)."""
import json, glob, os, re
rows, missed = [], 0
for d in sorted(glob.glob('/verif/seeded/S13-C*')):
    sid = os.path.basename(d)
    mm = re.match(r'(S13-C(\d\d)-\d+)-(.*)', sid)
    if False:
        continue
    m = json.load(open(d + '/meta.json'))
    title = ''
    if os.path.exists(d + '/agent_meta.txt'):
        for line in open(d + '/agent_meta.txt'):
            line = line.strip()
            if line:
                title = re.sub(r'^(TITLE|Title|title)\s*[:\-]\s*', '', line)
                break
    title = title.replace('|', '/')[:230] or mm.group(3).replace('-', ' ')
    rules = ', '.join(m.get('caught_by_rules', []))
    also = m.get('also_check') or []
    if also:
        rules += ' (also run: ' + ', '.join(also) + ')'
    when = 'after' if m.get('initially_missed') else 'first'
    missed += when == 'after'
    rows.append(f'| {mm.group(1)} | {title} | {rules} | {when} |')
p = '/verif/DESIGN.md'
s = open(p).read()
i = s.index('<!-- ROUND13-BEGIN -->') + len('<!-- ROUND13-BEGIN -->')
j = s.index('<!-- ROUND13-END -->')
s = s[:i] + '\n| seed | change | caught by | when |\n|---|---|---|---|\n' + '\n'.join(rows) + '\n' + s[j:]
s = re.sub(r'<!-- ROUND13-COUNT -->\d+', f'<!-- ROUND13-COUNT -->{len(rows)}', s)
s = re.sub(r'<!-- ROUND13-MISSED -->\d+', f'<!-- ROUND13-MISSED -->{missed}', s)
open(p, 'w').write(s)
print(len(rows), 'rows,', missed, 'initially missed')
