#!/bin/bash
# store_round.sh <table.tsv> <seed-out-root>: stores every seed of the table whose confirmation (in /tmp/confirm_<name>.out)
# says: suite passes with the change, demo fails with it (not a build failure) and passes without it.
table=$1; root=$2
RAN="tools/confirm_seed.sh: go build ./... ok; go test -vet=off -count=1 ./... (private network namespace) passes with the change; the demo fails with the change and passes without it; lbcheck -trypatch reports the rule(s) listed"
while IFS=$'\t' read -r name prop sid rules missed also; do
  [ -z "$name" ] && continue
  out=/tmp/confirm_$name.out
  [ -s $out ] || { echo "PENDING $name"; continue; }
  if ! grep -q "suite=pass" $out || ! grep -q "demo_with_change_exit=1" $out || ! grep -q "demo_without_change_exit=0" $out || grep -q "DEMO-BUILD-FAILED" $out; then echo "NOT-CONFIRMED $name: $(cat $out)"; continue; fi
  [ -d /verif/seeded/$sid ] && continue
  p=${name%%-*}; k=${name#*-}; k=${k%r2}; k=${k%r3}; k=${k%r3b}
  caught=true; [ -z "$rules" ] && caught=false
  python3 /verif/tools/store_seed.py $sid $prop /tmp/confirm/$name.applied.diff $root/out-$p/demo_${k}_test.go $root/out-$p/meta_${k}.txt $caught "$rules" $missed "$RAN" "$also"
done < $table
