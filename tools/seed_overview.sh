#!/bin/bash
# seed_overview.sh <out-dir> <prop> [suffix]: for each patch_k.diff in the directory print what lbcheck -trypatch reports and
# the confirm_seed.sh argument line (name patch demo package-dir run-regex).
dir=$1; prop=$2; sfx=${3:-}
for patch in $dir/patch_*.diff; do
  k=$(basename $patch .diff | sed 's/patch_//')
  demo=$dir/demo_${k}_test.go
  echo "== $prop/$k$sfx"
  /verif/bin/lbcheck -trypatch $patch 2>&1 | tail -4 | cut -c1-320
  pkg=$(head -5 $demo 2>/dev/null | grep -o 'server[/a-z]*' | head -1 | sed 's#/$##')
  run=$(grep -o '^func Test[A-Za-z0-9_]*' $demo 2>/dev/null | head -1 | sed 's/func //')
  echo "CONFIRM $prop-$k$sfx $patch $demo $pkg $run"
done
