#!/usr/bin/env python3-vt
"""Validate MANIFEST.json and evidence/*.json against the schemas in /root/.vp."""
import json, sys, glob, jsonschema
ok = True
m = json.load(open('/verif/MANIFEST.json'))
jsonschema.validate(m, json.load(open('/root/.vp/MANIFEST.schema.json')))
print('MANIFEST ok: %d checks, %d not_applicable' % (len(m['checks']), len(m.get('not_applicable', []))))
es = json.load(open('/root/.vp/EVIDENCE.schema.json'))
for c in m['checks']:
    f = c['evidence_file']
    try:
        e = json.load(open(f))
        jsonschema.validate(e, es)
        assert e['property_id'] == c['property_id'] and e['level'] == c['level_claimed']['category'], 'id/level mismatch'
        print(' evidence ok', f, e['tier'], e['coverage'].get('obligations'), e['coverage'].get('discharged'))
    except Exception as ex:
        ok = False
        print(' EVIDENCE BAD', f, str(ex)[:300])
sys.exit(0 if ok else 1)
