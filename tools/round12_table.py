#!/usr/bin/env python3
"""round12_table.py: regenerates the round-12 seed table of DESIGN.md between the ROUND12-BEGIN/END markers from
seeded/S12-*/meta.json (the change column is the title line of the agent's own description)."""
import json, glob, os, re
rows, missed = [], 0
for d in sorted(glob.glob('/verif/seeded/S12-C*')):
    sid = os.path.basename(d)
    mm = re.match(r'(S12-C(\d\d)-\d+)-(.*)', sid)
    if False:
        continue
    m = json.load(open(d + '/meta.json'))
    title = ''
    if os.path.exists(d + '/agent_meta.txt'):
        for line in open(d + '/agent_meta.txt'):
            line = line.strip()
            if line:
                title = re.sub(r'^(TITLE|Title|title)\s*[:\-]\s*', '', line)
                break
    title = title.replace('|', '/')[:230] or mm.group(3).replace('-', ' ')
    rules = ', '.join(m.get('caught_by_rules', []))
    also = m.get('also_check') or []
    if also:
        rules += ' (also run: ' + ', '.join(also) + ')'
    when = 'after' if m.get('initially_missed') else 'first'
    missed += when == 'after'
    rows.append(f'| {mm.group(1)} | {title} | {rules} | {when} |')
p = '/verif/DESIGN.md'
s = open(p).read()
i = s.index('<!-- ROUND12-BEGIN -->') + len('<!-- ROUND12-BEGIN -->')
j = s.index('<!-- ROUND12-END -->')
s = s[:i] + '\n| seed | change | caught by | when |\n|---|---|---|---|\n' + '\n'.join(rows) + '\n' + s[j:]
s = re.sub(r'<!-- ROUND12-COUNT -->\d+', f'<!-- ROUND12-COUNT -->{len(rows)}', s)
s = re.sub(r'<!-- ROUND12-MISSED -->\d+', f'<!-- ROUND12-MISSED -->{missed}', s)
open(p, 'w').write(s)
print(len(rows), 'rows,', missed, 'initially missed')
