#!/usr/bin/env python3
"""record_fix.py <spec.json>: for each fix in the spec write seeded/<Fnn-slug>/{patch.diff (reverse of the fix), demo_test.go, meta.json}
and append the `fixed` entries to known_findings.json. Spec: list of objects with keys
 id, slug, property, also, commit, demo, origin, breaks, needs, ran, entries:[{rule, construct, what}]"""
import json, subprocess, sys, os, shutil
spec = json.load(open(sys.argv[1]))
kf_path = '/verif/known_findings.json'
kf = json.load(open(kf_path))
for f in spec:
    d = f"/verif/seeded/{f['id']}-{f['slug']}"
    os.makedirs(d, exist_ok=True)
    rev = subprocess.run(['git', '-C', '/repo', 'diff', f['commit'], f['commit'] + '~1'], capture_output=True, text=True, check=True).stdout
    open(d + '/patch.diff', 'w').write(rev)
    if f.get('demo'):
        shutil.copy(f['demo'], d + '/demo_test.go')
    meta = {"property": f['property'], "also_check": f.get('also', []),
            "origin": f"reverse of the fix: commit {f['commit']} in /repo; " + f['origin'],
            "breaks": f['breaks'], "needs_to_manifest": f['needs'], "what_was_run": f['ran'],
            "caught_by_static_check": True, "caught_by_rules": sorted({e['rule'] for e in f['entries']})}
    json.dump(meta, open(d + '/meta.json', 'w'), indent=1, ensure_ascii=False)
    for e in f['entries']:
        key = (f['property'], e['rule'], e['construct'])
        if any((x['property'], x['rule'], x['construct']) == key for x in kf['findings']):
            continue
        kf['findings'].append({"property": f['property'], "also_properties": f.get('also', []), "rule": e['rule'],
                               "construct": e['construct'], "what": e['what'], "status": "fixed", "commit": f['commit']})
    print('recorded', f['id'], f['commit'])
json.dump(kf, open(kf_path, 'w'), indent=1, ensure_ascii=False)
