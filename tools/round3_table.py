#!/usr/bin/env python3
"""round3_table.py: regenerates the round-3 seed table of DESIGN.md (between the ROUND3-BEGIN/END markers) and the count
after the ROUND3-COUNT marker from seeded/S3-*/meta.json."""
import json, glob, os, re
rows, missed = [], 0
for d in sorted(glob.glob('/verif/seeded/S3-*')):
    m = json.load(open(d + '/meta.json'))
    sid = os.path.basename(d)
    mm = re.match(r'(S3-C\d\d-\d+)-(.*)', sid)
    short, words = mm.group(1), mm.group(2).replace('-', ' ')
    rules = ', '.join(m.get('caught_by_rules', []))
    also = m.get('also_check') or []
    if also:
        rules += ' (also run: ' + ', '.join(also) + ')'
    when = 'after' if m.get('initially_missed') else 'first'
    missed += when == 'after'
    rows.append(f'| {short} | {words} | {rules} | {when} |')
p = '/verif/DESIGN.md'
s = open(p).read()
i = s.index('<!-- ROUND3-BEGIN -->') + len('<!-- ROUND3-BEGIN -->')
j = s.index('<!-- ROUND3-END -->')
s = s[:i] + '\n| seed | change | caught by | when |\n|---|---|---|---|\n' + '\n'.join(rows) + '\n' + s[j:]
s = re.sub(r'<!-- ROUND3-COUNT -->\d+', f'<!-- ROUND3-COUNT -->{len(rows)}', s)
s = re.sub(r'<!-- ROUND3-MISSED -->\d+', f'<!-- ROUND3-MISSED -->{missed}', s)
open(p, 'w').write(s)
print(len(rows), 'rows,', missed, 'initially missed')
