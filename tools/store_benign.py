#!/usr/bin/env python3
"""store_benign.py <out-dir> <first-number> <wave description>: stores patch_k.diff / meta_k.txt of an agent's output directory
as selftest/benign/B<n>-<slug>/ (patch.diff, agent_notes.txt, meta.json)."""
import sys, os, re, json, glob, shutil
out, n, wave = sys.argv[1], int(sys.argv[2]), sys.argv[3]
props = ['C%02d' % i for i in range(1, 20)]
for patch in sorted(glob.glob(out + '/patch_*.diff'), key=lambda p: int(re.search(r'patch_(\d+)', p).group(1))):
    k = re.search(r'patch_(\d+)', patch).group(1)
    meta = out + f'/meta_{k}.txt'
    title = ''
    if os.path.exists(meta):
        for line in open(meta):
            if line.strip():
                title = line.strip(); break
    slug = re.sub(r'[^a-z0-9]+', '-', re.sub(r'^title\s*:\s*', '', title.lower()))[:50].strip('-')
    d = f'/verif/selftest/benign/B{n}-{slug}'
    os.makedirs(d, exist_ok=True)
    shutil.copy(patch, d + '/patch.diff')
    if os.path.exists(meta):
        shutil.copy(meta, d + '/agent_notes.txt')
    json.dump({"property": "C01", "also_check": props[1:], "benign": True,
               "description": f"behaviour-preserving refactoring, {wave}, written by an independent sub-agent (only the area of the code, nothing from /verif; build, vet and the suite pass with it): {title}"},
              open(d + '/meta.json', 'w'), indent=1)
    print(d)
    n += 1
