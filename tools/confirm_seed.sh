#!/bin/bash
# confirm_seed.sh <name> <patch.diff> <demo_test.go> <package dir of the demo> [demo -run regex]
# Confirms a seeded change in a scratch worktree of /repo's HEAD (outside /repo and /verif), in a private network
# namespace (the ./server tests use fixed ports): the tree builds, the existing suite passes with the change, the
# demonstration fails with it and passes without it. Prints a summary; removes the worktree afterwards.
set -u
name=$1; patch=$2; demo=$3; pkg=$4; run=${5:-.}
export GOFLAGS=-mod=mod GOPROXY=off
root=/tmp/confirm; wt=$root/wt-$name; log=$root/$name.log
mkdir -p $root; : > $log
git -C /repo worktree remove --force $wt >/dev/null 2>&1
git -C /repo worktree add --detach $wt HEAD >/dev/null 2>&1 || { echo "worktree failed"; exit 2; }
cd $wt
ns() { unshare -n bash -c "ip link set lo up; $*"; }
if ! git apply $patch 2>>$log; then
  if ! patch -p1 --no-backup-if-mismatch -F3 < $patch >>$log 2>&1; then echo "RESULT $name: patch does not apply"; cd /; git -C /repo worktree remove --force $wt; exit 3; fi
fi
find . -name '*.rej' -o -name '*.orig' | xargs -r rm -f
git diff > $root/$name.applied.diff
echo "== build" >>$log
if ! go build ./... >>$log 2>&1; then echo "RESULT $name: does not build"; cd /; git -C /repo worktree remove --force $wt; exit 4; fi
echo "== suite with change" >>$log
if [ "${SKIP_SUITE:-0}" = 1 ]; then echo "ok (skipped: suite already confirmed for this patch)" > $root/$name.suite.log; else
ns "go test -vet=off -count=1 -timeout 25m ./... " > $root/$name.suite.log 2>&1
fi
suite=pass
if [ "${SKIP_SUITE:-0}" = 1 ]; then suite="(confirmed in an earlier run)"; fi
if grep -q "^FAIL\|^--- FAIL\|^panic:" $root/$name.suite.log; then
  failed=$(grep "^--- FAIL" $root/$name.suite.log | awk '{print $3}' | sort -u | tr '\n' ' ')
  echo "first run failures: $failed" >>$log
  suite="pass-after-rerun"
  for t in $failed; do
    top=${t%%/*}
    if ! ns "go test -vet=off -count=1 -timeout 10m -run '^${top}\$' ./server/ ./server/commitlog/ ./server/protocol/ ./server/encryption/ ./server/telemetry/ ." > $root/$name.rerun.log 2>&1; then
       if ! ns "go test -vet=off -count=1 -timeout 10m -run '^${top}\$' ./server/ ./server/commitlog/ ./server/protocol/ ./server/encryption/ ./server/telemetry/ ." > $root/$name.rerun2.log 2>&1; then suite="FAIL($top)"; fi
    fi
  done
  if [ -z "$failed" ]; then suite="FAIL(no test name; see suite log)"; fi
fi
echo "suite: $suite" >>$log
cp $demo $pkg/zz_seed_demo_test.go
echo "== demo with change" >>$log
ns "timeout 600 go test -vet=off -count=1 -timeout 9m -run '$run' ./$pkg/" > $root/$name.demo_with.log 2>&1; dw=$?
git checkout -- . ; 
echo "== demo without change" >>$log
ns "timeout 600 go test -vet=off -count=1 -timeout 9m -run '$run' ./$pkg/" > $root/$name.demo_without.log 2>&1; dwo=$?
bf=""; grep -q "build failed" $root/$name.demo_with.log $root/$name.demo_without.log && bf=" DEMO-BUILD-FAILED"
echo "RESULT $name:$bf suite=$suite demo_with_change_exit=$dw (want !=0) demo_without_change_exit=$dwo (want 0)"
cd /; git -C /repo worktree remove --force $wt
