// package dir: server
package server

import (
	"context"
	"testing"
	"time"

	lift "github.com/liftbridge-io/go-liftbridge/v2"
	liftApi "github.com/liftbridge-io/liftbridge-api/v2/go"
	"github.com/stretchr/testify/require"
	pb "google.golang.org/protobuf/proto"

	proto "github.com/liftbridge-io/liftbridge/server/protocol"
)

// r9c18x2Commit commits a CREATE_STREAM operation for a single-partition
// stream straight through Raft (bypassing raftNode.applyOperation and with it
// the raftNode mutex) and returns the Raft index it was committed at.
func r9c18x2Commit(t *testing.T, node *raftNode, serverID, name string) uint64 {
	op := &proto.RaftLog{
		Op: proto.Op_CREATE_STREAM,
		CreateStreamOp: &proto.CreateStreamOp{
			Stream: &proto.Stream{
				Name:              name,
				Subject:           name,
				CreationTimestamp: time.Now().UnixNano(),
				Config: &proto.StreamConfig{
					Encryption: &proto.NullableBool{Value: false},
				},
				Partitions: []*proto.Partition{{
					Stream:            name,
					Subject:           name,
					Id:                0,
					ReplicationFactor: 1,
					Replicas:          []string{serverID},
					Isr:               []string{serverID},
					Leader:            serverID,
				}},
			},
		},
	}
	data, err := op.Marshal()
	require.NoError(t, err)
	future := node.Apply(data, 5*time.Second)
	require.NoError(t, future.Error())
	return future.Index()
}

func r9c18x2Next(t *testing.T, events <-chan *liftApi.ActivityStreamEvent, what string) *liftApi.ActivityStreamEvent {
	select {
	case ev := <-events:
		return ev
	case <-time.After(15 * time.Second):
		t.Fatalf("did not receive activity event: %s", what)
	}
	return nil
}

func r9c18x2WaitPublished(t *testing.T, s *Server, index uint64) {
	deadline := time.Now().Add(15 * time.Second)
	for time.Now().Before(deadline) {
		if s.activity.LastPublishedRaftIndex() == index {
			return
		}
		time.Sleep(10 * time.Millisecond)
	}
	t.Fatalf("last published Raft index is %d, expected %d",
		s.activity.LastPublishedRaftIndex(), index)
}

// A controller that is told it lost leadership while an activity event is in
// flight (published, index not yet recorded) must stop dispatching. If the
// deposed dispatcher keeps running it publishes events next to the dispatcher
// of the real controller, which duplicates events and interleaves them out of
// commit order.
func TestSeedR9C18x2DeposedDispatcherStopsAfterInflightPublish(t *testing.T) {
	defer cleanupStorage(t)

	cfg := getTestConfig("a", true, 5050)
	cfg.ActivityStream.Enabled = true
	cfg.ActivityStream.PublishTimeout = 10 * time.Second
	cfg.ActivityStream.PublishAckPolicy = liftApi.AckPolicy_LEADER
	s := runServerWithConfig(t, cfg)
	defer s.Stop()
	getMetadataLeader(t, 10*time.Second, s)

	client, err := lift.Connect([]string{"localhost:5050"})
	require.NoError(t, err)
	defer client.Close()

	events := make(chan *liftApi.ActivityStreamEvent, 128)
	ctx, cancel := context.WithCancel(context.Background())
	defer cancel()
	err = client.Subscribe(ctx, activityStream, func(msg *lift.Message, err error) {
		if err != nil {
			return
		}
		ev := new(liftApi.ActivityStreamEvent)
		if pb.Unmarshal(msg.Value(), ev) == nil {
			events <- ev
		}
	}, lift.StartAtEarliestReceived())
	require.NoError(t, err)

	// The creation of the activity stream itself is the first event. Wait
	// until its index has been recorded so that the dispatcher is idle.
	ev := r9c18x2Next(t, events, "creation of the activity stream")
	require.Equal(t, liftApi.ActivityStreamOp_CREATE_STREAM, ev.GetOp())
	require.Equal(t, activityStream, ev.GetCreateStreamOp().GetStream())
	r9c18x2WaitPublished(t, s, ev.GetId())

	// Hold the mutex serialising Raft operations. The dispatcher will publish
	// the next event and then block in publishActivityEvent when it tries to
	// record the published index, i.e. it is parked inside handleRaftLog.
	node := s.getRaft()
	node.Lock()
	locked := true
	defer func() {
		if locked {
			node.Unlock()
		}
	}()

	fooIndex := r9c18x2Commit(t, node, "a", "foo")
	ev = r9c18x2Next(t, events, "creation of foo")
	require.Equal(t, "foo", ev.GetCreateStreamOp().GetStream())
	require.Equal(t, fooIndex, ev.GetId())
	time.Sleep(250 * time.Millisecond)

	// Leadership is lost while that publish is in flight.
	require.NoError(t, s.activity.BecomeFollower())
	node.Unlock()
	locked = false

	// The in-flight event completes: its index gets recorded.
	r9c18x2WaitPublished(t, s, fooIndex)
	time.Sleep(250 * time.Millisecond)

	// Another operation commits. The deposed dispatcher must be gone, so
	// nothing may be published for it until leadership is re-acquired.
	barIndex := r9c18x2Commit(t, node, "a", "bar")
	select {
	case ev := <-events:
		t.Fatalf("dispatcher of a deposed controller is still publishing: "+
			"got event id=%d op=%s after BecomeFollower", ev.GetId(), ev.GetOp())
	case <-time.After(3 * time.Second):
	}

	// The controller re-acquires leadership and resumes after the recorded
	// index: bar is published, exactly once.
	require.NoError(t, s.activity.BecomeLeader())
	ev = r9c18x2Next(t, events, "creation of bar")
	require.Equal(t, "bar", ev.GetCreateStreamOp().GetStream())
	require.Equal(t, barIndex, ev.GetId())
	r9c18x2WaitPublished(t, s, barIndex)
	select {
	case ev := <-events:
		t.Fatalf("unexpected extra activity event id=%d op=%s", ev.GetId(), ev.GetOp())
	case <-time.After(2 * time.Second):
	}
}
