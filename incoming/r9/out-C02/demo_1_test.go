// package dir: server
package server

import (
	"context"
	"testing"
	"time"

	"github.com/stretchr/testify/require"

	proto "github.com/liftbridge-io/liftbridge/server/protocol"
)

// A replica which was removed from the ISR (because it does not hold every
// committed message) must stay out of the ISR, on every server, until the
// leader adds it back. The sequence here is: ISR shrink, then pause and resume
// of the partition (explicit PauseStream or the auto-pause of an idle stream,
// followed by a publish), which rebuilds the partition from the metadata the
// old partition object carries. The steps are applied the way the Raft FSM
// applies them (same calls as Server.apply), on a single running server.
func TestSeedR9C02x1ResumedPartitionKeepsShrunkISR(t *testing.T) {
	defer cleanupStorage(t)

	config := getTestConfig("a", true, 5050)
	server := runServerWithConfig(t, config)
	defer server.Stop()
	getMetadataLeader(t, 10*time.Second, server)

	name := "r9c02x1"
	_, err := server.metadata.AddStream(&proto.Stream{
		Name:    name,
		Subject: name,
		Partitions: []*proto.Partition{{
			Subject:           name,
			Stream:            name,
			Id:                0,
			ReplicationFactor: 2,
			Replicas:          []string{"a", "b"},
			Isr:               []string{"a", "b"},
			Leader:            "a",
			LeaderEpoch:       5,
			Epoch:             5,
		}},
	}, false, 5)
	require.NoError(t, err)

	p := server.metadata.GetPartition(name, 0)
	require.NotNil(t, p)
	require.True(t, p.IsLeader())
	require.ElementsMatch(t, []string{"a", "b"}, p.GetISR())

	// Follower b lags: Op_SHRINK_ISR is applied (Raft index 6). From here on
	// the leader commits (and acks) messages b does not have.
	require.NoError(t, server.applyShrinkISR(name, "b", 0, 6))
	require.False(t, p.inISR("b"))

	// Op_PAUSE_STREAM followed by Op_RESUME_STREAM.
	require.NoError(t, server.applyPauseStream(name, nil, false))
	require.True(t, server.metadata.GetPartition(name, 0).IsPaused())
	require.NoError(t, server.applyResumeStream(name, []int32{0}, false))

	p = server.metadata.GetPartition(name, 0)
	require.NotNil(t, p)
	require.False(t, p.IsPaused())
	require.True(t, p.IsLeader())

	// b has not been added back by any Op_EXPAND_ISR, so it must not be in
	// the ISR: it is not waited for by the commit rule and, above all, it must
	// not be a candidate when the leader fails.
	require.False(t, p.inISR("b"),
		"replica b is back in the ISR after pause/resume without an ISR expand: ISR=%v", p.GetISR())
	require.ElementsMatch(t, []string{"a"}, p.GetISR())

	// Leader a is reported failed: there is nobody who may take over.
	ctx, cancel := context.WithTimeout(context.Background(), 5*time.Second)
	defer cancel()
	st := server.metadata.electNewPartitionLeader(ctx, p)
	require.NotNil(t, st, "a replica outside of the ISR was elected leader")
	leader, _ := p.GetLeader()
	require.Equal(t, "a", leader)
}
