// package dir: server/commitlog
package commitlog

import (
	"fmt"
	"io"
	"os"
	"testing"
	"time"

	"github.com/stretchr/testify/require"
)

// The process dies while a compacted segment takes the place of the original
// one, after the log file has been renamed and before the index file has been
// (the two renames in segment.Replace). The index left in place describes the
// original, longer log. Reopening the partition has to yield exactly the
// messages the compacted log file holds, followed by the rest of the log.
func TestSeedR12C05x2CrashBetweenReplaceRenames(t *testing.T) {
	dir := t.TempDir()
	opts := Options{
		Path:                 dir,
		MaxSegmentBytes:      1024,
		HWCheckpointInterval: time.Hour,
		CleanerInterval:      time.Hour,
	}
	cl, err := New(opts)
	require.NoError(t, err)
	l := cl.(*commitLog)

	// Fill two segments and a bit of a third one. All messages of the first
	// segment but the last two share one key, the way a compacted stream looks.
	numMsgs := 0
	for len(l.segments) < 3 {
		key := []byte("k")
		if numMsgs >= 8 {
			key = []byte(fmt.Sprintf("k%d", numMsgs))
		}
		_, err := l.Append([]*Message{{
			Key:         key,
			Value:       []byte(fmt.Sprintf("value-%03d-%s", numMsgs, string(make([]byte, 40)))),
			Timestamp:   int64(numMsgs + 1),
			LeaderEpoch: 1,
		}})
		require.NoError(t, err)
		numMsgs++
	}
	first := l.segments[0]
	firstCount := first.MessageCount()
	require.GreaterOrEqual(t, firstCount, int64(10))
	second := l.segments[1].BaseOffset
	require.NoError(t, l.Close())

	// Compact the first segment by hand up to the crash point: keep the last
	// message of key "k" (offset 7) and the messages behind it.
	seg, err := newSegment(dir, 0, opts.MaxSegmentBytes, false, "")
	require.NoError(t, err)
	cleaned, err := seg.Cleaned()
	require.NoError(t, err)
	var kept []int64
	ss := newSegmentScanner(seg)
	for {
		ms, _, err := ss.Scan()
		if err == io.EOF {
			break
		}
		require.NoError(t, err)
		if ms.Offset() < 7 {
			continue
		}
		entries, err := entriesForMessageSet(cleaned.Position(), ms)
		require.NoError(t, err)
		require.NoError(t, cleaned.WriteMessageSet(ms, entries))
		kept = append(kept, ms.Offset())
	}
	require.Less(t, int64(len(kept)), firstCount/2)
	require.NoError(t, seg.Close())
	require.NoError(t, cleaned.Close())
	// First rename of Replace; the process dies before the second one.
	require.NoError(t, os.Rename(cleaned.logPath(), seg.logPath()))

	// Reopen the partition.
	cl2, err := New(opts)
	require.NoError(t, err)
	defer cl2.Close()
	l2 := cl2.(*commitLog)

	expected := append([]int64{}, kept...)
	for o := second; o < int64(numMsgs); o++ {
		expected = append(expected, o)
	}
	var got []int64
	for _, s := range l2.Segments() {
		ss := newSegmentScanner(s)
		for {
			ms, e, err := ss.Scan()
			if err == io.EOF {
				break
			}
			require.NoError(t, err, "reading back the reopened log failed")
			require.Equal(t, e.Offset, ms.Offset(), "index entry does not describe the message it points to")
			got = append(got, ms.Offset())
		}
	}
	require.Equal(t, expected, got, "reopened log does not hold exactly the messages on disk")
	// Looking a message up by its offset has to lead to that message.
	for _, offset := range kept {
		e, err := l2.Segments()[0].findEntry(offset)
		require.NoError(t, err)
		require.Equal(t, offset, e.Offset)
		header := make(messageSet, msgSetHeaderLen)
		_, err = l2.Segments()[0].ReadAt(header, e.Position)
		require.NoError(t, err, "index entry of offset %d points past the log", offset)
		require.Equal(t, offset, header.Offset(), "index entry points to another message")
	}
	require.Equal(t, int64(len(kept)), l2.Segments()[0].MessageCount())
	require.Equal(t, kept[len(kept)-1], l2.Segments()[0].LastOffset())
	require.Equal(t, int64(numMsgs-1), l2.NewestOffset())
}
