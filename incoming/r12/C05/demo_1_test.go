// package dir: server/commitlog
package commitlog

import (
	"fmt"
	"os"
	"path/filepath"
	"strings"
	"testing"
	"time"

	"github.com/stretchr/testify/require"
)

// A truncation which stops partway through deleting the segments behind the
// truncation offset (the process dies there, or, as forced here, the deletion
// of one segment fails) must leave a contiguous prefix of the log on disk:
// reopening the partition must not yield a log with a hole in its offsets.
func TestSeedR12C05x1TruncateInterruptedLeavesNoHole(t *testing.T) {
	dir := t.TempDir()
	opts := Options{
		Path:                 dir,
		MaxSegmentBytes:      1, // roll a segment for every append
		HWCheckpointInterval: time.Hour,
		CleanerInterval:      time.Hour,
	}
	cl, err := New(opts)
	require.NoError(t, err)
	l := cl.(*commitLog)

	const numMsgs = 6
	for i := 0; i < numMsgs; i++ {
		_, err := l.Append([]*Message{{
			Value:       []byte(fmt.Sprintf("message-%d", i)),
			Timestamp:   int64(i + 1),
			LeaderEpoch: 1,
		}})
		require.NoError(t, err)
	}
	require.GreaterOrEqual(t, len(l.segments), 4)

	// The fault: the newest segment cannot be deleted because its file has
	// gone bad (closing it fails). This stands for the process dying at the
	// point where the deletion of this segment is due.
	newest := l.segments[len(l.segments)-1]
	require.NoError(t, newest.log.Close())

	// Truncate the log down to its first message. This has to fail since the
	// newest segment cannot be deleted.
	require.Error(t, l.Truncate(1))

	// The "crash": abandon the log and reopen the partition directory.
	l.Close() // nolint: errcheck

	assertContiguousSegmentFiles(t, dir)

	cl2, err := New(opts)
	require.NoError(t, err)
	defer cl2.Close()
	l2 := cl2.(*commitLog)

	// Every offset from the oldest to the newest must be there exactly once.
	expected := l2.OldestOffset()
	require.Equal(t, int64(0), expected)
	for _, seg := range l2.Segments() {
		ss := newSegmentScanner(seg)
		for {
			ms, _, err := ss.Scan()
			if err != nil {
				break
			}
			require.Equal(t, expected, ms.Offset(), "hole or duplicate in the reopened log")
			expected++
		}
	}
	require.Equal(t, l2.NewestOffset()+1, expected, "hole in the reopened log")
}

// assertContiguousSegmentFiles checks that each segment on disk begins where
// the one before it ends. Every message is in a segment of its own here.
func assertContiguousSegmentFiles(t *testing.T, dir string) {
	files, err := os.ReadDir(dir)
	require.NoError(t, err)
	next := int64(0)
	for _, file := range files {
		if !strings.HasSuffix(file.Name(), logSuffix) {
			continue
		}
		var base int64
		_, err := fmt.Sscanf(strings.TrimSuffix(file.Name(), logSuffix), "%d", &base)
		require.NoError(t, err)
		info, err := os.Stat(filepath.Join(dir, file.Name()))
		require.NoError(t, err)
		require.Equal(t, next, base, "segment files on disk have a gap before %s", file.Name())
		if info.Size() > 0 {
			next = base + 1
		}
	}
}
