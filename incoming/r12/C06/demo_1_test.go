// package dir: server
package server

import (
	"bytes"
	"io/ioutil"
	"reflect"
	"testing"

	proto "github.com/liftbridge-io/liftbridge/server/protocol"
)

// seedR12C06x1Sink is an in-memory raft.SnapshotSink.
type seedR12C06x1Sink struct {
	bytes.Buffer
}

func (s *seedR12C06x1Sink) ID() string    { return "seed-r12-c06-1" }
func (s *seedR12C06x1Sink) Cancel() error { return nil }
func (s *seedR12C06x1Sink) Close() error  { return nil }

func seedR12C06x1Server(t *testing.T) *Server {
	config := NewDefaultConfig()
	config.DataDir = t.TempDir()
	config.Clustering.ServerID = "a" // never a replica nor a coordinator below
	config.LogSilent = true
	config.Telemetry.Enabled = false
	return New(config)
}

func seedR12C06x1Assignments(t *testing.T, s *Server, groupID string) map[string]partitionAssignments {
	group := s.metadata.GetConsumerGroup(groupID)
	if group == nil {
		t.Fatalf("consumer group %s does not exist", groupID)
	}
	group.mu.RLock()
	defer group.mu.RUnlock()
	res := make(map[string]partitionAssignments, len(group.members))
	for id, member := range group.members {
		assignments := make(partitionAssignments, len(member.assignments))
		for stream, partitions := range member.assignments {
			if len(partitions) == 0 {
				continue
			}
			assignments[stream] = append([]int32(nil), partitions...)
		}
		res[id] = assignments
	}
	return res
}

// A server restored from a snapshot must hold the same consumer group state
// (members and their partition assignments) as the server which applied the
// operations and took the snapshot.
func TestSeedR12C06x1RestoreGroupAssignments(t *testing.T) {
	s1 := seedR12C06x1Server(t)
	defer s1.metadata.Reset()

	partitions := make([]*proto.Partition, 3)
	for i := range partitions {
		partitions[i] = &proto.Partition{
			Subject:  "foo",
			Stream:   "foo",
			Id:       int32(i),
			Replicas: []string{"b"},
			Isr:      []string{"b"},
			Leader:   "b",
		}
	}
	ops := []*proto.RaftLog{
		{
			Op: proto.Op_CREATE_STREAM,
			CreateStreamOp: &proto.CreateStreamOp{
				Stream: &proto.Stream{Name: "foo", Subject: "foo", Partitions: partitions},
			},
		},
		{
			Op: proto.Op_CREATE_CONSUMER_GROUP,
			CreateConsumerGroupOp: &proto.CreateConsumerGroupOp{
				ConsumerGroup: &proto.ConsumerGroup{
					Id:          "grp",
					Coordinator: "b",
					Members:     []*proto.Consumer{{Id: "c1", Streams: []string{"foo"}}},
				},
			},
		},
		{
			Op: proto.Op_JOIN_CONSUMER_GROUP,
			JoinConsumerGroupOp: &proto.JoinConsumerGroupOp{
				GroupId:    "grp",
				ConsumerId: "c2",
				Streams:    []string{"foo"},
			},
		},
	}
	for i, op := range ops {
		if _, err := s1.apply(op, uint64(i+1), false); err != nil {
			t.Fatalf("apply %s: %v", op.Op, err)
		}
	}
	want := seedR12C06x1Assignments(t, s1, "grp")
	total := 0
	for _, assignments := range want {
		total += len(assignments["foo"])
	}
	if total != 3 {
		t.Fatalf("expected the 3 partitions of foo to be assigned before the snapshot, got %v", want)
	}

	// Snapshot the state and restore it on a fresh server.
	snap, err := s1.Snapshot()
	if err != nil {
		t.Fatal(err)
	}
	sink := &seedR12C06x1Sink{}
	if err := snap.Persist(sink); err != nil {
		t.Fatal(err)
	}

	s2 := seedR12C06x1Server(t)
	defer s2.metadata.Reset()
	if err := s2.Restore(ioutil.NopCloser(bytes.NewReader(sink.Bytes()))); err != nil {
		t.Fatal(err)
	}
	if _, _, err := s2.finishedRecovery(uint64(len(ops))); err != nil {
		t.Fatal(err)
	}

	if stream := s2.metadata.GetStream("foo"); stream == nil || len(stream.GetPartitions()) != 3 {
		t.Fatalf("stream foo was not restored with its 3 partitions")
	}
	got := seedR12C06x1Assignments(t, s2, "grp")
	if !reflect.DeepEqual(want, got) {
		t.Fatalf("consumer group assignments differ after restore:\n before snapshot: %v\n after restore:   %v", want, got)
	}
}
