// package dir: server
package server

import (
	"bytes"
	"io/ioutil"
	"os"
	"path/filepath"
	"testing"

	"github.com/liftbridge-io/liftbridge/server/commitlog"
	proto "github.com/liftbridge-io/liftbridge/server/protocol"
)

// seedR12C06x2Sink is an in-memory raft.SnapshotSink.
type seedR12C06x2Sink struct {
	bytes.Buffer
}

func (s *seedR12C06x2Sink) ID() string    { return "seed-r12-c06-2" }
func (s *seedR12C06x2Sink) Cancel() error { return nil }
func (s *seedR12C06x2Sink) Close() error  { return nil }

func seedR12C06x2CreateOp(name string) *proto.RaftLog {
	return &proto.RaftLog{
		Op: proto.Op_CREATE_STREAM,
		CreateStreamOp: &proto.CreateStreamOp{
			Stream: &proto.Stream{
				Name:    name,
				Subject: name,
				Partitions: []*proto.Partition{{
					Subject:  name,
					Stream:   name,
					Id:       0,
					Replicas: []string{"b"},
					Isr:      []string{"b"},
					Leader:   "b",
				}},
			},
		},
	}
}

// A stream deleted by a replayed entry must not come back: if a snapshot which
// no longer contains the stream is installed while the replay is in progress,
// the stream's data has to be gone once recovery finished, and a stream
// created with the same name afterwards has to start empty.
func TestSeedR12C06x2RestoreDuringReplayPurgesTombstonedStream(t *testing.T) {
	config := NewDefaultConfig()
	config.DataDir = t.TempDir()
	config.Clustering.ServerID = "a" // never a replica
	config.LogSilent = true
	config.Telemetry.Enabled = false
	s := New(config)
	defer s.metadata.Reset()

	// Snapshot of a state which holds stream "keep" only, taken by a server
	// which applied create(foo), create(keep), delete(foo).
	peerConfig := NewDefaultConfig()
	peerConfig.DataDir = t.TempDir()
	peerConfig.Clustering.ServerID = "c"
	peerConfig.LogSilent = true
	peerConfig.Telemetry.Enabled = false
	peer := New(peerConfig)
	defer peer.metadata.Reset()
	deleteFoo := &proto.RaftLog{
		Op:             proto.Op_DELETE_STREAM,
		DeleteStreamOp: &proto.DeleteStreamOp{Stream: "foo"},
	}
	for i, op := range []*proto.RaftLog{seedR12C06x2CreateOp("foo"), seedR12C06x2CreateOp("keep"), deleteFoo} {
		if _, err := peer.apply(op, uint64(i+1), false); err != nil {
			t.Fatal(err)
		}
	}
	snap, err := peer.Snapshot()
	if err != nil {
		t.Fatal(err)
	}
	sink := &seedR12C06x2Sink{}
	if err := snap.Persist(sink); err != nil {
		t.Fatal(err)
	}

	// This server replays its log after a restart: create(foo), create(keep),
	// delete(foo). The log of foo holds a message from its previous life.
	if _, err := s.apply(seedR12C06x2CreateOp("foo"), 1, true); err != nil {
		t.Fatal(err)
	}
	if _, err := s.apply(seedR12C06x2CreateOp("keep"), 2, true); err != nil {
		t.Fatal(err)
	}
	if _, err := s.metadata.GetPartition("foo", 0).log.Append(
		[]*commitlog.Message{{Value: []byte("old")}}); err != nil {
		t.Fatal(err)
	}
	if _, err := s.apply(deleteFoo, 3, true); err != nil {
		t.Fatal(err)
	}
	if stream := s.metadata.GetStream("foo"); stream == nil || !stream.IsTombstoned() {
		t.Fatal("expected foo to be tombstoned by the replayed delete")
	}

	// The leader installs its snapshot (index 3) before the replay finished.
	if err := s.Restore(ioutil.NopCloser(bytes.NewReader(sink.Bytes()))); err != nil {
		t.Fatal(err)
	}
	if _, _, err := s.finishedRecovery(3); err != nil {
		t.Fatal(err)
	}

	if s.metadata.GetStream("foo") != nil {
		t.Fatal("deleted stream foo is still in the metadata")
	}
	if s.metadata.GetStream("keep") == nil {
		t.Fatal("stream keep was lost")
	}
	fooDir := filepath.Join(config.DataDir, "streams", "foo")
	if _, err := os.Stat(fooDir); !os.IsNotExist(err) {
		t.Errorf("data of the deleted stream foo is still on disk after recovery (stat err: %v)", err)
	}

	// A new stream with the same name must not see the old stream's messages.
	if _, err := s.apply(seedR12C06x2CreateOp("foo"), 4, false); err != nil {
		t.Fatal(err)
	}
	if newest := s.metadata.GetPartition("foo", 0).log.NewestOffset(); newest != -1 {
		t.Errorf("recreated stream foo holds messages of the deleted stream, newest offset %d", newest)
	}
}
