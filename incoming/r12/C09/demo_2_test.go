// package dir: server/commitlog
package commitlog

import (
	"context"
	"testing"
	"time"

	"github.com/stretchr/testify/require"
)

// A byte limit smaller than the maximum segment size still has to hold after a
// clean when the segments are smaller than their maximum size, which they are
// when they are rolled because of their age rather than because they are full.
func TestSeedR12C09x2BytesLimitBelowSegmentSizeWithAgeRolledSegments(t *testing.T) {
	msg := func(i int) []*Message {
		return []*Message{{Value: []byte("v"), Timestamp: int64(i + 1)}}
	}
	ms, _, err := newMessageSetFromProto(0, 0, msg(0), false)
	require.NoError(t, err)
	size := int64(len(ms))
	limit := 2*size + size/2 // room for two one-message segments, not three

	cl, err := New(Options{
		Path:                 t.TempDir(),
		MaxSegmentBytes:      100 * size,
		MaxSegmentAge:        time.Nanosecond, // every append rolls a non-empty segment
		MaxLogBytes:          limit,
		CleanerInterval:      time.Hour,
		HWCheckpointInterval: time.Hour,
	})
	require.NoError(t, err)
	l := cl.(*commitLog)
	defer l.Close()

	for i := 0; i < 5; i++ {
		_, err := l.Append(msg(i))
		require.NoError(t, err)
	}
	before := l.Segments()
	require.Len(t, before, 5)
	for i, s := range before {
		require.Equal(t, int64(i), s.BaseOffset)
		require.Equal(t, size, s.Position())
	}

	require.NoError(t, l.Clean())

	after := l.Segments()
	var (
		bases []int64
		total int64
	)
	for _, s := range after {
		bases = append(bases, s.BaseOffset)
		total += s.Position()
	}
	if len(after) > 1 {
		require.LessOrEqual(t, total, limit, "byte limit must hold after the clean, segments %v", bases)
	}
	require.Equal(t, []int64{3, 4}, bases)
	require.Equal(t, int64(3), l.OldestOffset())

	r, err := l.NewReader(0, true)
	require.NoError(t, err)
	headers := make([]byte, 28)
	for _, want := range []int64{3, 4} {
		ctx, cancel := context.WithTimeout(context.Background(), 5*time.Second)
		_, offset, _, _, err := r.ReadMessage(ctx, headers)
		cancel()
		require.NoError(t, err)
		require.Equal(t, want, offset)
	}
}
