// package dir: server/commitlog
package commitlog

import (
	"context"
	"os"
	"path/filepath"
	"sort"
	"strings"
	"testing"
	"time"

	"github.com/stretchr/testify/require"
)

// A retention pass whose file removal fails part of the way is retried by the
// next pass. After the retry the log must consist of exactly the segments the
// limits retain: a contiguous suffix, each segment once, none of them marked
// deleted, and the same set of segment files on disk.
func TestSeedR12C09x1CleanRetriedAfterFailedDeleteLeavesSuffix(t *testing.T) {
	dir := t.TempDir()
	cl, err := New(Options{
		Path:                 dir,
		MaxSegmentBytes:      1, // every message rolls a new segment
		MaxLogMessages:       2,
		CleanerInterval:      time.Hour,
		HWCheckpointInterval: time.Hour,
	})
	require.NoError(t, err)
	l := cl.(*commitLog)
	defer l.Close()

	for i := 0; i < 5; i++ {
		_, err := l.Append([]*Message{{Value: []byte("v"), Timestamp: int64(i + 1)}})
		require.NoError(t, err)
	}
	l.mu.RLock()
	segs := append([]*segment{}, l.segments...)
	l.mu.RUnlock()
	require.Len(t, segs, 5)
	for i, s := range segs {
		require.Equal(t, int64(i), s.BaseOffset)
		require.Equal(t, int64(1), s.MessageCount())
	}

	// Fault: the log file of segment 1 cannot be removed (a non-empty
	// directory sits in its place), so the pass removes segment 0, fails on
	// segment 1 and stops.
	victim := segs[1].logPath()
	require.NoError(t, os.Remove(victim))
	require.NoError(t, os.Mkdir(victim, 0755))
	require.NoError(t, os.WriteFile(filepath.Join(victim, "x"), []byte("x"), 0644))

	require.Error(t, l.Clean(), "first pass is expected to fail on segment 1")

	// Readers already see the log without the three oldest segments.
	readable := l.Segments()
	require.Len(t, readable, 2)
	require.Equal(t, int64(3), readable[0].BaseOffset)

	// The fault goes away and the next pass retries.
	require.NoError(t, os.RemoveAll(victim))
	require.NoError(t, l.Clean())

	l.mu.RLock()
	after := append([]*segment{}, l.segments...)
	l.mu.RUnlock()
	var bases []int64
	for _, s := range after {
		bases = append(bases, s.BaseOffset)
	}
	last := after[len(after)-1]
	require.Equal(t, []int64{3, 4}, bases, "log must be the contiguous suffix the limit retains")
	require.True(t, last == l.activeSegment(), "newest segment must be the active one")
	for _, s := range after {
		require.False(t, s.IsDeleted(), "segment %d retained but marked deleted", s.BaseOffset)
	}

	// The same must hold on disk.
	files, err := os.ReadDir(dir)
	require.NoError(t, err)
	var logs []string
	for _, f := range files {
		if strings.HasSuffix(f.Name(), logFileSuffix) {
			logs = append(logs, f.Name())
		}
	}
	sort.Strings(logs)
	require.Equal(t, []string{
		"00000000000000000003.log",
		"00000000000000000004.log",
	}, logs)

	// Read back from 0: the reader starts at the new oldest offset.
	require.Equal(t, int64(3), l.OldestOffset())
	r, err := l.NewReader(0, true)
	require.NoError(t, err)
	headers := make([]byte, 28)
	for _, want := range []int64{3, 4} {
		ctx, cancel := context.WithTimeout(context.Background(), 5*time.Second)
		_, offset, _, _, err := r.ReadMessage(ctx, headers)
		cancel()
		require.NoError(t, err)
		require.Equal(t, want, offset)
	}
}
