// package dir: server/commitlog
package commitlog

import (
	"os"
	"testing"

	"github.com/stretchr/testify/require"
)

// A leader dies after it has written a message set to the log file and before
// the message set was indexed. When the log is opened again the message is
// part of the log, so the next offset is the one behind it: a conditional
// publish that still expects the offset of that message must be refused and
// must leave the log alone, and one expecting the real next offset must land
// there.
func TestSeedR12C16x2ConditionalAppendAfterUnindexedTail(t *testing.T) {
	dir, err := os.MkdirTemp("", "seedr12c16x2")
	require.NoError(t, err)
	defer os.RemoveAll(dir)

	opts := Options{Path: dir, MaxSegmentBytes: 1 << 20, ConcurrencyControl: true}
	cl, err := New(opts)
	require.NoError(t, err)
	for i := 0; i < 3; i++ {
		offsets, err := cl.Append([]*Message{{MagicByte: 1, Value: []byte("committed"), Offset: int64(i)}})
		require.NoError(t, err)
		require.Equal(t, []int64{int64(i)}, offsets)
	}
	seg := cl.(*commitLog).activeSegment()
	logPath, pos := seg.logPath(), seg.Position()
	require.NoError(t, cl.Close())

	// The crash: offset 3 reached the log file but not the index.
	ms, _, err := newMessageSetFromProto(3, pos, []*Message{{MagicByte: 1, Value: []byte("unindexed"), Offset: -1}}, false)
	require.NoError(t, err)
	f, err := os.OpenFile(logPath, os.O_WRONLY|os.O_APPEND, 0666)
	require.NoError(t, err)
	_, err = f.Write(ms)
	require.NoError(t, err)
	require.NoError(t, f.Close())

	cl, err = New(opts)
	require.NoError(t, err)
	defer cl.Close()
	require.Equal(t, int64(3), cl.NewestOffset(), "the message written before the crash is in the log")

	// Stale expectation: offset 3 is taken.
	_, err = cl.Append([]*Message{{MagicByte: 1, Value: []byte("stale"), Offset: 3}})
	require.Equal(t, ErrIncorrectOffset, err, "a publish expecting a taken offset must be refused")
	require.Equal(t, int64(3), cl.NewestOffset(), "a refused publish leaves the log unchanged")

	// Correct expectation.
	offsets, err := cl.Append([]*Message{{MagicByte: 1, Value: []byte("next"), Offset: 4}})
	require.NoError(t, err)
	require.Equal(t, []int64{4}, offsets)

	// Every offset is stored exactly once.
	var (
		s    = cl.(*commitLog)
		seen = map[int64]int{}
	)
	for _, sg := range s.segments {
		sc := newSegmentScanner(sg)
		for m, _, err := sc.Scan(); err == nil; m, _, err = sc.Scan() {
			seen[m.Offset()]++
		}
	}
	for o := int64(0); o <= 4; o++ {
		require.Equal(t, 1, seen[o], "offset %d", o)
	}
}
