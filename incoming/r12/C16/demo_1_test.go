// package dir: server
package server

import (
	"os"
	"testing"

	client "github.com/liftbridge-io/liftbridge-api/v2/go"
	"github.com/nats-io/nats.go"
	"github.com/stretchr/testify/require"

	"github.com/liftbridge-io/liftbridge/server/commitlog"
	proto "github.com/liftbridge-io/liftbridge/server/protocol"
)

// A publish whose expected offset can never be assigned (-2) is conditional:
// only -1 waives the check. Taking the message the way the partition leader
// does (natsToProtoMessage, then Append on the concurrency control log), it
// must be refused with ErrIncorrectOffset and leave the log unchanged, while
// -1 is accepted and an exact expectation is met.
func TestSeedR12C16x1NegativeExpectedOffsetIsNotAWaiver(t *testing.T) {
	dir, err := os.MkdirTemp("", "seedr12c16x1")
	require.NoError(t, err)
	defer os.RemoveAll(dir)

	log, err := commitlog.New(commitlog.Options{Path: dir, ConcurrencyControl: true})
	require.NoError(t, err)
	defer log.Close()

	publish := func(expected int64) ([]int64, error) {
		data, err := proto.MarshalPublish(&client.Message{
			Value:     []byte("v"),
			Stream:    "foo",
			Subject:   "foo",
			AckInbox:  "acks",
			AckPolicy: client.AckPolicy_LEADER,
			Offset:    expected,
		})
		require.NoError(t, err)
		m := natsToProtoMessage(&nats.Msg{Subject: "foo", Data: data}, 1)
		require.NoError(t, m.Validate())
		return log.Append([]*commitlog.Message{m})
	}

	// The waiver and an exact expectation are accepted.
	offsets, err := publish(-1)
	require.NoError(t, err)
	require.Equal(t, []int64{0}, offsets)
	offsets, err = publish(1)
	require.NoError(t, err)
	require.Equal(t, []int64{1}, offsets)

	// No message is ever assigned offset -2 (or any other offset below -1).
	for _, expected := range []int64{-2, -100} {
		_, err = publish(expected)
		require.Equal(t, commitlog.ErrIncorrectOffset, err,
			"expected offset %d cannot be met, the publish must be refused", expected)
		require.Equal(t, int64(1), log.NewestOffset(), "a refused publish leaves the log unchanged")
	}

	// The waiver still works afterwards.
	offsets, err = publish(-1)
	require.NoError(t, err)
	require.Equal(t, []int64{2}, offsets)
}
