// package dir: server
package server

import (
	"bytes"
	"context"
	"encoding/binary"
	"io/ioutil"
	"sort"
	"testing"
	"time"

	lift "github.com/liftbridge-io/go-liftbridge/v2"
	proto "github.com/liftbridge-io/liftbridge/server/protocol"
	"github.com/stretchr/testify/require"
)

// A server which restores a metadata snapshot holding a stream and a consumer
// group subscribed to it must hand every partition of the stream to exactly
// one member, like the servers which applied the operations one by one.
func TestSeedR12C12x1RestoreSnapshotAssignsPartitions(t *testing.T) {
	defer cleanupStorage(t)

	cfg := getTestConfig("a", true, 5050)
	cfg.CursorsStream.Partitions = 1
	s1 := runServerWithConfig(t, cfg)
	defer s1.Stop()
	getMetadataLeader(t, 10*time.Second, s1)

	client, err := lift.Connect([]string{"localhost:5050"})
	require.NoError(t, err)
	defer client.Close()
	require.NoError(t, client.CreateStream(context.Background(), "foo", "foo", lift.Partitions(3)))

	// Take the server's own snapshot and add a group with two members.
	fs, err := s1.Snapshot()
	require.NoError(t, err)
	snap := fs.(*fsmSnapshot).MetadataSnapshot
	snap.Groups = append(snap.Groups, &proto.ConsumerGroup{
		Id:          "grp",
		Coordinator: "a",
		Epoch:       7,
		Members: []*proto.Consumer{
			{Id: "c1", Streams: []string{"foo"}},
			{Id: "c2", Streams: []string{"foo"}},
		},
	})
	data, err := snap.Marshal()
	require.NoError(t, err)
	buf := make([]byte, 4, 4+len(data))
	binary.BigEndian.PutUint32(buf, uint32(len(data)))
	buf = append(buf, data...)

	require.NoError(t, s1.Restore(ioutil.NopCloser(bytes.NewReader(buf))))

	group := s1.metadata.GetConsumerGroup("grp")
	require.NotNil(t, group)
	require.Equal(t, int32(3), s1.metadata.countStreamPartitions("foo"))

	group.mu.RLock()
	defer group.mu.RUnlock()
	owners := map[int32][]string{}
	for id, member := range group.members {
		for stream, partitions := range member.assignments {
			require.Equal(t, "foo", stream)
			for _, p := range partitions {
				owners[p] = append(owners[p], id)
			}
		}
	}
	for p := int32(0); p < 3; p++ {
		require.Len(t, owners[p], 1, "partition %d of foo must have exactly one owner, has %v", p, owners[p])
	}
	counts := []int{group.members["c1"].assignedCount, group.members["c2"].assignedCount}
	sort.Ints(counts)
	require.Equal(t, []int{1, 2}, counts)
}
