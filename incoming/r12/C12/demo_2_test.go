// package dir: server
package server

import (
	"testing"
	"time"

	proto "github.com/liftbridge-io/liftbridge/server/protocol"
	"github.com/stretchr/testify/require"
)

// checkR12C12x2Assignments verifies that every partition of every stream with
// at least one subscribed member is assigned to exactly one member subscribed
// to it and that no member holds partitions of a stream it did not subscribe
// to.
func checkR12C12x2Assignments(t *testing.T, g *consumerGroup, partitions map[string]int32) {
	g.mu.RLock()
	defer g.mu.RUnlock()
	subscribed := map[string]bool{}
	owners := map[string]map[int32][]string{}
	for id, member := range g.members {
		for stream := range member.streams {
			subscribed[stream] = true
		}
		for stream, parts := range member.assignments {
			_, ok := member.streams[stream]
			require.True(t, ok, "member %s holds partitions of %s without subscribing to it", id, stream)
			if owners[stream] == nil {
				owners[stream] = map[int32][]string{}
			}
			for _, p := range parts {
				owners[stream][p] = append(owners[stream][p], id)
			}
		}
	}
	for stream := range subscribed {
		for p := int32(0); p < partitions[stream]; p++ {
			require.Len(t, owners[stream][p], 1,
				"partition %d of stream %s must have exactly one owner among the members, has %v",
				p, stream, owners[stream][p])
		}
	}
}

// A member which named the same stream twice when joining must be gone from
// the group's bookkeeping after it left: the partitions of the stream go to
// the members which are still subscribed to it.
func TestSeedR12C12x2DuplicateStreamJoinThenLeave(t *testing.T) {
	partitions := map[string]int32{"foo": 4, "bar": 2}
	getPartitions := func(stream string) int32 { return partitions[stream] }
	handler := func(groupID, consumerID string) error { return nil }

	// Server "b" is the coordinator so that no liveness timers are started.
	protoGroup := &proto.ConsumerGroup{
		Id:          "grp",
		Coordinator: "b",
		Members:     []*proto.Consumer{{Id: "keeper", Streams: []string{"bar"}}},
	}
	g := newConsumerGroup("a", time.Minute, protoGroup, false, noopLogger(), handler, getPartitions)
	checkR12C12x2Assignments(t, g, partitions)

	// The consumer lists stream foo twice in its subscription.
	require.NoError(t, g.AddMember("dup", []string{"foo", "foo"}, 1))
	checkR12C12x2Assignments(t, g, partitions)
	require.Len(t, g.GetMembers()["dup"], 1)

	last, err := g.RemoveMember("dup", 2)
	require.NoError(t, err)
	require.False(t, last)
	checkR12C12x2Assignments(t, g, partitions)

	// A new consumer of foo has to get all four partitions, being the only
	// subscriber of the stream.
	require.NoError(t, g.AddMember("next", []string{"foo"}, 3))
	checkR12C12x2Assignments(t, g, partitions)

	g.mu.RLock()
	require.Len(t, g.members["next"].assignments["foo"], 4)
	require.Len(t, *g.subscribers["foo"], 1)
	g.mu.RUnlock()

	// And once it leaves as well, nobody is subscribed to foo any more.
	_, err = g.RemoveMember("next", 4)
	require.NoError(t, err)
	g.mu.RLock()
	_, ok := g.subscribers["foo"]
	g.mu.RUnlock()
	require.False(t, ok)
	checkR12C12x2Assignments(t, g, partitions)
}
