// package dir: server
package server

import (
	"context"
	"testing"
	"time"

	lift "github.com/liftbridge-io/go-liftbridge/v2"
	liftApi "github.com/liftbridge-io/liftbridge-api/v2/go"
	nats "github.com/nats-io/nats.go"
	"github.com/stretchr/testify/require"

	proto "github.com/liftbridge-io/liftbridge/server/protocol"
)

// The activity dispatcher records an event as published (PUBLISH_ACTIVITY)
// once publishInternal returns without an error, so that must mean the
// activity stream itself acknowledged the event. Here a second "stream" is
// attached to the activity subject (played by a plain NATS subscriber that acks
// every message in the name of a stream called "shadow", which is exactly what
// another stream's partition leader does), while the activity stream's own
// partition does not receive the message (its leader is cut off from NATS). The
// event has not reached the activity stream, so the last published index must
// not move past it; the dispatcher has to keep retrying.
func TestSeedR12C18x1ForeignAckDoesNotAdvanceLastPublished(t *testing.T) {
	defer cleanupStorage(t)

	s1Config := getTestConfig("a", true, 5050)
	s1Config.ActivityStream.Enabled = true
	s1Config.ActivityStream.PublishTimeout = time.Second
	s1Config.ActivityStream.PublishAckPolicy = liftApi.AckPolicy_LEADER
	s1 := runServerWithConfig(t, s1Config)
	defer s1.Stop()

	getMetadataLeader(t, 10*time.Second, s1)

	client, err := lift.Connect([]string{"localhost:5050"})
	require.NoError(t, err)
	defer client.Close()

	// Wait until the dispatcher has caught up with the Raft log (the creation
	// of the activity stream has been published and recorded).
	var last uint64
	deadline := time.Now().Add(10 * time.Second)
	for {
		last = s1.activity.LastPublishedRaftIndex()
		if last > 0 {
			time.Sleep(300 * time.Millisecond)
			if s1.activity.LastPublishedRaftIndex() == last {
				break
			}
		}
		if time.Now().After(deadline) {
			t.Fatal("activity stream creation was not published")
		}
		time.Sleep(20 * time.Millisecond)
	}

	// A foreign stream on the activity subject: acks everything right away.
	nc, err := nats.Connect(nats.DefaultURL)
	require.NoError(t, err)
	defer nc.Close()
	_, err = nc.Subscribe(s1.getActivityStreamSubject(), func(m *nats.Msg) {
		msg, err := proto.UnmarshalPublish(m.Data)
		if err != nil || msg.AckInbox == "" {
			return
		}
		data, err := proto.MarshalAck(&liftApi.Ack{
			Stream:           "shadow",
			PartitionSubject: s1.getActivityStreamSubject(),
			AckInbox:         msg.AckInbox,
			CorrelationId:    msg.CorrelationId,
			AckPolicy:        msg.AckPolicy,
		})
		if err != nil {
			return
		}
		nc.Publish(msg.AckInbox, data)
	})
	require.NoError(t, err)
	require.NoError(t, nc.Flush())

	// Cut the activity stream's partition leader off from its NATS subject, so
	// the next event does not reach the activity stream.
	p := s1.metadata.GetPartition(activityStream, 0)
	require.NotNil(t, p)
	p.mu.Lock()
	require.NotNil(t, p.sub)
	require.NoError(t, p.sub.Unsubscribe())
	p.mu.Unlock()
	require.NoError(t, s1.ncPublishes.Flush())
	newestBefore := p.log.NewestOffset()

	// A metadata operation that must show up in the activity stream.
	require.NoError(t, client.CreateStream(context.Background(), "foo", "foo"))

	// Give the dispatcher ample time (publish timeout 1s, first back-off 1s).
	time.Sleep(3 * time.Second)

	require.Equal(t, newestBefore, p.log.NewestOffset(),
		"test setup: the event was not supposed to reach the activity stream")
	require.Equal(t, last, s1.activity.LastPublishedRaftIndex(),
		"last published index moved past an event that is not in the activity stream")
}
