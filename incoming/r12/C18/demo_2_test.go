// package dir: server
package server

import (
	"testing"
	"time"

	liftApi "github.com/liftbridge-io/liftbridge-api/v2/go"
)

// A leader promotion that fails after the activity manager has been started
// (e.g. cursors.Initialize() returns an error) leaves the node's leader flag
// unset. When Raft subsequently reports the loss of leadership for that term,
// the activity dispatcher of the term must still be stopped. Otherwise it keeps
// running on a non-leader and, once the node is elected again, a second
// dispatcher is started next to it and the two publish the same range of the
// Raft log concurrently, so events no longer appear in commit order.
func TestSeedR12C18x2DispatcherStoppedAfterFailedPromotion(t *testing.T) {
	defer cleanupStorage(t)

	s1Config := getTestConfig("a", true, 5050)
	s1Config.ActivityStream.Enabled = true
	s1Config.ActivityStream.PublishTimeout = time.Second
	s1Config.ActivityStream.PublishAckPolicy = liftApi.AckPolicy_LEADER
	s1 := runServerWithConfig(t, s1Config)
	defer s1.Stop()

	getMetadataLeader(t, 10*time.Second, s1)

	node := s1.getRaft()

	// Wait until promotion has completed so the leadership loop is idle.
	deadline := time.Now().Add(10 * time.Second)
	for !node.isLeader() {
		if time.Now().After(deadline) {
			t.Fatal("promotion did not complete")
		}
		time.Sleep(10 * time.Millisecond)
	}

	// The channel the dispatcher of this term watches.
	ch := s1.activity.leadershipLostCh
	if ch == nil {
		t.Fatal("dispatcher was not started")
	}

	// Reproduce the state left behind by leadershipAcquired failing after
	// activity.BecomeLeader(): the dispatcher runs, the leader flag was never
	// set.
	node.setLeader(false)

	// Raft reports the loss of leadership.
	if err := s1.leadershipLost(node); err != nil {
		t.Fatalf("leadershipLost: %v", err)
	}

	select {
	case <-ch:
	default:
		t.Fatal("activity dispatcher of the failed term is still running after leadership was lost")
	}
	if s1.activity.leadershipLostCh != nil {
		t.Fatal("activity manager still holds the channel of the lost term")
	}
}
