// package dir: server
package server

import (
	"testing"
	"time"

	"github.com/Workiva/go-datastructures/queue"
	"github.com/nats-io/nats.go"
	"github.com/stretchr/testify/require"

	client "github.com/liftbridge-io/liftbridge-api/v2/go"
	"github.com/liftbridge-io/liftbridge/server/commitlog"
	proto "github.com/liftbridge-io/liftbridge/server/protocol"
)

// The ISR of a partition shrank to the leader alone (below the minimum ISR
// size of 2) and the leader was restarted afterwards: the partition is
// rebuilt from the stored metadata, whose ISR is already below the minimum.
// A message published with AckPolicy ALL must not be acked while the ISR is
// smaller than the configured minimum.
func TestSeedR12C04x2NoAckBelowMinISRAfterRestart(t *testing.T) {
	defer cleanupStorage(t)

	server := createServer()
	server.config.Clustering.MinISR = 2
	require.NoError(t, server.Start())
	defer server.Stop()

	nc, err := nats.GetDefaultOptions().Connect()
	require.NoError(t, err)
	defer nc.Close()

	// The partition as it is recreated on start-up from the Raft log or a
	// snapshot: replica b was removed from the ISR before the restart.
	p, err := server.newPartition(&proto.Partition{
		Subject:           "foo",
		Stream:            "foo",
		ReplicationFactor: 2,
		Replicas:          []string{"a", "b"},
		Leader:            "a",
		LeaderEpoch:       1,
		Isr:               []string{"a"},
	}, true, nil)
	require.NoError(t, err)
	defer p.Close()
	require.Equal(t, 2, p.minISR)
	require.Equal(t, 1, p.ISRSize())
	p.commitQueue = queue.New(5)

	ackInbox := "seedr12c04x2.ack"
	sub, err := nc.SubscribeSync(ackInbox)
	require.NoError(t, err)
	require.NoError(t, nc.Flush())

	stop := make(chan struct{})
	defer close(stop)
	go p.commitLoop(stop)

	// The leader stores a message published with AckPolicy ALL, the way
	// messageProcessingLoop does.
	msg := &commitlog.Message{
		MagicByte:     1,
		Timestamp:     time.Now().UnixNano(),
		LeaderEpoch:   1,
		Value:         []byte("hello"),
		Headers:       map[string][]byte{"subject": []byte("foo")},
		AckInbox:      ackInbox,
		CorrelationID: "cid-1",
		AckPolicy:     client.AckPolicy_ALL,
		Offset:        -1,
	}
	offsets, err := p.log.Append([]*commitlog.Message{msg})
	require.NoError(t, err)
	p.processPendingMessage(offsets[0], msg)
	p.updateISRLatestOffset("a", offsets[0])
	select {
	case p.commitCheck <- struct{}{}:
	default:
	}

	if m, err := sub.NextMsg(1500 * time.Millisecond); err == nil {
		ack, uerr := proto.UnmarshalAck(m.Data)
		require.NoError(t, uerr)
		t.Fatalf("AckPolicy ALL message acked (offset %d, correlation id %q) "+
			"with an ISR of %d and a minimum ISR size of %d",
			ack.Offset, ack.CorrelationId, p.ISRSize(), p.minISR)
	}
	require.Equal(t, int64(-1), p.log.HighWatermark())
	require.Equal(t, int64(1), p.commitQueue.Len())
}
