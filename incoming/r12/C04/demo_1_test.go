// package dir: server
package server

import (
	"testing"
	"time"

	"github.com/Workiva/go-datastructures/queue"
	"github.com/nats-io/nats.go"
	"github.com/stretchr/testify/require"

	client "github.com/liftbridge-io/liftbridge-api/v2/go"
	"github.com/liftbridge-io/liftbridge/server/commitlog"
	proto "github.com/liftbridge-io/liftbridge/server/protocol"
)

// A leader that lost the unflushed tail of its log in a crash continues its
// leader epoch while the in-sync follower still holds the lost messages and
// keeps reporting an offset past the leader's log end. A message the leader
// writes afterwards with AckPolicy ALL must not be acked before the follower
// has actually fetched it: the follower's report says nothing about what the
// leader has written since.
func TestSeedR12C04x1AheadReplicaDoesNotAckAll(t *testing.T) {
	defer cleanupStorage(t)

	server := createServer()
	require.NoError(t, server.Start())
	defer server.Stop()

	nc, err := nats.GetDefaultOptions().Connect()
	require.NoError(t, err)
	defer nc.Close()

	p, err := server.newPartition(&proto.Partition{
		Subject:  "foo",
		Stream:   "foo",
		Replicas: []string{"a", "b"},
		Leader:   "a",
		Isr:      []string{"a", "b"},
	}, false, nil)
	require.NoError(t, err)
	defer p.Close()
	p.commitQueue = queue.New(5)

	ackInbox := "seedr12c04x1.ack"
	sub, err := nc.SubscribeSync(ackInbox)
	require.NoError(t, err)
	require.NoError(t, nc.Flush())

	stop := make(chan struct{})
	defer close(stop)
	go p.commitLoop(stop)

	// The follower's replicator as the leader starts it.
	r := newReplicator(1, "b", p)
	go r.start(stop)

	// The follower reports offset 5 (what it held before the leader's
	// crash). It does so repeatedly; the channel holds one request, so once
	// the third send went through, the first two have been fully handled.
	ahead := func() replicationRequest {
		return replicationRequest{
			ReplicationRequest: &proto.ReplicationRequest{ReplicaID: "b", Offset: 5},
			request:            &nats.Msg{},
			received:           time.Now(),
		}
	}

	// The leader's log is empty (it lost everything unflushed), the follower
	// reports before anything new has been written.
	r.requests <- ahead()
	r.requests <- ahead()
	r.requests <- ahead()

	// The leader now stores a new message published with AckPolicy ALL,
	// exactly what messageProcessingLoop does for it.
	msg := &commitlog.Message{
		MagicByte:     1,
		Timestamp:     time.Now().UnixNano(),
		LeaderEpoch:   1,
		Value:         []byte("new"),
		Headers:       map[string][]byte{"subject": []byte("foo")},
		AckInbox:      ackInbox,
		CorrelationID: "cid-new",
		AckPolicy:     client.AckPolicy_ALL,
		Offset:        -1,
	}
	offsets, err := p.log.Append([]*commitlog.Message{msg})
	require.NoError(t, err)
	require.Equal(t, []int64{0}, offsets)
	p.processPendingMessage(offsets[0], msg)
	p.updateISRLatestOffset("a", offsets[0])

	// The follower, which was not sent anything, asks again with the offset
	// of its old log.
	r.requests <- ahead()
	r.requests <- ahead()
	r.requests <- ahead()

	// Make sure the commit loop has looked at the state at least once more.
	select {
	case p.commitCheck <- struct{}{}:
	default:
	}

	// The follower never received offset 0 of the leader's new log, so the
	// message must be neither acked nor committed.
	if m, err := sub.NextMsg(1500 * time.Millisecond); err == nil {
		ack, uerr := proto.UnmarshalAck(m.Data)
		require.NoError(t, uerr)
		t.Fatalf("AckPolicy ALL message acked (offset %d, correlation id %q) "+
			"although in-sync replica b never fetched it", ack.Offset, ack.CorrelationId)
	}
	require.Equal(t, int64(-1), p.log.HighWatermark())
	require.Equal(t, int64(1), p.commitQueue.Len())
}
