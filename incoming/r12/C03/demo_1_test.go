// package dir: server/commitlog
package commitlog

import (
	"context"
	"sync/atomic"
	"testing"
	"time"

	"github.com/stretchr/testify/require"
)

// TestSeedR12C03x1ReadonlySignalOutlivedByCommit forces the following
// interleaving: a committed reader is parked at the HW, the log is set
// readonly (the readonly signal is sent to the reader), and before the reader
// gets to act on the signal the log is set writable again, a message is
// appended and committed and the log is set readonly once more. The reader
// must deliver the committed message before it reports the end of the readonly
// log.
func TestSeedR12C03x1ReadonlySignalOutlivedByCommit(t *testing.T) {
	l, cleanup := setupWithOptions(t, Options{Path: tempDir(t), MaxSegmentBytes: 1 << 20})
	defer cleanup()

	_, err := l.Append([]*Message{{Value: []byte("m0"), Timestamp: 1}})
	require.NoError(t, err)
	l.SetHighWatermark(0)

	r, err := l.NewReader(0, false)
	require.NoError(t, err)
	ctx, cancel := context.WithTimeout(context.Background(), 20*time.Second)
	defer cancel()
	headers := make([]byte, 28)
	_, offset, _, _, err := r.ReadMessage(ctx, headers)
	require.NoError(t, err)
	require.Equal(t, int64(0), offset)

	type result struct {
		offset int64
		value  []byte
		err    error
	}
	resC := make(chan result, 1)
	go func() {
		m, off, _, _, err := r.ReadMessage(ctx, make([]byte, 28))
		res := result{offset: off, err: err}
		if err == nil {
			res.value = append([]byte(nil), m.Value()...)
		}
		resC <- res
	}()

	// Wait until the reader is parked on the HW.
	deadline := time.Now().Add(10 * time.Second)
	for {
		l.mu.RLock()
		n := len(l.hwWaiters)
		l.mu.RUnlock()
		if n == 1 {
			break
		}
		require.True(t, time.Now().Before(deadline), "reader did not park on the HW")
		time.Sleep(time.Millisecond)
	}

	// Hold the log lock so the reader cannot act on the readonly signal until
	// the whole sequence below has happened (it needs the read lock to look at
	// the log again).
	l.mu.Lock()
	// SetReadonly(true).
	atomic.StoreInt32(&l.readonly, 1)
	l.notifyReadonly()
	require.Len(t, l.hwWaiters, 0, "reader was not signalled")
	// SetReadonly(false).
	atomic.StoreInt32(&l.readonly, 0)
	// Append m1 (what Append does under the read lock).
	seg := l.activeSegment()
	ms, entries, err := newMessageSetFromProto(seg.NextOffset(), seg.Position(),
		[]*Message{{Value: []byte("m1"), Timestamp: 2}}, false)
	require.NoError(t, err)
	offsets, err := l.append(seg, ms, entries)
	require.NoError(t, err)
	require.Equal(t, []int64{1}, offsets)
	// SetHighWatermark(1).
	l.hw = 1
	l.notifyHWChange()
	// SetReadonly(true).
	atomic.StoreInt32(&l.readonly, 1)
	l.notifyReadonly()
	l.mu.Unlock()

	select {
	case res := <-resC:
		require.NoError(t, res.err,
			"reader ended although offset 1 is committed (HW=%d) and was never delivered", l.HighWatermark())
		require.Equal(t, int64(1), res.offset)
		require.Equal(t, []byte("m1"), res.value)
	case <-time.After(15 * time.Second):
		t.Fatal("reader did not return")
	}

	// Now the reader really is at the end of the readonly log.
	_, _, _, _, err = r.ReadMessage(ctx, headers)
	require.Equal(t, ErrCommitLogReadonly, err)
}
