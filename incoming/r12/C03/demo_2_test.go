// package dir: server/commitlog
package commitlog

import (
	"context"
	"strings"
	"sync"
	"testing"
	"time"

	"github.com/stretchr/testify/require"

	"github.com/liftbridge-io/liftbridge/server/logger"
)

// seedR12C03x2Logger runs a hook when the retention cleaner announces that it
// starts a pass, i.e. after Clean has taken its snapshot of the segments and
// before it installs the cleaned ones. This pins "appends which roll segments
// while a cleaning pass is running" without relying on timing.
type seedR12C03x2Logger struct {
	logger.Logger
	once sync.Once
	mu   sync.Mutex
	hook func()
}

func (s *seedR12C03x2Logger) Debugf(format string, v ...interface{}) {
	if !strings.HasPrefix(format, "Cleaning log") {
		return
	}
	s.mu.Lock()
	hook := s.hook
	s.mu.Unlock()
	if hook != nil {
		s.once.Do(hook)
	}
}

// TestSeedR12C03x2SegmentsRolledDuringClean appends messages, each of which
// rolls a new segment, while a retention pass (which has nothing to delete) is
// in progress and then checks that a committed reader is handed every
// committed message once and in order.
func TestSeedR12C03x2SegmentsRolledDuringClean(t *testing.T) {
	base := logger.NewLogger(0)
	base.Silent(true)
	lg := &seedR12C03x2Logger{Logger: base}

	l, cleanup := setupWithOptions(t, Options{
		Path:            tempDir(t),
		MaxSegmentBytes: 10, // Every message fills a segment.
		MaxLogMessages:  1000,
		Logger:          lg,
	})
	defer cleanup()

	appendOne := func(i int) {
		offsets, err := l.Append([]*Message{{Value: []byte{'m', byte('0' + i)}, Timestamp: int64(i + 1)}})
		require.NoError(t, err)
		require.Equal(t, []int64{int64(i)}, offsets)
	}
	appendOne(0)
	appendOne(1)
	require.Len(t, l.Segments(), 2)

	lg.mu.Lock()
	lg.hook = func() {
		// Three appends while the cleaner is running, each rolls a segment.
		appendOne(2)
		appendOne(3)
		appendOne(4)
	}
	lg.mu.Unlock()

	require.NoError(t, l.Clean())
	require.Equal(t, int64(4), l.NewestOffset())
	l.SetHighWatermark(4)

	ctx, cancel := context.WithTimeout(context.Background(), 20*time.Second)
	defer cancel()
	r, err := l.NewReader(0, false)
	require.NoError(t, err)
	headers := make([]byte, 28)
	for i := 0; i < 5; i++ {
		m, offset, _, _, err := r.ReadMessage(ctx, headers)
		require.NoError(t, err, "reading committed offset %d (HW=%d)", i, l.HighWatermark())
		require.Equal(t, int64(i), offset,
			"committed reader was handed offset %d where offset %d is due (HW=%d)", offset, i, l.HighWatermark())
		require.Equal(t, []byte{'m', byte('0' + i)}, m.Value())
	}

	// A reader started inside the range which was rolled during the pass.
	r, err = l.NewReader(3, false)
	require.NoError(t, err)
	_, offset, _, _, err := r.ReadMessage(ctx, headers)
	require.NoError(t, err)
	require.Equal(t, int64(3), offset)
}
