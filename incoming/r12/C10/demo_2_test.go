// package dir: server/commitlog
package commitlog

import (
	"context"
	"testing"
	"time"

	"github.com/stretchr/testify/require"
)

// A new-only subscription starts at NewestOffset()+1. If the HW is below the
// end of the log at that moment, the messages between the HW and the end of
// the log were published before the subscription and must not be delivered
// once they are committed.
func TestSeedR12C10x2NewOnlyWithHWBelowLogEnd(t *testing.T) {
	l, cleanup := setupWithOptions(t, Options{Path: tempDir(t)})
	defer cleanup()

	for i := 0; i < 5; i++ {
		_, err := l.Append([]*Message{{Value: []byte("old"), Timestamp: int64(i + 1)}})
		require.NoError(t, err)
	}
	// Offsets 0..4 are in the log, only 0..2 are committed.
	l.SetHighWatermark(2)

	start := l.NewestOffset() + 1 // What StartPosition_NEW_ONLY resolves to.
	require.Equal(t, int64(5), start)
	r, err := l.NewReader(start, false)
	require.NoError(t, err)

	// The pending messages get committed and a new one is published.
	_, err = l.Append([]*Message{{Value: []byte("new"), Timestamp: 10}})
	require.NoError(t, err)
	l.SetHighWatermark(5)

	ctx, cancel := context.WithTimeout(context.Background(), 10*time.Second)
	defer cancel()
	msg, offset, _, _, err := r.ReadMessage(ctx, make([]byte, 28))
	require.NoError(t, err)
	require.Equal(t, int64(5), offset, "new-only reader delivered a message published before it started")
	require.Equal(t, []byte("new"), msg.Value())
}
