// package dir: server/commitlog
package commitlog

import (
	"context"
	"testing"
	"time"

	"github.com/stretchr/testify/require"
)

// A forward committed reader (what a subscription uses) started at an offset
// that compaction removed from the tail of a sealed segment has to start at the
// first retained message past it and deliver the rest of the log once.
func TestSeedR12C10x1StartInCompactedTailGap(t *testing.T) {
	opts := Options{
		Path:            tempDir(t),
		MaxSegmentBytes: 100,
		Compact:         true,
	}
	l, cleanup := setupWithOptions(t, opts)
	defer cleanup()

	keys := []string{"a", "x", "x", "b", "x", "x", "c", "x", "x", "d", "x"}
	for i, k := range keys {
		_, err := l.Append([]*Message{{Key: []byte(k), Value: []byte("v"), Timestamp: int64(i + 1)}})
		require.NoError(t, err)
	}
	l.SetHighWatermark(l.NewestOffset())
	require.NoError(t, l.Clean())

	// Find a sealed segment whose tail was compacted away.
	segments := l.Segments()
	gap, next := int64(-1), int64(-1)
	for i := 0; i+1 < len(segments); i++ {
		if segments[i].NextOffset() < segments[i+1].BaseOffset {
			gap = segments[i].NextOffset()
			next = segments[i+1].FirstOffset()
			break
		}
	}
	require.NotEqual(t, int64(-1), gap, "log shape has no tail gap")

	// Expected: every retained message at or after the gap offset.
	var expected []int64
	ur, err := l.NewReader(0, true)
	require.NoError(t, err)
	headers := make([]byte, 28)
	ctx, cancel := context.WithTimeout(context.Background(), 10*time.Second)
	defer cancel()
	for {
		_, off, _, _, err := ur.ReadMessage(ctx, headers)
		require.NoError(t, err)
		if off >= gap {
			expected = append(expected, off)
		}
		if off == l.NewestOffset() {
			break
		}
	}
	require.Equal(t, next, expected[0])

	r, err := l.NewReader(gap, false)
	require.NoError(t, err, "subscription at offset %d (compacted away) must start at %d", gap, next)
	var got []int64
	for range expected {
		_, off, _, _, err := r.ReadMessage(ctx, headers)
		require.NoError(t, err)
		got = append(got, off)
	}
	require.Equal(t, expected, got)

	// A reverse reader started in the gap delivers the newest message below it.
	rr, err := l.NewReverseReader(gap, false)
	require.NoError(t, err)
	_, off, _, _, err := rr.ReadMessage(ctx, headers)
	require.NoError(t, err)
	require.Equal(t, gap-1, off)
}
