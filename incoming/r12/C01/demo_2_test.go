// package dir: server/commitlog
package commitlog

import (
	"context"
	"fmt"
	"testing"
	"time"
)

// r12c01x2ReadAll reads everything from offset 0 up to the newest offset with
// an uncommitted reader.
func r12c01x2ReadAll(l *commitLog) (vals []string, offs []int64, err error) {
	defer func() {
		if r := recover(); r != nil {
			err = fmt.Errorf("reader panicked: %v", r)
		}
	}()
	newest := l.NewestOffset()
	if newest < 0 {
		return nil, nil, nil
	}
	r, err := l.NewReader(0, true)
	if err != nil {
		return nil, nil, err
	}
	ctx, cancel := context.WithTimeout(context.Background(), 10*time.Second)
	defer cancel()
	headers := make([]byte, 28)
	for {
		m, off, _, _, err := r.ReadMessage(ctx, headers)
		if err != nil {
			return vals, offs, fmt.Errorf("read failed: %v", err)
		}
		vals = append(vals, string(m.Value()))
		offs = append(offs, off)
		if off >= newest {
			return vals, offs, nil
		}
	}
}

// A tail truncation which spans several segments fails part of the way because
// one of the segments behind the truncation offset cannot be deleted (here: its
// file handle has gone bad, so closing it fails). The server is restarted.
// Whatever the failed truncation managed to remove, the log on disk must still
// be a gap-free record of what was appended: a prefix of the original log. The
// truncation can then be retried.
func TestSeedR12C01x2FailedTruncateLeavesNoHole(t *testing.T) {
	dir := t.TempDir()
	// Every message set below takes 46 bytes (28 header + 18 message), so a
	// segment is rolled once it holds two messages.
	opts := Options{Path: dir, MaxSegmentBytes: 90}

	cl, err := New(opts)
	if err != nil {
		t.Fatal(err)
	}
	l := cl.(*commitLog)
	want := []string{}
	for i := 0; i < 10; i++ {
		v := fmt.Sprintf("v%d", i)
		offs, err := l.Append([]*Message{{Value: []byte(v), Timestamp: int64(100 + i), LeaderEpoch: 1}})
		if err != nil || len(offs) != 1 || offs[0] != int64(i) {
			t.Fatalf("append %d: offsets %v, err %v", i, offs, err)
		}
		want = append(want, v)
	}
	segs := l.Segments()
	if len(segs) != 5 {
		t.Fatalf("expected 5 segments of two messages, got %d", len(segs))
	}
	for i, s := range segs {
		if s.BaseOffset != int64(2*i) {
			t.Fatalf("segment %d has base offset %d", i, s.BaseOffset)
		}
	}

	// The fault: the segment holding offsets 4 and 5 cannot be closed and thus
	// not be deleted.
	if err := segs[2].log.Close(); err != nil {
		t.Fatal(err)
	}

	// Truncate in the middle of the segment holding offsets 2 and 3. Offsets
	// 3..9 are to go, which are the tail of that segment and the three
	// segments behind it.
	if err := l.Truncate(3); err == nil {
		t.Fatal("expected the truncation to fail")
	}

	// Restart.
	l.Close() // nolint: errcheck
	cl, err = New(opts)
	if err != nil {
		t.Fatal(err)
	}
	l = cl.(*commitLog)

	vals, offs, err := r12c01x2ReadAll(l)
	if err != nil {
		t.Fatalf("reading the log after the restart: %v (got offsets %v)", err, offs)
	}
	if len(offs) < 3 {
		t.Fatalf("messages in front of the truncation offset were lost: got offsets %v", offs)
	}
	for i := range offs {
		if offs[i] != int64(i) {
			t.Fatalf("the log has a hole after the restart: got offsets %v", offs)
		}
		if vals[i] != want[i] {
			t.Fatalf("offset %d reads %q after the restart, want %q", i, vals[i], want[i])
		}
	}

	// Retry the truncation and carry on appending.
	if err := l.Truncate(3); err != nil {
		t.Fatalf("retried truncation failed: %v", err)
	}
	want = want[:3]
	for i := 3; i < 8; i++ {
		v := fmt.Sprintf("w%d", i)
		o, err := l.Append([]*Message{{Value: []byte(v), Timestamp: int64(200 + i), LeaderEpoch: 2}})
		if err != nil || len(o) != 1 || o[0] != int64(i) {
			t.Fatalf("append %d after the retried truncation: offsets %v, err %v", i, o, err)
		}
		want = append(want, v)
	}
	vals, offs, err = r12c01x2ReadAll(l)
	if err != nil {
		t.Fatalf("reading the log after the retried truncation: %v (got offsets %v)", err, offs)
	}
	if len(offs) != len(want) {
		t.Fatalf("got offsets %v, want 0..%d", offs, len(want)-1)
	}
	for i := range offs {
		if offs[i] != int64(i) || vals[i] != want[i] {
			t.Fatalf("message %d is offset %d value %q, want offset %d value %q", i, offs[i], vals[i], i, want[i])
		}
	}
	if err := l.Close(); err != nil {
		t.Fatal(err)
	}
}
