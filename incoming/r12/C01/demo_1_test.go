// package dir: server/commitlog
package commitlog

import (
	"context"
	"fmt"
	"os"
	"path/filepath"
	"testing"
	"time"
)

// r12c01x1Read reads the offsets [from, to] with an uncommitted reader and
// returns what it got. A panic raised by the CRC check of the reader is turned
// into an error.
func r12c01x1Read(l *commitLog, from, to int64) (vals []string, offs []int64, err error) {
	defer func() {
		if r := recover(); r != nil {
			err = fmt.Errorf("reader panicked: %v", r)
		}
	}()
	r, err := l.NewReader(from, true)
	if err != nil {
		return nil, nil, err
	}
	ctx, cancel := context.WithTimeout(context.Background(), 10*time.Second)
	defer cancel()
	headers := make([]byte, 28)
	for i := from; i <= to; i++ {
		m, off, _, _, err := r.ReadMessage(ctx, headers)
		if err != nil {
			return vals, offs, fmt.Errorf("read of offset %d failed: %v", i, err)
		}
		vals = append(vals, string(m.Value()))
		offs = append(offs, off)
	}
	return vals, offs, nil
}

func r12c01x1Check(t *testing.T, l *commitLog, want []string) {
	t.Helper()
	if got := l.NewestOffset(); got != int64(len(want)-1) {
		t.Fatalf("newest offset: got %d, want %d", got, len(want)-1)
	}
	for from := int64(0); from < int64(len(want)); from++ {
		vals, offs, err := r12c01x1Read(l, from, int64(len(want)-1))
		if err != nil {
			t.Fatalf("reading from offset %d: %v (got so far: offsets %v values %q)", from, err, offs, vals)
		}
		for i := range vals {
			o := from + int64(i)
			if offs[i] != o || vals[i] != want[o] {
				t.Fatalf("reading from offset %d: message %d is offset %d value %q, want offset %d value %q",
					from, i, offs[i], vals[i], o, want[o])
			}
		}
	}
}

// The process dies in the middle of writing a message set to the log file: the
// log file ends with a partial message set which is not indexed. After the
// restart the log must carry on as a gap-free record: the messages appended
// after the restart get the next offsets and every reader gets back exactly
// what was appended.
func TestSeedR12C01x1AppendAfterPartialWriteRecovery(t *testing.T) {
	dir := t.TempDir()
	opts := Options{Path: dir, MaxSegmentBytes: 1024 * 1024}

	cl, err := New(opts)
	if err != nil {
		t.Fatal(err)
	}
	l := cl.(*commitLog)
	want := []string{}
	for i := 0; i < 3; i++ {
		v := fmt.Sprintf("value-%d", i)
		offs, err := l.Append([]*Message{{Key: []byte("k"), Value: []byte(v), Timestamp: int64(100 + i), LeaderEpoch: 1}})
		if err != nil || len(offs) != 1 || offs[0] != int64(i) {
			t.Fatalf("append %d: offsets %v, err %v", i, offs, err)
		}
		want = append(want, v)
	}
	end := l.activeSegment().Position()
	if err := l.Close(); err != nil {
		t.Fatal(err)
	}

	// The crash: all but the last bytes of the next message set made it to the
	// log file, nothing of it made it to the index.
	ms, _, err := newMessageSetFromProto(3, end, []*Message{{
		Key: []byte("k"), Value: []byte("value-lost-in-the-crash"), Timestamp: 103, LeaderEpoch: 1}}, false)
	if err != nil {
		t.Fatal(err)
	}
	f, err := os.OpenFile(filepath.Join(dir, fmt.Sprintf(fileFormat, 0, logSuffix)), os.O_WRONLY|os.O_APPEND, 0644)
	if err != nil {
		t.Fatal(err)
	}
	if _, err := f.Write(ms[:len(ms)-5]); err != nil {
		t.Fatal(err)
	}
	if err := f.Close(); err != nil {
		t.Fatal(err)
	}

	// Restart.
	cl, err = New(opts)
	if err != nil {
		t.Fatal(err)
	}
	l = cl.(*commitLog)
	r12c01x1Check(t, l, want)

	// Carry on appending.
	for i := 3; i < 6; i++ {
		v := fmt.Sprintf("value-%d", i)
		offs, err := l.Append([]*Message{{Key: []byte("k"), Value: []byte(v), Timestamp: int64(100 + i), LeaderEpoch: 1}})
		if err != nil || len(offs) != 1 || offs[0] != int64(i) {
			t.Fatalf("append %d after restart: offsets %v, err %v", i, offs, err)
		}
		want = append(want, v)
	}
	r12c01x1Check(t, l, want)

	// And a clean restart on top of it.
	if err := l.Close(); err != nil {
		t.Fatal(err)
	}
	cl, err = New(opts)
	if err != nil {
		t.Fatal(err)
	}
	l = cl.(*commitLog)
	defer l.Close()
	r12c01x1Check(t, l, want)
}
