// package dir: server
package server

import (
	"context"
	"os"
	"path/filepath"
	"testing"
	"time"

	lift "github.com/liftbridge-io/go-liftbridge/v2"
	"github.com/stretchr/testify/require"
)

// A cursor that was stored (and acked) must be fetched after the server is
// restarted following an unclean shutdown, i.e. one where the periodically
// written high watermark checkpoint of the cursors partition lags behind the
// messages that were committed.
func TestSeedR12C11x2CursorFetchedAfterUncleanRestart(t *testing.T) {
	defer cleanupStorage(t)

	s1Config := getTestConfig("a", true, 5050)
	s1Config.CursorsStream.Partitions = 1
	s1 := runServerWithConfig(t, s1Config)
	defer s1.Stop()

	getMetadataLeader(t, 10*time.Second, s1)

	client, err := lift.Connect([]string{"localhost:5050"})
	require.NoError(t, err)

	require.NoError(t, client.CreateStream(context.Background(), "foo", "foo"))

	ctx, cancel := context.WithTimeout(context.Background(), 5*time.Second)
	require.NoError(t, client.SetCursor(ctx, "abc", "foo", 0, 7))
	cancel()
	ctx, cancel = context.WithTimeout(context.Background(), 5*time.Second)
	require.NoError(t, client.SetCursor(ctx, "abc", "foo", 0, 42))
	cancel()
	client.Close()

	// Stop the server and make the data dir look like the process was killed
	// before the high watermark checkpoint was written: the log holds the
	// cursors but the checkpoint still says nothing was committed.
	s1.Stop()
	hwFile := filepath.Join(s1Config.DataDir, "streams", cursorsStream, "0",
		"replication-offset-checkpoint")
	_, err = os.Stat(hwFile)
	require.NoError(t, err)
	require.NoError(t, os.WriteFile(hwFile, []byte("-1"), 0666))

	// Restart.
	s1 = runServerWithConfig(t, s1Config)
	defer s1.Stop()
	getMetadataLeader(t, 10*time.Second, s1)

	// Wait for the server to lead the cursors partition again.
	var p *partition
	deadline := time.Now().Add(10 * time.Second)
	for time.Now().Before(deadline) {
		p = s1.metadata.GetPartition(cursorsStream, 0)
		if p != nil && p.IsLeader() {
			break
		}
		time.Sleep(10 * time.Millisecond)
	}
	require.NotNil(t, p)
	require.True(t, p.IsLeader())

	// Give the leader a moment to re-establish the high watermark (it is the
	// only ISR member, so this does not depend on anybody else).
	deadline = time.Now().Add(5 * time.Second)
	for time.Now().Before(deadline) {
		if p.log.HighWatermark() == p.log.NewestOffset() {
			break
		}
		time.Sleep(10 * time.Millisecond)
	}

	client, err = lift.Connect([]string{"localhost:5050"})
	require.NoError(t, err)
	defer client.Close()

	ctx, cancel = context.WithTimeout(context.Background(), 5*time.Second)
	defer cancel()
	offset, err := client.FetchCursor(ctx, "abc", "foo", 0)
	require.NoError(t, err)
	require.Equal(t, int64(42), offset)
}
