// package dir: server
package server

import (
	"context"
	"fmt"
	"testing"
	"time"

	lift "github.com/liftbridge-io/go-liftbridge/v2"
	"github.com/stretchr/testify/require"
)

// A cursor that was stored must still be fetched after the cursors partition
// rolled segments and was cleaned, even if the operator configured a retention
// limit for regular streams: the cursors stream is compacted by key and must
// not be subject to the streams retention limits.
func TestSeedR12C11x1CursorSurvivesCleanWithStreamRetentionLimit(t *testing.T) {
	defer cleanupStorage(t)

	s1Config := getTestConfig("a", true, 5050)
	s1Config.CursorsStream.Partitions = 1
	// Limits meant for regular streams.
	s1Config.Streams.SegmentMaxBytes = 1
	s1Config.Streams.RetentionMaxMessages = 2
	s1Config.BatchMaxMessages = 1
	s1 := runServerWithConfig(t, s1Config)
	s1.cursors.disableCache = true
	defer s1.Stop()

	getMetadataLeader(t, 10*time.Second, s1)

	client, err := lift.Connect([]string{"localhost:5050"})
	require.NoError(t, err)
	defer client.Close()

	require.NoError(t, client.CreateStream(context.Background(), "foo", "foo"))

	// Store cursors for several distinct cursor ids, each in its own segment.
	const num = 6
	for i := 0; i < num; i++ {
		ctx, cancel := context.WithTimeout(context.Background(), 5*time.Second)
		err := client.SetCursor(ctx, fmt.Sprintf("cursor-%d", i), "foo", 0, int64(100+i))
		cancel()
		require.NoError(t, err)
	}

	// Run the cleaner on the cursors partition.
	cursorsPartition := s1.metadata.GetPartition(cursorsStream, 0)
	require.NotNil(t, cursorsPartition)
	require.NoError(t, cursorsPartition.log.Clean())

	// Drop whatever the leader has cached, as an eviction, a leader change or
	// a restart would, so that the cursors are read from the partition.
	s1.cursors.cache.Purge()

	// Every cursor is still there.
	for i := 0; i < num; i++ {
		ctx, cancel := context.WithTimeout(context.Background(), 5*time.Second)
		offset, err := client.FetchCursor(ctx, fmt.Sprintf("cursor-%d", i), "foo", 0)
		cancel()
		require.NoError(t, err)
		require.Equal(t, int64(100+i), offset, "cursor-%d", i)
	}
}
