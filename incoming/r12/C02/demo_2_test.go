// package dir: server/commitlog
package commitlog

import (
	"os"
	"path/filepath"
	"testing"

	"github.com/stretchr/testify/require"
)

// A leader whose leader epoch checkpoint file did not survive (lost with an
// unclean shutdown, removed by an operator, a data directory restored without
// it) rebuilds the epoch boundaries from its log when the log is opened. The
// boundaries must be the same as before, also when the epochs it rebuilds
// began in an older segment than the active one. Otherwise a former leader
// that returns with unreplicated messages of an earlier epoch is told to keep
// them at offsets where this leader has committed different messages.
func TestSeedR12C02x2EpochBoundariesRebuiltAcrossSegments(t *testing.T) {
	newLog := func(path string, segBytes int64) *commitLog {
		l, err := New(Options{Path: path, MaxSegmentBytes: segBytes, Logger: noopLogger()})
		require.NoError(t, err)
		return l.(*commitLog)
	}
	msg := func(epoch uint64, v string) []*Message {
		return []*Message{{MagicByte: 1, LeaderEpoch: epoch, Value: []byte(v), Offset: -1}}
	}

	// Leader C: offsets 0,1 in epoch 1, offsets 2..4 in epoch 2, committed up
	// to 4. Tiny segments, so that epoch 2 begins in a segment that has been
	// rolled since.
	dirC := tempDir(t)
	defer remove(t, dirC)
	c := newLog(dirC, 10)
	for i, e := range []uint64{1, 1, 2, 2, 2} {
		_, err := c.Append(msg(e, string(rune('a'+i))))
		require.NoError(t, err)
	}
	c.SetHighWatermark(4)
	require.Greater(t, len(c.Segments()), 2, "test needs the log to span several segments")
	before := c.LastOffsetForLeaderEpoch(1)
	require.Equal(t, int64(2), before)

	// Former leader A of epoch 1: same committed prefix 0,1 plus two messages
	// nobody replicated.
	dirA := tempDir(t)
	defer remove(t, dirA)
	a := newLog(dirA, 1<<20)
	defer a.Close()
	for _, v := range []string{"a", "b", "x", "y"} {
		_, err := a.Append(msg(1, v))
		require.NoError(t, err)
	}
	a.SetHighWatermark(1)

	// C restarts without its checkpoint file.
	require.NoError(t, c.Close())
	require.NoError(t, os.Remove(filepath.Join(dirC, leaderEpochFileName)))
	c = newLog(dirC, 10)
	defer c.Close()
	require.Equal(t, uint64(2), c.LastLeaderEpoch())

	// A comes back as a follower and reconciles its log with the leader.
	last := c.LastOffsetForLeaderEpoch(a.LastLeaderEpoch())
	require.NoError(t, a.Truncate(last+1))

	require.Equal(t, before, last,
		"leader answers a different end of epoch 1 after rebuilding its epochs from the log")
	require.LessOrEqual(t, a.NewestOffset(), int64(2),
		"follower kept unreplicated epoch-1 messages below the leader's high watermark")
}
