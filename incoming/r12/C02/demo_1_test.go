// package dir: server/commitlog
package commitlog

import (
	"testing"

	"github.com/stretchr/testify/require"
)

// Two failovers in a row without a publish in between, then the last leader
// restarts, continues its epoch and publishes. A previous leader which comes
// back with a message nobody replicated has to be told to cut its log at the
// point where its own epoch ended, otherwise it keeps a message at an offset
// where the current leader has committed a different one.
func TestSeedR12C02x1RestartedLeaderAnswersEpochEndAfterTwoIdleFailovers(t *testing.T) {
	newLog := func(path string) *commitLog {
		l, err := New(Options{Path: path, MaxSegmentBytes: 1 << 20, Logger: noopLogger()})
		require.NoError(t, err)
		return l.(*commitLog)
	}
	msg := func(epoch uint64, v string) []*Message {
		return []*Message{{MagicByte: 1, LeaderEpoch: epoch, Value: []byte(v), Offset: -1}}
	}

	// Replica C: replicated offsets 0..2 written in epoch 1.
	dirC := tempDir(t)
	defer remove(t, dirC)
	c := newLog(dirC)
	for _, v := range []string{"a", "b", "c"} {
		_, err := c.Append(msg(1, v))
		require.NoError(t, err)
	}
	c.SetHighWatermark(2)

	// C is elected for epoch 2 and publishes nothing while it leads.
	require.NoError(t, c.NewLeaderEpoch(2))

	// Replica B holds the same committed prefix and is elected for epoch 3.
	// It receives one message no one replicates before it fails.
	dirB := tempDir(t)
	defer remove(t, dirB)
	b := newLog(dirB)
	defer b.Close()
	for _, v := range []string{"a", "b", "c"} {
		_, err := b.Append(msg(1, v))
		require.NoError(t, err)
	}
	b.SetHighWatermark(2)
	require.NoError(t, b.NewLeaderEpoch(3))
	_, err := b.Append(msg(3, "lost"))
	require.NoError(t, err)

	// C is elected again, for epoch 4, its log still ending at offset 2.
	require.NoError(t, c.NewLeaderEpoch(4))
	require.Equal(t, int64(2), c.LastOffsetForLeaderEpoch(3))

	// C restarts and continues leading epoch 4 (a recovered leader does not
	// call NewLeaderEpoch again), then commits a message at offset 3.
	require.NoError(t, c.Close())
	c = newLog(dirC)
	defer c.Close()
	offsets, err := c.Append(msg(4, "d"))
	require.NoError(t, err)
	require.Equal(t, []int64{3}, offsets)
	c.SetHighWatermark(3)

	// B comes back as a follower: it asks the leader for the last offset of
	// its latest epoch and truncates behind it.
	last := c.LastOffsetForLeaderEpoch(b.LastLeaderEpoch())
	require.NoError(t, b.Truncate(last+1))
	b.SetHighWatermark(c.HighWatermark())

	// Everything B still holds at or below both HWs must be what C holds.
	require.Equal(t, int64(2), last, "leader must answer the offset its log had when epoch 4 began")
	require.Equal(t, int64(2), b.NewestOffset(),
		"follower kept an unreplicated message at an offset the leader committed another one")
}
