// package dir: server
package server

import (
	"context"
	"testing"
	"time"

	"google.golang.org/grpc/status"

	proto "github.com/liftbridge-io/liftbridge/server/protocol"
)

// A partition with the ISR {L, a, b, c, d} (L leads at epoch 7) needs reports
// from more than half of the four in-sync followers, i.e. three of them,
// before a new leader may be selected. Two in-sync followers report L. Then a
// report by replica e arrives at the failover status: e passed the checks in
// ReportLeader while it was still in the ISR but has been removed from the ISR
// (ShrinkISR applied) before its report is counted. Its report must not count
// towards the quorum: only two of the four in-sync followers have reported L.
func TestSeedR13C07x1ReportOfReplicaShrunkOutOfISRDoesNotCount(t *testing.T) {
	p := &partition{
		Partition: &proto.Partition{
			Stream:      "foo",
			Id:          0,
			Leader:      "L",
			LeaderEpoch: 7,
			Replicas:    []string{"L", "a", "b", "c", "d", "e"},
			Isr:         []string{"L", "a", "b", "c", "d", "e"},
		},
		replicas: map[string]struct{}{},
		isr:      map[string]*replica{},
	}
	for _, r := range p.Replicas {
		p.replicas[r] = struct{}{}
		p.isr[r] = &replica{offset: -1}
	}

	elections := 0
	fs := newPartitionFailoverStatus(p, time.Minute,
		func() {},
		func(_ context.Context, epoch uint64) *status.Status {
			elections++
			return nil
		})
	defer fs.cancel()

	ctx := context.Background()

	// ISR is {L, a, b, c, d, e}: five followers, three reports needed.
	if st := fs.report(ctx, "a", 7); st != nil {
		t.Fatalf("unexpected status: %v", st.Err())
	}
	if st := fs.report(ctx, "b", 7); st != nil {
		t.Fatalf("unexpected status: %v", st.Err())
	}
	if elections != 0 {
		t.Fatalf("leader replaced after 2 of 5 in-sync followers reported it")
	}

	// The leader removes e from the ISR (the ShrinkISR is applied) after e's
	// report passed the checks of ReportLeader but before it is counted.
	p.mu.Lock()
	delete(p.isr, "e")
	p.Isr = []string{"L", "a", "b", "c", "d"}
	p.mu.Unlock()

	if st := fs.report(ctx, "e", 7); st != nil {
		t.Fatalf("unexpected status: %v", st.Err())
	}
	if elections != 0 {
		t.Fatalf("leader replaced although only 2 of the 4 in-sync followers " +
			"reported it: the report of a replica outside the ISR was counted")
	}

	// A third in-sync follower completes the quorum.
	if st := fs.report(ctx, "c", 7); st != nil {
		t.Fatalf("unexpected status: %v", st.Err())
	}
	if elections != 1 {
		t.Fatalf("expected one election after 3 of 4 in-sync followers reported, got %d", elections)
	}

	// Same for a report naming a leader epoch that has been replaced while the
	// report was in flight: it must not be handed to the election nor wipe or
	// complete the quorum for the current leader.
	p.mu.Lock()
	p.Leader = "a"
	p.LeaderEpoch = 9
	p.mu.Unlock()
	var elected []uint64
	fs2 := newPartitionFailoverStatus(p, time.Minute,
		func() {},
		func(_ context.Context, epoch uint64) *status.Status {
			elected = append(elected, epoch)
			return nil
		})
	defer fs2.cancel()
	// ISR {L, a, b, c, d}, leader a: followers L, b, c, d; three needed.
	fs2.report(ctx, "b", 9)
	fs2.report(ctx, "c", 9)
	fs2.report(ctx, "d", 7) // stale epoch, in flight during the change
	if len(elected) != 0 {
		t.Fatalf("election started for epochs %v by a report naming the replaced epoch 7", elected)
	}
}
