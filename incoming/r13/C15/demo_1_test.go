// package dir: server
package server

import (
	"context"
	"testing"
	"time"

	client "github.com/liftbridge-io/liftbridge-api/v2/go"
	"github.com/stretchr/testify/require"
	"google.golang.org/grpc"
)

// With tls.client.authz.enabled set but no policy enforcer built (no TLS
// listener, or the model/policy path left empty), no client can present a
// matching (client, resource, action) policy entry, so every call must be
// refused and must leave no trace.
func TestSeedR13C15x1AuthzEnabledWithoutEnforcerRefusesEverything(t *testing.T) {
	defer cleanupStorage(t)

	config := getTestConfig("a", true, 5050)
	// Authorization is switched on, but the listener is plain TCP and no
	// model/policy is given, so startAPIServer never builds an enforcer.
	config.TLSClientAuthz = true
	config.CursorsStream.Partitions = 1

	s1 := runServerWithConfig(t, config)
	defer s1.Stop()
	getMetadataLeader(t, 10*time.Second, s1)
	require.Nil(t, s1.authzEnforcer)

	// A real client over the wire.
	conn, err := grpc.Dial("localhost:5050", grpc.WithInsecure())
	require.NoError(t, err)
	defer conn.Close()
	c := client.NewAPIClient(conn)

	ctx, cancel := context.WithTimeout(context.Background(), 10*time.Second)
	defer cancel()

	_, err = c.CreateStream(ctx, &client.CreateStreamRequest{Subject: "foo", Name: "foo", Partitions: 1})
	require.Error(t, err, "CreateStream by a client without any policy entry must be refused")
	require.Nil(t, s1.metadata.GetStream("foo"), "refused CreateStream must not create the stream")

	// The handlers called in-process, the way gRPC calls them when no
	// interceptor put a client id into the context.
	_, err = s1.api.CreateStream(ctx, &client.CreateStreamRequest{Subject: "bar", Name: "bar", Partitions: 1})
	require.Error(t, err, "CreateStream must be refused")
	require.Nil(t, s1.metadata.GetStream("bar"), "refused CreateStream must not create the stream")

	_, err = s1.api.FetchMetadata(ctx, &client.FetchMetadataRequest{})
	require.Error(t, err, "FetchMetadata must be refused")

	_, err = s1.api.SetCursor(ctx, &client.SetCursorRequest{Stream: "foo", Partition: 0, CursorId: "abc", Offset: 1})
	require.Error(t, err, "SetCursor must be refused")
	require.Contains(t, err.Error(), "client ID")
}
