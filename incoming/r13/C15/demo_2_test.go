// package dir: server
package server

import (
	"context"
	"io"
	"os"
	"path/filepath"
	"testing"
	"time"

	"github.com/casbin/casbin/v2"
	client "github.com/liftbridge-io/liftbridge-api/v2/go"
	"github.com/stretchr/testify/require"
	"google.golang.org/grpc/metadata"
)

type seedR13C15x2Stream struct {
	ctx   context.Context
	reqs  chan *client.PublishRequest
	resps chan *client.PublishResponse
}

func (f *seedR13C15x2Stream) Send(r *client.PublishResponse) error { f.resps <- r; return nil }
func (f *seedR13C15x2Stream) Recv() (*client.PublishRequest, error) {
	r, ok := <-f.reqs
	if !ok {
		return nil, io.EOF
	}
	return r, nil
}
func (f *seedR13C15x2Stream) SetHeader(metadata.MD) error  { return nil }
func (f *seedR13C15x2Stream) SendHeader(metadata.MD) error { return nil }
func (f *seedR13C15x2Stream) SetTrailer(metadata.MD)       {}
func (f *seedR13C15x2Stream) Context() context.Context     { return f.ctx }
func (f *seedR13C15x2Stream) SendMsg(interface{}) error    { return nil }
func (f *seedR13C15x2Stream) RecvMsg(interface{}) error    { return nil }

// A policy reload that revokes Publish must take effect for the next message
// sent on an already open PublishAsync stream.
func TestSeedR13C15x2PublishAsyncSeesPolicyReload(t *testing.T) {
	defer cleanupStorage(t)

	dir := t.TempDir()
	policy := filepath.Join(dir, "policy.csv")
	require.NoError(t, os.WriteFile(policy,
		[]byte("p, client1, foo, CreateStream\np, client1, foo, Publish\n"), 0600))
	enforcer, err := casbin.NewEnforcer("./configs/authz/model.conf", policy)
	require.NoError(t, err)
	require.NoError(t, enforcer.LoadPolicy())

	config := getTestConfig("a", true, 5050)
	config.TLSClientAuthz = true
	s1 := runServerWithConfig(t, config)
	defer s1.Stop()
	getMetadataLeader(t, 10*time.Second, s1)
	s1.authzEnforcer = &authzEnforcer{enforcer: enforcer}

	ctx, cancel := context.WithTimeout(
		context.WithValue(context.Background(), "clientID", "client1"), 30*time.Second)
	defer cancel()

	_, err = s1.api.CreateStream(ctx, &client.CreateStreamRequest{Subject: "foo", Name: "foo", Partitions: 1})
	require.NoError(t, err)
	partition := s1.metadata.GetPartition("foo", 0)
	require.NotNil(t, partition)

	fs := &seedR13C15x2Stream{
		ctx:   ctx,
		reqs:  make(chan *client.PublishRequest),
		resps: make(chan *client.PublishResponse, 16),
	}
	done := make(chan error, 1)
	go func() { done <- s1.api.PublishAsync(fs) }()

	recv := func() *client.PublishResponse {
		select {
		case r := <-fs.resps:
			return r
		case <-time.After(10 * time.Second):
			t.Fatal("no PublishAsync response")
			return nil
		}
	}

	// First message: authorised, acked.
	fs.reqs <- &client.PublishRequest{Stream: "foo", Value: []byte("one"),
		CorrelationId: "c1", AckPolicy: client.AckPolicy_LEADER}
	r := recv()
	require.Nil(t, r.AsyncError)
	require.Equal(t, "c1", r.CorrelationId)
	require.Equal(t, int64(0), partition.log.NewestOffset())

	// Revoke Publish and reload the policy the way the SIGHUP handler does.
	require.NoError(t, os.WriteFile(policy, []byte("p, client1, foo, CreateStream\n"), 0600))
	s1.authzEnforcer.authzLock.Lock()
	err = s1.authzEnforcer.enforcer.LoadPolicy()
	s1.authzEnforcer.authzLock.Unlock()
	require.NoError(t, err)

	// Second message on the same open stream: must now be refused and must
	// not reach the log.
	fs.reqs <- &client.PublishRequest{Stream: "foo", Value: []byte("two"),
		CorrelationId: "c2", AckPolicy: client.AckPolicy_LEADER}
	r = recv()
	require.Equal(t, "c2", r.CorrelationId)
	require.NotNil(t, r.AsyncError, "publish after the reload revoked the right must be refused")
	require.Equal(t, client.PublishAsyncError_PERMISSION_DENIED, r.AsyncError.Code)

	close(fs.reqs)
	select {
	case err := <-done:
		require.NoError(t, err)
	case <-time.After(15 * time.Second):
		t.Fatal("PublishAsync did not return")
	}
	require.Equal(t, int64(0), partition.log.NewestOffset(), "refused publish must not be appended")
}
