// package dir: server/commitlog
package commitlog

import (
	"testing"

	"github.com/stretchr/testify/require"
)

// A message with an empty, non-nil key is a keyed message: compaction must
// keep the most recent committed one.
func TestSeedR13C08x1EmptyKeyLatestSurvives(t *testing.T) {
	opts := Options{Path: tempDir(t), MaxSegmentBytes: 100, Compact: true}
	l, cleanup := setupWithOptions(t, opts)
	defer cleanup()

	pad := make([]byte, 120)
	entries := []keyValue{
		{[]byte("foo"), append([]byte("first"), pad...)},
		{[]byte{}, append([]byte("first"), pad...)},
		{[]byte{}, append([]byte("second"), pad...)},
		{[]byte{}, append([]byte("third"), pad...)},
		{[]byte("foo"), append([]byte("second"), pad...)},
		{[]byte("bar"), append([]byte("first"), pad...)},
		{[]byte("bar"), append([]byte("second"), pad...)},
	}
	appendToLog(t, l, entries, true)
	require.True(t, len(l.Segments()) >= 5)
	require.NoError(t, l.Clean())

	var offsets []int64
	for _, seg := range l.Segments() {
		ss := newSegmentScanner(seg)
		for ms, _, err := ss.Scan(); err == nil; ms, _, err = ss.Scan() {
			offsets = append(offsets, ms.Offset())
			if ms.Offset() == 3 {
				require.NotNil(t, ms.Message().Key())
				require.Len(t, ms.Message().Key(), 0)
			}
		}
	}
	require.Contains(t, offsets, int64(3),
		"latest message with the empty key must survive compaction")
	require.NotContains(t, offsets, int64(1))
	require.NotContains(t, offsets, int64(2))
}
