// package dir: server
package server

import (
	"errors"
	"net/http"
	"sync"
	"testing"
	"time"

	"github.com/stretchr/testify/require"
)

// seedR13C19x1Recorder records every HTTP request made through the default
// transport (the telemetry collector's http.Client has no transport of its
// own) and never lets anything reach the network.
type seedR13C19x1Recorder struct {
	mu   sync.Mutex
	urls []string
}

func (r *seedR13C19x1Recorder) RoundTrip(req *http.Request) (*http.Response, error) {
	r.mu.Lock()
	r.urls = append(r.urls, req.URL.String())
	r.mu.Unlock()
	return nil, errors.New("seedR13C19x1: network disabled in test")
}

func (r *seedR13C19x1Recorder) seen() []string {
	r.mu.Lock()
	defer r.mu.Unlock()
	return append([]string(nil), r.urls...)
}

// A server whose telemetry is switched off programmatically, and whose
// reporting interval was zeroed along with it, must not make any telemetry
// request.
func TestSeedR13C19x1DisabledTelemetryZeroIntervalMakesNoRequest(t *testing.T) {
	defer cleanupStorage(t)

	rec := &seedR13C19x1Recorder{}
	prev := http.DefaultTransport
	http.DefaultTransport = rec
	defer func() { http.DefaultTransport = prev }()

	config := getTestConfig("a", true, 0)
	config.Telemetry.Enabled = false
	config.Telemetry.IntervalSeconds = 0

	s := runServerWithConfig(t, config)

	// The collector, when started, sends its first beacon immediately from
	// its own goroutine; give it ample time.
	deadline := time.Now().Add(3 * time.Second)
	for time.Now().Before(deadline) && len(rec.seen()) == 0 {
		time.Sleep(20 * time.Millisecond)
	}
	require.NoError(t, s.Stop())

	require.Empty(t, rec.seen(),
		"telemetry is disabled but the server made telemetry requests")
}

// Control: with the ordinary interval a disabled server stays silent too (this
// holds with and without the change and shows the recorder is not the cause).
func TestSeedR13C19x1DisabledTelemetryDefaultIntervalControl(t *testing.T) {
	defer cleanupStorage(t)

	rec := &seedR13C19x1Recorder{}
	prev := http.DefaultTransport
	http.DefaultTransport = rec
	defer func() { http.DefaultTransport = prev }()

	config := getTestConfig("a", true, 0)
	config.Telemetry.Enabled = false

	s := runServerWithConfig(t, config)
	time.Sleep(500 * time.Millisecond)
	require.NoError(t, s.Stop())
	require.Empty(t, rec.seen())
}
