// package dir: server/protocol
package protocol

import (
	"hash/crc32"
	"testing"

	client "github.com/liftbridge-io/liftbridge-api/v2/go"
)

// crcEnvelopeR13C14 builds an envelope of the given type whose header carries
// the CRC flag and the given CRC-32C value in front of the payload.
func crcEnvelopeR13C14(typ msgType, crc uint32, payload []byte) []byte {
	buf := make([]byte, 0, 12+len(payload))
	buf = append(buf, envelopeMagicNumber...)
	buf = append(buf, envelopeProtoV0, byte(envelopeMinHeaderLen+4), 0x01, byte(typ))
	c := make([]byte, 4)
	Encoding.PutUint32(c, crc)
	buf = append(buf, c...)
	return append(buf, payload...)
}

// A payload whose checksum does not match must be rejected, whatever value
// the checksum field holds -- including 0.
func TestSeedR13C14x1ZeroChecksumField(t *testing.T) {
	env, err := MarshalPublish(&client.Message{Value: []byte("v"), AckInbox: "a"})
	if err != nil {
		t.Fatal(err)
	}
	body := env[envelopeMinHeaderLen:]
	sum := crc32.Checksum(body, crc32cTable)
	if sum == 0 {
		t.Fatal("test payload happens to have checksum 0")
	}

	// Sanity: a correct checksum is accepted, a wrong non-zero one is not, and
	// a zero checksum is right for the empty payload.
	if _, err := UnmarshalPublish(crcEnvelopeR13C14(msgTypePublish, sum, body)); err != nil {
		t.Fatalf("valid checksum rejected: %v", err)
	}
	if _, err := UnmarshalPublish(crcEnvelopeR13C14(msgTypePublish, sum+1, body)); err == nil {
		t.Fatal("wrong checksum accepted")
	}
	if _, err := UnmarshalPublish(crcEnvelopeR13C14(msgTypePublish, 0, nil)); err != nil {
		t.Fatalf("checksum 0 over the empty payload rejected: %v", err)
	}

	// The checksum field is 0 but the payload's CRC-32C is not: a mismatch.
	if msg, err := UnmarshalPublish(crcEnvelopeR13C14(msgTypePublish, 0, body)); err == nil {
		t.Fatalf("publish envelope with checksum field 0 over a payload with CRC-32C %#x was accepted as %v", sum, msg)
	}
	// checkEnvelope is shared by every envelope type.
	ack, err := MarshalAck(&client.Ack{Stream: "s", Offset: 7})
	if err != nil {
		t.Fatal(err)
	}
	if _, err := UnmarshalAck(crcEnvelopeR13C14(msgTypeAck, 0, ack[envelopeMinHeaderLen:])); err == nil {
		t.Fatal("ack envelope with checksum field 0 over a non-empty payload was accepted")
	}
}
