// package dir: server/commitlog
package commitlog

import (
	"context"
	"hash/crc32"
	"os"
	"testing"
)

// replicatedSetR13C14 builds a message set holding one message at offset 0
// whose key and value sizes are the given ones, with no key or value data and
// no headers. The CRC is correct, as a sender crafting the set would make it.
func replicatedSetR13C14(keySize, valueSize int32) []byte {
	msg := make([]byte, 4+1+1+4+4+2)
	msg[4] = 1 // magic byte
	encoding.PutUint32(msg[6:], uint32(keySize))
	encoding.PutUint32(msg[10:], uint32(valueSize))
	encoding.PutUint32(msg, crc32.Checksum(msg[4:], crc32cTable))
	set := make([]byte, msgSetHeaderLen, msgSetHeaderLen+len(msg))
	encoding.PutUint64(set[offsetPos:], 0)
	encoding.PutUint64(set[timestampPos:], 1)
	encoding.PutUint64(set[leaderEpochPos:], 1)
	encoding.PutUint32(set[sizePos:], uint32(len(msg)))
	return append(set, msg...)
}

// A replication response is data off the wire. A message in it whose key or
// value size is negative but not the nil marker -1 must be refused, since the
// readers of the log slice the message by these sizes.
func TestSeedR13C14x2NegativeSizesInReplicatedSet(t *testing.T) {
	// Sanity: nil (-1) and empty (0) key/value are well formed.
	for _, s := range [][2]int32{{-1, -1}, {0, 0}, {-1, 0}} {
		if _, err := entriesForMessageSet(0, replicatedSetR13C14(s[0], s[1])); err != nil {
			t.Fatalf("well-formed set with sizes %v refused: %v", s, err)
		}
	}

	for _, s := range [][2]int32{{-2, 0}, {-1, -2}, {-2147483648, -1}, {-5, -5}} {
		dir, err := os.MkdirTemp("", "lift_r13c14_")
		if err != nil {
			t.Fatal(err)
		}
		defer os.RemoveAll(dir)
		l, err := New(Options{Path: dir})
		if err != nil {
			t.Fatal(err)
		}
		defer l.Close()

		_, err = l.AppendMessageSet(replicatedSetR13C14(s[0], s[1]))
		if err == nil {
			// Show what the accepted message does to a reader of the log.
			func() {
				defer func() {
					if r := recover(); r != nil {
						t.Errorf("sizes %v: reading the accepted message panics: %v", s, r)
					}
				}()
				l.SetHighWatermark(0)
				rd, rerr := l.NewReader(0, true)
				if rerr != nil {
					return
				}
				var hdr [28]byte
				m, _, _, _, rerr := rd.ReadMessage(context.Background(), hdr[:])
				if rerr != nil {
					return
				}
				_ = m.Key()
				_ = m.Value()
				_ = m.Headers()
			}()
			t.Fatalf("message set with key/value sizes %v was appended to the log", s)
		}
		if err != ErrInvalidMessageSet {
			t.Fatalf("sizes %v: unexpected error %v", s, err)
		}
	}
}
