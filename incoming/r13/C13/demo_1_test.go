// package dir: server
package server

import (
	"context"
	"sync"
	"testing"
	"time"

	"github.com/stretchr/testify/require"
	"google.golang.org/grpc/status"

	client "github.com/liftbridge-io/liftbridge-api/v2/go"
	"github.com/liftbridge-io/liftbridge/server/commitlog"
	proto "github.com/liftbridge-io/liftbridge/server/protocol"
)

// seedR13C13x1Log is the partition's commit log with a gate on the creation
// of the first reader, which is used to hold one Subscribe call in the middle
// while another one runs.
type seedR13C13x1Log struct {
	commitlog.CommitLog
	mu      sync.Mutex
	calls   int
	entered chan struct{}
	release chan struct{}
}

func (l *seedR13C13x1Log) NewReader(offset int64, uncommitted bool) (*commitlog.Reader, error) {
	l.mu.Lock()
	l.calls++
	first := l.calls == 1
	l.mu.Unlock()
	if first {
		close(l.entered)
		<-l.release
	}
	return l.CommitLog.NewReader(offset, uncommitted)
}

type seedR13C13x1Result struct {
	sub *subscription
	st  *status.Status
}

// A group subscriber with an older group epoch whose Subscribe call overlaps
// the one of a subscriber with a newer epoch must never end up displacing it.
func TestSeedR13C13x1StaleEpochSubscribeOverlapsNewerOne(t *testing.T) {
	defer cleanupStorage(t)

	server := createServer()
	require.NoError(t, server.Start())
	defer server.Stop()

	p, err := server.newPartition(&proto.Partition{
		Subject:  "foo",
		Stream:   "foo",
		Replicas: []string{"a"},
		Leader:   "a",
		Isr:      []string{"a"},
	}, false, nil)
	require.NoError(t, err)
	defer p.Close()

	gate := &seedR13C13x1Log{
		CommitLog: p.log,
		entered:   make(chan struct{}),
		release:   make(chan struct{}),
	}
	p.log = gate

	ctx, cancel := context.WithCancel(context.Background())
	defer cancel()

	request := func(consumer string, epoch uint64) *client.SubscribeRequest {
		return &client.SubscribeRequest{
			Stream:        "foo",
			StartPosition: client.StartPosition_NEW_ONLY,
			Consumer: &client.Consumer{
				GroupId:    "g",
				ConsumerId: consumer,
				GroupEpoch: epoch,
			},
		}
	}

	// The subscriber with the old epoch 1 starts first and is held while it
	// creates its reader.
	oldC := make(chan seedR13C13x1Result, 1)
	go func() {
		sub, st := p.Subscribe(ctx, request("old", 1))
		oldC <- seedR13C13x1Result{sub, st}
	}()
	select {
	case <-gate.entered:
	case <-time.After(10 * time.Second):
		t.Fatal("first subscriber did not reach the reader creation")
	}

	// The subscriber with the newer epoch 2 subscribes meanwhile. It either
	// completes now or waits for the first one; both are fine.
	newC := make(chan seedR13C13x1Result, 1)
	go func() {
		sub, st := p.Subscribe(ctx, request("new", 2))
		newC <- seedR13C13x1Result{sub, st}
	}()
	var (
		newRes  seedR13C13x1Result
		haveNew bool
	)
	select {
	case newRes = <-newC:
		haveNew = true
	case <-time.After(2 * time.Second):
	}

	// Let the first subscriber continue and collect both results.
	close(gate.release)
	var oldRes seedR13C13x1Result
	select {
	case oldRes = <-oldC:
	case <-time.After(10 * time.Second):
		t.Fatal("first subscriber did not return")
	}
	if !haveNew {
		select {
		case newRes = <-newC:
		case <-time.After(10 * time.Second):
			t.Fatal("second subscriber did not return")
		}
	}

	// The subscription loops only end once their subscriptions are closed,
	// and the server waits for them when it stops.
	defer func() {
		for _, r := range []seedR13C13x1Result{oldRes, newRes} {
			if r.sub != nil {
				r.sub.Close()
			}
		}
	}()

	require.Nil(t, newRes.st, "subscriber with the newest epoch was refused")
	require.NotNil(t, newRes.sub)

	// The subscriber with the newest epoch is the group's member and its
	// subscription is live.
	member := p.GetGroupConsumer("g")
	require.NotNil(t, member)
	require.Equal(t, "new", member.consumerID)
	require.Equal(t, uint64(2), member.groupEpoch)
	require.True(t, member.sub == newRes.sub)
	select {
	case <-newRes.sub.Closed():
		t.Fatal("subscription with the newest epoch was canceled by a subscriber with an older epoch")
	default:
	}

	// The subscriber with the old epoch was refused or has been replaced.
	if oldRes.st == nil {
		select {
		case <-oldRes.sub.Closed():
		default:
			t.Fatal("two members of the group are subscribed to the partition")
		}
	}
}
