// package dir: server
package server

import (
	"bytes"
	"context"
	"os"
	"path/filepath"
	"testing"
	"time"

	lift "github.com/liftbridge-io/go-liftbridge/v2"
	"github.com/stretchr/testify/require"
)

// A stream that is encrypted because of the server default (streams.encryption)
// must stay encrypted for its whole life: after the server is restarted with
// the default switched off, subscribers still get the published values and
// new values are still sealed before they reach the partition log.
func TestSeedR13C17x1EncryptedByDefaultSurvivesDefaultChange(t *testing.T) {
	defer cleanupStorage(t)

	os.Setenv("LIFTBRIDGE_ENCRYPTION_KEY", "t7w!z%C*F-JaNcRf")

	const (
		name   = "seedr13c17"
		first  = "first-plaintext-value-SEEDR13C17-aaaaaaaaaaaaaaaa"
		second = "second-plaintext-value-SEEDR13C17-bbbbbbbbbbbbbbb"
	)

	// First life of the server: streams are encrypted by default.
	cfg := getTestConfig("a", true, 5050)
	cfg.Streams.Encryption = true
	s1 := runServerWithConfig(t, cfg)
	getMetadataLeader(t, 10*time.Second, s1)

	client, err := lift.Connect([]string{"localhost:5050"})
	require.NoError(t, err)
	// No encryption option: the stream follows the server default.
	require.NoError(t, client.CreateStream(context.Background(), name, name))
	ctx, cancel := context.WithTimeout(context.Background(), 10*time.Second)
	_, err = client.Publish(ctx, name, []byte(first), lift.AckPolicyAll())
	cancel()
	require.NoError(t, err)
	client.Close()
	require.NoError(t, s1.Stop())

	// Second life: same data directory, the default is now off. No snapshot
	// was taken, so the stream is rebuilt from the replayed create operation.
	cfg2 := getTestConfig("a", true, 5050)
	cfg2.Streams.Encryption = false
	s2 := runServerWithConfig(t, cfg2)
	defer s2.Stop()
	getMetadataLeader(t, 10*time.Second, s2)

	var p *partition
	deadline := time.Now().Add(15 * time.Second)
	for time.Now().Before(deadline) {
		p = s2.metadata.GetPartition(name, 0)
		if p != nil && p.IsLeader() {
			break
		}
		time.Sleep(20 * time.Millisecond)
	}
	require.NotNil(t, p, "partition not recovered")
	require.True(t, p.IsLeader(), "partition has no leader")

	require.NotNil(t, p.encryptionHandler,
		"stream created as encrypted lost its encryption handler after the restart")

	client2, err := lift.Connect([]string{"localhost:5050"})
	require.NoError(t, err)
	defer client2.Close()

	ctx, cancel = context.WithTimeout(context.Background(), 10*time.Second)
	_, err = client2.Publish(ctx, name, []byte(second), lift.AckPolicyAll())
	cancel()
	require.NoError(t, err)

	// Subscribers get exactly what was published.
	type got struct {
		val []byte
		err error
	}
	ch := make(chan got, 4)
	subCtx, subCancel := context.WithCancel(context.Background())
	defer subCancel()
	require.NoError(t, client2.Subscribe(subCtx, name, func(msg *lift.Message, err error) {
		if err != nil {
			ch <- got{err: err}
			return
		}
		ch <- got{val: append([]byte(nil), msg.Value()...)}
	}, lift.StartAtEarliestReceived()))
	for _, want := range []string{first, second} {
		select {
		case g := <-ch:
			require.NoError(t, g.err)
			require.Equal(t, want, string(g.val))
		case <-time.After(10 * time.Second):
			t.Fatal("did not receive the expected message")
		}
	}

	// The partition log holds neither value in clear.
	files, err := filepath.Glob(filepath.Join(cfg2.DataDir, "streams", name, "0", "*.log"))
	require.NoError(t, err)
	require.NotEmpty(t, files)
	for _, f := range files {
		data, err := os.ReadFile(f)
		require.NoError(t, err)
		require.False(t, bytes.Contains(data, []byte(first)), "plaintext in %s", f)
		require.False(t, bytes.Contains(data, []byte(second)), "plaintext in %s", f)
	}
}
