// Package dir: server/commitlog
package commitlog

import (
	"context"
	"fmt"
	"os"
	"path/filepath"
	"testing"

	"github.com/stretchr/testify/require"
)

// triage2Layout returns the offsets stored in each segment of the log, e.g.
// "[ 0 1 2 3 | 4 5 6 7 | 8 9 10 11 ]".
func triage2Layout(l *commitLog) string {
	s := "["
	for i, seg := range l.Segments() {
		if i > 0 {
			s += " |"
		}
		ss := newSegmentScanner(seg)
		for ms, _, err := ss.Scan(); err == nil; ms, _, err = ss.Scan() {
			s += fmt.Sprintf(" %d", ms.Offset())
		}
	}
	return s + " ]"
}

// triage2ReadAll reads n messages from the start of the log with a regular
// (forward, uncommitted) Reader and returns their offsets.
func triage2ReadAll(t *testing.T, l *commitLog, n int) []int64 {
	ctx, cancel := context.WithCancel(context.Background())
	defer cancel()
	r, err := l.NewReader(0, true)
	require.NoError(t, err)
	var (
		got     = []int64{}
		headers = make([]byte, 28)
	)
	for i := 0; i < n; i++ {
		_, offset, _, _, err := r.ReadMessage(ctx, headers)
		require.NoError(t, err)
		got = append(got, offset)
	}
	return got
}

func triage2Leftovers(t *testing.T, dir string) []string {
	files, err := os.ReadDir(dir)
	require.NoError(t, err)
	var names []string
	for _, f := range files {
		if filepath.Ext(f.Name()) == cleanedSuffix || filepath.Ext(f.Name()) == truncatedSuffix {
			names = append(names, f.Name())
		}
	}
	return names
}

// Item 2 (compaction): the process dies in compactCleaner.cleanSegment after
// the first retained message was copied to the ".cleaned" segment but before
// segment.Replace. After a restart the next Clean() must still produce a log
// with exactly the original messages.
func TestTriage2LeftoverCleanedSegmentAfterCrash(t *testing.T) {
	opts := Options{
		Path:            tempDir(t),
		MaxSegmentBytes: 150,
		Compact:         true,
	}
	defer remove(t, opts.Path)
	lg, err := New(opts)
	require.NoError(t, err)
	l := lg.(*commitLog)

	// Unique keys: compaction must retain every message.
	var (
		entries  []keyValue
		expected []int64
	)
	for i := 0; i < 12; i++ {
		entries = append(entries, keyValue{[]byte(fmt.Sprintf("uniq-%02d", i)), []byte("v")})
		expected = append(expected, int64(i))
	}
	appendToLog(t, l, entries, true)
	require.True(t, len(l.Segments()) >= 3)
	t.Logf("layout before crash: %s", triage2Layout(l))

	// Simulate the interrupted cleanSegment on the first segment: this is
	// exactly what cleanSegment does up to its first WriteMessageSet.
	seg := l.Segments()[0]
	cleaned, err := seg.Cleaned()
	require.NoError(t, err)
	ms, _, err := newSegmentScanner(seg).Scan()
	require.NoError(t, err)
	require.NoError(t, cleaned.WriteMessageSet(ms, entriesForMessageSet(cleaned.Position(), ms)))
	// Crash: file handles go away, the files stay behind.
	require.NoError(t, cleaned.Close())
	require.NoError(t, l.Close())
	t.Logf("leftover files after crash: %v", triage2Leftovers(t, opts.Path))

	// Restart and let the cleaner run.
	lg, err = New(opts)
	require.NoError(t, err)
	l = lg.(*commitLog)
	defer l.Close()
	require.Equal(t, int64(11), l.NewestOffset())
	require.NoError(t, l.Clean())

	layout := triage2Layout(l)
	t.Logf("layout after restart + Clean: %s", layout)
	require.Equal(t, expected, triage2ReadAll(t, l, len(expected)),
		"log content changed by Clean() after restart, layout %s", layout)
}

// Item 2 (truncate): same for a leftover ".truncated" segment from a Truncate
// that was interrupted before segment.Replace.
func TestTriage2LeftoverTruncatedSegmentAfterCrash(t *testing.T) {
	opts := Options{
		Path:            tempDir(t),
		MaxSegmentBytes: 150,
	}
	defer remove(t, opts.Path)
	lg, err := New(opts)
	require.NoError(t, err)
	l := lg.(*commitLog)

	var entries []keyValue
	for i := 0; i < 12; i++ {
		entries = append(entries, keyValue{[]byte(fmt.Sprintf("uniq-%02d", i)), []byte("v")})
	}
	appendToLog(t, l, entries, true)
	t.Logf("layout before crash: %s", triage2Layout(l))

	// Simulate Truncate(2) interrupted after copying the first message of the
	// first segment.
	seg := l.Segments()[0]
	truncated, err := seg.Truncated()
	require.NoError(t, err)
	ms, e, err := newSegmentScanner(seg).Scan()
	require.NoError(t, err)
	require.NoError(t, truncated.WriteMessageSet(ms, []*entry{e}))
	require.NoError(t, truncated.Close())
	require.NoError(t, l.Close())
	t.Logf("leftover files after crash: %v", triage2Leftovers(t, opts.Path))

	// Restart and truncate again.
	lg, err = New(opts)
	require.NoError(t, err)
	l = lg.(*commitLog)
	defer l.Close()
	require.NoError(t, l.Truncate(2))

	layout := triage2Layout(l)
	t.Logf("layout after restart + Truncate(2): %s", layout)
	require.Equal(t, int64(2), l.Segments()[0].MessageCount(), "layout %s", layout)
	require.Equal(t, int64(1), l.NewestOffset(), "layout %s", layout)
	require.Equal(t, []int64{0, 1}, triage2ReadAll(t, l, 2), "layout %s", layout)
}
