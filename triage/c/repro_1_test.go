// Package dir: server/commitlog
package commitlog

import (
	"context"
	"fmt"
	"io"
	"testing"

	"github.com/stretchr/testify/require"
)

// triage1SegmentLayout returns the offsets stored in each segment of the log,
// e.g. "[1 3 | 5 7 9 | 10 11]".
func triage1SegmentLayout(l *commitLog) string {
	s := "["
	for i, seg := range l.Segments() {
		if i > 0 {
			s += " |"
		}
		ss := newSegmentScanner(seg)
		for ms, _, err := ss.Scan(); err == nil; ms, _, err = ss.Scan() {
			s += fmt.Sprintf(" %d", ms.Offset())
		}
	}
	return s + " ]"
}

// triage1ForwardOffsets reads every surviving offset of the log, in order, by
// scanning the segments.
func triage1ForwardOffsets(l *commitLog) []int64 {
	var offsets []int64
	for _, seg := range l.Segments() {
		ss := newSegmentScanner(seg)
		for ms, _, err := ss.Scan(); err == nil; ms, _, err = ss.Scan() {
			offsets = append(offsets, ms.Offset())
		}
	}
	return offsets
}

// triage1ReverseOffsets reads all offsets returned by a reverse reader started
// at the given offset.
func triage1ReverseOffsets(t *testing.T, l *commitLog, start int64) []int64 {
	r, err := l.NewReverseReader(start, true)
	require.NoError(t, err)
	var (
		got     = []int64{}
		headers = make([]byte, 28)
	)
	for {
		_, offset, _, _, err := r.ReadMessage(context.Background(), headers)
		if err == io.EOF {
			return got
		}
		require.NoError(t, err)
		got = append(got, offset)
	}
}

// Item 1: a ReverseReader started at offset X on a compacted (sparse) log must
// return exactly the surviving messages with offset <= X, newest first.
func TestTriage1ReverseReaderCompactedLog(t *testing.T) {
	opts := Options{
		Path:            tempDir(t),
		MaxSegmentBytes: 150,
		Compact:         true,
	}
	l, cleanup := setupWithOptions(t, opts)
	defer cleanup()

	// Alternate a hot key with unique keys so that every other message is
	// compacted away, leaving gaps inside every non-active segment.
	var entries []keyValue
	for i := 0; i < 12; i++ {
		key := []byte("hot")
		if i%2 == 1 {
			key = []byte(fmt.Sprintf("uniq-%02d", i))
		}
		entries = append(entries, keyValue{key, []byte("v")})
	}
	appendToLog(t, l, entries, true)
	before := triage1SegmentLayout(l)
	require.NoError(t, l.Clean())
	after := triage1SegmentLayout(l)
	t.Logf("layout before compaction: %s", before)
	t.Logf("layout after compaction:  %s", after)

	surviving := triage1ForwardOffsets(l)
	require.True(t, len(l.Segments()) >= 3, "want >= 3 segments, layout %s", after)
	require.True(t, len(surviving) < len(entries), "log was not compacted")

	failed := false
	for start := surviving[0]; start <= l.NewestOffset(); start++ {
		expected := []int64{}
		for i := len(surviving) - 1; i >= 0; i-- {
			if surviving[i] <= start {
				expected = append(expected, surviving[i])
			}
		}
		got := triage1ReverseOffsets(t, l, start)
		if fmt.Sprint(expected) != fmt.Sprint(got) {
			failed = true
			t.Errorf("reverse reader from %d on %s: got %v, want %v", start, after, got, expected)
		}
	}
	require.False(t, failed)
}
