// Package dir: server
//
// Unit-level reproducer: drives partition.Subscribe directly on a bare
// partition backed by a real commit log. No server, NATS or ports involved.
package server

import (
	"context"
	"fmt"
	"os"
	"testing"
	"time"

	client "github.com/liftbridge-io/liftbridge-api/v2/go"
	"github.com/stretchr/testify/require"
	"google.golang.org/grpc/codes"
	"google.golang.org/grpc/status"

	"github.com/liftbridge-io/liftbridge/server/commitlog"
	proto "github.com/liftbridge-io/liftbridge/server/protocol"
)

// triage3Partition returns a partition whose log was compacted down to the
// offsets [1 3 | 5 7 | 8 9 10 11] (three segments), HW = 11.
func triage3Partition(t *testing.T) (*partition, func()) {
	dir, err := os.MkdirTemp("", "lift_triage3_")
	require.NoError(t, err)
	l, err := commitlog.New(commitlog.Options{
		Path:            dir,
		MaxSegmentBytes: 150,
		Compact:         true,
	})
	require.NoError(t, err)
	for i := 0; i < 12; i++ {
		key := []byte("hot")
		if i%2 == 1 {
			key = []byte(fmt.Sprintf("uniq-%02d", i))
		}
		offsets, err := l.Append([]*commitlog.Message{{Key: key, Value: []byte("v")}})
		require.NoError(t, err)
		l.SetHighWatermark(offsets[0])
	}
	require.NoError(t, l.Clean())
	p := &partition{
		Partition: &proto.Partition{Stream: "foo", Subject: "foo", Id: 0},
		log:       l,
		srv:       &Server{},
		consumers: make(map[string]*groupMember),
	}
	return p, func() {
		l.Close()
		os.RemoveAll(dir)
	}
}

// triage3Collect subscribes and returns the offsets delivered until the
// subscription terminates. If it does not terminate within the timeout, the
// returned status is nil.
func triage3Collect(t *testing.T, p *partition, req *client.SubscribeRequest,
	timeout time.Duration) ([]int64, *status.Status) {

	ctx, cancel := context.WithCancel(context.Background())
	defer cancel()
	sub, st := p.Subscribe(ctx, req)
	require.Nil(t, st)
	defer sub.Close()
	var (
		got     = []int64{}
		timer   = time.After(timeout)
		msgs    = sub.Messages()
		errorsC = sub.Errors()
	)
	for {
		select {
		case m := <-msgs:
			got = append(got, m.Offset)
		case st := <-errorsC:
			return got, st
		case <-timer:
			return got, nil
		}
	}
}

// Item 3: the log holds [1 3 5 7 8 9 10 11]. A subscription with
// STOP_OFFSET=6 (compacted away) must deliver 1 3 5 and then end with "Stop
// offset reached".
func TestTriage3StopOffsetCompactedAway(t *testing.T) {
	p, cleanup := triage3Partition(t)
	defer cleanup()

	got, st := triage3Collect(t, p, &client.SubscribeRequest{
		StartPosition: client.StartPosition_OFFSET,
		StartOffset:   0,
		StopPosition:  client.StopPosition_STOP_OFFSET,
		StopOffset:    6,
	}, 2*time.Second)
	require.NotNil(t, st, "subscription did not stop within 2s; delivered %v", got)
	require.Equal(t, codes.ResourceExhausted, st.Code(), st.Message())
	require.Equal(t, []int64{1, 3, 5}, got)
}

// Item 3: start and stop offset both before the first surviving message (as
// after retention trimmed the head of the log). Nothing is in range, so
// nothing must be delivered and the subscription must end.
func TestTriage3StopOffsetBeforeOldest(t *testing.T) {
	p, cleanup := triage3Partition(t)
	defer cleanup()

	got, st := triage3Collect(t, p, &client.SubscribeRequest{
		StartPosition: client.StartPosition_OFFSET,
		StartOffset:   0,
		StopPosition:  client.StopPosition_STOP_OFFSET,
		StopOffset:    0,
	}, 2*time.Second)
	require.NotNil(t, st, "subscription did not stop within 2s; delivered %v", got)
	require.Equal(t, codes.ResourceExhausted, st.Code(), st.Message())
	require.Equal(t, []int64{}, got)
}

// Guards against the naive fix `offset >= stopOffset`: STOP_ON_CANCEL is
// encoded as stopOffset == -1 and must keep delivering everything.
func TestTriage3StopOnCancelUnaffected(t *testing.T) {
	p, cleanup := triage3Partition(t)
	defer cleanup()

	got, st := triage3Collect(t, p, &client.SubscribeRequest{
		StartPosition: client.StartPosition_OFFSET,
		StartOffset:   0,
	}, 500*time.Millisecond)
	require.Nil(t, st)
	require.Equal(t, []int64{1, 3, 5, 7, 8, 9, 10, 11}, got)
}

// An existing stop offset keeps working.
func TestTriage3StopOffsetPresent(t *testing.T) {
	p, cleanup := triage3Partition(t)
	defer cleanup()

	got, st := triage3Collect(t, p, &client.SubscribeRequest{
		StartPosition: client.StartPosition_OFFSET,
		StartOffset:   3,
		StopPosition:  client.StopPosition_STOP_OFFSET,
		StopOffset:    7,
	}, 2*time.Second)
	require.NotNil(t, st, "subscription did not stop within 2s; delivered %v", got)
	require.Equal(t, codes.ResourceExhausted, st.Code(), st.Message())
	require.Equal(t, []int64{3, 5, 7}, got)
}
