// Package dir: server/commitlog
//
// BY-PRODUCT found while working on item 4 (not one of the four items):
// commitLog.split can run in two goroutines at once (Append ->
// checkAndPerformSplit, and cleanerLoop -> checkAndPerformSplit). Both call
// newSegment(isNew=true) for the same base offset. The "does the file exist"
// check in newSegment is not atomic (no O_EXCL), so both can open the very
// same log/index files. The loser of the CAS in split() then calls
// segment.Delete() which truncates the shared index file to 0 and unlinks
// both files, while the winner still has the index mmap'ed: the next index
// write of the winner (now the active segment) dies with SIGBUS, a fatal,
// unrecoverable runtime error which kills the process.
//
// go test -vet=off -count=1 -run TestTriageExtraSplitRace ./server/commitlog/
package commitlog

import (
	"sync"
	"testing"
	"time"

	"github.com/stretchr/testify/require"
)

func TestTriageExtraSplitRace(t *testing.T) {
	l, cleanup := setupWithOptions(t, Options{
		Path:            tempDir(t),
		MaxSegmentBytes: 1024 * 1024,
		MaxSegmentAge:   time.Nanosecond, // roll whenever the segment has data
	})
	defer cleanup()

	var (
		wg   sync.WaitGroup
		stop = make(chan struct{})
	)
	wg.Add(1)
	go func() {
		defer wg.Done()
		defer close(stop)
		for i := 0; i < 300; i++ {
			if _, err := l.Append([]*Message{{Value: []byte("v"), Timestamp: time.Now().UnixNano()}}); err != nil {
				t.Error(err)
				return
			}
		}
	}()
	// This is what commitLog.cleanerLoop does on every tick.
	for {
		select {
		case <-stop:
			wg.Wait()
			return
		default:
		}
		_, err := l.checkAndPerformSplit()
		require.NoError(t, err)
	}
}
