// Package dir: server/commitlog
//
// Run with -race: go test -race -vet=off -count=1 -run TestTriage4 ./server/commitlog/
// Without the race detector these tests cannot fail.
package commitlog

import (
	"sync"
	"testing"
	"time"

	"github.com/stretchr/testify/require"
)

// Item 4a: LatestOffsetBeforeTimestamp returns seg.lastOffset without holding
// the segment lock while a concurrent Append updates it in segment.write.
func TestTriage4aLatestOffsetBeforeTimestampRace(t *testing.T) {
	l, cleanup := setupWithOptions(t, Options{Path: tempDir(t), MaxSegmentBytes: 1024 * 1024})
	defer cleanup()

	_, err := l.Append([]*Message{{Value: []byte("first"), Timestamp: 1}})
	require.NoError(t, err)

	var (
		wg   sync.WaitGroup
		stop = make(chan struct{})
	)
	wg.Add(1)
	go func() {
		defer wg.Done()
		for i := 0; i < 2000; i++ {
			if _, err := l.Append([]*Message{{Value: []byte("v"), Timestamp: 2}}); err != nil {
				t.Error(err)
				return
			}
		}
		close(stop)
	}()
	// A timestamp past every message: the answer is the last offset of the
	// active segment.
	future := time.Now().Add(time.Hour).UnixNano()
	for {
		select {
		case <-stop:
			wg.Wait()
			return
		default:
		}
		_, err := l.LatestOffsetBeforeTimestamp(future)
		require.NoError(t, err)
	}
}

// Item 4b: deleteCleaner.applyAgeLimit reads seg.lastWriteTime without holding
// the segment lock while segment.write updates it under the lock. The cleaner
// only looks at the non-last segments of its snapshot, i.e. former active
// segments, so this needs a write to a segment which is no longer the active
// one. In the commit log that only happens when Append loaded the active
// segment just before another goroutine (cleanerLoop -> checkAndPerformSplit)
// rolled a new one, so this reproducer works at the segment/cleaner level.
func TestTriage4bApplyAgeLimitRace(t *testing.T) {
	dir := tempDir(t)
	defer remove(t, dir)
	opts := deleteCleanerOptions{Name: "foo", Logger: noopLogger()}
	opts.Retention.Age = time.Hour
	cleaner := newDeleteCleaner(opts)

	segs := []*segment{createSegment(t, dir, 0, 1024*1024), createSegment(t, dir, 1000, 1024*1024)}
	defer segs[0].Close()
	defer segs[1].Close()
	writeToSegment(t, segs[0], 0, []byte("v"))
	writeToSegment(t, segs[1], 1000, []byte("v"))

	var wg sync.WaitGroup
	wg.Add(1)
	go func() {
		defer wg.Done()
		for i := int64(1); i < 500; i++ {
			ms, entries, err := newMessageSetFromProto(i, segs[0].Position(),
				[]*Message{{Timestamp: time.Now().UnixNano(), Value: []byte("v")}}, false)
			if err == nil {
				err = segs[0].WriteMessageSet(ms, entries)
			}
			if err != nil {
				t.Error(err)
				return
			}
		}
	}()
	for i := 0; i < 500; i++ {
		cleaned, err := cleaner.Clean(segs)
		require.NoError(t, err)
		require.Len(t, cleaned, 2)
	}
	wg.Wait()
}
