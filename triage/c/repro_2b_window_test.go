// Package dir: server/commitlog
//
// Exploratory (item 2 safety analysis): crash inside segment.Replace after the
// log file was renamed into place but before the index file was renamed.
// This documents a PRE-EXISTING inconsistency which fix_2.patch neither
// introduces nor repairs.
package commitlog

import (
	"context"
	"fmt"
	"os"
	"testing"
	"time"

	"github.com/stretchr/testify/require"
)

func TestTriage2bCrashBetweenReplaceRenames(t *testing.T) {
	opts := Options{
		Path:            tempDir(t),
		MaxSegmentBytes: 150,
		Compact:         true,
	}
	defer remove(t, opts.Path)
	lg, err := New(opts)
	require.NoError(t, err)
	l := lg.(*commitLog)

	// Offsets 0 and 2 share a key, so compacting the first segment drops
	// offset 0.
	keys := []string{"hot", "u1", "hot", "u3", "u4", "u5", "u6", "u7", "u8", "u9", "u10", "u11"}
	var entries []keyValue
	for _, k := range keys {
		entries = append(entries, keyValue{[]byte(k), []byte("v")})
	}
	appendToLog(t, l, entries, true)

	seg := l.Segments()[0]
	cleaned, err := seg.Cleaned()
	require.NoError(t, err)
	var (
		ss       = newSegmentScanner(seg)
		retained int64
	)
	for ms, _, err := ss.Scan(); err == nil; ms, _, err = ss.Scan() {
		if ms.Offset() == 0 {
			continue // compacted away
		}
		require.NoError(t, cleaned.WriteMessageSet(ms, entriesForMessageSet(cleaned.Position(), ms)))
		retained++
	}
	// First half of segment.Replace, then crash.
	require.NoError(t, seg.Close())
	require.NoError(t, cleaned.Close())
	require.NoError(t, os.Rename(cleaned.logPath(), seg.logPath()))
	require.NoError(t, l.Close())

	lg, err = New(opts)
	require.NoError(t, err)
	l = lg.(*commitLog)
	defer l.Close()

	seg = l.Segments()[0]
	t.Logf("segment 0 after restart: log size=%d, index entries=%d, first=%d last=%d",
		seg.Position(), seg.MessageCount(), seg.FirstOffset(), seg.LastOffset())
	require.Equal(t, retained, seg.MessageCount(),
		"segment 0 holds %d messages on disk but its (stale) index has a different entry count", retained)
	require.Equal(t, int64(1), seg.FirstOffset())

	ctx, cancel := context.WithTimeout(context.Background(), 2*time.Second)
	defer cancel()
	r, err := l.NewReader(0, true)
	require.NoError(t, err)
	headers := make([]byte, 28)
	var got []int64
	for i := 0; i < 11; i++ {
		_, offset, _, _, err := r.ReadMessage(ctx, headers)
		require.NoError(t, err)
		got = append(got, offset)
	}
	require.Equal(t, fmt.Sprint([]int64{1, 2, 3, 4, 5, 6, 7, 8, 9, 10, 11}), fmt.Sprint(got))
}
