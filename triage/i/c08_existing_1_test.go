// Package directory: server/commitlog
//
// PART B, finding 1 (fails on the UNCHANGED code): compaction conflates the
// nil key ("message has no key") with the empty key ([]byte{}), which the wire
// format keeps distinct (size -1 vs size 0). scanKeys records both under the
// map key "" while cleanSegment only exempts key == nil. A later message
// WITHOUT a key therefore makes the most recent message WITH the empty key
// look superseded, and compaction removes it.
package commitlog

import (
	"context"
	"testing"
	"time"

	"github.com/stretchr/testify/require"
)

func TestSeedExisting1EmptyKeyLostToNilKey(t *testing.T) {
	l, cleanup := setupWithOptions(t, Options{
		Path:            tempDir(t),
		MaxSegmentBytes: 100, // two messages per segment
		Compact:         true,
	})
	defer cleanup()

	type kv struct {
		key   []byte
		value string
	}
	msgs := []kv{
		{[]byte{}, "empty-key-1"}, // 0
		{[]byte("a"), "a-1"},      // 1
		{[]byte{}, "empty-key-2"}, // 2  <- latest value of the empty key
		{nil, "no-key-1"},         // 3  <- no key at all
		{[]byte("a"), "a-2"},      // 4
		{[]byte("b"), "b-1"},      // 5
		{[]byte("c"), "c-1"},      // 6
		{[]byte("d"), "d-1"},      // 7  (6,7 = active segment)
	}
	for i, m := range msgs {
		offs, err := l.Append([]*Message{{
			Key: m.key, Value: []byte(m.value), Timestamp: int64(1000 + i),
		}})
		require.NoError(t, err)
		l.SetHighWatermark(offs[0])
	}
	require.True(t, len(l.Segments()) >= 3)

	require.NoError(t, l.Clean())

	// Read everything that survived.
	got := map[int64]string{}
	r, err := l.NewReader(0, true)
	require.NoError(t, err)
	headers := make([]byte, 28)
	for {
		ctx, cancel := context.WithTimeout(context.Background(), 200*time.Millisecond)
		m, off, _, _, err := r.ReadMessage(ctx, headers)
		cancel()
		if err != nil {
			break
		}
		got[off] = string(m.Value())
	}
	t.Logf("survivors: %v", got)

	// No-key messages are always retained.
	require.Equal(t, "no-key-1", got[3])
	// Offset 0 is an older value of the empty key: may go.
	// Offset 2 is the most recent committed message with the empty key and
	// must survive.
	require.Equal(t, "empty-key-2", got[2],
		"latest message with the empty key was removed by compaction")
}
