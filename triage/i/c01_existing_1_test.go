// Belongs in: server/commitlog (package commitlog)
//
// Existing defect 1: after a tail truncation whose target offset lies in a
// segment that is NOT the active one, the segment that becomes the new active
// segment keeps sealed == true. When that segment is later rolled because of
// MaxSegmentAge, Seal() is a no-op, so an uncommitted reader parked at its end
// is never woken and never moves on to the next segment: messages appended
// after the roll are never delivered to it.
package commitlog

import (
	"context"
	"fmt"
	"sync/atomic"
	"testing"
	"time"
)

func existing1WaitParked(t *testing.T, l *commitLog) {
	t.Helper()
	deadline := time.Now().Add(5 * time.Second)
	for time.Now().Before(deadline) {
		seg := l.activeSegment()
		seg.RLock()
		n := len(seg.waiters)
		seg.RUnlock()
		if n > 0 {
			return
		}
		time.Sleep(time.Millisecond)
	}
	t.Fatal("reader never parked at the end of the active segment")
}

func existing1Run(t *testing.T, truncateAt int64) {
	var now int64 = 1000
	orig := timestamp
	timestamp = func() int64 { return atomic.LoadInt64(&now) }
	defer func() { timestamp = orig }()

	cl, err := New(Options{
		Path:            t.TempDir(),
		MaxSegmentBytes: 1 << 20,
		MaxSegmentAge:   1000, // nanoseconds of the mocked clock
	})
	if err != nil {
		t.Fatal(err)
	}
	l := cl.(*commitLog)
	defer l.Close()

	app := func(val string) int64 {
		offs, err := l.Append([]*Message{{
			Value:     []byte(val),
			Timestamp: atomic.LoadInt64(&now),
		}})
		if err != nil {
			t.Fatal(err)
		}
		return offs[0]
	}

	// Segment A: offsets 0,1,2. Then the clock passes MaxSegmentAge, so the
	// next append rolls segment B: offsets 3,4,5.
	app("a0")
	app("a1")
	app("a2")
	atomic.AddInt64(&now, 5000)
	app("b3")
	app("b4")
	app("b5")
	if n := len(l.Segments()); n != 2 {
		t.Fatalf("expected 2 segments, got %d", n)
	}

	if err := l.Truncate(truncateAt); err != nil {
		t.Fatal(err)
	}
	if n := len(l.Segments()); n != 1 {
		t.Fatalf("expected 1 segment after truncation, got %d", n)
	}
	if got := l.NewestOffset(); got != truncateAt-1 {
		t.Fatalf("newest offset %d after Truncate(%d)", got, truncateAt)
	}

	// A reader (like the one the leader uses to replicate to a follower) reads
	// what is retained and then parks at the end of the log.
	r, err := l.NewReader(0, true)
	if err != nil {
		t.Fatal(err)
	}
	hdr := make([]byte, 28)
	for i := int64(0); i < truncateAt; i++ {
		_, off, _, _, err := r.ReadMessage(context.Background(), hdr)
		if err != nil || off != i {
			t.Fatalf("read %d: offset %d err %v", i, off, err)
		}
	}
	type res struct {
		off int64
		val string
		err error
	}
	got := make(chan res, 1)
	ctx, cancel := context.WithTimeout(context.Background(), 3*time.Second)
	defer cancel()
	go func() {
		m, off, _, _, err := r.ReadMessage(ctx, hdr)
		if err != nil {
			got <- res{err: err}
			return
		}
		got <- res{off: off, val: string(m.Value())}
	}()
	existing1WaitParked(t, l)

	// The active segment is older than MaxSegmentAge, so this append rolls a
	// new segment and writes the message there.
	atomic.AddInt64(&now, 5000)
	newOff := app("new")
	if newOff != truncateAt {
		t.Fatalf("new message got offset %d, want %d", newOff, truncateAt)
	}
	if n := len(l.Segments()); n != 2 {
		t.Fatalf("expected the append to roll a segment, have %d segments", n)
	}

	x := <-got
	if x.err != nil {
		t.Fatalf("parked reader did not get offset %d (value \"new\") within 3s of its append: %v",
			truncateAt, x.err)
	}
	if x.off != truncateAt || x.val != "new" {
		t.Fatalf("parked reader got offset %d value %q", x.off, x.val)
	}
}

func TestExisting1ParkedReaderAfterTruncateIntoSealedSegment(t *testing.T) {
	// Control: truncation inside the active segment (offset 4 lies in B). This
	// passes.
	t.Run("control_truncate_in_active_segment", func(t *testing.T) {
		var now int64 = 1000
		orig := timestamp
		timestamp = func() int64 { return atomic.LoadInt64(&now) }
		defer func() { timestamp = orig }()
		cl, err := New(Options{Path: t.TempDir(), MaxSegmentBytes: 1 << 20, MaxSegmentAge: 1000})
		if err != nil {
			t.Fatal(err)
		}
		l := cl.(*commitLog)
		defer l.Close()
		for i := 0; i < 3; i++ {
			if _, err := l.Append([]*Message{{Value: []byte(fmt.Sprint(i)), Timestamp: now}}); err != nil {
				t.Fatal(err)
			}
		}
		if err := l.Truncate(2); err != nil {
			t.Fatal(err)
		}
		r, err := l.NewReader(0, true)
		if err != nil {
			t.Fatal(err)
		}
		hdr := make([]byte, 28)
		for i := 0; i < 2; i++ {
			if _, _, _, _, err := r.ReadMessage(context.Background(), hdr); err != nil {
				t.Fatal(err)
			}
		}
		done := make(chan error, 1)
		ctx, cancel := context.WithTimeout(context.Background(), 3*time.Second)
		defer cancel()
		go func() {
			_, _, _, _, err := r.ReadMessage(ctx, hdr)
			done <- err
		}()
		existing1WaitParked(t, l)
		atomic.AddInt64(&now, 5000)
		if _, err := l.Append([]*Message{{Value: []byte("new"), Timestamp: now}}); err != nil {
			t.Fatal(err)
		}
		if err := <-done; err != nil {
			t.Fatalf("control failed: %v", err)
		}
	})
	// Offset 2 lies in the middle of the sealed segment A: A is rewritten and
	// becomes the active segment again.
	t.Run("truncate_inside_sealed_segment", func(t *testing.T) { existing1Run(t, 2) })
	// Offset 3 is the base offset of B: B is deleted and the sealed segment A
	// becomes the active segment again.
	t.Run("truncate_at_base_of_later_segment", func(t *testing.T) { existing1Run(t, 3) })
}
