// Package directory: server/commitlog
package commitlog

import (
	"testing"
	"time"

	"github.com/stretchr/testify/require"
)

// cleanerLoop skips the retention pass on every tick on which it rolled the
// active segment ("we don't need to run the cleaner since it already ran"), but
// rolling a segment does not run the cleaner: split() only appends the new
// segment to the list. When the active segment is due for an age-based roll on
// every tick -- MaxSegmentAge shorter than CleanerInterval and a slow stream
// which gets a message or a few per interval -- the retention limits are never
// applied and the log grows without bound.
func TestExisting2CleanerLoopNeverCleansWhenEveryTickRolls(t *testing.T) {
	const interval = 50 * time.Millisecond
	l, cleanup := setupWithOptions(t, Options{
		Path:            tempDir(t),
		MaxSegmentBytes: 1024 * 1024,
		MaxSegmentAge:   20 * time.Millisecond,
		CleanerInterval: interval,
		MaxLogMessages:  1,
	})
	defer cleanup()

	// One message per cleaner interval, written shortly after a tick of the
	// cleaner loop, so that it is older than MaxSegmentAge by the next tick:
	// append, wait for the next tick to deal with the log (it rolls the
	// segment, which adds a segment, and/or cleans, which removes some), give
	// it a moment to finish, repeat.
	const rounds = 15
	for i := 0; i < rounds; i++ {
		before := len(l.Segments())
		_, err := l.Append([]*Message{{Value: []byte("v"), Timestamp: time.Now().UnixNano(), LeaderEpoch: 1}})
		require.NoError(t, err)
		deadline := time.Now().Add(3 * interval)
		for len(l.Segments()) == before && time.Now().Before(deadline) {
			time.Sleep(time.Millisecond)
		}
		time.Sleep(10 * time.Millisecond)
	}

	// With a limit of one message, a retention pass leaves the newest segment
	// only. After more than fifteen ticks there must not be one segment per
	// tick.
	var (
		segments = l.Segments()
		messages int64
	)
	for _, seg := range segments {
		messages += seg.MessageCount()
	}
	t.Logf("%d segments holding %d messages, oldest offset %d, newest offset %d",
		len(segments), messages, l.OldestOffset(), l.NewestOffset())
	require.LessOrEqual(t, len(segments), 3,
		"retention (MaxLogMessages=1) is not applied by the cleaner loop: %d segments with %d messages are retained",
		len(segments), messages)
}
