// Package directory: server/commitlog/   (package commitlog)
//
// EXISTING DEFECT 5: commitLog.Clean() compacts the segments WITHOUT holding
// the log lock and only installs the new segment list afterwards:
//
//	l.mu.RLock(); oldSegments := l.segments; l.mu.RUnlock()
//	cleaned, epochCache, err := l.clean(oldSegments)   // replaces segments one by one
//	l.mu.Lock(); ...; l.segments = cleaned; ...
//
// A committed Reader which is inside a segment that has just been replaced
// gets ErrSegmentReplaced and re-initialises itself from l.Segments(). Until
// Clean() reaches its last step that list still holds the OLD, closed segment
// objects, so the re-initialisation looks up the entry in a closed index and
// fails with "failed to reinitialize reader: segment has been closed" (or, if
// the offset is not "contained", spins on ErrSegmentReplaced). The window
// lasts for the compaction of all remaining segments of the log.
//
// The test below reproduces the state inside that window deterministically by
// running the same step Clean() runs first (l.clean on the current segments)
// and reading before the second step (the assignment of l.segments).
package commitlog

import (
	"context"
	"strconv"
	"testing"

	"github.com/stretchr/testify/require"
)

func TestExisting5ForwardReaderDuringCompactionWindow(t *testing.T) {
	l, cleanup := setupWithOptions(t, Options{
		Path:            tempDir(t),
		MaxSegmentBytes: 100,
		Compact:         true,
	})
	defer cleanup()

	// Keys k0..k2 repeat, except in the first segment which also holds
	// unkeyed messages that survive compaction.
	for i := 0; i < 12; i++ {
		m := &Message{
			Key:       []byte("k" + strconv.Itoa(i%3)),
			Value:     []byte("v" + strconv.Itoa(i)),
			Timestamp: int64(i + 1),
		}
		if i < 2 {
			m.Key = nil
		}
		_, err := l.Append([]*Message{m})
		require.NoError(t, err)
	}
	l.SetHighWatermark(11)
	require.True(t, len(l.Segments()) > 2)

	// A subscriber has read offset 0 and is inside the first segment.
	r, err := l.NewReader(0, false)
	require.NoError(t, err)
	headers := make([]byte, 28)
	_, offset, _, _, err := r.ReadMessage(context.Background(), headers)
	require.NoError(t, err)
	require.Equal(t, int64(0), offset)

	// First half of Clean(): the segments are compacted (replaced on disk and
	// closed in memory), the log still points at the old list.
	l.mu.RLock()
	oldSegments := l.segments
	l.mu.RUnlock()
	cleaned, epochCache, err := l.clean(oldSegments)
	require.NoError(t, err)

	// The subscriber reads on inside the window. Offset 1 has no key, so it is
	// retained and must be delivered next.
	_, offset, _, _, err = r.ReadMessage(context.Background(), headers)

	// Second half of Clean(), so that the deferred cleanup works either way.
	l.mu.Lock()
	l.segments = cleaned
	if epochCache != nil {
		l.leaderEpochCache.Replace(epochCache) // nolint: errcheck
	}
	l.mu.Unlock()

	require.NoError(t, err, "reader failed while the log was being compacted")
	require.Equal(t, int64(1), offset)
}
