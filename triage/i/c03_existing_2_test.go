// Package directory: server/commitlog
//
// Existing defect 2 (fails on the UNCHANGED code): in committedReader.readLoop
// the result of getHWPos is assigned with `:=` inside the loop, which shadows
// the named result `err`. When getHWPos fails after a wake-up, the loop breaks
// and Read returns (0, nil): readMessage then believes it has read 28 header
// bytes and decodes whatever the (reused) header buffer still contains, i.e.
// the header of the PREVIOUS message. The reader is now out of step with the
// log: the next successful read hands back garbage and the CRC check in
// readMessage panics ("Read corrupted data"), which takes the server down.
//
// getHWPos fails whenever the HW is not (yet) in the log. A follower gets into
// this state on its own: handleReplicationResponse calls
// log.SetHighWatermark(leaderHW) BEFORE it appends the data of the response and
// without capping the value at its own log end, so a follower that is behind
// the leader's HW (e.g. one that fell out of the ISR and is catching up) has
// HW > LEO. Subscribers with ReadISRReplica read from such a follower.
package commitlog

import (
	"context"
	"fmt"
	"strconv"
	"testing"
	"time"

	"github.com/stretchr/testify/require"
)

func TestExistingHWAheadOfLogDesyncsReader(t *testing.T) {
	l, cleanup := setupWithOptions(t, Options{
		Path:            tempDir(t),
		MaxSegmentBytes: 1 << 20,
	})
	defer cleanup()

	appendOne := func(i int) {
		_, err := l.Append([]*Message{{
			Value:       []byte("value-" + strconv.Itoa(i)),
			Timestamp:   int64(i + 1),
			LeaderEpoch: 1,
		}})
		require.NoError(t, err)
	}
	appendOne(0)
	appendOne(1)
	l.SetHighWatermark(1)

	r, err := l.NewReader(0, false)
	require.NoError(t, err)
	headers := make([]byte, 28) // Reused across calls like newSubscribeLoop does.
	for i := int64(0); i < 2; i++ {
		_, offset, _, _, err := r.ReadMessage(context.Background(), headers)
		require.NoError(t, err)
		require.Equal(t, i, offset)
	}

	type result struct {
		offset   int64
		err      error
		panicked interface{}
	}
	resC := make(chan result, 1)
	ctx, cancel := context.WithTimeout(context.Background(), 5*time.Second)
	defer cancel()
	go func() {
		var res result
		defer func() {
			res.panicked = recover()
			resC <- res
		}()
		_, res.offset, _, _, res.err = r.ReadMessage(ctx, headers)
	}()

	// Wait until the reader is parked waiting for the HW.
	waitForHWWaiters(t, l, 1)

	// What a follower does with a replication response from a leader whose HW
	// is 5 while the follower's log ends at 1: adopt the HW, then append.
	l.SetHighWatermark(5)
	time.Sleep(50 * time.Millisecond)
	for i := 2; i <= 6; i++ {
		appendOne(i)
	}
	// Next response: leader HW is 6 now.
	l.SetHighWatermark(6)

	select {
	case res := <-resC:
		require.Nil(t, res.panicked, fmt.Sprintf("reader panicked: %v", res.panicked))
		require.NoError(t, res.err)
		require.Equal(t, int64(2), res.offset, "next committed message must be offset 2")
	case <-time.After(6 * time.Second):
		t.Fatal("reader never delivered offset 2")
	}
}

func waitForHWWaiters(t *testing.T, l *commitLog, n int) {
	deadline := time.Now().Add(5 * time.Second)
	for time.Now().Before(deadline) {
		l.mu.RLock()
		got := len(l.hwWaiters)
		l.mu.RUnlock()
		if got >= n {
			return
		}
		time.Sleep(time.Millisecond)
	}
	t.Fatalf("reader did not park on the HW")
}
