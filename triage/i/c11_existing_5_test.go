// Package directory: server/
package server

import (
	"context"
	"fmt"
	"testing"
	"time"

	"github.com/stretchr/testify/require"

	client "github.com/liftbridge-io/liftbridge-api/v2/go"
)

// EXISTING DEFECT (unchanged code; possibly accepted upstream, see
// TestFetchCursorEmpty): the cursors stream is created with compaction enabled
// but inherits the server-wide retention limits (streams.retention.max.*; the
// default streams.retention.max.age is 7 days). The delete cleaner runs before
// the compaction and drops whole segments by age / messages / bytes no matter
// whether they hold the only, i.e. latest, value of a key. The cursor of a
// consumer which did not commit recently is lost: FetchCursor returns -1 once
// the cursor is not cached anymore.
func TestExistingC11RetentionDropsLatestCursor(t *testing.T) {
	defer cleanupStorage(t)

	s1Config := getTestConfig("a", true, 5050)
	s1Config.CursorsStream.Partitions = 1
	s1Config.Streams.SegmentMaxBytes = 512
	s1Config.Streams.RetentionMaxMessages = 20
	s1 := runServerWithConfig(t, s1Config)
	defer s1.Stop()
	getMetadataLeader(t, 10*time.Second, s1)
	waitForPartition(t, 10*time.Second, cursorsStream, 0, s1)

	var (
		ctx    = context.Background()
		stream = "foo"
	)
	_, err := s1.api.SetCursor(ctx, &client.SetCursorRequest{
		Stream: stream, Partition: 0, CursorId: "idle-consumer", Offset: 5})
	require.NoError(t, err)
	for i := 0; i < 100; i++ {
		_, err := s1.api.SetCursor(ctx, &client.SetCursorRequest{
			Stream: stream, Partition: 0, CursorId: fmt.Sprintf("busy-%d", i%10), Offset: int64(i)})
		require.NoError(t, err)
	}

	// Run the cleaner (retention followed by compaction) and drop the cache,
	// as a leader change of the cursors partition or a restart does.
	require.NoError(t, s1.metadata.GetPartition(cursorsStream, 0).log.Clean())
	s1.cursors.cache.Purge()

	resp, err := s1.api.FetchCursor(ctx, &client.FetchCursorRequest{
		Stream: stream, Partition: 0, CursorId: "idle-consumer"})
	require.NoError(t, err)
	require.Equal(t, int64(5), resp.Offset, "cursor of the idle consumer after a clean")
}
