// Package directory: server/  (copy to server/zz_existing_5_test.go)
// Demonstrates a defect that is present in the UNCHANGED code (property C06).
package server

import (
	"context"
	"fmt"
	"sort"
	"strings"
	"testing"
	"time"

	"github.com/stretchr/testify/require"

	proto "github.com/liftbridge-io/liftbridge/server/protocol"
)

func ex5Fingerprint(s *Server) string {
	var sb strings.Builder
	streams := s.metadata.GetStreams()
	sort.Slice(streams, func(i, j int) bool { return streams[i].GetName() < streams[j].GetName() })
	for _, st := range streams {
		fmt.Fprintf(&sb, "stream %s subject=%s tombstoned=%v\n", st.GetName(), st.GetSubject(), st.IsTombstoned())
		parts := st.GetPartitions()
		ids := make([]int, 0, len(parts))
		for id := range parts {
			ids = append(ids, int(id))
		}
		sort.Ints(ids)
		for _, id := range ids {
			p := parts[int32(id)]
			leader, le := p.GetLeader()
			isr := p.GetISR()
			sort.Strings(isr)
			reps := p.GetReplicas()
			sort.Strings(reps)
			fmt.Fprintf(&sb, "  partition %d leader=%s leaderEpoch=%d epoch=%d isr=%v replicas=%v paused=%v readonly=%v\n",
				id, leader, le, p.GetEpoch(), isr, reps, p.IsPaused(), p.IsReadonly())
		}
	}
	groups := s.metadata.GetConsumerGroups()
	sort.Slice(groups, func(i, j int) bool { return groups[i].GetID() < groups[j].GetID() })
	for _, g := range groups {
		coord, epoch := g.GetCoordinator()
		fmt.Fprintf(&sb, "group %s coordinator=%s epoch=%d\n", g.GetID(), coord, epoch)
		g.mu.RLock()
		mids := make([]string, 0, len(g.members))
		for id := range g.members {
			mids = append(mids, id)
		}
		sort.Strings(mids)
		for _, id := range mids {
			m := g.members[id]
			ss := make([]string, 0, len(m.streams))
			for st := range m.streams {
				ss = append(ss, st)
			}
			sort.Strings(ss)
			as := make([]string, 0, len(m.assignments))
			for st, ps := range m.assignments {
				cp := append([]int32{}, ps...)
				sort.Slice(cp, func(i, j int) bool { return cp[i] < cp[j] })
				as = append(as, fmt.Sprintf("%s:%v", st, cp))
			}
			sort.Strings(as)
			fmt.Fprintf(&sb, "  member %s streams=%v assignments=%v\n", id, ss, as)
		}
		g.mu.RUnlock()
	}
	return sb.String()
}

func ex5Diff(a, b string) string {
	al, bl := strings.Split(a, "\n"), strings.Split(b, "\n")
	var sb strings.Builder
	n := len(al)
	if len(bl) > n {
		n = len(bl)
	}
	for i := 0; i < n; i++ {
		var x, y string
		if i < len(al) {
			x = al[i]
		}
		if i < len(bl) {
			y = bl[i]
		}
		if x != y {
			fmt.Fprintf(&sb, "  before restart: %s\n  after restart:  %s\n", x, y)
		}
	}
	return sb.String()
}

func ex5Apply(t *testing.T, s *Server, op *proto.RaftLog) {
	t.Helper()
	ctx, cancel := context.WithTimeout(context.Background(), 10*time.Second)
	defer cancel()
	f, err := s.getRaft().applyOperation(ctx, op, nil)
	require.NoError(t, err)
	require.NoError(t, f.Error())
	// Let asynchronous side effects of the apply (group rebalances on stream
	// deletion) settle so that the history is applied strictly in order.
	time.Sleep(100 * time.Millisecond)
}

func ex5Create(name string, parts int, replicas []string, leader string) *proto.RaftLog {
	ps := make([]*proto.Partition, parts)
	for i := range ps {
		ps[i] = &proto.Partition{
			Subject: name, Stream: name, Id: int32(i), ReplicationFactor: int32(len(replicas)),
			Replicas: append([]string{}, replicas...), Leader: leader, Isr: append([]string{}, replicas...),
		}
	}
	return &proto.RaftLog{Op: proto.Op_CREATE_STREAM, CreateStreamOp: &proto.CreateStreamOp{
		Stream: &proto.Stream{Name: name, Subject: name, Partitions: ps, CreationTimestamp: 12345},
	}}
}

func ex5Start(t *testing.T) *Server {
	t.Helper()
	cfg := getTestConfig("a", true, 5050)
	cfg.Groups.ConsumerTimeout = time.Hour
	cfg.Clustering.ReplicaMaxLagTime = time.Hour
	s := runServerWithConfig(t, cfg)
	getMetadataLeader(t, 10*time.Second, s)
	return s
}

func ex5Restart(t *testing.T, s *Server) *Server {
	t.Helper()
	require.NoError(t, s.Stop())
	s = runServerWithConfig(t, s.config)
	getMetadataLeader(t, 10*time.Second, s)
	require.NoError(t, s.getRaft().Barrier(10*time.Second).Error())
	time.Sleep(200 * time.Millisecond)
	return s
}

// removeStream notifies the consumer groups of a deleted stream from a new
// goroutine. If the next log entry (here a JOIN of the same group) is applied
// before that goroutine runs, the group epoch has already moved past the index
// of the delete and StreamDeleted is rejected ("proposed group epoch ... is
// less than current epoch", error dropped). The members then stay subscribed
// to the deleted stream for good. Whether this happens depends on goroutine
// scheduling, so two servers applying the same log can end in different
// states. The test pipelines DELETE_STREAM and JOIN_CONSUMER_GROUP so they are
// applied back to back and loops until the bad schedule shows up.
func TestExistingC06StreamDeletedRacesWithNextApply(t *testing.T) {
	defer cleanupStorage(t)
	s := ex5Start(t)
	defer func() { s.Stop() }()

	far := []string{"b", "c", "d"}
	ex5Apply(t, s, ex5Create("keep", 1, far, "b"))
	const iterations = 30
	bad := 0
	for i := 0; i < iterations; i++ {
		stream := fmt.Sprintf("s%d", i)
		group := fmt.Sprintf("g%d", i)
		ex5Apply(t, s, ex5Create(stream, 1, far, "b"))
		ex5Apply(t, s, &proto.RaftLog{Op: proto.Op_CREATE_CONSUMER_GROUP, CreateConsumerGroupOp: &proto.CreateConsumerGroupOp{
			ConsumerGroup: &proto.ConsumerGroup{Id: group, Coordinator: "b",
				Members: []*proto.Consumer{{Id: "m1", Streams: []string{stream, "keep"}}}},
		}})
		del, err := (&proto.RaftLog{Op: proto.Op_DELETE_STREAM, DeleteStreamOp: &proto.DeleteStreamOp{Stream: stream}}).Marshal()
		require.NoError(t, err)
		join, err := (&proto.RaftLog{Op: proto.Op_JOIN_CONSUMER_GROUP, JoinConsumerGroupOp: &proto.JoinConsumerGroupOp{
			GroupId: group, ConsumerId: "m2", Streams: []string{"keep"}}}).Marshal()
		require.NoError(t, err)
		f1 := s.getRaft().Apply(del, 10*time.Second)
		f2 := s.getRaft().Apply(join, 10*time.Second)
		require.NoError(t, f1.Error())
		require.NoError(t, f2.Error())
		time.Sleep(100 * time.Millisecond)
		streams := s.metadata.GetConsumerGroup(group).GetMembers()["m1"]
		for _, st := range streams {
			if st == stream {
				bad++
				t.Logf("iteration %d: member m1 of %s is still subscribed to deleted stream %s (streams=%v)", i, group, stream, streams)
			}
		}
	}
	if bad > 0 {
		t.Fatalf("%d of %d histories [.., delete stream, join group] left a member subscribed to the deleted stream (applied with a pause between the two entries, the subscription is removed)", bad, iterations)
	}
}
