// Package directory: server/commitlog
//
// Existing defect 3 (fails on the UNCHANGED code, minor): a read-only toggle
// that is switched on and off again kills every committed reader parked at the
// end of the log with an anonymous error. SetReadonly(true) wakes the parked
// readers with readonly=true, committedReader.Read returns
// ErrCommitLogReadonly, but Reader.ReadMessage only translates that into the
// ErrCommitLogReadonly sentinel if the log is STILL read-only when it looks
// (`Cause(err) == ErrCommitLogReadonly && r.log.IsReadonly()`); otherwise it
// falls through to `return err` with the wrapped error. The partition is open
// and writable again, yet the subscriber is terminated (newSubscribeLoop turns
// the error into an Unknown status) and never receives the messages committed
// afterwards.
package commitlog

import (
	"context"
	"testing"
	"time"

	"github.com/stretchr/testify/require"
)

func TestExistingReadonlyToggleKillsParkedReader(t *testing.T) {
	l, cleanup := setupWithOptions(t, Options{
		Path:            tempDir(t),
		MaxSegmentBytes: 1 << 20,
	})
	defer cleanup()

	_, err := l.Append([]*Message{{Value: []byte("0"), Timestamp: 1, LeaderEpoch: 1}})
	require.NoError(t, err)
	l.SetHighWatermark(0)

	r, err := l.NewReader(0, false)
	require.NoError(t, err)
	headers := make([]byte, 28)
	_, offset, _, _, err := r.ReadMessage(context.Background(), headers)
	require.NoError(t, err)
	require.Equal(t, int64(0), offset)

	type result struct {
		offset int64
		err    error
	}
	resC := make(chan result, 1)
	ctx, cancel := context.WithTimeout(context.Background(), 5*time.Second)
	defer cancel()
	go func() {
		_, offset, _, _, err := r.ReadMessage(ctx, headers)
		resC <- result{offset, err}
	}()
	deadline := time.Now().Add(5 * time.Second)
	for {
		l.mu.RLock()
		n := len(l.hwWaiters)
		l.mu.RUnlock()
		if n == 1 {
			break
		}
		require.True(t, time.Now().Before(deadline), "reader did not park")
		time.Sleep(time.Millisecond)
	}

	// Read-only is switched on and straight off again.
	l.SetReadonly(true)
	l.SetReadonly(false)
	require.False(t, l.IsReadonly())

	// The partition is writable: a new message is appended and committed.
	_, err = l.Append([]*Message{{Value: []byte("1"), Timestamp: 2, LeaderEpoch: 1}})
	require.NoError(t, err)
	l.SetHighWatermark(1)

	res := <-resC
	if res.err == ErrCommitLogReadonly {
		// Acceptable: a clean end-of-readonly-log indication.
		return
	}
	require.NoError(t, res.err,
		"reader on a writable log was terminated instead of receiving committed offset 1")
	require.Equal(t, int64(1), res.offset)
}
