// Package directory: server/   (package server; run in a private network namespace)
//
// EXISTING DEFECT 2: a subscription with the default start position (new
// only), or with a start offset past the end, on a readonly partition which
// is not empty is rejected with InvalidArgument "Stop offset is before start
// offset" instead of ending with the documented end-of-readonly-partition
// status (ResourceExhausted).
package server

import (
	"context"
	"testing"
	"time"

	"github.com/stretchr/testify/require"
	"google.golang.org/grpc/codes"

	client "github.com/liftbridge-io/liftbridge-api/v2/go"
	"github.com/liftbridge-io/liftbridge/server/commitlog"
	proto "github.com/liftbridge-io/liftbridge/server/protocol"
)

func TestExisting2ReadonlyNewOnlySubscription(t *testing.T) {
	defer cleanupStorage(t)

	server := createServer()
	require.NoError(t, server.Start())
	defer server.Stop()

	p, err := server.newPartition(&proto.Partition{
		Subject:  "existing2",
		Stream:   "existing2",
		Replicas: []string{"a"},
		Leader:   "a",
		Isr:      []string{"a"},
	}, false, nil)
	require.NoError(t, err)
	defer p.Close()

	for i := 0; i < 3; i++ {
		_, err := p.log.Append([]*commitlog.Message{{
			Value:     []byte{byte('0' + i)},
			Timestamp: int64(i + 1),
		}})
		require.NoError(t, err)
	}
	p.log.SetHighWatermark(2)
	p.log.SetReadonly(true)

	for name, req := range map[string]*client.SubscribeRequest{
		"new only (default)": {
			Stream:        "existing2",
			StartPosition: client.StartPosition_NEW_ONLY,
		},
		"offset past the end": {
			Stream:        "existing2",
			StartPosition: client.StartPosition_OFFSET,
			StartOffset:   7,
		},
	} {
		t.Run(name, func(t *testing.T) {
			ctx, cancel := context.WithCancel(context.Background())
			defer cancel()
			sub, st := p.Subscribe(ctx, req)
			if st != nil {
				// Subscribers to a readonly partition are documented to see
				// their subscription end with the readonly error once all
				// messages have been read. There is nothing to read here, so
				// the subscription should end with that status right away.
				require.Equal(t, codes.ResourceExhausted, st.Code(),
					"subscription rejected with %s: %s", st.Code(), st.Message())
				return
			}
			defer sub.Close()
			select {
			case m := <-sub.Messages():
				t.Fatalf("unexpected message %d", m.Offset)
			case s := <-sub.Errors():
				require.Equal(t, codes.ResourceExhausted, s.Code(), s.Message())
			case <-time.After(5 * time.Second):
				t.Fatal("subscription on a readonly partition did not end")
			}
		})
	}
}
