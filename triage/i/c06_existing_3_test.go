// Package directory: server/  (copy to server/zz_existing_3_test.go)
// Demonstrates a defect that is present in the UNCHANGED code (property C06).
package server

import (
	"context"
	"fmt"
	"sort"
	"strings"
	"testing"
	"time"

	"github.com/stretchr/testify/require"

	proto "github.com/liftbridge-io/liftbridge/server/protocol"
)

func ex3Fingerprint(s *Server) string {
	var sb strings.Builder
	streams := s.metadata.GetStreams()
	sort.Slice(streams, func(i, j int) bool { return streams[i].GetName() < streams[j].GetName() })
	for _, st := range streams {
		fmt.Fprintf(&sb, "stream %s subject=%s tombstoned=%v\n", st.GetName(), st.GetSubject(), st.IsTombstoned())
		parts := st.GetPartitions()
		ids := make([]int, 0, len(parts))
		for id := range parts {
			ids = append(ids, int(id))
		}
		sort.Ints(ids)
		for _, id := range ids {
			p := parts[int32(id)]
			leader, le := p.GetLeader()
			isr := p.GetISR()
			sort.Strings(isr)
			reps := p.GetReplicas()
			sort.Strings(reps)
			fmt.Fprintf(&sb, "  partition %d leader=%s leaderEpoch=%d epoch=%d isr=%v replicas=%v paused=%v readonly=%v\n",
				id, leader, le, p.GetEpoch(), isr, reps, p.IsPaused(), p.IsReadonly())
		}
	}
	groups := s.metadata.GetConsumerGroups()
	sort.Slice(groups, func(i, j int) bool { return groups[i].GetID() < groups[j].GetID() })
	for _, g := range groups {
		coord, epoch := g.GetCoordinator()
		fmt.Fprintf(&sb, "group %s coordinator=%s epoch=%d\n", g.GetID(), coord, epoch)
		g.mu.RLock()
		mids := make([]string, 0, len(g.members))
		for id := range g.members {
			mids = append(mids, id)
		}
		sort.Strings(mids)
		for _, id := range mids {
			m := g.members[id]
			ss := make([]string, 0, len(m.streams))
			for st := range m.streams {
				ss = append(ss, st)
			}
			sort.Strings(ss)
			as := make([]string, 0, len(m.assignments))
			for st, ps := range m.assignments {
				cp := append([]int32{}, ps...)
				sort.Slice(cp, func(i, j int) bool { return cp[i] < cp[j] })
				as = append(as, fmt.Sprintf("%s:%v", st, cp))
			}
			sort.Strings(as)
			fmt.Fprintf(&sb, "  member %s streams=%v assignments=%v\n", id, ss, as)
		}
		g.mu.RUnlock()
	}
	return sb.String()
}

func ex3Diff(a, b string) string {
	al, bl := strings.Split(a, "\n"), strings.Split(b, "\n")
	var sb strings.Builder
	n := len(al)
	if len(bl) > n {
		n = len(bl)
	}
	for i := 0; i < n; i++ {
		var x, y string
		if i < len(al) {
			x = al[i]
		}
		if i < len(bl) {
			y = bl[i]
		}
		if x != y {
			fmt.Fprintf(&sb, "  before restart: %s\n  after restart:  %s\n", x, y)
		}
	}
	return sb.String()
}

func ex3Apply(t *testing.T, s *Server, op *proto.RaftLog) {
	t.Helper()
	ctx, cancel := context.WithTimeout(context.Background(), 10*time.Second)
	defer cancel()
	f, err := s.getRaft().applyOperation(ctx, op, nil)
	require.NoError(t, err)
	require.NoError(t, f.Error())
	// Let asynchronous side effects of the apply (group rebalances on stream
	// deletion) settle so that the history is applied strictly in order.
	time.Sleep(100 * time.Millisecond)
}

func ex3Create(name string, parts int, replicas []string, leader string) *proto.RaftLog {
	ps := make([]*proto.Partition, parts)
	for i := range ps {
		ps[i] = &proto.Partition{
			Subject: name, Stream: name, Id: int32(i), ReplicationFactor: int32(len(replicas)),
			Replicas: append([]string{}, replicas...), Leader: leader, Isr: append([]string{}, replicas...),
		}
	}
	return &proto.RaftLog{Op: proto.Op_CREATE_STREAM, CreateStreamOp: &proto.CreateStreamOp{
		Stream: &proto.Stream{Name: name, Subject: name, Partitions: ps, CreationTimestamp: 12345},
	}}
}

func ex3Start(t *testing.T) *Server {
	t.Helper()
	cfg := getTestConfig("a", true, 5050)
	cfg.Groups.ConsumerTimeout = time.Hour
	cfg.Clustering.ReplicaMaxLagTime = time.Hour
	s := runServerWithConfig(t, cfg)
	getMetadataLeader(t, 10*time.Second, s)
	return s
}

func ex3Restart(t *testing.T, s *Server) *Server {
	t.Helper()
	require.NoError(t, s.Stop())
	s = runServerWithConfig(t, s.config)
	getMetadataLeader(t, 10*time.Second, s)
	require.NoError(t, s.getRaft().Barrier(10*time.Second).Error())
	time.Sleep(200 * time.Millisecond)
	return s
}

// Live, deleting a stream notifies the consumer groups with the index of the
// DELETE_STREAM entry, which becomes the group epoch. On replay the delete
// only tombstones the stream; the groups are notified when recovery finishes
// (or when the stream is re-created) with the index of THAT entry. The group
// epoch after a restart therefore differs from the one before the restart and
// from every server that applied the log live (consumers fetching assignments
// with the epoch they know get ErrGroupEpoch).
func TestExistingC06GroupEpochAfterReplayedStreamDelete(t *testing.T) {
	defer cleanupStorage(t)
	s := ex3Start(t)
	defer func() { s.Stop() }()

	me := []string{"a"}
	ex3Apply(t, s, ex3Create("s1", 3, me, "a"))
	ex3Apply(t, s, ex3Create("s2", 2, me, "a"))
	ex3Apply(t, s, &proto.RaftLog{Op: proto.Op_CREATE_CONSUMER_GROUP, CreateConsumerGroupOp: &proto.CreateConsumerGroupOp{
		ConsumerGroup: &proto.ConsumerGroup{Id: "g1", Coordinator: "b",
			Members: []*proto.Consumer{{Id: "m1", Streams: []string{"s1", "s2"}}}},
	}})
	ex3Apply(t, s, &proto.RaftLog{Op: proto.Op_DELETE_STREAM, DeleteStreamOp: &proto.DeleteStreamOp{Stream: "s1"}})
	ex3Apply(t, s, ex3Create("s3", 1, me, "a"))

	before := ex3Fingerprint(s)
	s = ex3Restart(t, s) // plain log replay, no snapshot
	after := ex3Fingerprint(s)
	if before != after {
		t.Fatalf("metadata differs after restart (log replay):\n%s", ex3Diff(before, after))
	}
}
