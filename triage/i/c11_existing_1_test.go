// Package directory: server/
package server

import (
	"context"
	"testing"
	"time"

	"github.com/stretchr/testify/require"

	client "github.com/liftbridge-io/liftbridge-api/v2/go"
)

// EXISTING DEFECT (unchanged code): the cursor key is built by joining the
// cursor id, the stream name and the partition with commas without escaping,
// so two different (cursor id, stream) pairs share one key when the comma
// moves between the two. Storing one cursor makes FetchCursor return its
// offset for the other one, for which no cursor was ever stored.
func TestExistingC11CursorKeyCollision(t *testing.T) {
	defer cleanupStorage(t)

	s1Config := getTestConfig("a", true, 5050)
	s1Config.CursorsStream.Partitions = 1
	s1 := runServerWithConfig(t, s1Config)
	defer s1.Stop()
	getMetadataLeader(t, 10*time.Second, s1)
	waitForPartition(t, 10*time.Second, cursorsStream, 0, s1)

	ctx := context.Background()

	// Cursor "a,b" on stream "c".
	_, err := s1.api.SetCursor(ctx, &client.SetCursorRequest{
		CursorId: "a,b", Stream: "c", Partition: 0, Offset: 42})
	require.NoError(t, err)

	// Cursor "a" on stream "b,c" was never stored.
	resp, err := s1.api.FetchCursor(ctx, &client.FetchCursorRequest{
		CursorId: "a", Stream: "b,c", Partition: 0})
	require.NoError(t, err)
	require.Equal(t, int64(-1), resp.Offset,
		"FetchCursor returned the offset stored for another (cursor id, stream)")
}
