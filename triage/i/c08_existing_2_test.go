// Package directory: server/commitlog
//
// PART B, findings 2 and 3 (both fail on the UNCHANGED code).
//
// Finding 2: a ReverseReader does not survive a compaction. It keeps the
// segment list and the segment objects it was created with; once compaction
// has replaced (or dropped) a segment, the next ReadMessage that touches it
// fails with ErrSegmentClosed (the closed index) instead of re-initialising on
// the replacement like the forward Reader does (reader.go:84-96).
//
// Finding 3: while a compaction is running, commitLog.segments still lists
// the OLD segment objects - it is only swapped at the very end of Clean(). The
// old objects are already closed, so for the whole rest of the compaction
// NewReader (and the forward reader's own re-initialisation after
// ErrSegmentReplaced, which goes through the same code) fails with
// ErrSegmentClosed for any offset that lies inside a segment that has already
// been replaced.
package commitlog

import (
	"context"
	"fmt"
	"strings"
	"sync"
	"testing"

	"github.com/stretchr/testify/require"

	"github.com/liftbridge-io/liftbridge/server/logger"
)

func seedEx2Fill(t *testing.T, l *commitLog) {
	keys := []string{"a", "b", "a", "c", "b", "d", "a", "e", "f", "g"}
	for i, k := range keys {
		offs, err := l.Append([]*Message{{
			Key: []byte(k), Value: []byte(fmt.Sprintf("v%d", i)), Timestamp: int64(1000 + i),
		}})
		require.NoError(t, err)
		l.SetHighWatermark(offs[0])
	}
	// two messages per segment: [0 1][2 3][4 5][6 7][8 9]
	// survivors: 3(c) 4(b) 5(d) 6(a) 7(e) 8(f) 9(g); segments [0 1] is dropped
	// and [2 3] shrinks to [3].
	require.Equal(t, 5, len(l.Segments()))
}

func TestSeedExisting2ReverseReaderAcrossCompaction(t *testing.T) {
	l, cleanup := setupWithOptions(t, Options{
		Path:            tempDir(t),
		MaxSegmentBytes: 90,
		Compact:         true,
	})
	defer cleanup()
	seedEx2Fill(t, l)

	r, err := l.NewReverseReader(9, true)
	require.NoError(t, err)
	headers := make([]byte, 28)
	ctx := context.Background()

	// Read the two messages of the newest segment.
	for _, exp := range []int64{9, 8} {
		_, off, _, _, err := r.ReadMessage(ctx, headers)
		require.NoError(t, err)
		require.Equal(t, exp, off)
	}

	require.NoError(t, l.Clean())

	// The reader must go on with exactly the surviving messages.
	for _, exp := range []int64{7, 6, 5, 4, 3} {
		_, off, _, _, err := r.ReadMessage(ctx, headers)
		require.NoError(t, err, "reverse reader broke after compaction (next expected offset %d)", exp)
		require.Equal(t, exp, off)
	}
}

// seedEx2Logger runs a callback when the compaction cleaner reports that it
// has finished, i.e. after every segment was replaced and before Clean() takes
// the log mutex to publish the new segment list.
type seedEx2Logger struct {
	logger.Logger
	mu   sync.Mutex
	hook func()
}

func (s *seedEx2Logger) Debugf(format string, v ...interface{}) {
	if strings.HasPrefix(format, "Finished compacting log") {
		s.mu.Lock()
		h := s.hook
		s.hook = nil
		s.mu.Unlock()
		if h != nil {
			h()
		}
	}
}

func TestSeedExisting3NewReaderWhileCompactionRuns(t *testing.T) {
	lg := &seedEx2Logger{Logger: noopLogger()}
	l, cleanup := setupWithOptions(t, Options{
		Path:            tempDir(t),
		MaxSegmentBytes: 90,
		Compact:         true,
		Logger:          lg,
	})
	defer cleanup()
	seedEx2Fill(t, l)

	var (
		hookErr error
		gotOff  int64 = -1
		ran     bool
	)
	lg.mu.Lock()
	lg.hook = func() {
		ran = true
		// Offset 4 survives compaction (latest "b") and lies in a segment
		// that has been replaced by now.
		r, err := l.NewReader(4, true)
		if err != nil {
			hookErr = err
			return
		}
		_, off, _, _, err := r.ReadMessage(context.Background(), make([]byte, 28))
		hookErr, gotOff = err, off
	}
	lg.mu.Unlock()

	require.NoError(t, l.Clean())
	require.True(t, ran, "hook did not run")
	require.NoError(t, hookErr, "reader started while the compaction was still running")
	require.Equal(t, int64(4), gotOff)
}
