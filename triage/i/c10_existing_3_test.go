// Package directory: server/commitlog/   (package commitlog)
//
// EXISTING DEFECT 3: a ReverseReader keeps the segment list it was created
// with and has no handling for segments which are replaced by compaction or
// deleted by retention while it is reading. Once the cleaner has run, the
// reverse subscription fails with "segment has been closed" when it reaches a
// replaced/deleted segment, instead of delivering the retained messages and
// ending with the beginning-of-partition status. The forward Reader handles
// the compaction case (ErrSegmentReplaced -> re-initialise).
package commitlog

import (
	"context"
	"io"
	"strconv"
	"testing"

	"github.com/stretchr/testify/require"
)

func TestExisting3ReverseReaderSurvivesCompaction(t *testing.T) {
	l, cleanup := setupWithOptions(t, Options{
		Path:            tempDir(t),
		MaxSegmentBytes: 100,
		Compact:         true,
	})
	defer cleanup()

	// Twelve messages in several segments, keys repeat so that compaction
	// rewrites the older segments.
	// The first two messages have no key and are therefore retained in the
	// (rewritten) first segment.
	for i := 0; i < 12; i++ {
		m := &Message{
			Key:       []byte("k" + strconv.Itoa(i%3)),
			Value:     []byte("v" + strconv.Itoa(i)),
			Timestamp: int64(i + 1),
		}
		if i < 2 {
			m.Key = nil
		}
		_, err := l.Append([]*Message{m})
		require.NoError(t, err)
	}
	l.SetHighWatermark(11)
	require.True(t, len(l.Segments()) > 2)

	r, err := l.NewReverseReader(11, false)
	require.NoError(t, err)
	headers := make([]byte, 28)
	_, offset, _, _, err := r.ReadMessage(context.Background(), headers)
	require.NoError(t, err)
	require.Equal(t, int64(11), offset)

	// The cleaner runs while the subscription is in progress.
	require.NoError(t, l.Clean())

	// What is retained now, newest first, below offset 11.
	var expected []int64
	fresh, err := l.NewReverseReader(10, false)
	require.NoError(t, err)
	for {
		_, o, _, _, err := fresh.ReadMessage(context.Background(), headers)
		if err == io.EOF {
			break
		}
		require.NoError(t, err)
		expected = append(expected, o)
	}
	require.NotEmpty(t, expected)

	var got []int64
	for {
		_, o, _, _, err := r.ReadMessage(context.Background(), headers)
		if err == io.EOF {
			break
		}
		require.NoError(t, err, "reverse reader failed after compaction, delivered %v of %v", got, expected)
		got = append(got, o)
	}
	require.Equal(t, expected, got)
}

func TestExisting3ReverseReaderSurvivesRetention(t *testing.T) {
	l, cleanup := setupWithOptions(t, Options{
		Path:            tempDir(t),
		MaxSegmentBytes: 100,
		MaxLogMessages:  5,
	})
	defer cleanup()

	for i := 0; i < 12; i++ {
		_, err := l.Append([]*Message{{
			Value:     []byte("v" + strconv.Itoa(i)),
			Timestamp: int64(i + 1),
		}})
		require.NoError(t, err)
	}
	l.SetHighWatermark(11)

	r, err := l.NewReverseReader(11, false)
	require.NoError(t, err)
	headers := make([]byte, 28)
	_, offset, _, _, err := r.ReadMessage(context.Background(), headers)
	require.NoError(t, err)
	require.Equal(t, int64(11), offset)

	// Retention trims the oldest segments while the subscription is in
	// progress.
	require.NoError(t, l.Clean())
	oldest := l.OldestOffset()
	require.True(t, oldest > 0)

	// The subscription must deliver what is still retained and then report
	// the beginning of the partition (io.EOF), not an internal error.
	last := offset
	for {
		_, o, _, _, err := r.ReadMessage(context.Background(), headers)
		if err == io.EOF {
			break
		}
		require.NoError(t, err, "reverse reader failed after retention at offset %d (oldest retained %d)", last, oldest)
		last = o
	}
	require.Equal(t, oldest, last)
}
