// Belongs in: server/commitlog (package commitlog)
//
// Existing defect 3: the number of headers is stored as int16(len(Headers)).
// With 65536 or more headers the count wraps (65536 -> 0), the message is
// accepted, its CRC is valid, and every reader gets back a message whose
// headers are not the ones that were stored.
package commitlog

import (
	"bytes"
	"context"
	"fmt"
	"testing"
	"time"
)

func TestExisting3HeaderCountWraps(t *testing.T) {
	cl, err := New(Options{Path: t.TempDir()})
	if err != nil {
		t.Fatal(err)
	}
	defer cl.Close()

	for _, n := range []int{1000, 65535, 65536, 65537} {
		headers := make(map[string][]byte, n)
		for i := 0; i < n; i++ {
			headers[fmt.Sprintf("%x", i)] = []byte{byte(i)}
		}
		offs, err := cl.Append([]*Message{{
			Value:     []byte("v"),
			Timestamp: time.Now().UnixNano(),
			Headers:   headers,
		}})
		if err != nil {
			// Rejecting the message would be fine.
			t.Logf("%d headers rejected: %v", n, err)
			continue
		}
		r, err := cl.NewReader(offs[0], true)
		if err != nil {
			t.Fatal(err)
		}
		ctx, cancel := context.WithTimeout(context.Background(), 2*time.Second)
		m, _, _, _, err := r.ReadMessage(ctx, make([]byte, 28))
		cancel()
		if err != nil {
			t.Fatal(err)
		}
		got := m.Headers()
		if len(got) != n {
			t.Errorf("stored a message with %d headers at offset %d, read back %d headers",
				n, offs[0], len(got))
			continue
		}
		for k, v := range headers {
			if !bytes.Equal(got[k], v) {
				t.Errorf("%d headers: header %q read back as %v, want %v", n, k, got[k], v)
				break
			}
		}
	}
}
