// Belongs in package directory: server/commitlog
//
// PART B, finding 3. The "compacted" subtest fails on the UNCHANGED code, the
// "not compacted" subtest passes.
//
// Log compaction rebuilds the leader epoch cache from the messages that
// survive (compactCleaner.compact + leaderEpochCache.Replace). The start
// offset of an epoch thereby moves forward to the first SURVIVING message of
// that epoch (TestCleanerReplaceLeaderEpochOffsets even pins this: the answer
// for epoch 1 changes from 5 to 9). A leader that has compacted therefore
// tells a rejoining replica that its old epoch ended later than it really did,
// and the replica keeps its orphaned, never committed tail.
package commitlog

import (
	"context"
	"os"
	"strconv"
	"testing"
	"time"

	"github.com/stretchr/testify/require"
)

func TestExisting3CompactionMovesEpochBoundary(t *testing.T) {
	for _, compact := range []bool{false, true} {
		name := "not compacted"
		if compact {
			name = "compacted"
		}
		t.Run(name, func(t *testing.T) {
			open := func(path string) *commitLog {
				// One message per segment, as in the existing cleaner tests.
				l, err := New(Options{Path: path, MaxSegmentBytes: 6, Compact: true})
				require.NoError(t, err)
				return l.(*commitLog)
			}
			publish := func(l *commitLog, epoch uint64, key, value string) {
				_, err := l.Append([]*Message{{
					Key:         []byte(key),
					Value:       []byte(value),
					Timestamp:   time.Now().UnixNano(),
					LeaderEpoch: epoch,
				}})
				require.NoError(t, err)
			}
			// fetch copies what the follower is missing from the leader, the
			// way the replicator does, applying the follower's check in
			// handleReplicationResponse (drop anything before its next offset).
			fetch := func(leader, follower *commitLog) {
				ctx, cancel := context.WithTimeout(context.Background(), 5*time.Second)
				defer cancel()
				for follower.NewestOffset() < leader.NewestOffset() {
					r, err := leader.NewReader(follower.NewestOffset()+1, true)
					require.NoError(t, err)
					hdr := make([]byte, 28)
					msg, offset, _, _, err := r.ReadMessage(ctx, hdr)
					require.NoError(t, err)
					require.True(t, offset >= follower.NewestOffset()+1)
					_, err = follower.AppendMessageSet(append(append([]byte{}, hdr...), msg...))
					require.NoError(t, err)
				}
			}
			values := func(l *commitLog) map[int64]string {
				out := map[int64]string{}
				r, err := l.NewReader(0, true)
				require.NoError(t, err)
				ctx, cancel := context.WithTimeout(context.Background(), 5*time.Second)
				defer cancel()
				hdr := make([]byte, 28)
				for {
					msg, offset, _, _, err := r.ReadMessage(ctx, hdr)
					require.NoError(t, err)
					out[offset] = string(msg.Value())
					if offset >= l.NewestOffset() {
						return out
					}
				}
			}

			pathA, err := os.MkdirTemp("", "existing3_a_")
			require.NoError(t, err)
			defer os.RemoveAll(pathA)
			pathB, err := os.MkdirTemp("", "existing3_b_")
			require.NoError(t, err)
			defer os.RemoveAll(pathB)
			a, b := open(pathA), open(pathB)
			defer func() { a.Close(); b.Close() }()

			// Epoch 1, leader A: offsets 0..4 reach B and are committed.
			require.NoError(t, a.NewLeaderEpoch(1))
			for i := 0; i < 5; i++ {
				publish(a, 1, "foo", "foo"+strconv.Itoa(i))
			}
			fetch(a, b)
			a.SetHighWatermark(4)
			b.SetHighWatermark(4)

			// A writes two more messages that reach nobody, then dies.
			publish(a, 1, "foo", "orphan5")
			publish(a, 1, "foo", "orphan6")
			require.NoError(t, a.Close())

			// Epoch 2, leader B (elected: epoch 2 starts after offset 4).
			// Offsets 5..10 are published and committed.
			require.NoError(t, b.NewLeaderEpoch(2))
			for i := 5; i <= 10; i++ {
				publish(b, 2, "bar", "bar"+strconv.Itoa(i))
			}
			b.SetHighWatermark(10)
			require.Equal(t, int64(4), b.LastOffsetForLeaderEpoch(1))

			if compact {
				// The cleaner runs on the leader.
				require.NoError(t, b.Clean())
			}

			// A comes back and starts following B: truncate to the end of
			// its last epoch as reported by the leader, then fetch.
			a = open(pathA)
			last := b.LastOffsetForLeaderEpoch(a.LastLeaderEpoch())
			require.NoError(t, a.Truncate(last+1))
			fetch(b, a)
			a.SetHighWatermark(b.HighWatermark())

			// A is now a caught-up follower with HW 10 and may be elected.
			// Nothing it holds at or below the HW may be a message that was
			// never committed.
			for offset, v := range values(a) {
				if offset <= a.HighWatermark() {
					require.NotContains(t, v, "orphan",
						"replica A holds the never committed message %q at offset %d, below its HW %d "+
							"(leader answered %d for the end of epoch 1, the epoch really ended at 4)",
						v, offset, a.HighWatermark(), last)
				}
			}
		})
	}
}
