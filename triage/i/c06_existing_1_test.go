// Package directory: server/  (copy to server/zz_existing_1_test.go)
// Demonstrates a defect that is present in the UNCHANGED code (property C06).
package server

import (
	"context"
	"fmt"
	"sort"
	"strings"
	"testing"
	"time"

	"github.com/stretchr/testify/require"

	proto "github.com/liftbridge-io/liftbridge/server/protocol"
)

func ex1Fingerprint(s *Server) string {
	var sb strings.Builder
	streams := s.metadata.GetStreams()
	sort.Slice(streams, func(i, j int) bool { return streams[i].GetName() < streams[j].GetName() })
	for _, st := range streams {
		fmt.Fprintf(&sb, "stream %s subject=%s tombstoned=%v\n", st.GetName(), st.GetSubject(), st.IsTombstoned())
		parts := st.GetPartitions()
		ids := make([]int, 0, len(parts))
		for id := range parts {
			ids = append(ids, int(id))
		}
		sort.Ints(ids)
		for _, id := range ids {
			p := parts[int32(id)]
			leader, le := p.GetLeader()
			isr := p.GetISR()
			sort.Strings(isr)
			reps := p.GetReplicas()
			sort.Strings(reps)
			fmt.Fprintf(&sb, "  partition %d leader=%s leaderEpoch=%d epoch=%d isr=%v replicas=%v paused=%v readonly=%v\n",
				id, leader, le, p.GetEpoch(), isr, reps, p.IsPaused(), p.IsReadonly())
		}
	}
	groups := s.metadata.GetConsumerGroups()
	sort.Slice(groups, func(i, j int) bool { return groups[i].GetID() < groups[j].GetID() })
	for _, g := range groups {
		coord, epoch := g.GetCoordinator()
		fmt.Fprintf(&sb, "group %s coordinator=%s epoch=%d\n", g.GetID(), coord, epoch)
		g.mu.RLock()
		mids := make([]string, 0, len(g.members))
		for id := range g.members {
			mids = append(mids, id)
		}
		sort.Strings(mids)
		for _, id := range mids {
			m := g.members[id]
			ss := make([]string, 0, len(m.streams))
			for st := range m.streams {
				ss = append(ss, st)
			}
			sort.Strings(ss)
			as := make([]string, 0, len(m.assignments))
			for st, ps := range m.assignments {
				cp := append([]int32{}, ps...)
				sort.Slice(cp, func(i, j int) bool { return cp[i] < cp[j] })
				as = append(as, fmt.Sprintf("%s:%v", st, cp))
			}
			sort.Strings(as)
			fmt.Fprintf(&sb, "  member %s streams=%v assignments=%v\n", id, ss, as)
		}
		g.mu.RUnlock()
	}
	return sb.String()
}

func ex1Diff(a, b string) string {
	al, bl := strings.Split(a, "\n"), strings.Split(b, "\n")
	var sb strings.Builder
	n := len(al)
	if len(bl) > n {
		n = len(bl)
	}
	for i := 0; i < n; i++ {
		var x, y string
		if i < len(al) {
			x = al[i]
		}
		if i < len(bl) {
			y = bl[i]
		}
		if x != y {
			fmt.Fprintf(&sb, "  before restart: %s\n  after restart:  %s\n", x, y)
		}
	}
	return sb.String()
}

func ex1Apply(t *testing.T, s *Server, op *proto.RaftLog) {
	t.Helper()
	ctx, cancel := context.WithTimeout(context.Background(), 10*time.Second)
	defer cancel()
	f, err := s.getRaft().applyOperation(ctx, op, nil)
	require.NoError(t, err)
	require.NoError(t, f.Error())
	// Let asynchronous side effects of the apply (group rebalances on stream
	// deletion) settle so that the history is applied strictly in order.
	time.Sleep(100 * time.Millisecond)
}

func ex1Create(name string, parts int, replicas []string, leader string) *proto.RaftLog {
	ps := make([]*proto.Partition, parts)
	for i := range ps {
		ps[i] = &proto.Partition{
			Subject: name, Stream: name, Id: int32(i), ReplicationFactor: int32(len(replicas)),
			Replicas: append([]string{}, replicas...), Leader: leader, Isr: append([]string{}, replicas...),
		}
	}
	return &proto.RaftLog{Op: proto.Op_CREATE_STREAM, CreateStreamOp: &proto.CreateStreamOp{
		Stream: &proto.Stream{Name: name, Subject: name, Partitions: ps, CreationTimestamp: 12345},
	}}
}

func ex1Start(t *testing.T) *Server {
	t.Helper()
	cfg := getTestConfig("a", true, 5050)
	cfg.Groups.ConsumerTimeout = time.Hour
	cfg.Clustering.ReplicaMaxLagTime = time.Hour
	s := runServerWithConfig(t, cfg)
	getMetadataLeader(t, 10*time.Second, s)
	return s
}

func ex1Restart(t *testing.T, s *Server) *Server {
	t.Helper()
	require.NoError(t, s.Stop())
	s = runServerWithConfig(t, s.config)
	getMetadataLeader(t, 10*time.Second, s)
	require.NoError(t, s.getRaft().Barrier(10*time.Second).Error())
	time.Sleep(200 * time.Millisecond)
	return s
}

// The ResumeAll flag of a paused stream is FSM state (set by applying
// PAUSE_STREAM) but it is not part of the snapshot, so a server that restarts
// from a snapshot taken after the pause loses it.
func TestExistingC06ResumeAllLostBySnapshot(t *testing.T) {
	defer cleanupStorage(t)
	s := ex1Start(t)
	defer func() { s.Stop() }()

	far := []string{"b", "c", "d"}
	ex1Apply(t, s, ex1Create("s1", 3, far, "b"))
	ex1Apply(t, s, &proto.RaftLog{Op: proto.Op_PAUSE_STREAM, PauseStreamOp: &proto.PauseStreamOp{
		Stream: "s1", Partitions: []int32{1}, ResumeAll: true}})
	require.NoError(t, s.getRaft().Snapshot().Error())
	ex1Apply(t, s, ex1Create("s2", 1, far, "b"))

	require.True(t, s.metadata.GetStream("s1").GetResumeAll(), "sanity: ResumeAll set by the pause")
	before := ex1Fingerprint(s)
	s = ex1Restart(t, s)
	require.Equal(t, before, ex1Fingerprint(s), "everything that IS snapshotted is restored")
	require.True(t, s.metadata.GetStream("s1").GetResumeAll(),
		"ResumeAll of paused stream s1 lost after restart from snapshot")
}

// The flag is also cleared outside of the state machine: the server that
// handles the publish which resumes the stream calls SetResumeAll(false)
// locally (api.go resumeStream), nothing in the log clears it. Replaying the
// very same log therefore gives a different value.
func TestExistingC06ResumeAllClearedOutsideFSM(t *testing.T) {
	defer cleanupStorage(t)
	s := ex1Start(t)
	defer func() { s.Stop() }()

	me := []string{"a"}
	ex1Apply(t, s, ex1Create("s1", 2, me, "a"))
	ex1Apply(t, s, &proto.RaftLog{Op: proto.Op_PAUSE_STREAM, PauseStreamOp: &proto.PauseStreamOp{
		Stream: "s1", ResumeAll: true}})
	// What the publish path does when it finds the stream paused.
	api := &apiServer{Server: s}
	require.NoError(t, api.resumeStream(context.Background(), "s1", 0))
	time.Sleep(200 * time.Millisecond)
	require.False(t, s.metadata.GetPartition("s1", 0).IsPaused())
	require.False(t, s.metadata.GetPartition("s1", 1).IsPaused())

	live := s.metadata.GetStream("s1").GetResumeAll()
	s = ex1Restart(t, s)
	replayed := s.metadata.GetStream("s1").GetResumeAll()
	require.Equal(t, live, replayed, "ResumeAll differs between the live server and a replay of the same log")
}
