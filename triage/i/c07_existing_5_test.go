// Package directory: server/
package server

import (
	"context"
	"testing"
	"time"

	"github.com/stretchr/testify/require"

	proto "github.com/liftbridge-io/liftbridge/server/protocol"
)

// The tests in this file drive the controller (metadata leader) of a
// single-server cluster. The partition under test is replicated by brokers
// which do not exist ("b", "c", ...), so that the controller itself neither
// leads nor follows the partition and every leader report / ISR change is a
// pure metadata operation whose order the test controls completely.

func existing5C07Controller(t *testing.T, leaderTimeout time.Duration) *Server {
	config := getTestConfig("a", true, 5050)
	config.Clustering.ReplicaMaxLeaderTimeout = leaderTimeout
	s := runServerWithConfig(t, config)
	getMetadataLeader(t, 10*time.Second, s)
	return s
}

func existing5C07CreatePartition(t *testing.T, s *Server, name string, replicas []string, leader string) *partition {
	isr := make([]string, len(replicas))
	copy(isr, replicas)
	op := &proto.RaftLog{
		Op: proto.Op_CREATE_STREAM,
		CreateStreamOp: &proto.CreateStreamOp{
			Stream: &proto.Stream{
				Name:              name,
				Subject:           name,
				CreationTimestamp: time.Now().UnixNano(),
				Partitions: []*proto.Partition{{
					Subject:           name,
					Stream:            name,
					Id:                0,
					ReplicationFactor: int32(len(replicas)),
					Replicas:          replicas,
					Isr:               isr,
					Leader:            leader,
				}},
			},
		},
	}
	future, err := s.getRaft().applyOperation(context.Background(), op, s.metadata.checkCreateStreamPreconditions)
	require.NoError(t, err)
	require.NoError(t, future.Error())
	p := s.metadata.GetPartition(name, 0)
	require.NotNil(t, p)
	return p
}

func existing5C07Report(s *Server, p *partition, witness string) error {
	leader, epoch := p.GetLeader()
	st := s.metadata.ReportLeader(context.Background(), &proto.ReportLeaderOp{
		Stream:      p.Stream,
		Partition:   p.Id,
		Replica:     witness,
		Leader:      leader,
		LeaderEpoch: epoch,
	})
	if st != nil {
		return st.Err()
	}
	return nil
}

// The new leader is chosen from the ISR as it was when the quorum was reached,
// not from the ISR at the time the leader change is applied. The leader b
// removes c from the ISR (a request naming the current leader and epoch); the
// request is in flight when c's report completes the quorum. c is selected,
// the shrink is applied first, and the partition ends up with a leader which
// is not in the ISR.
func TestExistingC07NewLeaderNotInISR(t *testing.T) {
	defer cleanupStorage(t)
	s := existing5C07Controller(t, 30*time.Second)
	defer s.Stop()

	p := existing5C07CreatePartition(t, s, "foo", []string{"b", "c"}, "b")
	oldLeader, oldEpoch := p.GetLeader()

	r := s.getRaft()
	r.Lock()
	shrinkDone := make(chan error, 1)
	go func() {
		st := s.metadata.ShrinkISR(context.Background(), &proto.ShrinkISROp{
			Stream: "foo", Partition: 0, ReplicaToRemove: "c", Leader: oldLeader, LeaderEpoch: oldEpoch,
		})
		if st != nil {
			shrinkDone <- st.Err()
			return
		}
		shrinkDone <- nil
	}()
	time.Sleep(300 * time.Millisecond)
	reportDone := make(chan error, 1)
	go func() { reportDone <- existing5C07Report(s, p, "c") }()
	time.Sleep(300 * time.Millisecond)
	r.Unlock()
	require.NoError(t, <-shrinkDone)
	reportErr := <-reportDone

	leader, epoch := p.GetLeader()
	isr := p.GetISR()
	t.Logf("report error: %v, leader %s epoch %d, ISR %v", reportErr, leader, epoch, isr)
	require.Contains(t, isr, leader, "leader %s (epoch %d) was chosen although it is not in the ISR %v",
		leader, epoch, isr)
}
