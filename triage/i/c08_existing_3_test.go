// Package directory: server/commitlog
//
// PART B, finding 4 (fails on the UNCHANGED code; adjacent to C08: compaction
// x Truncate, which the property text does not list). Clean() works on a
// snapshot of the segment list and publishes its result unconditionally. If
// the log is truncated while the compaction runs (a follower truncating to the
// leader's log), then
//   - the compaction scanner treats the ErrSegmentClosed of the truncated /
//     deleted segments as "end of segment", finds the copy empty and calls
//     cleanupEmptySegment, whose old.Delete() removes the files BY NAME - these
//     are now the files of the segment Truncate() just put in place;
//   - Clean() then overwrites commitLog.segments with its own list, which
//     still ends with the deleted former active segment, so the real active
//     segment is no longer listed.
package commitlog

import (
	"context"
	"fmt"
	"os"
	"strings"
	"sync"
	"testing"
	"time"

	"github.com/stretchr/testify/require"

	"github.com/liftbridge-io/liftbridge/server/logger"
)

type seedEx3Logger struct {
	logger.Logger
	mu   sync.Mutex
	hook func()
}

func (s *seedEx3Logger) Debugf(format string, v ...interface{}) {
	if strings.HasPrefix(format, "Compacting log") {
		s.mu.Lock()
		h := s.hook
		s.hook = nil
		s.mu.Unlock()
		if h != nil {
			h()
		}
	}
}

func TestSeedExisting4TruncateWhileCompactionRuns(t *testing.T) {
	lg := &seedEx3Logger{Logger: noopLogger()}
	l, cleanup := setupWithOptions(t, Options{
		Path:            tempDir(t),
		MaxSegmentBytes: 90, // two messages per segment
		Compact:         true,
		Logger:          lg,
	})
	defer cleanup()

	for i, k := range []string{"a", "b", "a", "c", "b", "d", "a", "e", "f", "g"} {
		offs, err := l.Append([]*Message{{
			Key: []byte(k), Value: []byte(fmt.Sprintf("v%d", i)), Timestamp: int64(1000 + i),
		}})
		require.NoError(t, err)
		l.SetHighWatermark(offs[0])
	}
	require.Equal(t, 5, len(l.Segments()))

	lg.mu.Lock()
	lg.hook = func() { require.NoError(t, l.Truncate(5)) } // keep 0..4
	lg.mu.Unlock()

	require.NoError(t, l.Clean())
	require.Equal(t, int64(4), l.NewestOffset())

	active := l.activeSegment()
	segs := l.Segments()
	if segs[len(segs)-1] != active {
		t.Errorf("active segment (base %d) is not the last listed segment (base %d, closed=%v)",
			active.BaseOffset, segs[len(segs)-1].BaseOffset, segs[len(segs)-1].closed)
	}
	if _, err := os.Stat(active.logPath()); err != nil {
		t.Errorf("log file of the active segment is gone: %v", err)
	}

	// Whatever the compaction did, the latest value of every key in 0..4 must
	// be readable: b@4 in particular.
	got := map[int64]string{}
	r, err := l.NewReader(0, true)
	require.NoError(t, err)
	headers := make([]byte, 28)
	for {
		ctx, cancel := context.WithTimeout(context.Background(), 300*time.Millisecond)
		m, off, _, _, err := r.ReadMessage(ctx, headers)
		cancel()
		if err != nil {
			t.Logf("reader stopped: %v", err)
			break
		}
		got[off] = string(m.Value())
	}
	require.Equal(t, "v4", got[4], "survivors read: %v", got)
}
