// Belongs in package directory: server/
package server

import (
	"context"
	"fmt"
	"testing"
	"time"

	lift "github.com/liftbridge-io/go-liftbridge/v2"
	natsdTest "github.com/nats-io/nats-server/v2/test"
	"github.com/nats-io/nats.go"
	"github.com/stretchr/testify/require"

	client "github.com/liftbridge-io/liftbridge-api/v2/go"
	proto "github.com/liftbridge-io/liftbridge/server/protocol"
)

func existingC04aWaitNewest(t *testing.T, timeout time.Duration, p *partition, offset int64) {
	deadline := time.Now().Add(timeout)
	for time.Now().Before(deadline) {
		if p.log.NewestOffset() == offset {
			return
		}
		time.Sleep(10 * time.Millisecond)
	}
	stackFatalf(t, "partition log did not reach newest offset %d (is %d)", offset, p.log.NewestOffset())
}

func existingC04aValueAt(t *testing.T, p *partition, offset int64) string {
	if p.log.NewestOffset() < offset {
		return "<nothing stored>"
	}
	reader, err := p.log.NewReader(offset, true)
	require.NoError(t, err)
	ctx, cancel := context.WithTimeout(context.Background(), 2*time.Second)
	defer cancel()
	msg, off, _, _, err := reader.ReadMessage(ctx, make([]byte, 28))
	require.NoError(t, err)
	require.Equal(t, offset, off)
	return string(msg.Value())
}

// UNCHANGED CODE FAILS THIS TEST.
//
// The per-replica progress a leader keeps in partition.isr (replica.offset) is
// only ever raised (replica.updateLatestOffset) and is not reset when the
// server becomes leader again in a later leader epoch (becomeLeader only
// touches its own entry). Progress recorded in an earlier term therefore
// survives a term in which the follower truncated its log:
//
//	term 1 (leader A): A,B store 0..5, C (slow, in ISR) stores 0 -> A.isr[B]=5
//	term 2 (leader C): A and B truncate to 0, then replicate n1,n2 (0..2)
//	term 3 (leader A): A.isr[B] is still 5 although B stores 0..2
//
// A then acknowledges the ALL-policy messages it stores at offsets 3..5 without
// B (the only other ISR member after C left the ISR) having fetched them.
func TestExistingC04_1_ReplicaProgressSurvivesLeaderTerms(t *testing.T) {
	defer cleanupStorage(t)

	ns := natsdTest.RunDefaultServer()
	defer ns.Shutdown()

	configure := func(id string, bootstrap bool, port int) *Config {
		c := getTestConfig(id, bootstrap, port)
		c.EmbeddedNATS = false
		c.Clustering.ReplicaMaxLagTime = time.Minute
		c.Clustering.ReplicaMaxLeaderTimeout = time.Minute
		c.Clustering.ReplicaMaxIdleWait = 500 * time.Millisecond
		c.Clustering.ReplicaFetchTimeout = 500 * time.Millisecond
		return c
	}
	s1 := runServerWithConfig(t, configure("a", true, 5050))
	defer s1.Stop()
	s2 := runServerWithConfig(t, configure("b", false, 5051))
	defer s2.Stop()
	s3 := runServerWithConfig(t, configure("c", false, 5052))
	defer s3.Stop()
	servers := []*Server{s1, s2, s3}
	getMetadataLeader(t, 10*time.Second, servers...)

	c, err := lift.Connect([]string{"localhost:5050", "localhost:5051", "localhost:5052"})
	require.NoError(t, err)
	defer c.Close()

	name := "foo"
	ctx, cancel := context.WithTimeout(context.Background(), 5*time.Second)
	defer cancel()
	require.NoError(t, c.CreateStream(ctx, "foo", name, lift.ReplicationFactor(3)))
	waitForPartition(t, 5*time.Second, name, 0, servers...)

	sA := getPartitionLeader(t, 10*time.Second, name, 0, servers...)
	var others []*Server
	for _, s := range servers {
		if s != sA {
			others = append(others, s)
		}
	}
	sB, sC := others[0], others[1]
	pA := sA.metadata.GetPartition(name, 0)
	pB := sB.metadata.GetPartition(name, 0)
	pC := sC.metadata.GetPartition(name, 0)
	idA := sA.config.Clustering.ServerID
	idB := sB.config.Clustering.ServerID
	idC := sC.config.Clustering.ServerID

	// ---- term 1: A leads -------------------------------------------------
	ctx, cancel = context.WithTimeout(context.Background(), 10*time.Second)
	defer cancel()
	_, err = c.Publish(ctx, name, []byte("m0"), lift.AckPolicyAll())
	require.NoError(t, err)
	existingC04aWaitNewest(t, 5*time.Second, pB, 0)
	existingC04aWaitNewest(t, 5*time.Second, pC, 0)

	stopFollowing(t, pC) // C is slow but stays in the ISR
	time.Sleep(600 * time.Millisecond)
	for i := 1; i <= 5; i++ {
		ctx, cancel = context.WithTimeout(context.Background(), 10*time.Second)
		defer cancel()
		_, err = c.Publish(ctx, name, []byte(fmt.Sprintf("m%d", i)), lift.AckPolicyLeader())
		require.NoError(t, err)
	}
	existingC04aWaitNewest(t, 5*time.Second, pB, 5)
	deadline := time.Now().Add(5 * time.Second)
	for pA.isr[idB].getLatestOffset() != 5 && time.Now().Before(deadline) {
		time.Sleep(10 * time.Millisecond)
	}
	require.Equal(t, int64(5), pA.isr[idB].getLatestOffset())
	require.Equal(t, int64(0), pA.log.HighWatermark())

	// ---- term 2: C leads (leader change applied as the FSM applies it) ----
	_, epoch := pA.GetLeader()
	require.NoError(t, pC.SetLeader(idC, epoch+1))
	require.NoError(t, pA.SetLeader(idC, epoch+1))
	require.NoError(t, pB.SetLeader(idC, epoch+1))
	existingC04aWaitNewest(t, 5*time.Second, pA, 0)
	existingC04aWaitNewest(t, 5*time.Second, pB, 0)
	for _, v := range []string{"n1", "n2"} {
		ctx, cancel = context.WithTimeout(context.Background(), 10*time.Second)
		defer cancel()
		_, err = c.Publish(ctx, name, []byte(v), lift.AckPolicyAll())
		require.NoError(t, err)
	}
	existingC04aWaitNewest(t, 5*time.Second, pA, 2)
	existingC04aWaitNewest(t, 5*time.Second, pB, 2)

	// ---- term 3: C fails, A leads again ------------------------------------
	// Replication requests are ignored on A from the start of its term: the
	// followers are slow to send their first request. (This only widens the
	// window in which the missing acknowledgement can be observed.)
	pA.pauseReplication()
	require.NoError(t, pC.SetLeader(idA, epoch+2)) // C steps down, then is gone
	stopFollowing(t, pC)
	require.NoError(t, pA.SetLeader(idA, epoch+2))
	require.NoError(t, pB.SetLeader(idA, epoch+2))

	nc, err := nats.GetDefaultOptions().Connect()
	require.NoError(t, err)
	defer nc.Close()
	ackInbox := "existingc04.acks"
	sub, err := nc.SubscribeSync(ackInbox)
	require.NoError(t, err)
	require.NoError(t, nc.Flush())
	data, err := proto.MarshalPublish(&client.Message{
		Value:         []byte("p3"),
		Stream:        name,
		Subject:       "foo",
		AckInbox:      ackInbox,
		CorrelationId: "cid-p3",
		AckPolicy:     client.AckPolicy_ALL,
	})
	require.NoError(t, err)
	require.NoError(t, nc.Publish("foo", data))
	existingC04aWaitNewest(t, 5*time.Second, pA, 3)

	// The failed leader C drops out of the ISR (what the FSM does when the
	// ShrinkISR operation is applied). ISR is now {A, B}, min ISR is 1.
	require.NoError(t, pA.RemoveFromISR(idC))
	require.NoError(t, pB.RemoveFromISR(idC))

	if m, err := sub.NextMsg(1500 * time.Millisecond); err == nil {
		ack, err := proto.UnmarshalAck(m.Data)
		require.NoError(t, err)
		t.Fatalf("ALL-policy message %q acknowledged at offset %d with ISR %v, but ISR member B stores only up "+
			"to offset %d; leader's view of B's progress: %d (left over from leader epoch %d)",
			ack.CorrelationId, ack.Offset, pA.GetISR(), pB.log.NewestOffset(),
			pA.isr[idB].getLatestOffset(), epoch)
	}
}
