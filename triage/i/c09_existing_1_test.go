// Package directory: server/commitlog
package commitlog

import (
	"context"
	"testing"
	"time"

	"github.com/stretchr/testify/require"
)

// The message and byte limits delete the dropped segments newest first
// (applyMessagesLimit / applyBytesLimit collect toDelete from index i down to
// 0) and deleteSegments carries on after a failure. If the pass does not get to
// the end -- the process dies between two os.Remove calls, or deleting one of
// the older segments fails -- the files that are left are NOT a suffix of the
// log: the oldest segment is still there and the ones after it are gone. The
// next start loads whatever is in the directory, so the log then has a hole.
//
// The test injects the failure on the oldest segment (its file is closed behind
// the segment's back, so segment.Delete fails in Close before it removes
// anything), which leaves the directory exactly as a crash after the first
// os.Remove pair would.
func TestExisting1PartialRetentionPassLeavesAHole(t *testing.T) {
	opts := Options{
		Path:            tempDir(t),
		MaxSegmentBytes: 1, // Every append rolls a new segment.
		MaxLogMessages:  2,
	}
	l, cleanup := setupWithOptions(t, opts)
	defer cleanup()

	// Five segments with one message each: offsets 0..4.
	for i := 0; i < 5; i++ {
		_, err := l.Append([]*Message{{Value: []byte("v"), Timestamp: time.Now().UnixNano(), LeaderEpoch: 1}})
		require.NoError(t, err)
	}
	segments := l.Segments()
	require.Len(t, segments, 5)

	// Deleting the oldest segment is going to fail.
	require.NoError(t, segments[0].log.Close())

	// The pass fails, which is fine, but look at what it leaves behind.
	require.Error(t, l.Clean())

	// "Crash": forget the in-memory log and open the directory again.
	for _, seg := range segments[1:] {
		seg.Close() // nolint: errcheck
	}
	close(l.closed)
	reopened, err := New(opts)
	require.NoError(t, err)
	defer reopened.Close()
	l2 := reopened.(*commitLog)

	// The log on disk must be contiguous.
	segs := l2.Segments()
	for i := 1; i < len(segs); i++ {
		require.Equal(t, segs[i-1].NextOffset(), segs[i].BaseOffset,
			"hole in the log after restart: segment with base offset %d ends at offset %d, the next segment starts at %d",
			segs[i-1].BaseOffset, segs[i-1].NextOffset()-1, segs[i].BaseOffset)
	}

	// And readable from the oldest offset without skipping anything.
	r, err := l2.NewReader(l2.OldestOffset(), true)
	require.NoError(t, err)
	ctx, cancel := context.WithTimeout(context.Background(), 5*time.Second)
	defer cancel()
	headersBuf := make([]byte, 28)
	for want := l2.OldestOffset(); want <= l2.NewestOffset(); want++ {
		_, offset, _, _, err := r.ReadMessage(ctx, headersBuf)
		require.NoError(t, err)
		require.Equal(t, want, offset)
	}
}
