// Package directory: server/
package server

import (
	"context"
	"fmt"
	"testing"
	"time"

	"github.com/stretchr/testify/require"

	proto "github.com/liftbridge-io/liftbridge/server/protocol"
)

// The tests in this file drive the controller (metadata leader) of a
// single-server cluster. The partition under test is replicated by brokers
// which do not exist ("b", "c", ...), so that the controller itself neither
// leads nor follows the partition and every leader report / ISR change is a
// pure metadata operation whose order the test controls completely.

func existing1C07Controller(t *testing.T, leaderTimeout time.Duration) *Server {
	config := getTestConfig("a", true, 5050)
	config.Clustering.ReplicaMaxLeaderTimeout = leaderTimeout
	s := runServerWithConfig(t, config)
	getMetadataLeader(t, 10*time.Second, s)
	return s
}

func existing1C07CreatePartition(t *testing.T, s *Server, name string, replicas []string, leader string) *partition {
	isr := make([]string, len(replicas))
	copy(isr, replicas)
	op := &proto.RaftLog{
		Op: proto.Op_CREATE_STREAM,
		CreateStreamOp: &proto.CreateStreamOp{
			Stream: &proto.Stream{
				Name:              name,
				Subject:           name,
				CreationTimestamp: time.Now().UnixNano(),
				Partitions: []*proto.Partition{{
					Subject:           name,
					Stream:            name,
					Id:                0,
					ReplicationFactor: int32(len(replicas)),
					Replicas:          replicas,
					Isr:               isr,
					Leader:            leader,
				}},
			},
		},
	}
	future, err := s.getRaft().applyOperation(context.Background(), op, s.metadata.checkCreateStreamPreconditions)
	require.NoError(t, err)
	require.NoError(t, future.Error())
	p := s.metadata.GetPartition(name, 0)
	require.NotNil(t, p)
	return p
}

func existing1C07Report(s *Server, p *partition, witness string) error {
	leader, epoch := p.GetLeader()
	st := s.metadata.ReportLeader(context.Background(), &proto.ReportLeaderOp{
		Stream:      p.Stream,
		Partition:   p.Id,
		Replica:     witness,
		Leader:      leader,
		LeaderEpoch: epoch,
	})
	if st != nil {
		return st.Err()
	}
	return nil
}

// A witness which has left the ISR still counts towards the failover quorum.
//
// ISR = {b(leader), c, d, e, f}: four in-sync followers, three reports needed.
// c reports the leader, then the leader removes c from the ISR. Now there are
// three in-sync followers {d, e, f} and two of them have to report. A single
// report (from d) must not fail the leader over, but it does because c is
// still counted as a witness: 2 witnesses > (4-1)/2.
func TestExistingC07WitnessThatLeftISRStillCounts(t *testing.T) {
	defer cleanupStorage(t)
	s := existing1C07Controller(t, 30*time.Second)
	defer s.Stop()

	p := existing1C07CreatePartition(t, s, "foo", []string{"b", "c", "d", "e", "f"}, "b")
	leader, epoch := p.GetLeader()
	require.Equal(t, "b", leader)

	require.NoError(t, existing1C07Report(s, p, "c"))

	st := s.metadata.ShrinkISR(context.Background(), &proto.ShrinkISROp{
		Stream: "foo", Partition: 0, ReplicaToRemove: "c", Leader: leader, LeaderEpoch: epoch,
	})
	require.Nil(t, st)
	require.ElementsMatch(t, []string{"b", "d", "e", "f"}, p.GetISR())

	// One of three in-sync followers reports: not more than half.
	require.NoError(t, existing1C07Report(s, p, "d"))

	newLeader, newEpoch := p.GetLeader()
	require.Equal(t, fmt.Sprintf("%s/%d", leader, epoch), fmt.Sprintf("%s/%d", newLeader, newEpoch),
		"leader was failed over although only 1 of the 3 in-sync followers reported it")
}
