// Belongs in package directory: server/
package server

import (
	"context"
	"fmt"
	"testing"
	"time"

	lift "github.com/liftbridge-io/go-liftbridge/v2"
	natsdTest "github.com/nats-io/nats-server/v2/test"
	"github.com/stretchr/testify/require"
)

func existingC04WaitNewest(t *testing.T, timeout time.Duration, p *partition, offset int64) {
	deadline := time.Now().Add(timeout)
	for time.Now().Before(deadline) {
		if p.log.NewestOffset() == offset {
			return
		}
		time.Sleep(10 * time.Millisecond)
	}
	stackFatalf(t, "partition log did not reach newest offset %d (is %d)", offset, p.log.NewestOffset())
}

func existingC04ValueAt(t *testing.T, p *partition, offset int64) string {
	if p.log.NewestOffset() < offset {
		return "<nothing stored>"
	}
	reader, err := p.log.NewReader(offset, true)
	require.NoError(t, err)
	ctx, cancel := context.WithTimeout(context.Background(), 2*time.Second)
	defer cancel()
	msg, off, _, _, err := reader.ReadMessage(ctx, make([]byte, 28))
	require.NoError(t, err)
	require.Equal(t, offset, off)
	return string(msg.Value())
}

// UNCHANGED CODE FAILS THIS TEST.
//
// The leader-epoch offset request a follower sends before truncating
// (partition.sendLeaderOffsetRequest) does not say which leader epoch the
// follower is now in, and handleLeaderOffsetRequest answers it on whichever
// server currently believes it leads the partition. When follower B applies
// the leader change A -> C before A does, the deposed leader A is the one that
// answers, with ITS log end. B therefore keeps its uncommitted tail m1..m5,
// follows C and reports offset 5. C counts that as progress on its own log and
// acknowledges the ALL-policy message n1 it stores at offset 1 although ISR
// member B stores a different message (m1) at that offset and never receives
// n1.
func TestExistingC04_2_DeposedLeaderAnswersTruncationOffsetRequest(t *testing.T) {
	defer cleanupStorage(t)

	ns := natsdTest.RunDefaultServer()
	defer ns.Shutdown()

	configure := func(id string, bootstrap bool, port int) *Config {
		c := getTestConfig(id, bootstrap, port)
		c.EmbeddedNATS = false
		c.Clustering.ReplicaMaxLagTime = time.Minute
		c.Clustering.ReplicaMaxLeaderTimeout = time.Minute
		c.Clustering.ReplicaMaxIdleWait = 500 * time.Millisecond
		c.Clustering.ReplicaFetchTimeout = 500 * time.Millisecond
		return c
	}
	s1 := runServerWithConfig(t, configure("a", true, 5050))
	defer s1.Stop()
	s2 := runServerWithConfig(t, configure("b", false, 5051))
	defer s2.Stop()
	s3 := runServerWithConfig(t, configure("c", false, 5052))
	defer s3.Stop()
	servers := []*Server{s1, s2, s3}
	getMetadataLeader(t, 10*time.Second, servers...)

	c, err := lift.Connect([]string{"localhost:5050", "localhost:5051", "localhost:5052"})
	require.NoError(t, err)
	defer c.Close()

	name := "foo"
	ctx, cancel := context.WithTimeout(context.Background(), 5*time.Second)
	defer cancel()
	require.NoError(t, c.CreateStream(ctx, "foo", name, lift.ReplicationFactor(3)))
	waitForPartition(t, 5*time.Second, name, 0, servers...)

	sA := getPartitionLeader(t, 10*time.Second, name, 0, servers...)
	var others []*Server
	for _, s := range servers {
		if s != sA {
			others = append(others, s)
		}
	}
	sB, sC := others[0], others[1]
	pA := sA.metadata.GetPartition(name, 0)
	pB := sB.metadata.GetPartition(name, 0)
	pC := sC.metadata.GetPartition(name, 0)
	idC := sC.config.Clustering.ServerID

	// m0 is replicated everywhere and committed.
	ctx, cancel = context.WithTimeout(context.Background(), 10*time.Second)
	defer cancel()
	_, err = c.Publish(ctx, name, []byte("m0"), lift.AckPolicyAll())
	require.NoError(t, err)
	existingC04WaitNewest(t, 5*time.Second, pB, 0)
	existingC04WaitNewest(t, 5*time.Second, pC, 0)

	// C stops fetching but stays in the ISR; m1..m5 reach A and B only and
	// stay uncommitted (HW 0).
	stopFollowing(t, pC)
	time.Sleep(600 * time.Millisecond)
	for i := 1; i <= 5; i++ {
		ctx, cancel = context.WithTimeout(context.Background(), 10*time.Second)
		defer cancel()
		_, err = c.Publish(ctx, name, []byte(fmt.Sprintf("m%d", i)), lift.AckPolicyLeader())
		require.NoError(t, err)
	}
	existingC04WaitNewest(t, 5*time.Second, pB, 5)
	require.Equal(t, int64(0), pC.log.NewestOffset())
	require.Equal(t, int64(0), pA.log.HighWatermark())
	require.Equal(t, 3, pA.ISRSize())

	// The controller elects C. The change is applied by each server's FSM
	// independently (partition.SetLeader); here B applies it first, then C,
	// and the deposed leader A last.
	_, epoch := pA.GetLeader()
	newEpoch := epoch + 1
	require.NoError(t, pB.SetLeader(idC, newEpoch))
	require.NoError(t, pC.SetLeader(idC, newEpoch))
	time.Sleep(time.Second)
	require.NoError(t, pA.SetLeader(idC, newEpoch))
	existingC04WaitNewest(t, 5*time.Second, pA, 0)

	// Metadata of the client may be stale (the change was not made through
	// Raft), so publish through whichever server; the message is routed over
	// NATS to the partition leader C.
	ctx, cancel = context.WithTimeout(context.Background(), 10*time.Second)
	defer cancel()
	ack, err := c.Publish(ctx, name, []byte("n1"), lift.AckPolicyAll())
	require.NoError(t, err, "no acknowledgement for n1 (that would be acceptable, it is not the failure this test is about)")

	// The ack claims that every ISR member stores n1 at ack.Offset().
	require.Equal(t, 3, pC.ISRSize())
	time.Sleep(time.Second)
	got := map[string]string{
		"A (deposed leader)": existingC04ValueAt(t, pA, ack.Offset()),
		"B (follower)":       existingC04ValueAt(t, pB, ack.Offset()),
		"C (leader)":         existingC04ValueAt(t, pC, ack.Offset()),
	}
	for who, v := range got {
		if v != "n1" {
			t.Errorf("ALL-policy ack for \"n1\" at offset %d, ISR size 3, but ISR member %s stores %q at that offset "+
				"(leader's view of B's progress: %d, B's log: newest offset %d)",
				ack.Offset(), who, v,
				pC.isr[sB.config.Clustering.ServerID].getLatestOffset(), pB.log.NewestOffset())
		}
	}
}
