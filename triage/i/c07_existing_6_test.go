// Package directory: server/
package server

import (
	"context"
	"testing"
	"time"

	"github.com/stretchr/testify/require"

	proto "github.com/liftbridge-io/liftbridge/server/protocol"
)

// The tests in this file drive the controller (metadata leader) of a
// single-server cluster. The partition under test is replicated by brokers
// which do not exist ("b", "c", ...), so that the controller itself neither
// leads nor follows the partition and every leader report / ISR change is a
// pure metadata operation whose order the test controls completely.

func existing6C07Controller(t *testing.T, leaderTimeout time.Duration) *Server {
	config := getTestConfig("a", true, 5050)
	config.Clustering.ReplicaMaxLeaderTimeout = leaderTimeout
	s := runServerWithConfig(t, config)
	getMetadataLeader(t, 10*time.Second, s)
	return s
}

func existing6C07CreatePartition(t *testing.T, s *Server, name string, replicas []string, leader string) *partition {
	isr := make([]string, len(replicas))
	copy(isr, replicas)
	op := &proto.RaftLog{
		Op: proto.Op_CREATE_STREAM,
		CreateStreamOp: &proto.CreateStreamOp{
			Stream: &proto.Stream{
				Name:              name,
				Subject:           name,
				CreationTimestamp: time.Now().UnixNano(),
				Partitions: []*proto.Partition{{
					Subject:           name,
					Stream:            name,
					Id:                0,
					ReplicationFactor: int32(len(replicas)),
					Replicas:          replicas,
					Isr:               isr,
					Leader:            leader,
				}},
			},
		},
	}
	future, err := s.getRaft().applyOperation(context.Background(), op, s.metadata.checkCreateStreamPreconditions)
	require.NoError(t, err)
	require.NoError(t, future.Error())
	p := s.metadata.GetPartition(name, 0)
	require.NotNil(t, p)
	return p
}

func existing6C07Report(s *Server, p *partition, witness string) error {
	leader, epoch := p.GetLeader()
	st := s.metadata.ReportLeader(context.Background(), &proto.ReportLeaderOp{
		Stream:      p.Stream,
		Partition:   p.Id,
		Replica:     witness,
		Leader:      leader,
		LeaderEpoch: epoch,
	})
	if st != nil {
		return st.Err()
	}
	return nil
}

// An ExpandISR request which names a broker that is not a replica of the
// partition passes the controller's checks, is committed to the Raft log and
// then fails in the FSM ("x not a replica"), which panics in Server.Apply. The
// subset relation ISR <= replicas is kept, but at the price of crashing every
// broker that applies the entry (and again on replay after a restart).
//
// NOTE: on the unchanged code this test does not fail with an assertion, it
// kills the test binary with "panic: failed to expand ISR: ...".
func TestExistingC07ExpandISRWithNonReplicaPanicsFSM(t *testing.T) {
	defer cleanupStorage(t)
	s := existing6C07Controller(t, 30*time.Second)
	defer s.Stop()

	p := existing6C07CreatePartition(t, s, "foo", []string{"b", "c", "d"}, "b")
	leader, epoch := p.GetLeader()
	st := s.metadata.ExpandISR(context.Background(), &proto.ExpandISROp{
		Stream: "foo", Partition: 0, ReplicaToAdd: "x", Leader: leader, LeaderEpoch: epoch,
	})
	require.NotNil(t, st, "ExpandISR of a non-replica was accepted")
	require.NotContains(t, p.GetISR(), "x")
}
