// Belongs in: server (package server). Run it in a private network namespace
// like the other tests of this package.
//
// Existing defect 2, end to end: one Publish with a header key of 32768 bytes
// (well below the 1MB message limit) panics the partition leader in
// commitlog.newMessageSetFromProto; nothing recovers it, so the whole process
// (here: the test binary) dies with "panic: invalid string length".
package server

import (
	"context"
	"strings"
	"testing"
	"time"

	lift "github.com/liftbridge-io/go-liftbridge/v2"
	"github.com/stretchr/testify/require"
)

func TestExisting2LargeHeaderKeyKillsServer(t *testing.T) {
	defer cleanupStorage(t)

	s1Config := getTestConfig("a", true, 5050)
	s1 := runServerWithConfig(t, s1Config)
	defer s1.Stop()
	getMetadataLeader(t, 10*time.Second, s1)

	client, err := lift.Connect([]string{"localhost:5050"})
	require.NoError(t, err)
	defer client.Close()
	require.NoError(t, client.CreateStream(context.Background(), "foo", "foo"))

	// A normal message works.
	ctx, cancel := context.WithTimeout(context.Background(), 5*time.Second)
	_, err = client.Publish(ctx, "foo", []byte("hello"), lift.AckPolicyLeader(),
		lift.Header("k", []byte("v")))
	cancel()
	require.NoError(t, err)

	// A message with a large header key. Being rejected with an error would
	// be fine; the server must survive it.
	ctx, cancel = context.WithTimeout(context.Background(), 5*time.Second)
	_, err = client.Publish(ctx, "foo", []byte("hello"), lift.AckPolicyLeader(),
		lift.Header(strings.Repeat("k", 32768), []byte("v")))
	cancel()
	t.Logf("publish with a 32768 byte header key: %v", err)

	// The server still serves.
	ctx, cancel = context.WithTimeout(context.Background(), 5*time.Second)
	_, err = client.Publish(ctx, "foo", []byte("again"), lift.AckPolicyLeader())
	cancel()
	require.NoError(t, err)
}
