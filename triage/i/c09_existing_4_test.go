// Package directory: server/commitlog
package commitlog

import (
	"testing"
	"time"

	"github.com/stretchr/testify/require"
)

// applyAgeLimit walks the log from the oldest segment and stops at the first
// segment which has not expired. If the last-write times do not increase along
// the log (timestamps are taken from the clock of the leader of the time, so
// they step back after a fail-over to a broker whose clock is behind), expired
// segments behind a younger one stay: after the clean the age limit does not
// hold although more than the newest segment remains.
func TestExisting4AgeLimitDoesNotHoldBehindAYoungerSegment(t *testing.T) {
	computeTTLBefore := computeTTL
	computeTTL = func(age time.Duration) int64 { return 180 - int64(age) }
	defer func() { computeTTL = computeTTLBefore }()

	l, cleanup := setupWithOptions(t, Options{
		Path:            tempDir(t),
		MaxSegmentBytes: 1, // Every append rolls a new segment.
		MaxLogAge:       100,
	})
	defer cleanup()

	// Cutoff is 80. The segments last written at 50 and 60 have expired, the
	// oldest segment (100) has not.
	for _, ts := range []int64{100, 50, 60, 120, 130} {
		_, err := l.Append([]*Message{{Value: []byte("v"), Timestamp: ts, LeaderEpoch: 1}})
		require.NoError(t, err)
	}
	require.NoError(t, l.Clean())

	segments := l.Segments()
	for _, seg := range segments[:len(segments)-1] {
		require.GreaterOrEqual(t, seg.LastWriteTime(), int64(80),
			"segment with base offset %d was last written at %d, before the cutoff 80, and is still in the log (%d segments) after the clean",
			seg.BaseOffset, seg.LastWriteTime(), len(segments))
	}
}
