// Belongs in: server/commitlog (package commitlog)
//
// Existing defect 4: Append decides "no roll needed", remembers the active
// segment together with its next offset and position, serialises the batch,
// and only then writes to that segment. The background cleanerLoop calls
// checkAndPerformSplit on its own, without any lock shared with Append. When
// MaxSegmentAge expires in between, the cleaner rolls a new segment whose base
// offset is the offset Append has already handed to its batch. The batch lands
// in the old, sealed segment, and the next Append starts again at the base
// offset of the new segment: the same offsets are assigned twice and a reader
// that walks the log sees offsets that are not strictly increasing.
package commitlog

import (
	"context"
	"fmt"
	"testing"
	"time"
)

func TestExisting4AppendRacesWithCleanerRoll(t *testing.T) {
	cl, err := New(Options{
		Path:            t.TempDir(),
		MaxSegmentBytes: 1 << 30,
		MaxSegmentAge:   25 * time.Millisecond,
		CleanerInterval: time.Millisecond,
	})
	if err != nil {
		t.Fatal(err)
	}
	l := cl.(*commitLog)
	defer l.Close()

	// A batch that takes a little while to serialise, like a full publish
	// batch does.
	const batch = 512
	value := make([]byte, 256)
	var (
		next     int64
		deadline = time.Now().Add(20 * time.Second)
		rounds   int
	)
	for time.Now().Before(deadline) && rounds < 20000 {
		msgs := make([]*Message, batch)
		ts := time.Now().UnixNano()
		for i := range msgs {
			msgs[i] = &Message{Value: value, Timestamp: ts}
		}
		offs, err := l.Append(msgs)
		if err != nil {
			t.Fatal(err)
		}
		rounds++
		if offs[0] != next {
			walkErr := existing4Walk(l, next-batch, 3*batch)
			t.Fatalf("round %d: Append assigned offsets %d..%d, but offsets up to %d had already "+
				"been assigned by earlier appends\nsegments: %s\nreader: %v",
				rounds, offs[0], offs[len(offs)-1], next-1, existing4Segments(l), walkErr)
		}
		next += batch
	}
	t.Logf("no anomaly in %d rounds", rounds)
}

func existing4Segments(l *commitLog) string {
	s := ""
	segs := l.Segments()
	if len(segs) > 4 {
		s = fmt.Sprintf("(%d earlier segments) ", len(segs)-4)
		segs = segs[len(segs)-4:]
	}
	for _, seg := range segs {
		s += fmt.Sprintf("[base %d first %d last %d] ", seg.BaseOffset, seg.FirstOffset(), seg.LastOffset())
	}
	return s
}

func existing4Walk(l *commitLog, from int64, n int) error {
	if from < 0 {
		from = 0
	}
	r, err := l.NewReader(from, true)
	if err != nil {
		return err
	}
	hdr := make([]byte, 28)
	prev := from - 1
	for i := 0; i < n; i++ {
		ctx, cancel := context.WithTimeout(context.Background(), time.Second)
		_, off, _, _, err := r.ReadMessage(ctx, hdr)
		cancel()
		if err != nil {
			return fmt.Errorf("reader started at %d: after offset %d: %v", from, prev, err)
		}
		if off != prev+1 {
			return fmt.Errorf("reader started at %d: offset %d is followed by offset %d", from, prev, off)
		}
		prev = off
	}
	return nil
}
