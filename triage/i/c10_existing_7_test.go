// Package directory: server/commitlog/   (package commitlog)
//
// EXISTING DEFECT 7 (needs equal timestamps on neighbouring messages): the
// timestamp lookups binary-search for the FIRST entry whose timestamp is >=
// the target and treat an exact match as the answer.
//
//   - LatestOffsetBeforeTimestamp(ts) is specified as "the latest offset whose
//     timestamp is less than or equal to ts" but returns the FIRST offset with
//     that timestamp, so a subscription with a stop timestamp misses the later
//     messages carrying the same timestamp.
//   - EarliestOffsetAfterTimestamp(ts) picks the segment by its base timestamp
//     (last segment whose first timestamp is <= ts) and therefore skips
//     messages with timestamp == ts at the end of the preceding segment.
package commitlog

import (
	"testing"

	"github.com/stretchr/testify/require"
)

func TestExisting7LatestOffsetBeforeTimestampEqualTimestamps(t *testing.T) {
	l, cleanup := setupWithOptions(t, Options{
		Path:            tempDir(t),
		MaxSegmentBytes: 1024,
	})
	defer cleanup()

	for _, ts := range []int64{10, 20, 20, 30} {
		_, err := l.Append([]*Message{{Value: []byte("v"), Timestamp: ts}})
		require.NoError(t, err)
	}
	offset, err := l.LatestOffsetBeforeTimestamp(20)
	require.NoError(t, err)
	require.Equal(t, int64(2), offset, "latest offset with timestamp <= 20")
}

func TestExisting7EarliestOffsetAfterTimestampEqualTimestampsAcrossSegments(t *testing.T) {
	l, cleanup := setupWithOptions(t, Options{
		Path:            tempDir(t),
		MaxSegmentBytes: 100,
	})
	defer cleanup()

	// Three messages per segment: offsets 0..2 and 3..5. Offset 2 (end of the
	// first segment) and offset 3 (start of the second) share a timestamp.
	for _, ts := range []int64{10, 20, 30, 30, 40, 50} {
		_, err := l.Append([]*Message{{Value: []byte("v"), Timestamp: ts}})
		require.NoError(t, err)
	}
	require.Equal(t, int64(3), l.Segments()[1].BaseOffset)
	offset, err := l.EarliestOffsetAfterTimestamp(30)
	require.NoError(t, err)
	require.Equal(t, int64(2), offset, "earliest offset with timestamp >= 30")
}
