// Package directory: server/   (package server; run in a private network namespace)
//
// EXISTING DEFECT 1: a forward subscription whose start offset lies above the
// high watermark but inside the log (HW < start <= newest offset) delivers the
// messages between the HW and the start offset, i.e. messages before the
// requested start position.
package server

import (
	"context"
	"testing"
	"time"

	"github.com/stretchr/testify/require"

	client "github.com/liftbridge-io/liftbridge-api/v2/go"
	"github.com/liftbridge-io/liftbridge/server/commitlog"
	proto "github.com/liftbridge-io/liftbridge/server/protocol"
)

func TestExisting1StartOffsetAboveHWDeliversEarlierMessages(t *testing.T) {
	defer cleanupStorage(t)

	server := createServer()
	require.NoError(t, server.Start())
	defer server.Stop()

	p, err := server.newPartition(&proto.Partition{
		Subject:  "existing1",
		Stream:   "existing1",
		Replicas: []string{"a"},
		Leader:   "a",
		Isr:      []string{"a"},
	}, false, nil)
	require.NoError(t, err)
	defer p.Close()

	// Ten messages in the log, offsets 0..9, of which 0..5 are committed: the
	// HW is below the end of the log, as it is on any leader which is waiting
	// for its followers.
	for i := 0; i < 10; i++ {
		_, err := p.log.Append([]*commitlog.Message{{
			Value:     []byte{byte('0' + i)},
			Timestamp: int64(i + 1),
		}})
		require.NoError(t, err)
	}
	p.log.SetHighWatermark(5)

	ctx, cancel := context.WithCancel(context.Background())
	defer cancel()
	sub, st := p.Subscribe(ctx, &client.SubscribeRequest{
		Stream:        "existing1",
		StartPosition: client.StartPosition_OFFSET,
		StartOffset:   8,
	})
	require.Nil(t, st)
	defer sub.Close()

	// Nothing in the requested range is committed yet.
	select {
	case m := <-sub.Messages():
		t.Fatalf("delivered uncommitted/unrequested offset %d", m.Offset)
	case s := <-sub.Errors():
		t.Fatalf("unexpected end: %v", s.Message())
	case <-time.After(200 * time.Millisecond):
	}

	// The followers catch up, everything is committed.
	p.log.SetHighWatermark(9)

	var offsets []int64
	for len(offsets) < 2 {
		select {
		case m := <-sub.Messages():
			offsets = append(offsets, m.Offset)
		case s := <-sub.Errors():
			t.Fatalf("unexpected end: %v (got %v)", s.Message(), offsets)
		case <-time.After(5 * time.Second):
			t.Fatalf("timed out, got %v", offsets)
		}
	}
	require.Equal(t, []int64{8, 9}, offsets,
		"subscription from offset 8 must deliver 8, 9")
}
