// Package directory: server/commitlog/   (package commitlog)
//
// EXISTING DEFECT 4: a committed forward Reader positioned in a segment which
// retention then deletes fails with "segment has been closed" instead of
// carrying on with the oldest retained message. (A segment removed or
// rewritten by compaction is flagged "replaced" and makes the reader
// re-initialise; a segment deleted by the retention cleaner is only closed.)
// At the partition level the subscription ends with an Unknown status.
package commitlog

import (
	"context"
	"strconv"
	"testing"

	"github.com/stretchr/testify/require"
)

func TestExisting4ForwardReaderSurvivesRetention(t *testing.T) {
	l, cleanup := setupWithOptions(t, Options{
		Path:            tempDir(t),
		MaxSegmentBytes: 100,
		MaxLogMessages:  5,
	})
	defer cleanup()

	for i := 0; i < 12; i++ {
		_, err := l.Append([]*Message{{
			Value:     []byte("v" + strconv.Itoa(i)),
			Timestamp: int64(i + 1),
		}})
		require.NoError(t, err)
	}
	l.SetHighWatermark(11)

	// A slow subscriber from the earliest message has read one message.
	r, err := l.NewReader(0, false)
	require.NoError(t, err)
	headers := make([]byte, 28)
	_, offset, _, _, err := r.ReadMessage(context.Background(), headers)
	require.NoError(t, err)
	require.Equal(t, int64(0), offset)

	// Retention trims the oldest segments.
	require.NoError(t, l.Clean())
	oldest := l.OldestOffset()
	require.True(t, oldest > 1, "oldest %d", oldest)

	// The subscription continues with the messages still retained.
	var got []int64
	for len(got) < int(11-oldest+1) {
		_, o, _, _, err := r.ReadMessage(context.Background(), headers)
		require.NoError(t, err, "forward reader failed after retention (oldest retained %d, delivered %v)", oldest, got)
		got = append(got, o)
	}
	require.Equal(t, oldest, got[0])
	require.Equal(t, int64(11), got[len(got)-1])
}
