// Package directory: server/commitlog/
package commitlog

import (
	"context"
	"fmt"
	"math/rand"
	"os"
	"testing"
	"time"

	"github.com/stretchr/testify/require"
)

// EXISTING DEFECT (unchanged code): the compaction loops treat every error of
// the segment scanner as the end of the segment (`for ...; err == nil; ...`).
// The cleaner goroutine runs Clean without any lock that excludes Close, so a
// partition that is paused (auto-pause of the cursors partitions) or a server
// that is stopped while a compaction is in flight closes the segments under
// the compaction. Scanning a closed segment fails right away, cleanSegment
// sees an "empty" cleaned segment and cleanupEmptySegment deletes the
// original segment's files: every cursor stored in a non-active segment is
// gone when the partition is resumed / the server restarted.
//
// The interleaving is fixed here by calling Clean right after Close, which is
// what the cleaner loop does when Close happens between its select on the
// closed channel and its call to Clean.
func TestExistingC11CompactionDuringCloseDeletesSegments(t *testing.T) {
	dir := tempDir(t)
	defer remove(t, dir)
	opts := Options{Path: dir, MaxSegmentBytes: 100, Compact: true}
	l, err := New(opts)
	require.NoError(t, err)
	cl := l.(*commitLog)

	// Ten cursors with distinct keys: compaction must retain all of them.
	n := 10
	entries := make([]keyValue, n)
	for i := 0; i < n; i++ {
		entries[i] = keyValue{[]byte(fmt.Sprintf("cursor-%d", i)), []byte(fmt.Sprintf("%d", 100+i))}
	}
	appendToLog(t, cl, entries, true)
	require.Greater(t, len(cl.Segments()), 2)

	// The partition is paused / the server stops...
	require.NoError(t, l.Close())
	// ...while the cleaner loop is about to compact.
	_ = cl.Clean()

	// Resume / restart.
	l, err = New(opts)
	require.NoError(t, err)
	defer l.Close()
	require.Equal(t, int64(0), l.OldestOffset(), "oldest offset after reopening the log")

	r, err := l.NewReader(0, true)
	require.NoError(t, err)
	headers := make([]byte, 28)
	for i := 0; i < n; i++ {
		msg, offset, _, _, err := r.ReadMessage(context.Background(), headers)
		require.NoError(t, err)
		require.Equal(t, int64(i), offset)
		require.Equal(t, entries[i].key, msg.Key())
	}
}

// The same defect without fixing the interleaving: the cleaner loop of the
// log itself (short cleaner interval) races with Close. Bounded; fails as
// soon as a reopened log has lost messages.
func TestExistingC11CompactionDuringCloseRace(t *testing.T) {
	n := 40
	entries := make([]keyValue, n)
	for i := 0; i < n; i++ {
		entries[i] = keyValue{[]byte(fmt.Sprintf("cursor-%d", i)), []byte(fmt.Sprintf("%d", 100+i))}
	}
	deadline := time.Now().Add(60 * time.Second)
	for iter := 0; time.Now().Before(deadline); iter++ {
		dir := tempDir(t)
		opts := Options{Path: dir, MaxSegmentBytes: 100, Compact: true, CleanerInterval: time.Millisecond}
		l, err := New(opts)
		require.NoError(t, err)
		appendToLog(t, l.(*commitLog), entries, true)
		time.Sleep(time.Duration(rand.Intn(3000)) * time.Microsecond)
		require.NoError(t, l.Close())
		// Let an in-flight Clean finish.
		time.Sleep(100 * time.Millisecond)

		opts.CleanerInterval = time.Hour
		l, err = New(opts)
		require.NoError(t, err)
		r, err := l.NewReader(0, true)
		require.NoError(t, err)
		headers := make([]byte, 28)
		ctx, cancel := context.WithTimeout(context.Background(), 2*time.Second)
		count := 0
		for count < n {
			_, _, _, _, err := r.ReadMessage(ctx, headers)
			if err != nil {
				break
			}
			count++
		}
		cancel()
		oldest := l.OldestOffset()
		l.Close()
		var files []string
		des, _ := os.ReadDir(dir)
		for _, d := range des {
			files = append(files, d.Name())
		}
		remove(t, dir)
		if count != n {
			t.Fatalf("iteration %d: %d of %d cursors left after Close raced with the cleaner (oldest offset %d); files left: %v",
				iter, count, n, oldest, files)
		}
	}
}
