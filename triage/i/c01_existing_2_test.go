// Belongs in: server/commitlog (package commitlog)
//
// Existing defect 2: a header key longer than 32767 bytes makes Append panic
// (encode() fails with errInvalidStringLength and newMessageSetFromProto turns
// every encode error into a panic). Nothing on the publish path of the server
// limits the length of a header key, and nothing recovers the panic, so one
// published message takes the partition leader's process down.
package commitlog

import (
	"bytes"
	"testing"
	"time"
)

func TestExisting2LargeHeaderKeyPanicsAppend(t *testing.T) {
	cl, err := New(Options{Path: t.TempDir()})
	if err != nil {
		t.Fatal(err)
	}
	defer cl.Close()

	for _, n := range []int{100, 32767, 32768, 40000} {
		n := n
		func() {
			defer func() {
				if r := recover(); r != nil {
					t.Errorf("Append with a %d byte header key panicked: %v", n, r)
				}
			}()
			key := string(bytes.Repeat([]byte("k"), n))
			offs, err := cl.Append([]*Message{{
				Value:     []byte("v"),
				Timestamp: time.Now().UnixNano(),
				Headers:   map[string][]byte{key: []byte("x")},
			}})
			t.Logf("header key of %d bytes: offsets %v err %v", n, offs, err)
		}()
	}
}
