// Belongs in package directory: server
//
// PART B, finding 2. Fails on the UNCHANGED code.
//
// A restarting follower asks the leader for the last offset of its last leader
// epoch. When nobody is subscribed to the leader's offset inbox at that
// instant (the leader process is gone, or the newly elected leader has not yet
// subscribed in becomeLeader), nats.go reports ErrNoResponders immediately.
// truncateUncommitted only retries nats.ErrTimeout, so the follower falls
// straight back to truncateToHW and cuts its log to its own, lagging, high
// watermark - throwing away a message that was committed. It is still in the
// ISR, so it is elected next and the committed message is gone.
package server

import (
	"context"
	"testing"
	"time"

	natsdTest "github.com/nats-io/nats-server/v2/test"
	"github.com/nats-io/nats.go"
	"github.com/stretchr/testify/require"

	lift "github.com/liftbridge-io/go-liftbridge/v2"
)

func TestExisting2NoRespondersFallsBackToHWTruncation(t *testing.T) {
	defer cleanupStorage(t)

	ns := natsdTest.RunDefaultServer()
	defer ns.Shutdown()

	configs := map[string]*Config{}
	newConfig := func(id string, bootstrap bool, port int) *Config {
		c := getTestConfig(id, bootstrap, port)
		c.EmbeddedNATS = false
		c.Clustering.MinISR = 1
		c.Clustering.ReplicaMaxLeaderTimeout = time.Second
		c.Clustering.ReplicaMaxIdleWait = 500 * time.Millisecond
		c.Clustering.ReplicaFetchTimeout = 500 * time.Millisecond
		configs[id] = c
		return c
	}
	s1 := runServerWithConfig(t, newConfig("a", true, 5050))
	defer s1.Stop()
	s2 := runServerWithConfig(t, newConfig("b", false, 5051))
	defer s2.Stop()
	s3 := runServerWithConfig(t, newConfig("c", false, 5052))
	defer s3.Stop()
	servers := []*Server{s1, s2, s3}
	getMetadataLeader(t, 10*time.Second, servers...)

	client, err := lift.Connect([]string{"localhost:5050", "localhost:5051", "localhost:5052"})
	require.NoError(t, err)
	defer client.Close()

	// Two replicas; the third server only takes part in the metadata quorum.
	name := "foo"
	ctx, cancel := context.WithTimeout(context.Background(), 5*time.Second)
	defer cancel()
	require.NoError(t, client.CreateStream(ctx, "foo", name, lift.ReplicationFactor(2)))
	waitForPartition(t, 5*time.Second, name, 0, servers...)

	leader := getPartitionLeader(t, 10*time.Second, name, 0, servers...)
	lp := leader.metadata.GetPartition(name, 0)
	require.NotNil(t, lp)
	var follower *Server
	for _, id := range lp.GetReplicas() {
		for _, s := range servers {
			if s.config.Clustering.ServerID == id && s != leader {
				follower = s
			}
		}
	}
	require.NotNil(t, follower)
	followerID := follower.config.Clustering.ServerID

	// Two committed messages (acknowledged under AckPolicy ALL).
	for _, v := range []string{"hello", "world"} {
		ctx, cancel := context.WithTimeout(context.Background(), 5*time.Second)
		_, err := client.Publish(ctx, name, []byte(v), lift.AckPolicyAll())
		cancel()
		require.NoError(t, err)
	}
	waitForHW(t, 5*time.Second, name, 0, 1, leader, follower)

	// The follower's HW lags by one when it goes down (it only learns the HW
	// with the next fetch response and checkpoints it every 5s).
	fp := follower.metadata.GetPartition(name, 0)
	require.NotNil(t, fp)
	stopFollowing(t, fp)
	fp.log.OverrideHighWatermark(0)

	// The leader stops answering fetches and is not listening on its leader
	// epoch offset inbox. (The subscription is parked on an unused subject so
	// that stepping down later still works.)
	lp.pauseReplication()
	lp.mu.Lock()
	require.NoError(t, lp.leaderOffsetSub.Unsubscribe())
	sub, err := leader.ncRepl.Subscribe(nats.NewInbox(), func(m *nats.Msg) {})
	require.NoError(t, err)
	lp.leaderOffsetSub = sub
	lp.mu.Unlock()
	require.NoError(t, leader.ncRepl.Flush())

	// Restart the follower.
	follower.Stop()
	follower = runServerWithConfig(t, configs[followerID])
	defer follower.Stop()

	// It gets no fetch responses, reports the leader and is elected, being
	// the only other in-sync replica.
	getPartitionLeader(t, 20*time.Second, name, 0, follower)

	// Both committed messages must still be there.
	p := follower.metadata.GetPartition(name, 0)
	require.NotNil(t, p)
	require.Equal(t, int64(1), p.log.NewestOffset(),
		"the new leader lost a message that was acknowledged under AckPolicy ALL")
}
