// Package directory: server/   (package server; run in a private network namespace)
//
// EXISTING DEFECT 6: a reverse subscription on an empty partition (or on a
// partition on which nothing is committed yet, HW == -1) is rejected with
// Internal "Failed to create stream reader: segment not found". A reverse
// subscription which has nothing (more) to deliver is documented to end with
// ResourceExhausted ("Beginning of partition reached"); an empty log is the
// trivial case of it. A forward subscription on an empty partition works.
package server

import (
	"context"
	"testing"
	"time"

	"github.com/stretchr/testify/require"
	"google.golang.org/grpc/codes"

	client "github.com/liftbridge-io/liftbridge-api/v2/go"
	proto "github.com/liftbridge-io/liftbridge/server/protocol"
)

func TestExisting6ReverseSubscriptionOnEmptyPartition(t *testing.T) {
	defer cleanupStorage(t)

	server := createServer()
	require.NoError(t, server.Start())
	defer server.Stop()

	p, err := server.newPartition(&proto.Partition{
		Subject:  "existing6",
		Stream:   "existing6",
		Replicas: []string{"a"},
		Leader:   "a",
		Isr:      []string{"a"},
	}, false, nil)
	require.NoError(t, err)
	defer p.Close()

	ctx, cancel := context.WithCancel(context.Background())
	defer cancel()
	sub, st := p.Subscribe(ctx, &client.SubscribeRequest{
		Stream:        "existing6",
		StartPosition: client.StartPosition_LATEST,
		Reverse:       true,
	})
	if st != nil {
		require.Equal(t, codes.ResourceExhausted, st.Code(),
			"reverse subscription on an empty partition rejected with %s: %s", st.Code(), st.Message())
		return
	}
	defer sub.Close()
	select {
	case m := <-sub.Messages():
		t.Fatalf("unexpected message %d", m.Offset)
	case s := <-sub.Errors():
		require.Equal(t, codes.ResourceExhausted, s.Code(), s.Message())
	case <-time.After(5 * time.Second):
		t.Fatal("reverse subscription on an empty partition did not end")
	}
}
