// Package directory: server/commitlog
//
// Existing defect 4 (fails on the UNCHANGED code; a race, shown by a bounded
// stress loop): the cleaner goroutine (cleanerLoop -> checkAndPerformSplit)
// rolls a new active segment concurrently with Append and nothing orders the
// two. Append does
//
//	checkAndPerformSplit(); segment = l.activeSegment();
//	baseOffset = segment.NextOffset(); ...; segment.WriteMessageSet(...)
//
// If the cleaner's split (offset := NewestOffset()+1; newSegment(offset); CAS of
// the active segment) lands between the load of the active segment and the
// write, the message is written with offset N into the segment that has just
// been sealed, while the new active segment was created with base offset N as
// well. The next append is assigned offset N again: two different messages
// carry the same offset, and a committed reader hands both to the subscriber
// (offset order / exactly-once is broken). segment.write does not check the
// sealed flag, so nothing stops the late write.
//
// In production the cleaner splits by age: streams.segment.max.age defaults to
// the retention age, and cleanerLoop runs every CleanerInterval. The race needs
// the segment to reach its maximum age between Append's own CheckSplit and the
// cleaner's. The test models the passing of time with the package's clock mock
// (`timestamp`): the clock is past the segment's age limit whenever the
// "cleaner" goroutine looks, and flips back afterwards. The cleaner goroutine
// calls checkAndPerformSplit in a loop, which is exactly what each tick of
// cleanerLoop does.
package commitlog

import (
	"context"
	"strconv"
	"sync"
	"sync/atomic"
	"testing"
	"time"

	"github.com/stretchr/testify/require"
)

func TestExistingCleanerSplitRacesWithAppend(t *testing.T) {
	l, cleanup := setupWithOptions(t, Options{
		Path:            tempDir(t),
		MaxSegmentBytes: 1 << 20,
		MaxSegmentAge:   time.Hour,
	})
	defer cleanup()

	// Messages are written at t=1000. The segment max age is one hour.
	const (
		writeTime = int64(1000)
		young     = writeTime + 1
		old       = writeTime + int64(2*time.Hour)
	)
	var now = young
	timestampBefore := timestamp
	timestamp = func() int64 { return atomic.LoadInt64(&now) }
	defer func() { timestamp = timestampBefore }()

	var (
		stop = make(chan struct{})
		wg   sync.WaitGroup
	)
	wg.Add(1)
	go func() {
		defer wg.Done()
		for {
			select {
			case <-stop:
				return
			default:
			}
			// One tick of cleanerLoop, at a moment when the active segment
			// has just reached its maximum age.
			atomic.StoreInt64(&now, old)
			_, err := l.checkAndPerformSplit()
			atomic.StoreInt64(&now, young)
			if err != nil {
				return
			}
		}
	}()

	// Bounded stress loop: stop at the first offset that is assigned twice.
	const maxAppends = 30000
	var (
		prevAssigned = int64(-1)
		duplicate    = int64(-1)
		appended     = 0
	)
	for i := 0; i < maxAppends && duplicate == -1; i++ {
		offsets, err := l.Append([]*Message{{
			Value:       []byte("value-" + strconv.Itoa(i)),
			Timestamp:   writeTime,
			LeaderEpoch: 1,
		}})
		require.NoError(t, err)
		appended++
		if offsets[0] <= prevAssigned {
			duplicate = offsets[0]
		}
		prevAssigned = offsets[0]
	}
	close(stop)
	wg.Wait()
	t.Logf("appended %d messages into %d segments", appended, len(l.Segments()))
	if duplicate == -1 {
		t.Skip("race not hit in this run; re-run")
	}
	// A few more messages after the cleaner has stopped.
	for i := 0; i < 3; i++ {
		_, err := l.Append([]*Message{{
			Value:       []byte("tail-" + strconv.Itoa(i)),
			Timestamp:   writeTime,
			LeaderEpoch: 1,
		}})
		require.NoError(t, err)
	}

	// Everything is committed. Read the neighbourhood of the duplicate back
	// through a committed reader.
	l.SetHighWatermark(l.NewestOffset())
	from := duplicate - 2
	if from < 0 {
		from = 0
	}
	r, err := l.NewReader(from, false)
	require.NoError(t, err)
	var (
		headers = make([]byte, 28)
		prev    = int64(-1)
	)
	for i := 0; i < 6; i++ {
		ctx, cancel := context.WithTimeout(context.Background(), 300*time.Millisecond)
		m, offset, _, _, err := r.ReadMessage(ctx, headers)
		cancel()
		if err != nil {
			break
		}
		t.Logf("committed reader delivered offset %d value %q", offset, m.Value())
		require.Greater(t, offset, prev,
			"Append assigned offset %d twice and the committed reader delivered offset %d (value %q) after offset %d",
			duplicate, offset, m.Value(), prev)
		prev = offset
	}
	t.Fatalf("Append assigned offset %d twice", duplicate)
}
