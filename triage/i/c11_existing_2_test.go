// Package directory: server/
package server

import (
	"context"
	"fmt"
	"math/rand"
	"testing"
	"time"

	"github.com/stretchr/testify/require"

	client "github.com/liftbridge-io/liftbridge-api/v2/go"
)

// EXISTING DEFECT (unchanged code): when the context of a FetchCursor is
// cancelled (client went away, deadline expired) while the cursors partition
// is being scanned, the reverse reader reports io.EOF, the subscription turns
// that into ResourceExhausted ("beginning of partition reached") and
// getLatestCursorOffset takes this for "no such cursor": GetCursor returns -1
// with a nil status and puts -1 into the cache. Every later FetchCursor then
// answers -1 from the cache although a cursor is stored.
func TestExistingC11CancelledFetchPoisonsCache(t *testing.T) {
	defer cleanupStorage(t)

	s1Config := getTestConfig("a", true, 5050)
	s1Config.CursorsStream.Partitions = 1
	s1 := runServerWithConfig(t, s1Config)
	defer s1.Stop()
	getMetadataLeader(t, 10*time.Second, s1)
	waitForPartition(t, 10*time.Second, cursorsStream, 0, s1)

	var (
		ctx      = context.Background()
		stream   = "foo"
		cursorID = "target"
	)

	// The cursor of interest is the oldest message of the cursors partition,
	// followed by the cursors of many other consumers.
	_, err := s1.api.SetCursor(ctx, &client.SetCursorRequest{
		Stream: stream, Partition: 0, CursorId: cursorID, Offset: 5})
	require.NoError(t, err)
	for i := 0; i < 300; i++ {
		_, err := s1.api.SetCursor(ctx, &client.SetCursorRequest{
			Stream: stream, Partition: 0, CursorId: fmt.Sprintf("other-%d", i), Offset: int64(i)})
		require.NoError(t, err)
	}

	deadline := time.Now().Add(90 * time.Second)
	for i := 0; time.Now().Before(deadline); i++ {
		// The cursor is not cached, e.g. it was evicted or the server just
		// became the leader of the cursors partition.
		s1.cursors.cache.Purge()

		cctx, cancel := context.WithCancel(ctx)
		go func() {
			time.Sleep(time.Duration(rand.Intn(1500)) * time.Microsecond)
			cancel()
		}()
		offset, st := s1.cursors.GetCursor(cctx, stream, cursorID, 0)
		cancel()
		if st != nil {
			// Failing a cancelled call is fine.
			continue
		}
		if offset != 5 {
			// The wrong answer also sticks.
			resp, err := s1.api.FetchCursor(ctx, &client.FetchCursorRequest{
				Stream: stream, Partition: 0, CursorId: cursorID})
			require.NoError(t, err)
			t.Fatalf("iteration %d: cancelled GetCursor returned offset %d without an error; "+
				"a following FetchCursor returns %d, stored cursor is 5", i, offset, resp.Offset)
		}
	}
}
