// Belongs in: server/commitlog (package commitlog)
//
// Existing defect 5: an uncommitted reader that reaches the end of the active
// segment takes its list of segments first (uncommittedReader.Read,
// r.cl.Segments()) and registers as a waiter on the segment afterwards
// (segment.waitForData). If the segment is rolled because of MaxSegmentAge in
// between, Seal() has already notified the waiters of that moment, and
// waitForData does not look at s.sealed: position == pos and the segment is
// not full, so the reader is parked on a sealed segment that is never written
// to again. It never sees the new segment and delivers nothing any more.
//
// The window is a few microseconds, so the test lets many readers arrive at
// the end of the log while an append rolls the segment, round after round.
package commitlog

import (
	"context"
	"fmt"
	"math/rand"
	"sync"
	"sync/atomic"
	"testing"
	"time"
)

func TestExisting5ReaderParksOnSegmentSealedByAgeRoll(t *testing.T) {
	cl, err := New(Options{
		Path:            t.TempDir(),
		MaxSegmentBytes: 1 << 20,
		MaxSegmentAge:   1, // every append finds the active segment too old
	})
	if err != nil {
		t.Fatal(err)
	}
	l := cl.(*commitLog)
	defer l.Close()

	if _, err := l.Append([]*Message{{Value: []byte("first"), Timestamp: time.Now().UnixNano()}}); err != nil {
		t.Fatal(err)
	}

	const (
		rounds  = 400
		workers = 128
		spread  = 6 * time.Millisecond // an append that rolls takes a few ms here
	)
	var readers int64
	rnd := rand.New(rand.NewSource(3))
	for i := int64(1); i <= rounds; i++ {
		var (
			appended int32
			wg       sync.WaitGroup
			mu       sync.Mutex
			failures []string
		)
		for w := 0; w < workers; w++ {
			wg.Add(1)
			delay := time.Duration(rnd.Int63n(int64(spread)))
			go func() {
				defer wg.Done()
				hdr := make([]byte, 28)
				for start := time.Now(); time.Since(start) < delay; {
					if delay-time.Since(start) > 200*time.Microsecond {
						time.Sleep(100 * time.Microsecond)
					}
				}
				if atomic.LoadInt32(&appended) == 0 {
					// Start at the last message in the log, read it, and go
					// on to the end of the log.
					r, err := l.NewReader(i-1, true)
					if err != nil {
						mu.Lock()
						failures = append(failures, fmt.Sprintf("NewReader(%d): %v", i-1, err))
						mu.Unlock()
						return
					}
					atomic.AddInt64(&readers, 1)
					ctx, cancel := context.WithTimeout(context.Background(), 3*time.Second)
					_, off, _, _, err := r.ReadMessage(ctx, hdr)
					if err == nil && off == i-1 {
						_, off, _, _, err = r.ReadMessage(ctx, hdr)
						if err == nil && off != i {
							err = fmt.Errorf("got offset %d", off)
						}
					}
					cancel()
					if err != nil {
						mu.Lock()
						failures = append(failures, err.Error())
						mu.Unlock()
						return
					}
				}
			}()
		}
		offs, err := l.Append([]*Message{{Value: []byte("x"), Timestamp: time.Now().UnixNano()}})
		atomic.StoreInt32(&appended, 1)
		if err != nil || offs[0] != i {
			t.Fatalf("append %d: %v %v", i, offs, err)
		}
		// While the readers are still blocked, look where they are parked.
		time.Sleep(50 * time.Millisecond)
		parked := ""
		for _, seg := range l.Segments() {
			seg.RLock()
			if n := len(seg.waiters); n > 0 {
				parked += fmt.Sprintf("[segment base %d: sealed=%v active=%v waiters=%d] ",
					seg.BaseOffset, seg.sealed, seg == l.activeSegment(), n)
			}
			seg.RUnlock()
		}
		wg.Wait()
		if len(failures) > 0 {
			t.Fatalf("round %d (after %d readers): offset %d was appended (newest offset %d, %d segments), "+
				"but %d reader(s) that had read offset %d did not get it within 3s: %s\nparked readers: %s",
				i, atomic.LoadInt64(&readers), i, l.NewestOffset(), len(l.Segments()),
				len(failures), i-1, failures[0], parked)
		}
	}
	t.Logf("no hang in %d rounds, %d readers", rounds, readers)
}
