// Package directory: server/
package server

import (
	"context"
	"testing"
	"time"

	"github.com/stretchr/testify/require"

	proto "github.com/liftbridge-io/liftbridge/server/protocol"
)

// The tests in this file drive the controller (metadata leader) of a
// single-server cluster. The partition under test is replicated by brokers
// which do not exist ("b", "c", ...), so that the controller itself neither
// leads nor follows the partition and every leader report / ISR change is a
// pure metadata operation whose order the test controls completely.

func existing3C07Controller(t *testing.T, leaderTimeout time.Duration) *Server {
	config := getTestConfig("a", true, 5050)
	config.Clustering.ReplicaMaxLeaderTimeout = leaderTimeout
	s := runServerWithConfig(t, config)
	getMetadataLeader(t, 10*time.Second, s)
	return s
}

func existing3C07CreatePartition(t *testing.T, s *Server, name string, replicas []string, leader string) *partition {
	isr := make([]string, len(replicas))
	copy(isr, replicas)
	op := &proto.RaftLog{
		Op: proto.Op_CREATE_STREAM,
		CreateStreamOp: &proto.CreateStreamOp{
			Stream: &proto.Stream{
				Name:              name,
				Subject:           name,
				CreationTimestamp: time.Now().UnixNano(),
				Partitions: []*proto.Partition{{
					Subject:           name,
					Stream:            name,
					Id:                0,
					ReplicationFactor: int32(len(replicas)),
					Replicas:          replicas,
					Isr:               isr,
					Leader:            leader,
				}},
			},
		},
	}
	future, err := s.getRaft().applyOperation(context.Background(), op, s.metadata.checkCreateStreamPreconditions)
	require.NoError(t, err)
	require.NoError(t, future.Error())
	p := s.metadata.GetPartition(name, 0)
	require.NotNil(t, p)
	return p
}

func existing3C07Report(s *Server, p *partition, witness string) error {
	leader, epoch := p.GetLeader()
	st := s.metadata.ReportLeader(context.Background(), &proto.ReportLeaderOp{
		Stream:      p.Stream,
		Partition:   p.Id,
		Replica:     witness,
		Leader:      leader,
		LeaderEpoch: epoch,
	})
	if st != nil {
		return st.Err()
	}
	return nil
}

// The (leader, epoch) test of ShrinkISR is not atomic with the proposal: a
// shrink request of the deposed leader that passed the test before the leader
// change was applied is applied after it, and can even remove the new leader
// from the ISR.
func TestExistingC07StaleShrinkAppliedAfterLeaderChange(t *testing.T) {
	defer cleanupStorage(t)
	s := existing3C07Controller(t, 30*time.Second)
	defer s.Stop()

	p := existing3C07CreatePartition(t, s, "foo", []string{"b", "c"}, "b")
	oldLeader, oldEpoch := p.GetLeader()

	r := s.getRaft()
	r.Lock()
	// c reports b: quorum (one follower), failover to c starts and blocks.
	reportDone := make(chan error, 1)
	go func() { reportDone <- existing3C07Report(s, p, "c") }()
	time.Sleep(300 * time.Millisecond)
	// The old leader b asks to remove c from the ISR, naming (b, oldEpoch).
	shrinkDone := make(chan error, 1)
	go func() {
		st := s.metadata.ShrinkISR(context.Background(), &proto.ShrinkISROp{
			Stream: "foo", Partition: 0, ReplicaToRemove: "c", Leader: oldLeader, LeaderEpoch: oldEpoch,
		})
		if st != nil {
			shrinkDone <- st.Err()
			return
		}
		shrinkDone <- nil
	}()
	time.Sleep(300 * time.Millisecond)
	r.Unlock()
	require.NoError(t, <-reportDone)
	shrinkErr := <-shrinkDone

	leader, epoch := p.GetLeader()
	require.Equal(t, "c", leader)
	require.Greater(t, epoch, oldEpoch)
	require.Error(t, shrinkErr, "shrink naming the stale pair (%s, %d) was accepted; current is (%s, %d)",
		oldLeader, oldEpoch, leader, epoch)
	require.Contains(t, p.GetISR(), leader, "leader is not in the ISR")
}
