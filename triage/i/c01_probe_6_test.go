package commitlog

import (
	"context"
	"sync/atomic"
	"testing"
)

// After Truncate(offset) with offset == base offset of a later segment, the
// previous (sealed) segment becomes the active one again and must accept
// appends: its index was shrunk by Seal.
func TestProbeAppendToReactivatedSegment(t *testing.T) {
	var now int64 = 1000
	orig := timestamp
	timestamp = func() int64 { return atomic.LoadInt64(&now) }
	defer func() { timestamp = orig }()
	dir := t.TempDir()
	cl, err := New(Options{Path: dir, MaxSegmentBytes: 1 << 20, MaxSegmentAge: 1000})
	if err != nil {
		t.Fatal(err)
	}
	l := cl.(*commitLog)
	app := func(val string) int64 {
		offs, err := l.Append([]*Message{{Value: []byte(val), Timestamp: atomic.LoadInt64(&now)}})
		if err != nil {
			t.Fatal(err)
		}
		return offs[0]
	}
	app("a0")
	app("a1")
	app("a2")
	atomic.AddInt64(&now, 5000)
	app("b3")
	if err := l.Truncate(3); err != nil {
		t.Fatal(err)
	}
	l.MaxSegmentAge = 0 // no more age-based rolls
	for i := 0; i < 1000; i++ {
		app("x")
	}
	if n := len(l.Segments()); n != 1 || l.NewestOffset() != 1002 {
		t.Fatalf("segments %d newest %d", n, l.NewestOffset())
	}
	check := func(l *commitLog) {
		r, err := l.NewReader(0, true)
		if err != nil {
			t.Fatal(err)
		}
		hdr := make([]byte, 28)
		for i := int64(0); i <= 1002; i++ {
			_, off, _, _, err := r.ReadMessage(context.Background(), hdr)
			if err != nil || off != i {
				t.Fatalf("read %d: off %d err %v", i, off, err)
			}
		}
		if _, err := l.NewReader(700, true); err != nil {
			t.Fatal(err)
		}
	}
	check(l)
	l.Close()
	cl, err = New(Options{Path: dir, MaxSegmentBytes: 1 << 20})
	if err != nil {
		t.Fatal(err)
	}
	l = cl.(*commitLog)
	defer l.Close()
	if n := len(l.Segments()); n != 1 || l.NewestOffset() != 1002 {
		t.Fatalf("after reopen: segments %d newest %d", n, l.NewestOffset())
	}
	check(l)
}
