// Package directory: server/
package server

import (
	"context"
	"os"
	"path/filepath"
	"strings"
	"testing"
	"time"

	"github.com/stretchr/testify/require"

	client "github.com/liftbridge-io/liftbridge-api/v2/go"
)

// EXISTING DEFECT (unchanged code): the high watermark of a partition is only
// checkpointed to disk every 5 seconds (and on a clean close). If the server
// process dies after a SetCursor succeeded and before the next checkpoint,
// the restarted cursors partition leader comes up with the old high
// watermark. With the leader as the only in-sync replica nothing advances the
// high watermark until the next message is published to that cursors
// partition, and the reverse scan of GetCursor only reads up to the high
// watermark: FetchCursor returns the cursor before the last successful
// SetCursor (or -1).
//
// The crash is modelled by putting back the checkpoint file as it was on disk
// at the time SetCursor returned; every other file is as a kill -9 would have
// left it (the message itself was written to the log file before the ack).
func TestExistingC11StaleHighWatermarkAfterCrash(t *testing.T) {
	defer cleanupStorage(t)

	s1Config := getTestConfig("a", true, 5050)
	s1Config.CursorsStream.Partitions = 1
	s1 := runServerWithConfig(t, s1Config)
	defer s1.Stop()
	getMetadataLeader(t, 10*time.Second, s1)
	waitForPartition(t, 10*time.Second, cursorsStream, 0, s1)

	var (
		ctx      = context.Background()
		stream   = "foo"
		cursorID = "cursor"
		hwFile   = filepath.Join(s1Config.DataDir, "streams", cursorsStream, "0",
			"replication-offset-checkpoint")
	)

	_, err := s1.api.SetCursor(ctx, &client.SetCursorRequest{
		Stream: stream, Partition: 0, CursorId: cursorID, Offset: 5})
	require.NoError(t, err)

	// Wait for the periodic checkpoint to record the high watermark (0).
	deadline := time.Now().Add(15 * time.Second)
	for time.Now().Before(deadline) {
		if b, err := os.ReadFile(hwFile); err == nil && strings.TrimSpace(string(b)) == "0" {
			break
		}
		time.Sleep(50 * time.Millisecond)
	}

	_, err = s1.api.SetCursor(ctx, &client.SetCursorRequest{
		Stream: stream, Partition: 0, CursorId: cursorID, Offset: 7})
	require.NoError(t, err)
	resp, err := s1.api.FetchCursor(ctx, &client.FetchCursorRequest{
		Stream: stream, Partition: 0, CursorId: cursorID})
	require.NoError(t, err)
	require.Equal(t, int64(7), resp.Offset)

	// This is what the checkpoint file holds if the process dies now.
	onDisk, err := os.ReadFile(hwFile)
	require.NoError(t, err)
	require.Equal(t, "0", strings.TrimSpace(string(onDisk)))

	require.NoError(t, s1.Stop())
	require.NoError(t, os.WriteFile(hwFile, onDisk, 0666))

	s1 = runServerWithConfig(t, s1.config)
	defer s1.Stop()
	getMetadataLeader(t, 10*time.Second, s1)
	waitForPartition(t, 10*time.Second, cursorsStream, 0, s1)
	getPartitionLeader(t, 10*time.Second, cursorsStream, 0, s1)

	// Give the leader time to catch the high watermark up (it does not).
	time.Sleep(2 * time.Second)
	deadline = time.Now().Add(10 * time.Second)
	for time.Now().Before(deadline) {
		resp, err = s1.api.FetchCursor(ctx, &client.FetchCursorRequest{
			Stream: stream, Partition: 0, CursorId: cursorID})
		if err == nil {
			break
		}
		time.Sleep(50 * time.Millisecond)
	}
	require.NoError(t, err)
	p := s1.metadata.GetPartition(cursorsStream, 0)
	require.Equal(t, int64(7), resp.Offset,
		"cursor after crash recovery; cursors partition hw=%d newest=%d",
		p.log.HighWatermark(), p.log.NewestOffset())
}
