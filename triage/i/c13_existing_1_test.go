// Belongs in package directory: server/
//
// Demonstrates a defect present in the UNCHANGED code: the one-member-per-
// group guarantee is only enforced by whichever server currently leads the
// partition, and a server that stops leading a partition (while it keeps
// running, e.g. the controller moved the leadership after the followers
// reported the leader) neither cancels its group subscriptions nor are they
// known to the new leader. A new member of the group that subscribes at the
// new leader is accepted, the previous member's subscription on the old
// leader stays active, and both receive the same messages.
package server

import (
	"context"
	"testing"
	"time"

	lift "github.com/liftbridge-io/go-liftbridge/v2"
	client "github.com/liftbridge-io/liftbridge-api/v2/go"
	natsdTest "github.com/nats-io/nats-server/v2/test"
	"github.com/stretchr/testify/require"
)

func TestExisting1GroupSubscriberSurvivesLeaderChange(t *testing.T) {
	defer cleanupStorage(t)

	ns := natsdTest.RunDefaultServer()
	defer ns.Shutdown()

	s1Config := getTestConfig("a", true, 5050)
	s1Config.EmbeddedNATS = false
	s1Config.Clustering.ReplicaMaxIdleWait = 500 * time.Millisecond
	s1Config.Clustering.ReplicaFetchTimeout = 500 * time.Millisecond
	s1 := runServerWithConfig(t, s1Config)
	defer s1.Stop()

	s2Config := getTestConfig("b", false, 5051)
	s2Config.EmbeddedNATS = false
	s2Config.Clustering.ReplicaMaxIdleWait = 500 * time.Millisecond
	s2Config.Clustering.ReplicaFetchTimeout = 500 * time.Millisecond
	s2 := runServerWithConfig(t, s2Config)
	defer s2.Stop()

	servers := []*Server{s1, s2}
	controller := getMetadataLeader(t, 10*time.Second, servers...)

	lc, err := lift.Connect([]string{"localhost:5050", "localhost:5051"})
	require.NoError(t, err)
	defer lc.Close()

	cctx, ccancel := context.WithTimeout(context.Background(), 5*time.Second)
	defer ccancel()
	require.NoError(t, lc.CreateStream(cctx, "foo", "foo", lift.ReplicationFactor(2)))
	waitForPartition(t, 10*time.Second, "foo", 0, servers...)
	waitForISR(t, 10*time.Second, "foo", 0, 2, servers...)

	oldLeader := getPartitionLeader(t, 10*time.Second, "foo", 0, servers...)
	newLeader := s1
	if oldLeader == s1 {
		newLeader = s2
	}

	const group = "g"
	newReq := func(consumer string, epoch uint64) *client.SubscribeRequest {
		return &client.SubscribeRequest{
			Stream:        "foo",
			Partition:     0,
			StartPosition: client.StartPosition_NEW_ONLY,
			Consumer: &client.Consumer{
				GroupId:    group,
				GroupEpoch: epoch,
				ConsumerId: consumer,
			},
		}
	}
	isClosed := func(s *subscription) bool {
		select {
		case <-s.Closed():
			return true
		default:
			return false
		}
	}

	ctx, cancel := context.WithCancel(context.Background())
	defer cancel()

	// Consumer A of the group subscribes at the partition leader.
	subA, err := oldLeader.api.SubscribeInternal(ctx, newReq("A", 1))
	require.NoError(t, err)
	defer subA.Close()

	_, err = lc.Publish(context.Background(), "foo", []byte("one"), lift.AckPolicyAll())
	require.NoError(t, err)
	select {
	case m := <-subA.Messages():
		require.Equal(t, int64(0), m.Offset)
	case <-time.After(5 * time.Second):
		t.Fatal("A did not receive the first message")
	}

	// The controller moves the partition leadership to the other in-sync
	// replica. The old leader keeps running as a follower.
	p := controller.metadata.GetPartition("foo", 0)
	require.NotNil(t, p)
	ectx, ecancel := context.WithTimeout(context.Background(), 5*time.Second)
	defer ecancel()
	require.Nil(t, controller.metadata.electNewPartitionLeader(ectx, p))

	deadline := time.Now().Add(10 * time.Second)
	for {
		if newLeader.metadata.GetPartition("foo", 0).IsLeader() &&
			!oldLeader.metadata.GetPartition("foo", 0).IsLeader() {
			break
		}
		if time.Now().After(deadline) {
			t.Fatal("leadership did not move")
		}
		time.Sleep(15 * time.Millisecond)
	}

	// The group was rebalanced: consumer B now owns the partition (newer group
	// epoch) and subscribes at the new leader.
	subB, err := newLeader.api.SubscribeInternal(ctx, newReq("B", 2))
	require.NoError(t, err)
	defer subB.Close()

	aClosed := isClosed(subA)
	t.Logf("A's subscription cancelled after B subscribed: %v", aClosed)

	// Publish a message and see who gets it.
	pctx, pcancel := context.WithTimeout(context.Background(), 10*time.Second)
	defer pcancel()
	_, err = lc.Publish(pctx, "foo", []byte("two"), lift.AckPolicyAll())
	require.NoError(t, err)
	delivered := 0
	for name, s := range map[string]*subscription{"A": subA, "B": subB} {
		if isClosed(s) {
			continue
		}
		timeout := time.After(10 * time.Second)
	RECV:
		for {
			select {
			case m := <-s.Messages():
				t.Logf("consumer %s received offset %d %q", name, m.Offset, m.Value)
				if string(m.Value) == "two" {
					delivered++
					break RECV
				}
			case <-timeout:
				break RECV
			}
		}
	}

	require.True(t, aClosed, "A must not stay subscribed once B is subscribed")
	require.Equal(t, 1, delivered,
		"the message must be delivered to exactly one member of the group")
}
