// Package directory: server/
package server

import (
	"context"
	"testing"
	"time"

	"github.com/stretchr/testify/require"

	proto "github.com/liftbridge-io/liftbridge/server/protocol"
)

// The tests in this file drive the controller (metadata leader) of a
// single-server cluster. The partition under test is replicated by brokers
// which do not exist ("b", "c", ...), so that the controller itself neither
// leads nor follows the partition and every leader report / ISR change is a
// pure metadata operation whose order the test controls completely.

func existing4C07Controller(t *testing.T, leaderTimeout time.Duration) *Server {
	config := getTestConfig("a", true, 5050)
	config.Clustering.ReplicaMaxLeaderTimeout = leaderTimeout
	s := runServerWithConfig(t, config)
	getMetadataLeader(t, 10*time.Second, s)
	return s
}

func existing4C07CreatePartition(t *testing.T, s *Server, name string, replicas []string, leader string) *partition {
	isr := make([]string, len(replicas))
	copy(isr, replicas)
	op := &proto.RaftLog{
		Op: proto.Op_CREATE_STREAM,
		CreateStreamOp: &proto.CreateStreamOp{
			Stream: &proto.Stream{
				Name:              name,
				Subject:           name,
				CreationTimestamp: time.Now().UnixNano(),
				Partitions: []*proto.Partition{{
					Subject:           name,
					Stream:            name,
					Id:                0,
					ReplicationFactor: int32(len(replicas)),
					Replicas:          replicas,
					Isr:               isr,
					Leader:            leader,
				}},
			},
		},
	}
	future, err := s.getRaft().applyOperation(context.Background(), op, s.metadata.checkCreateStreamPreconditions)
	require.NoError(t, err)
	require.NoError(t, future.Error())
	p := s.metadata.GetPartition(name, 0)
	require.NotNil(t, p)
	return p
}

func existing4C07Report(s *Server, p *partition, witness string) error {
	leader, epoch := p.GetLeader()
	st := s.metadata.ReportLeader(context.Background(), &proto.ReportLeaderOp{
		Stream:      p.Stream,
		Partition:   p.Id,
		Replica:     witness,
		Leader:      leader,
		LeaderEpoch: epoch,
	})
	if st != nil {
		return st.Err()
	}
	return nil
}

// A ShrinkISR request which names the leader itself as the replica to remove
// is accepted, after which the leader is not in the ISR.
func TestExistingC07ShrinkRemovesLeaderFromISR(t *testing.T) {
	defer cleanupStorage(t)
	s := existing4C07Controller(t, 30*time.Second)
	defer s.Stop()

	p := existing4C07CreatePartition(t, s, "foo", []string{"b", "c", "d"}, "b")
	leader, epoch := p.GetLeader()
	st := s.metadata.ShrinkISR(context.Background(), &proto.ShrinkISROp{
		Stream: "foo", Partition: 0, ReplicaToRemove: leader, Leader: leader, LeaderEpoch: epoch,
	})
	if st == nil {
		require.Contains(t, p.GetISR(), leader, "leader was removed from the ISR by an accepted ShrinkISR")
	}
}
