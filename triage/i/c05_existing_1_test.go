// Belongs in: server/commitlog (package commitlog)
//
// Existing defect 1 for property C05: a crash between the two renames of
// segment.Replace (log renamed, index not yet) leaves the NEW log next to the
// OLD index. Recovery only handles "log ahead of index"; an index which is
// ahead of the log is trusted, so the reopened log reports offsets whose index
// entries point past the end of the file (truncation) or to the wrong bytes
// (compaction).
package commitlog

import (
	"context"
	"fmt"
	"os"
	"path/filepath"
	"testing"
	"time"

	"github.com/stretchr/testify/require"
)

func ex1CopyDir(t *testing.T, from string) string {
	to, err := os.MkdirTemp("", "lift_image_")
	require.NoError(t, err)
	files, err := os.ReadDir(from)
	require.NoError(t, err)
	for _, f := range files {
		if f.IsDir() {
			continue
		}
		b, err := os.ReadFile(filepath.Join(from, f.Name()))
		require.NoError(t, err)
		require.NoError(t, os.WriteFile(filepath.Join(to, f.Name()), b, 0644))
	}
	return to
}

// ex1FailSecondRename arranges for os.Rename(<x>.index.<suffix>, <x>.index) to
// fail by putting a non-empty directory where the old index is. The old index
// stays reachable through a hard link (and through the descriptor the segment
// holds), and is put back by the returned function, which yields exactly the
// directory a process killed between the two renames leaves behind.
func ex1FailSecondRename(t *testing.T, seg *segment) (restore func()) {
	idx := seg.indexPath()
	bak := idx + ".bak"
	require.NoError(t, os.Link(idx, bak))
	require.NoError(t, os.Remove(idx))
	require.NoError(t, os.Mkdir(idx, 0755))
	require.NoError(t, os.WriteFile(filepath.Join(idx, "x"), []byte("x"), 0644))
	return func() {
		require.NoError(t, os.RemoveAll(idx))
		require.NoError(t, os.Rename(bak, idx))
	}
}

func ex1ReadAt(l *commitLog, offset int64) (val string, off int64, err error) {
	defer func() {
		if r := recover(); r != nil {
			err = fmt.Errorf("panic: %v", r)
		}
	}()
	r, err := l.NewReader(offset, true)
	if err != nil {
		return "", 0, err
	}
	ctx, cancel := context.WithTimeout(context.Background(), time.Second)
	defer cancel()
	m, off, _, _, err := r.ReadMessage(ctx, make([]byte, 28))
	if err != nil {
		return "", 0, err
	}
	return string(m.Value()), off, nil
}

func TestExisting1CrashBetweenReplaceRenamesTruncate(t *testing.T) {
	dir := tempDir(t)
	defer remove(t, dir)
	opts := Options{Path: dir, MaxSegmentBytes: 1 << 20}
	l, err := New(opts)
	require.NoError(t, err)
	cl := l.(*commitLog)
	for i := 0; i < 10; i++ {
		_, err := l.Append([]*Message{{Value: []byte(fmt.Sprintf("m%d", i)), Timestamp: int64(i + 1), LeaderEpoch: 1}})
		require.NoError(t, err)
	}

	restore := ex1FailSecondRename(t, cl.Segments()[0])
	err = l.Truncate(5)
	require.Error(t, err, "the second rename was expected to fail")
	restore()
	image := ex1CopyDir(t, dir)
	defer remove(t, image)
	l.Close()

	names := []string{}
	files, _ := os.ReadDir(image)
	for _, f := range files {
		fi, _ := f.Info()
		names = append(names, fmt.Sprintf("%s(%d)", f.Name(), fi.Size()))
	}
	t.Logf("crash image: %v", names)

	opts.Path = image
	l2, err := New(opts)
	require.NoError(t, err, "reopen after crash")
	defer l2.Close()
	newest := l2.NewestOffset()
	t.Logf("newest offset after reopen: %d", newest)
	// Either the truncation took place (newest 4) or it did not (newest 9),
	// and every offset up to the newest one must be readable.
	for o := int64(0); o <= newest; o++ {
		val, off, err := ex1ReadAt(l2.(*commitLog), o)
		require.NoError(t, err, "reading offset %d of a log whose newest offset is %d", o, newest)
		require.Equal(t, o, off)
		require.Equal(t, fmt.Sprintf("m%d", o), val)
	}
}

// ex1Key: every third message has a key of its own (and is therefore retained
// by compaction), the others share two keys.
func ex1Key(n int) []byte {
	if n%3 == 0 {
		return []byte(fmt.Sprintf("u%d", n))
	}
	return []byte(fmt.Sprintf("k%d", n%2))
}

func TestExisting1CrashBetweenReplaceRenamesCompact(t *testing.T) {
	dir := tempDir(t)
	defer remove(t, dir)
	opts := Options{Path: dir, MaxSegmentBytes: 400, Compact: true}
	l, err := New(opts)
	require.NoError(t, err)
	cl := l.(*commitLog)
	// Keys k0,k1,k0,k1,... so that compaction drops most of the first segment.
	n := 0
	for len(cl.Segments()) < 3 {
		_, err := l.Append([]*Message{{
			Key:       ex1Key(n),
			Value:     []byte(fmt.Sprintf("m%d", n)),
			Timestamp: int64(n + 1), LeaderEpoch: 1}})
		require.NoError(t, err)
		n++
	}
	l.SetHighWatermark(int64(n - 1))

	restore := ex1FailSecondRename(t, cl.Segments()[0])
	err = l.Clean()
	require.Error(t, err, "the second rename was expected to fail")
	require.Contains(t, err.Error(), "rename")
	restore()
	image := ex1CopyDir(t, dir)
	defer remove(t, image)
	l.Close()

	opts.Path = image
	l2, err := New(opts)
	require.NoError(t, err, "reopen after crash")
	defer l2.Close()
	// Whatever is found at an offset must be the message appended there.
	seen := 0
	for o := int64(0); o < int64(n); o++ {
		cl2 := l2.(*commitLog)
		seg, contains := findSegmentContains(cl2.Segments(), o)
		if !contains {
			continue
		}
		e, err := seg.findEntry(o)
		if err != nil || e.Offset != o {
			continue // compacted away
		}
		val, off, err := ex1ReadAt(cl2, o)
		require.NoError(t, err, "reading offset %d, which the index lists", o)
		require.Equal(t, o, off)
		require.Equal(t, fmt.Sprintf("m%d", o), val)
		seen++
	}
	require.NotZero(t, seen)
}
