// Package directory: server/commitlog
//
// Existing defect 1 (fails on the UNCHANGED code): retention (the delete
// cleaner) does not take the high watermark into account. When it removes the
// segment holding the HW while HW < LEO, getHWPos resolves the HW to the first
// entry of the oldest surviving segment (findEntry returns the first entry
// whose offset is >= hw) and uses the END of that entry as the read limit. A
// committed reader is then handed that message although its offset is above
// the HW.
package commitlog

import (
	"context"
	"strconv"
	"testing"
	"time"

	"github.com/stretchr/testify/require"
)

func TestExistingRetentionExposesUncommitted(t *testing.T) {
	l, cleanup := setupWithOptions(t, Options{
		Path:            tempDir(t),
		MaxSegmentBytes: 60, // Roughly one message per segment.
		MaxLogMessages:  3,
	})
	defer cleanup()

	for i := 0; i < 10; i++ {
		_, err := l.Append([]*Message{{
			Value:       []byte(strconv.Itoa(i)),
			Timestamp:   int64(i + 1),
			LeaderEpoch: 1,
		}})
		require.NoError(t, err)
	}
	// Only offsets 0 and 1 are committed, e.g. because the ISR is below the
	// minimum or a follower is slow. Everything else is uncommitted.
	l.SetHighWatermark(1)
	require.True(t, len(l.Segments()) > 4, "want several segments")

	// Retention kicks in (this is what cleanerLoop does periodically).
	require.NoError(t, l.Clean())
	require.True(t, l.OldestOffset() > l.HighWatermark(),
		"retention is expected to have removed the HW segment")

	hw := l.HighWatermark()
	require.Equal(t, int64(1), hw)

	r, err := l.NewReader(0, false)
	require.NoError(t, err)

	ctx, cancel := context.WithTimeout(context.Background(), 500*time.Millisecond)
	defer cancel()
	_, offset, _, _, err := r.ReadMessage(ctx, make([]byte, 28))
	if err != nil {
		// Blocking until the HW advances (or an error) is acceptable.
		return
	}
	require.LessOrEqual(t, offset, l.HighWatermark(),
		"committed reader was handed offset %d although HW is %d", offset, l.HighWatermark())
}
