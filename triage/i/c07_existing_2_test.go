// Package directory: server/
package server

import (
	"context"
	"fmt"
	"testing"
	"time"

	"github.com/stretchr/testify/require"

	proto "github.com/liftbridge-io/liftbridge/server/protocol"
)

// The tests in this file drive the controller (metadata leader) of a
// single-server cluster. The partition under test is replicated by brokers
// which do not exist ("b", "c", ...), so that the controller itself neither
// leads nor follows the partition and every leader report / ISR change is a
// pure metadata operation whose order the test controls completely.

func existing2C07Controller(t *testing.T, leaderTimeout time.Duration) *Server {
	config := getTestConfig("a", true, 5050)
	config.Clustering.ReplicaMaxLeaderTimeout = leaderTimeout
	s := runServerWithConfig(t, config)
	getMetadataLeader(t, 10*time.Second, s)
	return s
}

func existing2C07CreatePartition(t *testing.T, s *Server, name string, replicas []string, leader string) *partition {
	isr := make([]string, len(replicas))
	copy(isr, replicas)
	op := &proto.RaftLog{
		Op: proto.Op_CREATE_STREAM,
		CreateStreamOp: &proto.CreateStreamOp{
			Stream: &proto.Stream{
				Name:              name,
				Subject:           name,
				CreationTimestamp: time.Now().UnixNano(),
				Partitions: []*proto.Partition{{
					Subject:           name,
					Stream:            name,
					Id:                0,
					ReplicationFactor: int32(len(replicas)),
					Replicas:          replicas,
					Isr:               isr,
					Leader:            leader,
				}},
			},
		},
	}
	future, err := s.getRaft().applyOperation(context.Background(), op, s.metadata.checkCreateStreamPreconditions)
	require.NoError(t, err)
	require.NoError(t, future.Error())
	p := s.metadata.GetPartition(name, 0)
	require.NotNil(t, p)
	return p
}

func existing2C07Report(s *Server, p *partition, witness string) error {
	leader, epoch := p.GetLeader()
	st := s.metadata.ReportLeader(context.Background(), &proto.ReportLeaderOp{
		Stream:      p.Stream,
		Partition:   p.Id,
		Replica:     witness,
		Leader:      leader,
		LeaderEpoch: epoch,
	})
	if st != nil {
		return st.Err()
	}
	return nil
}

// A report which names the previous leader and arrives while the failover of
// that leader is in flight is kept as a witness against the NEW leader.
func TestExistingC07StaleLeaderWitnessCountsAgainstNewLeader(t *testing.T) {
	defer cleanupStorage(t)
	s := existing2C07Controller(t, 30*time.Second)
	defer s.Stop()

	p := existing2C07CreatePartition(t, s, "foo", []string{"b", "c", "d", "e"}, "b")
	oldLeader, oldEpoch := p.GetLeader()

	// Stall Raft proposals of the controller: applyOperation takes this lock.
	r := s.getRaft()
	r.Lock()

	require.NoError(t, existing2C07Report(s, p, "c"))
	done := make(chan error, 1)
	go func() { done <- existing2C07Report(s, p, "d") }() // quorum: failover starts, blocks on the lock
	time.Sleep(300 * time.Millisecond)
	// Third follower reports the (still current) leader b while the leader
	// change is in flight.
	require.NoError(t, existing2C07Report(s, p, "e"))
	r.Unlock()
	require.NoError(t, <-done)

	newLeader, newEpoch := p.GetLeader()
	require.NotEqual(t, oldLeader, newLeader)
	require.Greater(t, newEpoch, oldEpoch)

	// Exactly one in-sync follower reports the new leader.
	var witness string
	for _, rep := range p.GetISR() {
		if rep != newLeader && rep != "e" {
			witness = rep
			break
		}
	}
	require.NotEmpty(t, witness)
	require.NoError(t, existing2C07Report(s, p, witness))

	leader, epoch := p.GetLeader()
	require.Equal(t, fmt.Sprintf("%s/%d", newLeader, newEpoch), fmt.Sprintf("%s/%d", leader, epoch),
		"leader %s (epoch %d) was failed over after a single report (from %s); the other witness reported the previous leader %s in epoch %d",
		newLeader, newEpoch, witness, oldLeader, oldEpoch)
}
