// Belongs in: server/commitlog (package commitlog)
//
// Existing defect 2 for property C05: an append writes the log, then the index,
// and only then records a new leader epoch in the leader-epoch checkpoint. A
// crash after the index write and before the checkpoint replace leaves a
// message of a new epoch in the log whose epoch the recovered leader-epoch
// history does not know. Recovery (commitlog.New) only trims the history
// (ClearLatest / ClearEarliest), it never adds what the log holds, so the
// history stays behind the log; the next append of that epoch then records the
// epoch with a start offset that is too high.
package commitlog

import (
	"context"
	"os"
	"path/filepath"
	"testing"
	"time"

	"github.com/stretchr/testify/require"
)

func ex2CopyDir(t *testing.T, from string) string {
	to, err := os.MkdirTemp("", "lift_image_")
	require.NoError(t, err)
	files, err := os.ReadDir(from)
	require.NoError(t, err)
	for _, f := range files {
		if f.IsDir() {
			continue
		}
		b, err := os.ReadFile(filepath.Join(from, f.Name()))
		require.NoError(t, err)
		require.NoError(t, os.WriteFile(filepath.Join(to, f.Name()), b, 0644))
	}
	return to
}

func TestExisting2CrashBetweenIndexWriteAndEpochCheckpoint(t *testing.T) {
	dir := tempDir(t)
	defer remove(t, dir)
	opts := Options{Path: dir, MaxSegmentBytes: 1 << 20}
	l, err := New(opts)
	require.NoError(t, err)
	for i := 0; i < 3; i++ {
		_, err := l.Append([]*Message{{Value: []byte("old"), Timestamp: int64(i + 1), LeaderEpoch: 1}})
		require.NoError(t, err)
	}
	require.Equal(t, uint64(1), l.LastLeaderEpoch())

	// Make the replace of the leader-epoch checkpoint fail (a non-empty
	// directory is in the way), which stops append() exactly between the index
	// write and the checkpoint replace. Then put the checkpoint back as it was:
	// the directory now is what a process killed at that point leaves behind.
	cp := filepath.Join(dir, leaderEpochFileName)
	saved, err := os.ReadFile(cp)
	require.NoError(t, err)
	require.NoError(t, os.Remove(cp))
	require.NoError(t, os.Mkdir(cp, 0755))
	require.NoError(t, os.WriteFile(filepath.Join(cp, "x"), []byte("x"), 0644))
	_, err = l.Append([]*Message{{Value: []byte("new"), Timestamp: 4, LeaderEpoch: 2}})
	require.Error(t, err, "the checkpoint replace was expected to fail")
	require.NoError(t, os.RemoveAll(cp))
	require.NoError(t, os.WriteFile(cp, saved, 0644))
	image := ex2CopyDir(t, dir)
	defer remove(t, image)
	l.Close()

	opts.Path = image
	l2, err := New(opts)
	require.NoError(t, err, "reopen after crash")
	defer l2.Close()

	// The message of epoch 2 is in the reopened log, at offset 3.
	require.Equal(t, int64(3), l2.NewestOffset())
	r, err := l2.NewReader(3, true)
	require.NoError(t, err)
	ctx, cancel := context.WithTimeout(context.Background(), 2*time.Second)
	defer cancel()
	m, off, _, epoch, err := r.ReadMessage(ctx, make([]byte, 28))
	require.NoError(t, err)
	require.Equal(t, int64(3), off)
	require.Equal(t, []byte("new"), m.Value())
	require.Equal(t, uint64(2), epoch)

	// One more message of epoch 2 arrives (e.g. replicated from the leader).
	_, err = l2.Append([]*Message{{Value: []byte("next"), Timestamp: 5, LeaderEpoch: 2}})
	require.NoError(t, err)

	// Epoch 2 starts at offset 3 in this log, so this is where epoch 1 ends.
	require.Equal(t, int64(3), l2.LastOffsetForLeaderEpoch(1),
		"start offset of epoch 2 according to the leader-epoch history")
}

func TestExisting2HistoryBehindLogAfterReopen(t *testing.T) {
	dir := tempDir(t)
	defer remove(t, dir)
	opts := Options{Path: dir, MaxSegmentBytes: 1 << 20}
	l, err := New(opts)
	require.NoError(t, err)
	for i := 0; i < 3; i++ {
		_, err := l.Append([]*Message{{Value: []byte("old"), Timestamp: int64(i + 1), LeaderEpoch: 1}})
		require.NoError(t, err)
	}
	cp := filepath.Join(dir, leaderEpochFileName)
	saved, err := os.ReadFile(cp)
	require.NoError(t, err)
	require.NoError(t, os.Remove(cp))
	require.NoError(t, os.Mkdir(cp, 0755))
	require.NoError(t, os.WriteFile(filepath.Join(cp, "x"), []byte("x"), 0644))
	_, err = l.Append([]*Message{{Value: []byte("new"), Timestamp: 4, LeaderEpoch: 2}})
	require.Error(t, err)
	require.NoError(t, os.RemoveAll(cp))
	require.NoError(t, os.WriteFile(cp, saved, 0644))
	image := ex2CopyDir(t, dir)
	defer remove(t, image)
	l.Close()

	opts.Path = image
	l2, err := New(opts)
	require.NoError(t, err)
	defer l2.Close()
	require.Equal(t, int64(3), l2.NewestOffset())
	// The newest message has leader epoch 2, so must the history.
	require.Equal(t, uint64(2), l2.LastLeaderEpoch(),
		"latest epoch of the recovered leader-epoch history")
}
