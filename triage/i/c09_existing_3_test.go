// Package directory: server/commitlog
package commitlog

import (
	"strings"
	"sync"
	"testing"
	"time"

	"github.com/stretchr/testify/require"

	"github.com/liftbridge-io/liftbridge/server/logger"
)

type existing3HookLogger struct {
	logger.Logger
	once sync.Once
	hook func()
}

func (l *existing3HookLogger) Debugf(format string, v ...interface{}) {
	if strings.HasPrefix(format, "Finished cleaning log") && l.hook != nil {
		l.once.Do(l.hook)
	}
}

// Clean takes a snapshot of the segment list, deletes segments without holding
// the log lock and then installs the cleaned snapshot, rebasing only segments
// which were ADDED meanwhile (len(newSegments) > len(oldSegments)). A Truncate
// which runs in that window (a follower truncating to the new leader's log)
// shortens the list instead, so Clean installs its stale snapshot over it: the
// truncated segments, which are closed and deleted, are back in the segment
// list and the active segment is no longer the last one in it.
func TestExisting3CleanInstallsStaleSegmentsOverATruncate(t *testing.T) {
	hl := &existing3HookLogger{Logger: noopLogger()}
	l, cleanup := setupWithOptions(t, Options{
		Path:            tempDir(t),
		MaxSegmentBytes: 1, // Every append rolls a new segment.
		MaxLogMessages:  4,
		Logger:          hl,
	})
	defer cleanup()

	// Six segments with one message each: offsets 0..5.
	for i := 0; i < 6; i++ {
		_, err := l.Append([]*Message{{Value: []byte("v"), Timestamp: time.Now().UnixNano(), LeaderEpoch: 1}})
		require.NoError(t, err)
	}
	require.Len(t, l.Segments(), 6)

	// While the clean is between deleting segments and installing the new list,
	// the log is truncated to offset 4, i.e. offsets 4 and 5 are removed.
	hl.hook = func() { require.NoError(t, l.Truncate(4)) }
	require.NoError(t, l.Clean())

	require.Equal(t, int64(3), l.NewestOffset())
	segments := l.Segments()
	require.True(t, segments[len(segments)-1] == l.activeSegment(),
		"the last listed segment (base offset %d) is not the active segment (base offset %d)",
		segments[len(segments)-1].BaseOffset, l.activeSegment().BaseOffset)
	for _, seg := range segments {
		require.True(t, exists(seg.logPath()),
			"segment with base offset %d is listed but its files were deleted", seg.BaseOffset)
	}
}
