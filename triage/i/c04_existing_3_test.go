// Belongs in package directory: server/
package server

import (
	"context"
	"testing"
	"time"

	lift "github.com/liftbridge-io/go-liftbridge/v2"
	"github.com/nats-io/nats.go"
	"github.com/stretchr/testify/require"
)

// UNCHANGED CODE FAILS THIS TEST.
//
// The leader rejects a message as "too large" when the NATS payload exceeds
// clustering.replication.max.bytes (messageProcessingLoop), but the replicator
// can ship a stored message only if message + 28 bytes of headers + the
// response envelope fit in the same limit (replicator.replicate breaks out of
// its loop before writing anything otherwise). A message in the gap between
// the two limits (here: a plain 1000-byte NATS message with the limit at 1024)
// is accepted and stored on the leader, yet can never be stored by any
// follower: every replication response is empty from then on. The message is
// neither rejected nor replicable, and no later ALL-policy message can be
// acknowledged while the ISR still contains a follower.
func TestExistingC04_3_AcceptedMessageThatCannotBeReplicated(t *testing.T) {
	defer cleanupStorage(t)

	s1Config := getTestConfig("a", true, 5050)
	s1Config.Clustering.ReplicationMaxBytes = 1024
	s1Config.Clustering.ReplicaMaxIdleWait = 500 * time.Millisecond
	s1Config.Clustering.ReplicaFetchTimeout = 500 * time.Millisecond
	s1 := runServerWithConfig(t, s1Config)
	defer s1.Stop()
	s2Config := getTestConfig("b", false, 5051)
	s2Config.Clustering.ReplicationMaxBytes = 1024
	s2Config.Clustering.ReplicaMaxIdleWait = 500 * time.Millisecond
	s2Config.Clustering.ReplicaFetchTimeout = 500 * time.Millisecond
	s2 := runServerWithConfig(t, s2Config)
	defer s2.Stop()
	servers := []*Server{s1, s2}
	getMetadataLeader(t, 10*time.Second, servers...)

	c, err := lift.Connect([]string{"localhost:5050", "localhost:5051"})
	require.NoError(t, err)
	defer c.Close()

	name := "foo"
	ctx, cancel := context.WithTimeout(context.Background(), 5*time.Second)
	defer cancel()
	require.NoError(t, c.CreateStream(ctx, "foo", name, lift.ReplicationFactor(2)))
	waitForPartition(t, 5*time.Second, name, 0, servers...)
	leader := getPartitionLeader(t, 10*time.Second, name, 0, servers...)
	follower := s1
	if leader == s1 {
		follower = s2
	}
	fp := follower.metadata.GetPartition(name, 0)
	lp := leader.metadata.GetPartition(name, 0)

	ctx, cancel = context.WithTimeout(context.Background(), 10*time.Second)
	defer cancel()
	_, err = c.Publish(ctx, name, []byte("small"), lift.AckPolicyAll())
	require.NoError(t, err)

	// A plain NATS message (liftbridge stores those too) of 1000 bytes: below
	// the limit that is checked on receipt (1025 bytes are rejected, see
	// TestStreamPublishSubscribe), so the leader stores it.
	nc, err := nats.GetDefaultOptions().Connect()
	require.NoError(t, err)
	defer nc.Close()
	size := 1000
	require.NoError(t, nc.Publish("foo", make([]byte, size)))
	require.NoError(t, nc.Flush())
	deadline := time.Now().Add(5 * time.Second)
	for lp.log.NewestOffset() != 1 && time.Now().Before(deadline) {
		time.Sleep(10 * time.Millisecond)
	}
	require.Equal(t, int64(1), lp.log.NewestOffset(), "leader did not store the message")

	// A later ALL-policy message: the follower is alive, in the ISR and
	// fetching, so this has to be acknowledged.
	ctx, cancel = context.WithTimeout(context.Background(), 5*time.Second)
	defer cancel()
	_, err = c.Publish(ctx, name, []byte("after"), lift.AckPolicyAll())
	if err != nil {
		t.Fatalf("ALL-policy publish after the accepted %d-byte message: %v; leader log newest offset %d, "+
			"follower (in ISR, ISR size %d) newest offset %d: the accepted message cannot be replicated",
			size, err, lp.log.NewestOffset(), lp.ISRSize(), fp.log.NewestOffset())
	}
}
