// Belongs in package directory: server
//
// PART B, finding 1. Fails on the UNCHANGED code.
//
// This is TestTruncatePreventReplicaDivergence with ONE extra step: before the
// old leader comes back, the partition fails over a second time, to the
// replica that learned the epoch boundary by replication rather than by being
// elected.
package server

import (
	"context"
	"testing"
	"time"

	natsdTest "github.com/nats-io/nats-server/v2/test"
	"github.com/stretchr/testify/require"

	lift "github.com/liftbridge-io/go-liftbridge/v2"
)

func TestExisting1DivergenceAfterSecondFailover(t *testing.T) {
	defer cleanupStorage(t)

	ns := natsdTest.RunDefaultServer()
	defer ns.Shutdown()

	configs := map[string]*Config{}
	newConfig := func(id string, bootstrap bool, port int) *Config {
		c := getTestConfig(id, bootstrap, port)
		c.EmbeddedNATS = false
		c.Clustering.MinISR = 1
		c.Clustering.ReplicaMaxLeaderTimeout = time.Second
		c.Clustering.ReplicaMaxIdleWait = 500 * time.Millisecond
		c.Clustering.ReplicaFetchTimeout = 500 * time.Millisecond
		configs[id] = c
		return c
	}
	s1 := runServerWithConfig(t, newConfig("a", true, 5050))
	defer s1.Stop()
	s2 := runServerWithConfig(t, newConfig("b", false, 5051))
	defer s2.Stop()
	s3 := runServerWithConfig(t, newConfig("c", false, 5052))
	defer s3.Stop()
	servers := []*Server{s1, s2, s3}

	client, err := lift.Connect([]string{"localhost:5050", "localhost:5051", "localhost:5052"})
	require.NoError(t, err)
	defer client.Close()

	name := "foo"
	ctx, cancel := context.WithTimeout(context.Background(), 5*time.Second)
	defer cancel()
	require.NoError(t, client.CreateStream(ctx, "foo", name, lift.ReplicationFactor(3)))
	waitForPartition(t, 5*time.Second, name, 0, servers...)

	publish := func(v string) {
		ctx, cancel := context.WithTimeout(context.Background(), 5*time.Second)
		defer cancel()
		_, err := client.Publish(ctx, name, []byte(v))
		require.NoError(t, err)
	}
	publish("hello")
	publish("world")

	leader := getPartitionLeader(t, 10*time.Second, name, 0, servers...)
	var followers []*Server
	for _, s := range servers {
		if s != leader {
			followers = append(followers, s)
		}
	}
	follower1, follower2 := followers[0], followers[1]
	waitForHW(t, 5*time.Second, name, 0, 1, servers...)

	// As in the original test: the followers crash having only "hello" (HW 0),
	// so "world" exists on the first leader only and is NOT committed by the
	// epoch that follows.
	for _, f := range followers {
		p := f.metadata.GetPartition(name, 0)
		require.NotNil(t, p)
		stopFollowing(t, p)
		p.log.OverrideHighWatermark(0)
		require.NoError(t, p.truncateToHW())
	}

	// Force the first leader election.
	partition := leader.metadata.GetPartition(name, 0)
	require.NotNil(t, partition)
	partition.pauseReplication()

	id1, id2 := follower1.config.Clustering.ServerID, follower2.config.Clustering.ServerID
	follower1.Stop()
	configs[id1].Clustering.ReplicaMaxLagTime = 2 * time.Second
	follower1 = runServerWithConfig(t, configs[id1])
	defer follower1.Stop()
	follower2.Stop()
	configs[id2].Clustering.ReplicaMaxLagTime = 2 * time.Second
	follower2 = runServerWithConfig(t, configs[id2])
	defer follower2.Stop()

	secondLeader := getPartitionLeader(t, 10*time.Second, name, 0, follower1, follower2)

	// The first leader dies (keeping "world" at offset 1 on disk).
	oldLeaderID := leader.config.Clustering.ServerID
	leader.Stop()
	waitForISR(t, 10*time.Second, name, 0, 2, follower1, follower2)

	// Second epoch: two messages, stored by the whole ISR.
	publish("goodnight")
	publish("moon")
	waitForHW(t, 5*time.Second, name, 0, 2, follower1, follower2)

	// ---- the extra step: a second failover, to the replica that learned the
	// start of the second epoch by replicating "goodnight". ----
	thirdLeader := follower1
	if secondLeader == follower1 {
		thirdLeader = follower2
	}
	p2 := secondLeader.metadata.GetPartition(name, 0)
	require.NotNil(t, p2)
	p2.pauseReplication()
	deadline := time.Now().Add(15 * time.Second)
	for time.Now().Before(deadline) {
		l, _ := thirdLeader.metadata.GetPartition(name, 0).GetLeader()
		if l == thirdLeader.config.Clustering.ServerID {
			break
		}
		time.Sleep(15 * time.Millisecond)
	}
	l, _ := thirdLeader.metadata.GetPartition(name, 0).GetLeader()
	require.Equal(t, thirdLeader.config.Clustering.ServerID, l, "second failover did not happen")

	// The first leader comes back and follows the third leader.
	oldLeader := runServerWithConfig(t, configs[oldLeaderID])
	defer oldLeader.Stop()
	servers = []*Server{follower1, follower2, oldLeader}
	waitForHW(t, 10*time.Second, name, 0, 2, servers...)
	// Give the old leader time to fetch whatever it is going to fetch.
	deadline = time.Now().Add(5 * time.Second)
	for oldLeader.metadata.GetPartition(name, 0).log.NewestOffset() < 2 && time.Now().Before(deadline) {
		time.Sleep(15 * time.Millisecond)
	}

	// Every replica must hold the same messages at every offset at or below
	// its high watermark (2).
	want := []string{"hello", "goodnight", "moon"}
	for _, s := range servers {
		p := s.metadata.GetPartition(name, 0)
		require.NotNil(t, p)
		require.True(t, p.log.HighWatermark() >= 2)
		reader, err := p.log.NewReader(0, true)
		require.NoError(t, err)
		headersBuf := make([]byte, 28)
		var got []string
		for i := 0; i < 3; i++ {
			rctx, rcancel := context.WithTimeout(context.Background(), 5*time.Second)
			msg, offset, _, _, err := reader.ReadMessage(rctx, headersBuf)
			rcancel()
			require.NoError(t, err)
			require.Equal(t, int64(i), offset)
			got = append(got, string(msg.Value()))
		}
		role := "follower"
		if s == oldLeader {
			role = "rejoined first leader"
		} else if s == thirdLeader {
			role = "current leader"
		}
		require.Equal(t, want, got, "log of server %s (%s), HW %d",
			s.config.Clustering.ServerID, role, p.log.HighWatermark())
	}
}
