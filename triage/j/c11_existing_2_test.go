// package dir: server
//
// Existing defect 2: after the cursors partition fails over, the new leader
// answers FetchCursor with a cursor that was overwritten by a SetCursor call
// which succeeded (was acked with AckPolicy ALL) on the old leader.
//
// A follower learns the leader's high watermark from replication responses, so
// its own high watermark trails the leader's by the last committed message(s)
// until the next response. When it becomes the leader it keeps that high
// watermark until the whole ISR, which still contains the dead leader, has
// caught up, i.e. until the dead leader is removed from the ISR after
// clustering.replica.max.lag.time (15s by default). GetCursor only scans
// committed messages, so during that time it does not see the newest cursors
// although they are in the new leader's log.
package server

import (
	"context"
	"testing"
	"time"

	client "github.com/liftbridge-io/liftbridge-api/v2/go"
	natsdTest "github.com/nats-io/nats-server/v2/test"
	"github.com/stretchr/testify/require"
)

func existingC11_2Set(s *Server, id, stream string, off int64) error {
	ctx, cancel := context.WithTimeout(context.Background(), 5*time.Second)
	defer cancel()
	_, err := s.api.SetCursor(ctx, &client.SetCursorRequest{
		Stream: stream, Partition: 0, CursorId: id, Offset: off})
	return err
}

func existingC11_2Fetch(s *Server, id, stream string) (int64, error) {
	ctx, cancel := context.WithTimeout(context.Background(), 5*time.Second)
	defer cancel()
	resp, err := s.api.FetchCursor(ctx, &client.FetchCursorRequest{
		Stream: stream, Partition: 0, CursorId: id})
	if err != nil {
		return 0, err
	}
	return resp.Offset, nil
}

func TestExistingC11_2StaleCursorAfterLeaderFailover(t *testing.T) {
	defer cleanupStorage(t)

	ns := natsdTest.RunDefaultServer()
	defer ns.Shutdown()

	// Three servers such that the metadata Raft group keeps its quorum when
	// one of them is stopped. The cursors partition has two replicas, so the
	// follower is the only candidate when the leader fails.
	ids := []string{"a", "b", "c"}
	servers := make([]*Server, len(ids))
	for i, id := range ids {
		cfg := getTestConfig(id, false, 5050+i)
		cfg.EmbeddedNATS = false
		cfg.Clustering.RaftBootstrapPeers = ids
		cfg.CursorsStream.Partitions = 1
		cfg.CursorsStream.ReplicationFactor = 2
		cfg.Clustering.ReplicaMaxLeaderTimeout = time.Second
		cfg.Clustering.ReplicaFetchTimeout = 500 * time.Millisecond
		cfg.Clustering.ReplicaMaxIdleWait = 3 * time.Second
		// clustering.replica.max.lag.time keeps its default of 15s.
		servers[i] = runServerWithConfig(t, cfg)
	}
	defer func() {
		for _, s := range servers {
			s.Stop()
		}
	}()
	getMetadataLeader(t, 10*time.Second, servers...)
	waitForPartition(t, 10*time.Second, cursorsStream, 0, servers...)

	leader := getPartitionLeader(t, 10*time.Second, cursorsStream, 0, servers...)
	var follower *Server
	for _, s := range servers {
		if s == leader {
			continue
		}
		for _, r := range leader.metadata.GetPartition(cursorsStream, 0).GetReplicas() {
			if r == s.config.Clustering.ServerID {
				follower = s
			}
		}
	}
	require.NotNil(t, follower, "cursors partition has no second replica")
	waitForISR(t, 10*time.Second, cursorsStream, 0, 2, servers...)

	const (
		stream = "foo"
		id     = "cur"
	)
	var (
		leaderLog   = leader.metadata.GetPartition(cursorsStream, 0).log
		followerLog = follower.metadata.GetPartition(cursorsStream, 0).log
		last        int64
	)

	// Store the cursor until the follower's high watermark trails the leader's
	// when SetCursor returns, which is the usual case: the follower is told
	// the high watermark with the next replication response.
	require.NoError(t, existingC11_2Set(leader, id, stream, 1))
	lagging := false
	for i := int64(2); i < 200 && !lagging; i++ {
		require.NoError(t, existingC11_2Set(leader, id, stream, i))
		last = i
		lagging = followerLog.HighWatermark() < leaderLog.HighWatermark()
	}
	if !lagging {
		t.Skip("the follower's high watermark never trailed the leader's")
	}
	// The call succeeded, so the cursor is committed and in the follower's log.
	require.Equal(t, leaderLog.NewestOffset(), leaderLog.HighWatermark())
	require.Equal(t, leaderLog.NewestOffset(), followerLog.NewestOffset())

	// The leader dies.
	leader.Stop()

	// Wait for the follower to take over the cursors partition.
	deadline := time.Now().Add(30 * time.Second)
	for time.Now().Before(deadline) {
		if follower.metadata.GetPartition(cursorsStream, 0).IsLeader() {
			break
		}
		time.Sleep(20 * time.Millisecond)
	}
	require.True(t, follower.metadata.GetPartition(cursorsStream, 0).IsLeader(),
		"follower did not become the cursors partition leader")

	// The new leader returns the cursor that was stored last.
	var (
		offset int64
		err    error
	)
	deadline = time.Now().Add(5 * time.Second)
	for {
		offset, err = existingC11_2Fetch(follower, id, stream)
		if err == nil || time.Now().After(deadline) {
			break
		}
		time.Sleep(50 * time.Millisecond)
	}
	require.NoError(t, err)
	require.Equal(t, last, offset,
		"new cursors partition leader returned a cursor that was overwritten before the failover")
}
