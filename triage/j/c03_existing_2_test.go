// package dir: server/commitlog
package commitlog

import (
	"context"
	"strconv"
	"testing"
	"time"

	"github.com/stretchr/testify/require"
)

// TestExistingC03_2_NegativeStartOffsetReadsUncommitted: a committed reader
// created with a negative offset on a log which has messages but no HW yet
// (-1) is not limited by the HW at all. newReaderCommitted only sends readers
// to the waiting path if offset > hw, which -1 > -1 is not, and then skips the
// HW position lookup because of the `if hw != -1` special case, so hwSeg stays
// nil and readLoop never applies the limit.
func TestExistingC03_2_NegativeStartOffsetReadsUncommitted(t *testing.T) {
	l, cleanup := setupWithOptions(t, Options{Path: tempDir(t), MaxSegmentBytes: 1024})
	defer l.Close()
	defer cleanup()

	msgs := make([]*Message, 3)
	for i := range msgs {
		msgs[i] = &Message{Value: []byte(strconv.Itoa(i)), Timestamp: int64(i + 1), LeaderEpoch: 1}
	}
	_, err := l.Append(msgs)
	require.NoError(t, err)
	require.Equal(t, int64(-1), l.HighWatermark()) // nothing is committed

	r, err := l.NewReader(-1, false)
	require.NoError(t, err)
	ctx, cancel := context.WithTimeout(context.Background(), 300*time.Millisecond)
	defer cancel()
	_, offset, _, _, err := r.ReadMessage(ctx, make([]byte, 28))
	if err == nil {
		t.Fatalf("committed reader was handed offset %d while the HW is %d", offset, l.HighWatermark())
	}
}
