// package dir: server
//
// Existing defect 2: the assignments of a group with overlapping
// subscriptions depend on the order in which the members joined (each join
// rebalances one stream at a time against the load the members carry at that
// moment). The FSM snapshot keeps the members and the group epoch but not the
// join order (Snapshot sorts the members by id), so a server that restores
// the snapshot rebuilds different assignments for the SAME group epoch than
// the server that applied the joins - e.g. the coordinator itself before and
// after a restart, or a follower that was brought up to date with
// InstallSnapshot and later becomes coordinator.
package server

import (
	"bytes"
	"fmt"
	"io/ioutil"
	"sort"
	"testing"

	"github.com/stretchr/testify/require"

	proto "github.com/liftbridge-io/liftbridge/server/protocol"
)

// existingC12e2Sink is an in-memory raft.SnapshotSink.
type existingC12e2Sink struct {
	bytes.Buffer
}

func (s *existingC12e2Sink) ID() string    { return "existing-c12-2" }
func (s *existingC12e2Sink) Cancel() error { return nil }
func (s *existingC12e2Sink) Close() error  { return nil }

func existingC12e2Stream(name string, partitions int32) *proto.Stream {
	stream := &proto.Stream{Name: name, Subject: name}
	for i := int32(0); i < partitions; i++ {
		stream.Partitions = append(stream.Partitions, &proto.Partition{
			Stream:  name,
			Subject: name,
			Id:      i,
		})
	}
	return stream
}

// existingC12e2Dump renders epoch, subscriptions and assignments of a group.
func existingC12e2Dump(g *consumerGroup) string {
	g.mu.RLock()
	defer g.mu.RUnlock()
	ids := make([]string, 0, len(g.members))
	for id := range g.members {
		ids = append(ids, id)
	}
	sort.Strings(ids)
	out := fmt.Sprintf("epoch=%d", g.epoch)
	for _, id := range ids {
		member := g.members[id]
		streams := make([]string, 0, len(member.streams))
		for stream := range member.streams {
			streams = append(streams, stream)
		}
		sort.Strings(streams)
		assigned := make([]string, 0, len(member.assignments))
		for stream, partitions := range member.assignments {
			assigned = append(assigned, fmt.Sprintf("%s%v", stream, partitions))
		}
		sort.Strings(assigned)
		out += fmt.Sprintf(" | %s subscribed=%v assigned=%v", id, streams, assigned)
	}
	return out
}

func TestExistingC12_2_SnapshotRestoreChangesAssignments(t *testing.T) {
	defer cleanupStorage(t)

	ops := []*proto.RaftLog{
		{Op: proto.Op_CREATE_STREAM, CreateStreamOp: &proto.CreateStreamOp{Stream: existingC12e2Stream("foo", 2)}},
		{Op: proto.Op_CREATE_STREAM, CreateStreamOp: &proto.CreateStreamOp{Stream: existingC12e2Stream("bar", 2)}},
		{Op: proto.Op_CREATE_CONSUMER_GROUP, CreateConsumerGroupOp: &proto.CreateConsumerGroupOp{
			ConsumerGroup: &proto.ConsumerGroup{
				Id: "g",
				// The coordinator is a third server so that no liveness
				// timers run on the servers under test.
				Coordinator: "z",
				// The member with the larger id joins first ...
				Members: []*proto.Consumer{{Id: "m2", Streams: []string{"bar", "foo"}}},
			}}},
		// ... the one with the smaller id second.
		{Op: proto.Op_JOIN_CONSUMER_GROUP, JoinConsumerGroupOp: &proto.JoinConsumerGroupOp{
			GroupId: "g", ConsumerId: "m1", Streams: []string{"bar", "foo"}}},
	}

	// Server "a" applies the log.
	a := New(getTestConfig("a", true, 0))
	defer a.metadata.Reset()
	for i, op := range ops {
		_, err := a.apply(op, uint64(i+1), false)
		require.NoError(t, err)
	}

	// It takes a snapshot ...
	snapshot, err := a.Snapshot()
	require.NoError(t, err)
	sink := new(existingC12e2Sink)
	require.NoError(t, snapshot.Persist(sink))

	// ... which server "b" installs.
	b := New(getTestConfig("b", true, 0))
	defer b.metadata.Reset()
	require.NoError(t, b.Restore(ioutil.NopCloser(bytes.NewReader(sink.Bytes()))))

	dumpA := existingC12e2Dump(a.metadata.GetConsumerGroup("g"))
	dumpB := existingC12e2Dump(b.metadata.GetConsumerGroup("g"))
	t.Logf("applied the log:       %s", dumpA)
	t.Logf("restored the snapshot: %s", dumpB)
	require.Equal(t, dumpA, dumpB,
		"the group has the same members and epoch on both servers but different assignments")
}
