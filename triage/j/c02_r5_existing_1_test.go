// package dir: server
//
// Existing defect 1: a replica that learned a leader epoch boundary by
// replication records the epoch at the offset of its FIRST message, while a
// replica that was elected records it at the offset of the LAST message of
// the previous epoch (commitLog.NewLeaderEpoch assigns NewestOffset()). A
// follower truncates to "answer + 1" (partition.truncateUncommitted), which is
// only right for the second convention. After a second failover, in which the
// replica that learned the boundary by replication leads, a returning old
// leader keeps one orphaned message which sits at a committed offset.
//
// This test FAILS on the unchanged tree. Run with:
//
//	unshare -n bash -c "ip link set lo up; go test -vet=off -count=1 -run 'TestExistingC02_1' ./server/"
package server

import (
	"context"
	"strconv"
	"testing"
	"time"

	natsdTest "github.com/nats-io/nats-server/v2/test"
	"github.com/stretchr/testify/require"

	lift "github.com/liftbridge-io/go-liftbridge/v2"
)

// existingC02ValueAt returns the value of the message at the given offset of
// the partition's log, committed or not.
func existingC02ValueAt(t *testing.T, p *partition, offset int64) string {
	require.True(t, offset <= p.log.NewestOffset(), "offset %d is past the end of the log", offset)
	reader, err := p.log.NewReader(offset, true)
	require.NoError(t, err)
	ctx, cancel := context.WithTimeout(context.Background(), 5*time.Second)
	defer cancel()
	msg, off, _, _, err := reader.ReadMessage(ctx, make([]byte, 28))
	require.NoError(t, err)
	require.Equal(t, offset, off)
	return string(msg.Value())
}

func existingC02WaitLeading(t *testing.T, timeout time.Duration, name string, s *Server) {
	deadline := time.Now().Add(timeout)
	for time.Now().Before(deadline) {
		if p := s.metadata.GetPartition(name, 0); p != nil && p.IsLeader() {
			return
		}
		time.Sleep(15 * time.Millisecond)
	}
	stackFatalf(t, "Server %s did not become partition leader", s.config.Clustering.ServerID)
}

// Two failovers. The second leader (elected) commits a message which the
// third leader learns by replication. The first leader, which holds one
// message nobody replicated, then comes back.
func TestExistingC02_1_EpochBoundaryLearnedByReplication(t *testing.T) {
	defer cleanupStorage(t)

	// Use an external NATS server so it survives the servers.
	ns := natsdTest.RunDefaultServer()
	defer ns.Shutdown()

	// Five servers such that the metadata Raft group keeps its quorum with
	// two of the three partition replicas down.
	var (
		ids     = []string{"a", "b", "c", "d", "e"}
		configs = make(map[string]*Config)
		byID    = make(map[string]*Server)
		servers = make([]*Server, 0, len(ids))
		addrs   = make([]string, 0, len(ids))
	)
	for i, id := range ids {
		config := getTestConfig(id, i == 0, 5050+i)
		config.EmbeddedNATS = false
		config.Clustering.MinISR = 1
		config.Clustering.ReplicaMaxLagTime = 2 * time.Second
		config.Clustering.ReplicaMaxLeaderTimeout = time.Second
		config.Clustering.ReplicaMaxIdleWait = 500 * time.Millisecond
		config.Clustering.ReplicaFetchTimeout = 500 * time.Millisecond
		configs[id] = config
		s := runServerWithConfig(t, config)
		defer s.Stop()
		byID[id] = s
		servers = append(servers, s)
		addrs = append(addrs, "localhost:"+strconv.Itoa(5050+i))
	}
	leaderOfMetadata := getMetadataLeader(t, 15*time.Second, servers...)
	waitForClusterSize(t, 15*time.Second, leaderOfMetadata, len(ids))

	client, err := lift.Connect(addrs)
	require.NoError(t, err)
	defer client.Close()

	name := "foo"
	ctx, cancel := context.WithTimeout(context.Background(), 5*time.Second)
	defer cancel()
	require.NoError(t, client.CreateStream(ctx, "foo", name, lift.ReplicationFactor(3)))
	waitForPartition(t, 10*time.Second, name, 0, servers...)

	// Leader A (first epoch) and followers.
	a := getPartitionLeader(t, 10*time.Second, name, 0, servers...)
	followers := make([]*Server, 0, 2)
	for _, id := range a.metadata.GetPartition(name, 0).GetReplicas() {
		if id != a.config.Clustering.ServerID {
			followers = append(followers, byID[id])
		}
	}
	require.Len(t, followers, 2)
	replicas := []*Server{a, followers[0], followers[1]}

	publish := func(value string, opts ...lift.MessageOption) {
		ctx, cancel := context.WithTimeout(context.Background(), 15*time.Second)
		defer cancel()
		_, err := client.Publish(ctx, name, []byte(value), opts...)
		require.NoError(t, err)
	}

	// Epoch 1: m0 and m1 are committed on all three replicas.
	publish("m0", lift.AckPolicyAll())
	publish("m1", lift.AckPolicyAll())
	waitForHW(t, 5*time.Second, name, 0, 1, replicas...)

	// A stops answering fetches, receives a message and dies. The message is
	// on A only and was never committed.
	a.metadata.GetPartition(name, 0).pauseReplication()
	publish("orphan", lift.AckPolicyLeader())
	require.Equal(t, int64(2), a.metadata.GetPartition(name, 0).log.NewestOffset())
	aConfig := configs[a.config.Clustering.ServerID]
	a.Stop()

	// Epoch 2: B is elected (it records the epoch at offset 1, the last
	// offset of epoch 1). A leaves the ISR, m2 is committed on B and C. C
	// learns the boundary by replication (it records the epoch at offset 2).
	b := getPartitionLeader(t, 20*time.Second, name, 0, followers...)
	existingC02WaitLeading(t, 10*time.Second, name, b)
	c := followers[0]
	if c == b {
		c = followers[1]
	}
	waitForISR(t, 20*time.Second, name, 0, 2, b, c)
	publish("m2", lift.AckPolicyAll())
	waitForHW(t, 5*time.Second, name, 0, 2, b, c)
	for _, s := range []*Server{b, c} {
		p := s.metadata.GetPartition(name, 0)
		require.Equal(t, int64(2), p.log.NewestOffset())
		require.Equal(t, "m2", existingC02ValueAt(t, p, 2))
	}

	// B dies. Epoch 3: C, the only other ISR member, is elected.
	b.Stop()
	getPartitionLeader(t, 30*time.Second, name, 0, c)
	existingC02WaitLeading(t, 10*time.Second, name, c)

	// A comes back, reconciles its log with C and follows it. Commit one more
	// message so A provably fetched from C and took over its HW.
	a = runServerWithConfig(t, aConfig)
	defer a.Stop()
	waitForPartition(t, 10*time.Second, name, 0, a)
	publish("m3", lift.AckPolicyAll())
	waitForHW(t, 15*time.Second, name, 0, 3, c)
	deadline := time.Now().Add(15 * time.Second)
	for time.Now().Before(deadline) {
		p := a.metadata.GetPartition(name, 0)
		if p.log.NewestOffset() >= 3 && p.log.HighWatermark() >= 3 {
			break
		}
		time.Sleep(15 * time.Millisecond)
	}

	// Offsets 0..3 are at or below the HW of both A and C, and C leads. They
	// must hold the same messages; in particular m2, which was committed and
	// acked with AckPolicy ALL, must be what every replica has at offset 2.
	var (
		pa       = a.metadata.GetPartition(name, 0)
		pc       = c.metadata.GetPartition(name, 0)
		expected = []string{"m0", "m1", "m2", "m3"}
	)
	require.True(t, pa.log.HighWatermark() >= 3, "A's HW is %d", pa.log.HighWatermark())
	require.True(t, pc.log.HighWatermark() >= 3, "C's HW is %d", pc.log.HighWatermark())
	require.Equal(t, int64(3), pa.log.NewestOffset())
	for offset, value := range expected {
		require.Equal(t, value, existingC02ValueAt(t, pc, int64(offset)), "leader C, offset %d", offset)
		require.Equal(t, value, existingC02ValueAt(t, pa, int64(offset)), "follower A, offset %d", offset)
	}
}

