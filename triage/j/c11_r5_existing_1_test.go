// package dir: server
//
// Existing defect 1: the key of a cursor in the cursors stream and in the
// cursor cache is fmt.Sprintf("%s,%s,%d", cursorID, stream, partition)
// (cursorManager.getCursorKey, server/cursors.go). Neither cursor ids nor
// stream names are restricted (CreateStream only requires a non-empty name),
// so two different (cursor id, stream, partition) triples map to the same key
// when a comma can be read as part of either component: ("a,b", "c", 0) and
// ("a", "b,c", 0) both become "a,b,c,0". FetchCursor for one triple returns the
// offset stored for the other one instead of -1, and a SetCursor for one
// overwrites the other.
package server

import (
	"context"
	"testing"
	"time"

	lift "github.com/liftbridge-io/go-liftbridge/v2"
	"github.com/stretchr/testify/require"
)

func TestExistingC11_1_CursorKeyCollision(t *testing.T) {
	defer cleanupStorage(t)

	config := getTestConfig("a", true, 5050)
	config.CursorsStream.Partitions = 1
	s1 := runServerWithConfig(t, config)
	defer s1.Stop()
	getMetadataLeader(t, 10*time.Second, s1)

	client, err := lift.Connect([]string{"localhost:5050"})
	require.NoError(t, err)
	defer client.Close()

	ctx, cancel := context.WithTimeout(context.Background(), 30*time.Second)
	defer cancel()

	// Two streams, both perfectly valid names.
	require.NoError(t, client.CreateStream(ctx, "subject1", "c"))
	require.NoError(t, client.CreateStream(ctx, "subject2", "b,c"))

	// Consumer "a,b" stores its position in partition 0 of stream "c".
	require.NoError(t, client.SetCursor(ctx, "a,b", "c", 0, 5))
	offset, err := client.FetchCursor(ctx, "a,b", "c", 0)
	require.NoError(t, err)
	require.Equal(t, int64(5), offset)

	// Consumer "a" never stored a position for stream "b,c".
	offset, err = client.FetchCursor(ctx, "a", "b,c", 0)
	require.NoError(t, err)
	require.Equal(t, int64(-1), offset,
		"cursor (a; b,c; 0) was never set but reads the offset of cursor (a,b; c; 0)")

	// And storing one must not change the cursor of the other consumer.
	require.NoError(t, client.SetCursor(ctx, "a", "b,c", 0, 9))
	offset, err = client.FetchCursor(ctx, "a,b", "c", 0)
	require.NoError(t, err)
	require.Equal(t, int64(5), offset)
}
