// package dir: server/commitlog
package commitlog

import (
	"bytes"
	"context"
	"testing"
	"time"

	"github.com/stretchr/testify/require"
)

// TestExistingC08_1_EmptyKeySharesEntryWithMissingKey appends one message with
// an empty (zero length, non-nil) key followed by messages without a key and
// messages with other keys, commits everything and compacts. The message with
// the empty key is the most recent (and only) committed message with that key,
// so it must survive, whether one reads an empty key as a key or as no key at
// all. Messages without a key must all survive as well.
func TestExistingC08_1_EmptyKeySharesEntryWithMissingKey(t *testing.T) {
	l, cleanup := setupWithOptions(t, Options{
		Path:            tempDir(t),
		MaxSegmentBytes: 100,
		Compact:         true,
	})
	defer cleanup()

	keys := [][]byte{
		{},          // 0: empty key
		[]byte("a"), // 1
		nil,         // 2: no key
		[]byte("b"), // 3
		nil,         // 4: no key
		[]byte("c"), // 5
		[]byte("d"), // 6
		[]byte("e"), // 7
	}
	var raw [][]byte
	for i, k := range keys {
		msg := &Message{
			Key:       k,
			Value:     bytes.Repeat([]byte{byte('0' + i)}, 5),
			Timestamp: int64(1000 + i),
		}
		offsets, err := l.Append([]*Message{msg})
		require.NoError(t, err)
		require.Equal(t, []int64{int64(i)}, offsets)
		data, err := encode(msg)
		require.NoError(t, err)
		raw = append(raw, data)
	}
	require.True(t, len(l.Segments()) >= 3)
	l.SetHighWatermark(7)

	require.NoError(t, l.Clean())

	// No key occurs twice, so nothing may be removed.
	r, err := l.NewReader(0, true)
	require.NoError(t, err)
	headers := make([]byte, 28)
	for exp := int64(0); exp <= 7; exp++ {
		ctx, cancel := context.WithTimeout(context.Background(), 5*time.Second)
		msg, offset, _, _, err := r.ReadMessage(ctx, headers)
		cancel()
		require.NoError(t, err)
		require.Equal(t, exp, offset, "message %d (key %q) was removed by compaction", exp, keys[exp])
		require.True(t, bytes.Equal(raw[exp], msg), "message %d changed", exp)
	}
}
