// package dir: server
//
// Existing defect C15/1 (unchanged tree): the ack inbox of a publish request is
// chosen by the client and is not authorized. A client which may publish to
// stream "foo" only gets a message appended to stream "bar" by naming bar's
// NATS subject as the ack inbox, although it has neither a Publish nor a
// PublishToSubject policy entry for bar.
//
// Run on its own:
//   go test -vet=off -count=1 -run 'TestExistingC15_1' ./server/
package server

import (
	"context"
	"os"
	"path/filepath"
	"strings"
	"testing"
	"time"

	client "github.com/liftbridge-io/liftbridge-api/v2/go"
	"github.com/stretchr/testify/require"
)

func existingC15x1Server(t *testing.T, policy ...string) *Server {
	t.Helper()
	policyPath := filepath.Join(t.TempDir(), "policy.csv")
	require.NoError(t, os.WriteFile(policyPath, []byte(strings.Join(policy, "\n")+"\n"), 0o600))

	config := getTestConfig("a", true, 5050)
	config.TLSCert = "./configs/certs/server/server-cert.pem"
	config.TLSKey = "./configs/certs/server/server-key.pem"
	config.TLSClientAuth = true
	config.TLSClientAuthCA = "./configs/certs/ca-cert.pem"
	config.TLSClientAuthz = true
	config.TLSClientAuthzModel = "./configs/authz/model.conf"
	config.TLSClientAuthzPolicy = policyPath

	s := runServerWithConfig(t, config)
	getMetadataLeader(t, 10*time.Second, s)
	return s
}

func existingC15x1As(clientID string) context.Context {
	// The identity the authz interceptors take from the verified client
	// certificate.
	return context.WithValue(context.Background(), "clientID", clientID) // nolint
}

func TestExistingC15_1_AckInboxPublishesToUnauthorizedStream(t *testing.T) {
	defer cleanupStorage(t)

	s := existingC15x1Server(t,
		"p, admin, foo, CreateStream",
		"p, admin, bar, CreateStream",
		// client1 may publish to foo and nothing else.
		"p, client1, foo, Publish",
	)
	defer s.Stop()

	for _, name := range []string{"foo", "bar"} {
		_, err := s.api.CreateStream(existingC15x1As("admin"), &client.CreateStreamRequest{Name: name, Subject: name})
		require.NoError(t, err)
		waitForPartition(t, 5*time.Second, name, 0, s)
	}
	getPartitionLeader(t, 10*time.Second, "foo", 0, s)
	getPartitionLeader(t, 10*time.Second, "bar", 0, s)

	// Sanity: direct attempts on bar are refused.
	ctx, cancel := context.WithTimeout(existingC15x1As("client1"), 5*time.Second)
	defer cancel()
	_, err := s.api.Publish(ctx, &client.PublishRequest{Stream: "bar", Value: []byte("x"), AckPolicy: client.AckPolicy_LEADER})
	require.Error(t, err)
	_, err = s.api.PublishToSubject(ctx, &client.PublishToSubjectRequest{Subject: "bar", Value: []byte("x")})
	require.Error(t, err)
	bar := s.metadata.GetPartition("bar", 0)
	require.NotNil(t, bar)
	require.Equal(t, int64(-1), bar.log.NewestOffset())

	// An authorized publish to foo which names bar's subject as ack inbox. No
	// deadline so the server does not wait for the ack itself.
	_, err = s.api.Publish(existingC15x1As("client1"), &client.PublishRequest{
		Stream:        "foo",
		Value:         []byte("hello"),
		AckInbox:      "bar",
		AckPolicy:     client.AckPolicy_LEADER,
		CorrelationId: "text chosen by client1",
	})
	require.NoError(t, err)

	// Wait for the message to be committed to foo, then give the ack some time
	// to arrive at bar.
	foo := s.metadata.GetPartition("foo", 0)
	require.NotNil(t, foo)
	deadline := time.Now().Add(5 * time.Second)
	for time.Now().Before(deadline) && foo.log.HighWatermark() < 0 {
		time.Sleep(10 * time.Millisecond)
	}
	require.Equal(t, int64(0), foo.log.HighWatermark())
	deadline = time.Now().Add(2 * time.Second)
	for time.Now().Before(deadline) && bar.log.NewestOffset() < 0 {
		time.Sleep(10 * time.Millisecond)
	}

	require.Equal(t, int64(-1), bar.log.NewestOffset(),
		"a message was appended to stream bar by client1 which has no policy entry for bar")
}
