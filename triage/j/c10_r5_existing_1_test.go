// package dir: server
//
// Existing defect 1: while a compaction pass is running, subscriptions whose
// start offset lies in a segment that the pass has already rewritten are
// refused with an Internal error ("segment has been closed"), and
// subscriptions that are reading such a segment end with an error, although
// every message they ask for is committed and retained.
package server

import (
	"context"
	"fmt"
	"testing"
	"time"

	proto "github.com/liftbridge-io/liftbridge-api/v2/go"
	"github.com/stretchr/testify/require"

	"github.com/liftbridge-io/liftbridge/server/commitlog"
	"github.com/liftbridge-io/liftbridge/server/protocol"
)

func existingC10x1Partition(t *testing.T) *partition {
	config := getTestConfig("a", true, 0)
	config.DataDir = t.TempDir()
	config.Streams.CleanerInterval = time.Hour
	config.Streams.RetentionMaxAge = 0
	config.Streams.Compact = true
	// Three messages per segment.
	config.Streams.SegmentMaxBytes = 160
	server := New(config)
	stream, err := server.metadata.AddStream(&protocol.Stream{
		Name:       "foo",
		Subject:    "foo",
		Partitions: []*protocol.Partition{{Stream: "foo", Id: 0}},
	}, true, 0)
	require.NoError(t, err)
	t.Cleanup(func() { stream.Close() })
	return stream.GetPartitions()[0]
}

func TestExistingC10_1_SubscribeDuringCompaction(t *testing.T) {
	p := existingC10x1Partition(t)

	// 900 messages in 300 segments. Every key is written twice, so the pass
	// has something to remove, but nothing which is written once the pass
	// has started.
	var newest int64
	for i := 0; i < 900; i++ {
		offsets, err := p.log.Append([]*commitlog.Message{{
			Key:       []byte(fmt.Sprintf("k-%04d", i%450)),
			Value:     []byte("value"),
			Timestamp: time.Now().UnixNano(),
		}})
		require.NoError(t, err)
		newest = offsets[0]
	}
	p.log.SetHighWatermark(newest)

	// Run the pass the cleaner loop runs.
	cleaned := make(chan error, 1)
	go func() { cleaned <- p.log.Clean() }()

	// Subscribe from the beginning to the end of the partition over and over
	// while the pass is running. Offsets 450..899 are never removed, so every
	// subscription must deliver at least these, in order and once, and end
	// with the stop status.
	for attempt := 1; ; attempt++ {
		select {
		case err := <-cleaned:
			require.NoError(t, err)
			return
		default:
		}
		ctx, cancel := context.WithCancel(context.Background())
		sub, st := p.Subscribe(ctx, &proto.SubscribeRequest{
			StartPosition: proto.StartPosition_EARLIEST,
			StopPosition:  proto.StopPosition_STOP_LATEST,
		})
		if st != nil {
			cancel()
			require.NoError(t, <-cleaned)
			t.Fatalf("subscription %d refused during compaction: %v", attempt, st.Err())
		}
		last, kept := int64(-1), 0
		for done := false; !done; {
			select {
			case m := <-sub.Messages():
				require.Greater(t, m.Offset, last)
				last = m.Offset
				if m.Offset >= 450 {
					kept++
				}
			case st := <-sub.Errors():
				if st.Message() != "Stop offset reached" {
					cancel()
					require.NoError(t, <-cleaned)
					t.Fatalf("subscription %d ended after offset %d during compaction: %v",
						attempt, last, st.Err())
				}
				done = true
			case <-time.After(10 * time.Second):
				t.Fatalf("subscription %d stalled after offset %d", attempt, last)
			}
		}
		cancel()
		require.Equal(t, 450, kept, "subscription %d", attempt)
	}
}
