// package dir: server/commitlog
//
// Existing defect 1, step-driven over three real commit logs (no servers): the
// same history as existing_1_test.go, using exactly the calls the partition
// code makes (NewLeaderEpoch on election, AppendMessageSet on fetch,
// LastOffsetForLeaderEpoch + Truncate(answer+1) on becoming a follower).
// FAILS on the unchanged tree.
package commitlog

import (
	"context"
	"testing"

	"github.com/stretchr/testify/require"
)

func existingC02NewLog(t *testing.T) (*commitLog, func()) {
	return setupWithOptions(t, Options{Path: tempDir(t), MaxSegmentBytes: 1 << 20})
}

// existingC02Fetch copies everything past to's end from from's log, as one replication
// response would.
func existingC02Fetch(t *testing.T, from, to *commitLog) {
	if to.NewestOffset() >= from.NewestOffset() {
		return
	}
	r, err := from.NewReader(to.NewestOffset()+1, true)
	require.NoError(t, err)
	var (
		buf     []byte
		headers = make([]byte, 28)
		last    = from.NewestOffset()
	)
	for {
		m, off, _, _, err := r.ReadMessage(context.Background(), headers)
		require.NoError(t, err)
		buf = append(buf, headers...)
		buf = append(buf, m...)
		if off >= last {
			break
		}
	}
	_, err = to.AppendMessageSet(buf)
	require.NoError(t, err)
}

func existingC02Read(t *testing.T, l *commitLog, offset int64) (string, uint64) {
	r, err := l.NewReader(offset, true)
	require.NoError(t, err)
	m, off, _, epoch, err := r.ReadMessage(context.Background(), make([]byte, 28))
	require.NoError(t, err)
	require.Equal(t, offset, off)
	return string(m.Value()), epoch
}

func existingC02Follow(t *testing.T, follower, leader *commitLog) {
	last := leader.LastOffsetForLeaderEpoch(follower.LastLeaderEpoch())
	require.NoError(t, follower.Truncate(last+1))
}

func TestExistingC02_1b_EpochBoundaryLearnedByReplication(t *testing.T) {
	a, ca := existingC02NewLog(t)
	defer ca()
	b, cb := existingC02NewLog(t)
	defer cb()
	c, cc := existingC02NewLog(t)
	defer cc()

	// A leads epoch 1.
	require.NoError(t, a.NewLeaderEpoch(1))
	_, err := a.Append([]*Message{{Value: []byte("m0"), LeaderEpoch: 1}, {Value: []byte("m1"), LeaderEpoch: 1}})
	require.NoError(t, err)
	existingC02Fetch(t, a, b)
	existingC02Fetch(t, a, c)
	a.SetHighWatermark(1)
	b.SetHighWatermark(1)
	c.SetHighWatermark(1)
	// Uncommitted on A only.
	_, err = a.Append([]*Message{{Value: []byte("orphan"), LeaderEpoch: 1}})
	require.NoError(t, err)

	// A dies, B leads epoch 2.
	require.NoError(t, b.NewLeaderEpoch(2))
	existingC02Follow(t, c, b)
	_, err = b.Append([]*Message{{Value: []byte("m2"), LeaderEpoch: 2}})
	require.NoError(t, err)
	existingC02Fetch(t, b, c)
	b.SetHighWatermark(2)
	c.SetHighWatermark(2)

	// B dies, C leads epoch 3.
	require.NoError(t, c.NewLeaderEpoch(3))

	// A comes back.
	existingC02Follow(t, a, c)
	existingC02Fetch(t, c, a)
	a.SetHighWatermark(c.HighWatermark())

	va, ea := existingC02Read(t, a, 2)
	vc, ec := existingC02Read(t, c, 2)
	t.Logf("a[2]=%s/%d c[2]=%s/%d", va, ea, vc, ec)
	require.Equal(t, vc, va)
}
