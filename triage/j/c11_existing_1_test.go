// package dir: server
//
// Existing defect 1: a SetCursor call that fails (here: its deadline expires
// before the ack of the cursors stream arrives) still stores the cursor in the
// cursors stream, but not in the cache of the cursors-partition leader. The
// leader keeps answering FetchCursor with the previous offset from its cache,
// and once the entry is evicted (or the cache is purged, or the server is
// restarted) it answers with the offset of the call that failed: FetchCursor
// depends on what is cached, and it returns an offset that was not passed to
// the most recent SetCursor call that succeeded.
package server

import (
	"context"
	"fmt"
	"testing"
	"time"

	client "github.com/liftbridge-io/liftbridge-api/v2/go"
	"github.com/stretchr/testify/require"
)

func existingC11_1Set(ctx context.Context, s *Server, id, stream string, off int64) error {
	_, err := s.api.SetCursor(ctx, &client.SetCursorRequest{
		Stream: stream, Partition: 0, CursorId: id, Offset: off})
	return err
}

func existingC11_1Fetch(t *testing.T, s *Server, id, stream string) int64 {
	ctx, cancel := context.WithTimeout(context.Background(), 5*time.Second)
	defer cancel()
	resp, err := s.api.FetchCursor(ctx, &client.FetchCursorRequest{
		Stream: stream, Partition: 0, CursorId: id})
	require.NoError(t, err)
	return resp.Offset
}

func TestExistingC11_1FailedSetCursorSurfacesAfterEviction(t *testing.T) {
	defer cleanupStorage(t)

	cfg := getTestConfig("a", true, 5050)
	cfg.CursorsStream.Partitions = 1
	s1 := runServerWithConfig(t, cfg)
	defer s1.Stop()
	getMetadataLeader(t, 10*time.Second, s1)
	getPartitionLeader(t, 10*time.Second, cursorsStream, 0, s1)

	const (
		stream = "foo"
		id     = "cur"
	)

	// A SetCursor call that succeeds.
	ctx, cancel := context.WithTimeout(context.Background(), 5*time.Second)
	require.NoError(t, existingC11_1Set(ctx, s1, id, stream, 5))
	cancel()
	require.Equal(t, int64(5), existingC11_1Fetch(t, s1, id, stream))
	hw := s1.metadata.GetPartition(cursorsStream, 0).log.HighWatermark()

	// A SetCursor call that fails because its deadline expires before the
	// cursors stream has acked the write.
	ctx, cancel = context.WithDeadline(context.Background(), time.Now().Add(-time.Millisecond))
	err := existingC11_1Set(ctx, s1, id, stream, 7)
	cancel()
	require.Error(t, err, "SetCursor with an expired deadline is expected to fail")

	// Let the cursors partition settle: whatever the failed call left behind
	// is committed by now.
	deadline := time.Now().Add(2 * time.Second)
	for time.Now().Before(deadline) {
		if s1.metadata.GetPartition(cursorsStream, 0).log.HighWatermark() > hw {
			break
		}
		time.Sleep(10 * time.Millisecond)
	}

	// The only SetCursor call that succeeded stored 5.
	require.Equal(t, int64(5), existingC11_1Fetch(t, s1, id, stream))

	// Store cursors for more keys than the cache holds such that the entry of
	// the cursor is evicted.
	for i := 0; i < cursorCacheSize+1; i++ {
		ctx, cancel := context.WithTimeout(context.Background(), 5*time.Second)
		require.NoError(t, existingC11_1Set(ctx, s1, fmt.Sprintf("other-%d", i), stream, int64(i)))
		cancel()
	}

	// Nothing was stored for the cursor in the meantime, so it still reads 5.
	require.Equal(t, int64(5), existingC11_1Fetch(t, s1, id, stream),
		"FetchCursor returned the offset of a SetCursor call that failed once the cursor was evicted from the cache")
}
