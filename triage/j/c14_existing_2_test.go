// package dir: server
//
// Existing defect 2 (C14): a follower appends whatever message bytes a
// replication response carries to its log as long as the 28-byte message-set
// headers are consistent with the length of the data. The messages themselves
// are not looked at: neither their CRC nor whether they are long enough to be
// a message at all. The first reader that gets to such an entry (a subscriber
// reading from the replica, the replicator once this server is elected leader,
// the compactor) panics, so one NATS payload ends the process - and does so
// again after every restart because the entry is on disk.
//
// The payload is reachable by any NATS client: followers fetch with a plain
// nc.Request on the well-known subject "<namespace>.<stream>.<partition>.replicate",
// so whoever subscribes to that subject can answer first.

package server

import (
	"bytes"
	"context"
	"encoding/binary"
	"hash/crc32"
	"testing"
	"time"

	"github.com/nats-io/nats.go"
	"github.com/stretchr/testify/require"

	proto "github.com/liftbridge-io/liftbridge/server/protocol"
)

// existingC14_2Message serializes a commit log message (no key, no headers)
// with a correct CRC-32C.
func existingC14_2Message(value []byte) []byte {
	body := new(bytes.Buffer)
	body.WriteByte(1)                                       // magic byte
	body.WriteByte(0)                                       // attributes
	binary.Write(body, binary.BigEndian, int32(-1))         // nil key
	binary.Write(body, binary.BigEndian, int32(len(value))) // value size
	body.Write(value)
	binary.Write(body, binary.BigEndian, uint16(0)) // header count
	return existingC14_2WithCRC(body.Bytes())
}

func existingC14_2WithCRC(body []byte) []byte {
	msg := make([]byte, 4, 4+len(body))
	binary.BigEndian.PutUint32(msg, crc32.Checksum(body, crc32.MakeTable(crc32.Castagnoli)))
	return append(msg, body...)
}

// existingC14_2Response wraps one serialized message into a message set with
// the given offset and that into a replication response envelope.
func existingC14_2Response(leaderEpoch uint64, offset int64, message []byte) []byte {
	buf := new(bytes.Buffer)
	proto.WriteReplicationResponseHeader(buf)
	binary.Write(buf, proto.Encoding, leaderEpoch)
	binary.Write(buf, proto.Encoding, int64(-1)) // HW
	binary.Write(buf, proto.Encoding, uint64(offset))
	binary.Write(buf, proto.Encoding, uint64(time.Now().UnixNano()))
	binary.Write(buf, proto.Encoding, leaderEpoch)
	binary.Write(buf, proto.Encoding, uint32(len(message)))
	buf.Write(message)
	return buf.Bytes()
}

func TestExistingC14_2_FollowerAppendsUnverifiedReplicatedMessages(t *testing.T) {
	defer cleanupStorage(t)
	server := createServer()
	p, err := server.newPartition(&proto.Partition{
		Subject:     "foo",
		Stream:      "foo",
		Replicas:    []string{"a", "b"},
		Leader:      "b",
		LeaderEpoch: 1,
		Isr:         []string{"a", "b"},
	}, false, nil)
	require.NoError(t, err)
	defer p.Close()

	// The partition follows leader "b" in leader epoch 1.
	p.mu.Lock()
	p.isFollowing = true
	p.stopFollower = make(chan struct{}) // closed by p.Close()
	p.mu.Unlock()

	// read reads the message at the given offset like a subscriber does.
	read := func(offset int64) (value []byte, headers map[string][]byte) {
		reader, err := p.log.NewReader(offset, true)
		require.NoError(t, err)
		ctx, cancel := context.WithTimeout(context.Background(), 2*time.Second)
		defer cancel()
		m, _, _, _, err := reader.ReadMessage(ctx, make([]byte, 28))
		require.NoError(t, err)
		_ = m.Key()
		return m.Value(), m.Headers()
	}

	// Sanity: a well-formed response is replicated and can be read back.
	good := existingC14_2Message([]byte("hello"))
	require.Equal(t, 1, p.handleReplicationResponse(
		&nats.Msg{Data: existingC14_2Response(1, 0, good)}))
	value, _ := read(0)
	require.Equal(t, []byte("hello"), value)

	cases := map[string][]byte{}

	// The same message with one bit of the value flipped: the CRC no longer
	// matches.
	flipped := append([]byte{}, good...)
	flipped[len(flipped)-3] ^= 0x01
	cases["crc mismatch"] = flipped

	// Six bytes with a correct CRC: too short to hold key and value sizes.
	cases["too short for a message"] = existingC14_2WithCRC([]byte{1, 0})

	// Correct CRC, but the value size points far past the end of the message.
	body := []byte{1, 0, 0xff, 0xff, 0xff, 0xff, 0x00, 0x10, 0x00, 0x00, 0, 0}
	cases["value size past the end"] = existingC14_2WithCRC(body)

	for name, message := range cases {
		message := message
		t.Run(name, func(t *testing.T) {
			next := p.log.NewestOffset() + 1
			n := p.handleReplicationResponse(
				&nats.Msg{Data: existingC14_2Response(1, next, message)})
			if n == 0 && p.log.NewestOffset() == next-1 {
				return // dropped: fine
			}
			// It is in the log now, so it has to be readable.
			require.NotPanics(t, func() { read(next) },
				"follower stored a replicated entry that crashes its readers")
		})
	}
}
