// package dir: server/commitlog
//
// Existing defect C01_2: an uncommitted reader cannot be positioned at the log
// end offset. NewReader(LEO, true) fails with ErrSegmentNotFound (even for
// offset 0 of an empty log) where a committed reader waits, and a live
// uncommitted reader whose next offset is exactly the offset the log is
// truncated at is killed by the truncation if it is woken by it: it returns
// "failed to reinitialize reader: segment not found" and panics with a nil
// pointer dereference when it is used again, although nothing it had read was
// removed and the messages appended afterwards start at its offset.
package commitlog

import (
	"bytes"
	"context"
	"fmt"
	"os"
	"testing"
	"time"
)

func existingC012Log(t *testing.T) (*commitLog, func()) {
	dir, err := os.MkdirTemp("", "lift_existingC01_2_")
	if err != nil {
		t.Fatal(err)
	}
	cl, err := New(Options{Path: dir, MaxSegmentBytes: 1 << 20})
	if err != nil {
		t.Fatal(err)
	}
	l := cl.(*commitLog)
	return l, func() {
		l.Close()
		os.RemoveAll(dir)
	}
}

func existingC012Message(gen, i int) *Message {
	return &Message{
		Key:         []byte("k"),
		Value:       []byte(fmt.Sprintf("gen%d-%d", gen, i)),
		Timestamp:   int64(10*gen + i + 1),
		LeaderEpoch: uint64(gen),
	}
}

// A reader parked at the truncation offset survives the truncation and goes
// on with the messages appended after it.
func TestExistingC01_2_ReaderAtTruncationOffset(t *testing.T) {
	l, cleanup := existingC012Log(t)
	defer cleanup()
	for i := 0; i < 6; i++ {
		if _, err := l.Append([]*Message{existingC012Message(1, i)}); err != nil {
			t.Fatal(err)
		}
	}
	r, err := l.NewReader(0, true)
	if err != nil {
		t.Fatal(err)
	}
	headers := make([]byte, 28)
	for i := 0; i < 4; i++ {
		_, offset, _, _, err := r.ReadMessage(context.Background(), headers)
		if err != nil || offset != int64(i) {
			t.Fatalf("reading offset %d: got %d, %v", i, offset, err)
		}
	}

	// The reader's next offset is 4. Messages 4 and 5 are truncated away, 0-3,
	// which the reader has consumed, are retained.
	if err := l.Truncate(4); err != nil {
		t.Fatal(err)
	}

	// The reader polls for the next message. There is none yet, so this has to
	// time out like it does for a reader at the end of a log which was not
	// truncated.
	ctx, cancel := context.WithTimeout(context.Background(), 50*time.Millisecond)
	_, _, _, _, err = r.ReadMessage(ctx, headers)
	cancel()
	if err == nil {
		t.Fatal("read a message from the end of the log")
	}
	pollErr := err

	// The log goes on at offset 4 and so must the reader.
	want := existingC012Message(2, 4)
	if _, err := l.Append([]*Message{want}); err != nil {
		t.Fatal(err)
	}
	func() {
		defer func() {
			if p := recover(); p != nil {
				t.Fatalf("reader panicked after the truncation (its poll at the log end had returned %q): %v", pollErr, p)
			}
		}()
		ctx, cancel := context.WithTimeout(context.Background(), 2*time.Second)
		defer cancel()
		msg, offset, _, _, err := r.ReadMessage(ctx, headers)
		if err != nil {
			t.Fatalf("reader did not get the message appended at its offset (its poll at the log end had returned %q): %v", pollErr, err)
		}
		if offset != 4 || !bytes.Equal(msg.Value(), want.Value) {
			t.Fatalf("got offset %d value %q, want 4 %q", offset, msg.Value(), want.Value)
		}
	}()
}

// An uncommitted reader can start at the log end offset and gets what is
// appended from there on, like a committed reader does.
func TestExistingC01_2_UncommittedReaderFromLogEnd(t *testing.T) {
	for _, existing := range []int{0, 3} {
		existing := existing
		t.Run(fmt.Sprintf("existing%d", existing), func(t *testing.T) {
			l, cleanup := existingC012Log(t)
			defer cleanup()
			for i := 0; i < existing; i++ {
				if _, err := l.Append([]*Message{existingC012Message(1, i)}); err != nil {
					t.Fatal(err)
				}
			}
			leo := l.NewestOffset() + 1
			r, err := l.NewReader(leo, true)
			if err != nil {
				t.Fatalf("NewReader(%d, uncommitted) on a log with %d messages: %v", leo, existing, err)
			}
			want := existingC012Message(2, int(leo))
			if _, err := l.Append([]*Message{want}); err != nil {
				t.Fatal(err)
			}
			ctx, cancel := context.WithTimeout(context.Background(), 2*time.Second)
			defer cancel()
			msg, offset, _, _, err := r.ReadMessage(ctx, make([]byte, 28))
			if err != nil {
				t.Fatal(err)
			}
			if offset != leo || !bytes.Equal(msg.Value(), want.Value) {
				t.Fatalf("got offset %d value %q, want %d %q", offset, msg.Value(), leo, want.Value)
			}
		})
	}
}
