// package dir: server/commitlog
//
// Existing defect C10/3: while a compaction pass is in progress, a committed
// reader (i.e. a running subscription) that is positioned in a segment the
// pass has already replaced cannot re-position itself: Reader.ReadMessage
// fails with "failed to reinitialize reader: segment has been closed", which
// the subscribe loop turns into an Unknown status. The messages of the
// requested range are all still retained.
package commitlog

import (
	"context"
	"strconv"
	"testing"
	"time"

	"github.com/stretchr/testify/require"
)

func TestExistingC10_3_ReaderDuringCompactionPass(t *testing.T) {
	l, cleanup := setupWithOptions(t, Options{
		Path:            tempDir(t),
		MaxSegmentBytes: 1, // One message per segment.
		Compact:         true,
	})
	defer cleanup()

	// Unique keys: compaction removes nothing, it only rewrites the segments.
	n := 600
	for i := 0; i < n; i++ {
		offsets, err := l.Append([]*Message{{
			Key:       []byte("k" + strconv.Itoa(i)),
			Value:     []byte("v"),
			Timestamp: int64(i + 1),
		}})
		require.NoError(t, err)
		l.SetHighWatermark(offsets[0])
	}
	old := l.Segments()
	require.Equal(t, n, len(old))

	ctx, cancel := context.WithTimeout(context.Background(), 30*time.Second)
	defer cancel()
	r, err := l.NewReader(0, false)
	require.NoError(t, err)
	headers := make([]byte, 28)
	_, offset, _, _, err := r.ReadMessage(ctx, headers)
	require.NoError(t, err)
	require.Equal(t, int64(0), offset)

	// Run the cleaner, as the cleaner loop does, and let it get ahead of the
	// reader. It replaces the segments one by one and publishes the new
	// segments only once all of them have been compacted.
	done := make(chan error, 1)
	go func() { done <- l.Clean() }()
	for !old[20].IsReplaced() {
		time.Sleep(time.Millisecond)
	}
	select {
	case err := <-done:
		require.NoError(t, err)
		t.Skip("compaction pass finished before the reader continued")
	default:
	}

	for i := 1; i < n; i++ {
		_, offset, _, _, err := r.ReadMessage(ctx, headers)
		require.NoError(t, err, "reading offset %d while the log is being compacted", i)
		require.Equal(t, int64(i), offset)
	}
	require.NoError(t, <-done)
}
