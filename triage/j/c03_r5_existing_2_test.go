// package dir: server/commitlog
package commitlog

import (
	"context"
	"runtime"
	"strconv"
	"testing"
	"time"

	"github.com/stretchr/testify/require"
)

// A committed reader parked at the end of a fully committed log is told
// "readonly" through its waiter channel when SetReadonly(true) is called. The
// verdict is computed at that moment but acted upon later, when the reader
// goroutine runs: ReadMessage only re-checks IsReadonly(). If the log is made
// writable, appended to, the HW advanced over the new message and the log made
// readonly again before the reader runs, the reader returns
// ErrCommitLogReadonly ("end of readonly log") although a committed message at
// its position has not been delivered and it is not at the LEO.
//
// The test pins the scheduler to one P such that the reader goroutine cannot
// run between the steps, and retries a few times since a long system call can
// still hand the P over.
func TestExistingC03_2_StaleReadonlyVerdictEndsReaderEarly(t *testing.T) {
	defer runtime.GOMAXPROCS(runtime.GOMAXPROCS(1))

	for attempt := 0; attempt < 25; attempt++ {
		l, cleanup := setupWithOptions(t, Options{Path: tempDir(t), MaxSegmentBytes: 1024})

		msg := func(i int64) []*Message {
			return []*Message{{Value: []byte(strconv.FormatInt(i, 10)), Timestamp: i + 1, LeaderEpoch: 1}}
		}
		_, err := l.Append(msg(0))
		require.NoError(t, err)
		l.SetHighWatermark(0)

		r, err := l.NewReader(0, false)
		require.NoError(t, err)
		headers := make([]byte, 28)
		_, offset, _, _, err := r.ReadMessage(context.Background(), headers)
		require.NoError(t, err)
		require.Equal(t, int64(0), offset)

		type result struct {
			offset int64
			err    error
		}
		results := make(chan result, 1)
		go func() {
			ctx, cancel := context.WithTimeout(context.Background(), 3*time.Second)
			defer cancel()
			_, offset, _, _, err := r.ReadMessage(ctx, headers)
			results <- result{offset, err}
		}()
		// Wait for the reader to park.
		for {
			l.mu.RLock()
			parked := len(l.hwWaiters)
			l.mu.RUnlock()
			if parked == 1 {
				break
			}
			time.Sleep(time.Millisecond)
		}

		// None of these yield the P, so the reader sees them all at once.
		l.SetReadonly(true)
		l.SetReadonly(false)
		_, err = l.Append(msg(1))
		require.NoError(t, err)
		l.SetHighWatermark(1)
		l.SetReadonly(true)

		res := <-results
		hw, leo := l.HighWatermark(), l.NewestOffset()
		l.Close()
		cleanup()
		require.Equal(t, int64(1), hw)
		require.Equal(t, int64(1), leo)
		if res.err != nil {
			// Offset 1 is committed and the reader is positioned at it.
			t.Fatalf("attempt %d: reader positioned at offset 1 was not handed it (HW %d, LEO %d) but got: %v",
				attempt, hw, leo, res.err)
		}
		require.Equal(t, int64(1), res.offset)
	}
}
