// package dir: server
//
// Existing defect 3: the cursors stream is created with compaction enabled but
// inherits the server-wide retention settings (cursorManager.Initialize,
// server/cursors.go, only sets CompactEnabled and the auto pause options).
// By default these are streams.retention.max.age = 7 days and
// streams.segment.max.age = 7 days, so the cleaner deletes every segment of
// the cursors partition that has not been written to for 7 days, including the
// latest (and only) message of cursors which were not moved in the meantime.
// The test scales both settings down to 2s: a cursor stored once is gone after
// two segment rolls and a run of the cleaner, although it is the last value
// stored for its key in a compacted stream.
package server

import (
	"context"
	"testing"
	"time"

	proto "github.com/liftbridge-io/liftbridge-api/v2/go"
	"github.com/stretchr/testify/require"
)

func TestExistingC11_3_IdleCursorRemovedByRetention(t *testing.T) {
	defer cleanupStorage(t)

	config := getTestConfig("a", true, 5050)
	config.CursorsStream.Partitions = 1
	// The defaults are 7 days for both.
	config.Streams.RetentionMaxAge = 2 * time.Second
	config.Streams.SegmentMaxAge = 2 * time.Second
	s1 := runServerWithConfig(t, config)
	defer s1.Stop()
	getMetadataLeader(t, 10*time.Second, s1)

	ctx, cancel := context.WithTimeout(context.Background(), 50*time.Second)
	defer cancel()

	deadline := time.Now().Add(10 * time.Second)
	for s1.metadata.GetPartition(cursorsStream, 0) == nil && time.Now().Before(deadline) {
		time.Sleep(10 * time.Millisecond)
	}
	require.NotNil(t, s1.metadata.GetPartition(cursorsStream, 0))

	set := func(id string, offset int64) {
		_, err := s1.api.SetCursor(ctx, &proto.SetCursorRequest{
			Stream: "foo", Partition: 0, CursorId: id, Offset: offset})
		require.NoError(t, err)
	}
	fetch := func(id string) int64 {
		resp, err := s1.api.FetchCursor(ctx, &proto.FetchCursorRequest{
			Stream: "foo", Partition: 0, CursorId: id})
		require.NoError(t, err)
		return resp.Offset
	}

	// A consumer stores its position and then idles (or is down) for a while
	// whereas another one keeps moving.
	set("idle", 5)
	set("busy", 1)
	time.Sleep(2500 * time.Millisecond)
	set("busy", 2)
	time.Sleep(2500 * time.Millisecond)
	set("busy", 3)

	// The cleaner runs (every streams.cleaner.interval, 5 minutes by default).
	partition := s1.metadata.GetPartition(cursorsStream, 0)
	require.NoError(t, partition.log.Clean())

	require.Equal(t, int64(3), fetch("busy"))
	require.Equal(t, int64(5), fetch("idle"))

	// The cursor is not cached anymore, e.g. the server was restarted.
	s1.cursors.cache.Purge()
	require.Equal(t, int64(3), fetch("busy"))
	require.Equal(t, int64(5), fetch("idle"), "the last SetCursor for the cursor stored 5")
}
