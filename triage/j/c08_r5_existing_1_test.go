// package dir: server/commitlog
//
// Existing defect 1: readers cannot (re)position themselves while a compaction
// is running. Compaction replaces the segments on disk one by one but the log
// keeps the replaced (closed) segment objects in l.segments until the whole
// pass is over. In between, a reader that is sent back to the log by
// ErrSegmentReplaced, or a new reader, finds the closed segment again and fails
// with ErrSegmentClosed instead of returning the surviving messages.
//
// The tests run the reads from the logger of the log when the compactor logs
// "Finished compacting log", i.e. on the goroutine of Clean after the last
// segment was replaced and before Clean installs the compacted segments. No
// lock is held at that point, so this is what any concurrent subscriber sees
// from the moment the first segment was replaced until the end of the pass.
package commitlog

import (
	"context"
	"fmt"
	"io"
	"strings"
	"testing"
	"time"

	"github.com/stretchr/testify/require"

	"github.com/liftbridge-io/liftbridge/server/logger"
)

type existingC08_1Logger struct {
	logger.Logger
	onDebug func(format string)
}

func (h *existingC08_1Logger) Debugf(format string, v ...interface{}) {
	if h.onDebug != nil {
		h.onDebug(format)
	}
}

func existingC08_1Setup(t *testing.T) (*commitLog, *existingC08_1Logger, func()) {
	hook := &existingC08_1Logger{Logger: noopLogger()}
	opts := Options{
		Path:            tempDir(t),
		MaxSegmentBytes: 200,
		Compact:         true,
		Logger:          hook,
	}
	l, cleanup := setupWithOptions(t, opts)
	// Five segments of four messages. "dup" is written once per segment, so all
	// but its last message are removed. Everything is committed.
	for i := 0; i < 20; i++ {
		key := fmt.Sprintf("key%02d", i)
		if i%4 == 1 {
			key = "dup"
		}
		offsets, err := l.Append([]*Message{{
			Key:       []byte(key),
			Value:     []byte("value"),
			Timestamp: int64(1000 + i),
		}})
		require.NoError(t, err)
		l.SetHighWatermark(offsets[0])
	}
	require.Equal(t, 5, len(l.Segments()))
	return l, hook, cleanup
}

// The offsets which survive the compaction of the log above.
var existingC08_1Survivors = []int64{0, 2, 3, 4, 6, 7, 8, 10, 11, 12, 14, 15, 16, 17, 18, 19}

// A forward reader which is in the middle of the log when the compaction
// replaces its segment has to return the remaining survivors.
func TestExistingC08_1_ForwardReaderAcrossRunningCompaction(t *testing.T) {
	l, hook, cleanup := existingC08_1Setup(t)
	defer cleanup()

	ctx, cancel := context.WithTimeout(context.Background(), 5*time.Second)
	defer cancel()
	headers := make([]byte, 28)
	r, err := l.NewReader(0, true)
	require.NoError(t, err)
	_, offset, _, _, err := r.ReadMessage(ctx, headers)
	require.NoError(t, err)
	require.Equal(t, int64(0), offset)

	var (
		ran     bool
		got     = []int64{0}
		readErr error
	)
	hook.onDebug = func(format string) {
		if !strings.HasPrefix(format, "Finished compacting log") {
			return
		}
		ran = true
		for got[len(got)-1] < 19 {
			_, offset, _, _, err := r.ReadMessage(ctx, headers)
			if err != nil {
				readErr = err
				return
			}
			got = append(got, offset)
		}
	}
	require.NoError(t, l.Clean())
	require.True(t, ran)
	require.NoError(t, readErr, "reader failed after offsets %v", got)
	require.Equal(t, existingC08_1Survivors, got)
}

// A forward reader created while the compaction runs.
func TestExistingC08_1_NewForwardReaderDuringRunningCompaction(t *testing.T) {
	l, hook, cleanup := existingC08_1Setup(t)
	defer cleanup()

	var (
		ran     bool
		got     = []int64{}
		readErr error
	)
	hook.onDebug = func(format string) {
		if !strings.HasPrefix(format, "Finished compacting log") {
			return
		}
		ran = true
		ctx, cancel := context.WithTimeout(context.Background(), 5*time.Second)
		defer cancel()
		headers := make([]byte, 28)
		r, err := l.NewReader(2, true)
		if err != nil {
			readErr = err
			return
		}
		for len(got) == 0 || got[len(got)-1] < 19 {
			_, offset, _, _, err := r.ReadMessage(ctx, headers)
			if err != nil {
				readErr = err
				return
			}
			got = append(got, offset)
		}
	}
	require.NoError(t, l.Clean())
	require.True(t, ran)
	require.NoError(t, readErr, "reader failed after offsets %v", got)
	require.Equal(t, existingC08_1Survivors[1:], got)
}

// A reverse reader which started in the active segment (which compaction does
// not touch) and crosses into the replaced segments while the compaction runs.
func TestExistingC08_1_ReverseReaderAcrossRunningCompaction(t *testing.T) {
	l, hook, cleanup := existingC08_1Setup(t)
	defer cleanup()

	var (
		ran     bool
		got     = []int64{}
		readErr error
	)
	hook.onDebug = func(format string) {
		if !strings.HasPrefix(format, "Finished compacting log") {
			return
		}
		ran = true
		ctx, cancel := context.WithTimeout(context.Background(), 5*time.Second)
		defer cancel()
		headers := make([]byte, 28)
		r, err := l.NewReverseReader(19, true)
		if err != nil {
			readErr = err
			return
		}
		for {
			_, offset, _, _, err := r.ReadMessage(ctx, headers)
			if err == io.EOF {
				return
			}
			if err != nil {
				readErr = err
				return
			}
			got = append(got, offset)
		}
	}
	require.NoError(t, l.Clean())
	require.True(t, ran)
	require.NoError(t, readErr, "reverse reader failed after offsets %v", got)
	expected := []int64{}
	for i := len(existingC08_1Survivors) - 1; i >= 0; i-- {
		expected = append(expected, existingC08_1Survivors[i])
	}
	require.Equal(t, expected, got)
}
