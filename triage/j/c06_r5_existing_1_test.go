// package dir: server
//
// Existing defect C06/1: the stream's ResumeAll flag (set by a replicated
// PauseStreamOp) is not part of the metadata snapshot, so a server which
// rebuilds its state from a snapshot taken after the pause does not reach the
// state it had before: publishing to one paused partition no longer resumes
// the others (apiServer.resumeStream consults stream.GetResumeAll()).
package server

import (
	"bytes"
	"io"
	"testing"

	"github.com/stretchr/testify/require"

	proto "github.com/liftbridge-io/liftbridge/server/protocol"
)

type existingC061Sink struct{ bytes.Buffer }

func (s *existingC061Sink) ID() string    { return "existingC06-1" }
func (s *existingC061Sink) Cancel() error { return nil }
func (s *existingC061Sink) Close() error  { return nil }

func existingC061Server(t *testing.T, dir string) *Server {
	config := getTestConfig("c06-observer", false, 0)
	config.DataDir = dir
	s := New(config)
	t.Cleanup(func() { s.metadata.Reset() })
	return s
}

func existingC061CreateOp(name string, partitions int) *proto.RaftLog {
	parts := make([]*proto.Partition, partitions)
	for i := range parts {
		parts[i] = &proto.Partition{
			Subject:           name,
			Stream:            name,
			Id:                int32(i),
			ReplicationFactor: 2,
			Replicas:          []string{"a", "b"},
			Isr:               []string{"a", "b"},
			Leader:            "a",
		}
	}
	return &proto.RaftLog{
		Op: proto.Op_CREATE_STREAM,
		CreateStreamOp: &proto.CreateStreamOp{
			Stream: &proto.Stream{Name: name, Subject: name, Partitions: parts},
		},
	}
}

func TestExistingC06_1_ResumeAllLostInSnapshot(t *testing.T) {
	dir := t.TempDir()
	history := []*proto.RaftLog{
		existingC061CreateOp("foo", 2),
		{
			Op: proto.Op_PAUSE_STREAM,
			// Pause all partitions; a publish to any of them resumes all.
			PauseStreamOp: &proto.PauseStreamOp{Stream: "foo", ResumeAll: true},
		},
	}

	s1 := existingC061Server(t, dir)
	for i, op := range history {
		_, err := s1.apply(op, uint64(i+1), false)
		require.NoError(t, err)
	}
	require.True(t, s1.metadata.GetStream("foo").GetResumeAll())

	snap, err := s1.Snapshot()
	require.NoError(t, err)
	sink := &existingC061Sink{}
	require.NoError(t, snap.Persist(sink))
	require.NoError(t, s1.metadata.Reset())

	// Restart from the snapshot (snapshot at index 2, nothing to replay).
	s2 := existingC061Server(t, dir)
	require.NoError(t, s2.Restore(io.NopCloser(bytes.NewReader(sink.Bytes()))))
	_, _, err = s2.finishedRecovery(2)
	require.NoError(t, err)

	// Restart by replaying the log instead gives the state back.
	s3 := existingC061Server(t, t.TempDir())
	for i, op := range history {
		_, err := s3.apply(op, uint64(i+1), true)
		require.NoError(t, err)
	}
	_, _, err = s3.finishedRecovery(2)
	require.NoError(t, err)
	require.True(t, s3.metadata.GetStream("foo").GetResumeAll())

	stream := s2.metadata.GetStream("foo")
	require.NotNil(t, stream)
	require.True(t, stream.GetPartition(0).IsPaused())
	require.True(t, stream.GetPartition(1).IsPaused())
	require.True(t, stream.GetResumeAll(),
		"ResumeAll of the replicated pause is lost when the state is rebuilt from a snapshot")
}
