// package dir: server/commitlog
//
// Existing defect 3: a negative number of compaction workers is accepted
// (streams.compact.max.goroutines in the configuration file, or the
// CompactMaxGoroutines field of a CreateStream request, neither of which is
// validated) and makes every compaction pass panic in scanKeys
// (make(chan error, -1)). In the server the pass runs on the cleanerLoop
// goroutine, which has no recover, so the panic takes the process down.
package commitlog

import (
	"context"
	"fmt"
	"testing"
	"time"

	"github.com/stretchr/testify/require"
)

func TestExistingC08_3_NegativeCompactionWorkers(t *testing.T) {
	opts := Options{
		Path:                 tempDir(t),
		MaxSegmentBytes:      200,
		Compact:              true,
		CompactMaxGoroutines: -1,
	}
	l, cleanup := setupWithOptions(t, opts)
	defer cleanup()

	for i := 0; i < 12; i++ {
		key := fmt.Sprintf("key%02d", i)
		if i%4 == 1 {
			key = "dup"
		}
		offsets, err := l.Append([]*Message{{
			Key:       []byte(key),
			Value:     []byte("value"),
			Timestamp: int64(1000 + i),
		}})
		require.NoError(t, err)
		l.SetHighWatermark(offsets[0])
	}
	require.Equal(t, 3, len(l.Segments()))

	require.NotPanics(t, func() {
		require.NoError(t, l.Clean())
	})

	// "dup" at offsets 1 and 5 is superseded by offset 9 in the last segment.
	ctx, cancel := context.WithTimeout(context.Background(), 5*time.Second)
	defer cancel()
	r, err := l.NewReader(0, true)
	require.NoError(t, err)
	headers := make([]byte, 28)
	offsets := []int64{}
	for len(offsets) == 0 || offsets[len(offsets)-1] < 11 {
		_, offset, _, _, err := r.ReadMessage(ctx, headers)
		require.NoError(t, err)
		offsets = append(offsets, offset)
	}
	require.Equal(t, []int64{0, 2, 3, 4, 6, 7, 8, 9, 10, 11}, offsets)
}
