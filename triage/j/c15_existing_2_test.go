// package dir: server
//
// Existing defect C15/2 (unchanged tree): cursorManager.SetCursor publishes the
// cursor with the *client's* context through the public Publish handler, so
// SetCursor only works for clients which have been granted Publish on the
// reserved stream __cursors (see configs/authz/policy.csv). Publish does not
// refuse reserved streams, so this grant lets the client write a cursor record
// for any stream directly: a cursor is stored for stream "bar" by a client
// which has no SetCursor policy entry for bar (and whose SetCursor call on bar
// is refused).
//
// Run on its own:
//   go test -vet=off -count=1 -run 'TestExistingC15_2' ./server/
package server

import (
	"context"
	"os"
	"path/filepath"
	"strings"
	"testing"
	"time"

	client "github.com/liftbridge-io/liftbridge-api/v2/go"
	proto "github.com/liftbridge-io/liftbridge/server/protocol"
	"github.com/stretchr/testify/require"
)

func TestExistingC15_2_CursorStoredForUnauthorizedStream(t *testing.T) {
	defer cleanupStorage(t)

	policy := []string{
		"p, admin, foo, CreateStream",
		"p, admin, bar, CreateStream",
		// client1 may manage cursors of foo. Publish on __cursors is what
		// SetCursor needs to work at all.
		"p, client1, foo, SetCursor",
		"p, client1, foo, FetchCursor",
		"p, client1, __cursors, Publish",
		// client2 owns the cursors of bar.
		"p, client2, bar, SetCursor",
		"p, client2, bar, FetchCursor",
		"p, client2, __cursors, Publish",
	}
	policyPath := filepath.Join(t.TempDir(), "policy.csv")
	require.NoError(t, os.WriteFile(policyPath, []byte(strings.Join(policy, "\n")+"\n"), 0o600))

	config := getTestConfig("a", true, 5050)
	config.CursorsStream.Partitions = 1
	config.TLSCert = "./configs/certs/server/server-cert.pem"
	config.TLSKey = "./configs/certs/server/server-key.pem"
	config.TLSClientAuth = true
	config.TLSClientAuthCA = "./configs/certs/ca-cert.pem"
	config.TLSClientAuthz = true
	config.TLSClientAuthzModel = "./configs/authz/model.conf"
	config.TLSClientAuthzPolicy = policyPath

	s := runServerWithConfig(t, config)
	defer s.Stop()
	getMetadataLeader(t, 10*time.Second, s)

	as := func(clientID string) context.Context {
		// The identity the authz interceptors take from the verified client
		// certificate.
		return context.WithValue(context.Background(), "clientID", clientID) // nolint
	}

	for _, name := range []string{"foo", "bar"} {
		_, err := s.api.CreateStream(as("admin"), &client.CreateStreamRequest{Name: name, Subject: name})
		require.NoError(t, err)
		waitForPartition(t, 5*time.Second, name, 0, s)
	}
	waitForPartition(t, 5*time.Second, cursorsStream, 0, s)
	getPartitionLeader(t, 10*time.Second, cursorsStream, 0, s)

	// Sanity: SetCursor works for client1 on foo and is refused on bar.
	_, err := s.api.SetCursor(as("client1"), &client.SetCursorRequest{Stream: "foo", Partition: 0, CursorId: "abc", Offset: 1})
	require.NoError(t, err)
	_, err = s.api.SetCursor(as("client1"), &client.SetCursorRequest{Stream: "bar", Partition: 0, CursorId: "abc", Offset: 42})
	require.Error(t, err)
	require.Contains(t, err.Error(), "not authorized")

	// client1 writes the cursor record for bar itself.
	cursor := &proto.Cursor{Stream: "bar", Partition: 0, CursorId: "abc", Offset: 42}
	value, err := cursor.Marshal()
	require.NoError(t, err)
	ctx, cancel := context.WithTimeout(as("client1"), 5*time.Second)
	defer cancel()
	_, err = s.api.Publish(ctx, &client.PublishRequest{
		Stream:         cursorsStream,
		Partition:      0,
		Key:            []byte("abc,bar,0"),
		Value:          value,
		AckPolicy:      client.AckPolicy_ALL,
		ExpectedOffset: -1,
	})
	require.NoError(t, err, "publishing to __cursors is what the policy has to allow for SetCursor to work")

	// client2 never set this cursor, so there must be none (-1).
	resp, err := s.api.FetchCursor(as("client2"), &client.FetchCursorRequest{Stream: "bar", Partition: 0, CursorId: "abc"})
	require.NoError(t, err)
	require.Equal(t, int64(-1), resp.Offset,
		"a cursor was stored for stream bar by client1 which has no SetCursor policy entry for bar")
}
