// package dir: server/commitlog
//
// Existing defect 2: once retention has deleted every message of a log (an idle
// stream past its retention age: the cleaner rolls the active segment and
// deletes the rest), ClearEarliest rewrites the remaining leader epoch entry to
// start at the base offset of the empty segment, i.e. one PAST the newest
// offset. A replica elected afterwards calls NewLeaderEpoch(epoch), which
// assigns the epoch to NewestOffset(); assign() rejects it because the offset
// is smaller than the latest start offset. The elected leader has no record of
// where its epoch started; the epoch is only recorded with its first message,
// one offset too late, and a returning old leader keeps one message nobody
// else stores.
//
// The test drives real commit logs through the calls partition.go makes:
// becomeLeader -> NewLeaderEpoch, handleLeaderOffsetRequest ->
// LastOffsetForLeaderEpoch, truncateUncommitted -> Truncate(lastOffset+1) and
// handleReplicationResponse -> AppendMessageSet. The control run, which only
// differs by the log not having been emptied, passes.
package commitlog

import (
	"context"
	"testing"
	"time"

	"github.com/stretchr/testify/require"
)

// existingC02e2Replicate copies the messages past the follower's newest offset
// from the leader's log to the follower's, like the replicator and the
// follower's handleReplicationResponse do.
func existingC02e2Replicate(t *testing.T, leader, follower *commitLog) {
	for follower.NewestOffset() < leader.NewestOffset() {
		reader, err := leader.NewReader(follower.NewestOffset()+1, true)
		require.NoError(t, err)
		headers := make([]byte, 28)
		ctx, cancel := context.WithTimeout(context.Background(), 2*time.Second)
		msg, offset, _, _, err := reader.ReadMessage(ctx, headers)
		cancel()
		require.NoError(t, err)
		// The follower drops data starting before its next offset.
		require.True(t, offset >= follower.NewestOffset()+1)
		_, err = follower.AppendMessageSet(append(append([]byte{}, headers...), msg...))
		require.NoError(t, err)
	}
	follower.SetHighWatermark(leader.HighWatermark())
}

func existingC02e2Dump(t *testing.T, l *commitLog) map[int64]string {
	msgs := map[int64]string{}
	if l.NewestOffset() < l.OldestOffset() || l.OldestOffset() < 0 {
		return msgs
	}
	reader, err := l.NewReader(l.OldestOffset(), true)
	require.NoError(t, err)
	headers := make([]byte, 28)
	for {
		ctx, cancel := context.WithTimeout(context.Background(), 2*time.Second)
		msg, offset, _, _, err := reader.ReadMessage(ctx, headers)
		cancel()
		require.NoError(t, err)
		msgs[offset] = string(msg.Value())
		if offset >= l.NewestOffset() {
			return msgs
		}
	}
}

func existingC02e2Append(t *testing.T, l *commitLog, epoch uint64, values ...string) {
	for _, value := range values {
		_, err := l.Append([]*Message{{
			Value:       []byte(value),
			Timestamp:   time.Now().UnixNano(),
			LeaderEpoch: epoch,
		}})
		require.NoError(t, err)
	}
}

func existingC02e2Run(t *testing.T, emptyLogs bool) {
	opts := func() Options {
		o := Options{Path: tempDir(t)}
		if emptyLogs {
			// An idle stream past its retention age: the cleaner rolls the
			// active segment once it is older than MaxSegmentAge and deletes
			// the segments older than MaxLogAge.
			o.MaxSegmentAge = 100 * time.Millisecond
			o.MaxLogAge = 100 * time.Millisecond
			o.CleanerInterval = 50 * time.Millisecond
		}
		return o
	}
	oldLeaderOpts := opts()
	oldLeader, cleanupOld := setupWithOptions(t, oldLeaderOpts)
	defer func() { cleanupOld() }()
	newLeader, cleanupNew := setupWithOptions(t, opts())
	defer cleanupNew()

	// Epoch 1: the first leader is elected on an empty log and m0, m1 are
	// replicated and committed.
	require.NoError(t, oldLeader.NewLeaderEpoch(1))
	existingC02e2Append(t, oldLeader, 1, "m0", "m1")
	oldLeader.SetHighWatermark(1)
	existingC02e2Replicate(t, oldLeader, newLeader)

	if emptyLogs {
		// Nothing is published for longer than the retention age and both
		// replicas delete all of their messages.
		deadline := time.Now().Add(10 * time.Second)
		for time.Now().Before(deadline) {
			if oldLeader.OldestOffset() == -1 && newLeader.OldestOffset() == -1 &&
				len(oldLeader.Segments()) == 1 && len(newLeader.Segments()) == 1 {
				break
			}
			time.Sleep(20 * time.Millisecond)
		}
		require.Equal(t, int64(1), oldLeader.NewestOffset())
		require.Equal(t, int64(1), newLeader.NewestOffset())
		require.Equal(t, 0, len(existingC02e2Dump(t, oldLeader)))
		require.Equal(t, 0, len(existingC02e2Dump(t, newLeader)))
	}

	// The leader receives x2, which is never replicated, and dies.
	existingC02e2Append(t, oldLeader, 1, "x2")
	require.NoError(t, oldLeader.Close())

	// Epoch 2: the follower is elected (becomeLeader), then receives m2.
	require.NoError(t, newLeader.NewLeaderEpoch(2))
	electedAt := newLeader.NewestOffset()
	require.Equal(t, int64(1), electedAt)
	existingC02e2Append(t, newLeader, 2, "m2")

	// The old leader restarts as a follower (it reconciles before its cleaner
	// runs again, so it is reopened without retention limits) and truncates its
	// log to the last offset of its last leader epoch, as answered by the new
	// leader (truncateUncommitted).
	reopened, err := New(Options{Path: oldLeaderOpts.Path})
	require.NoError(t, err)
	oldLeader = reopened.(*commitLog)
	cleanupOld = func() {
		oldLeader.Close()
		remove(t, oldLeaderOpts.Path)
	}
	require.Equal(t, uint64(1), oldLeader.LastLeaderEpoch())
	lastOffset := newLeader.LastOffsetForLeaderEpoch(oldLeader.LastLeaderEpoch())
	require.NoError(t, oldLeader.Truncate(lastOffset+1))

	// It replicates from the new leader, which commits m2 once the ISR (both
	// replicas) stores offset 2.
	existingC02e2Replicate(t, newLeader, oldLeader)
	newLeader.SetHighWatermark(2)
	oldLeader.SetHighWatermark(2)

	if lastOffset != electedAt {
		t.Errorf("the leader elected at offset %d answered %d as the last offset of epoch 1",
			electedAt, lastOffset)
	}
	require.Equal(t, "m2", existingC02e2Dump(t, newLeader)[2])
	if got := existingC02e2Dump(t, oldLeader)[2]; got != "m2" {
		t.Errorf("replicas diverge at offset 2 (both high watermarks are 2): "+
			"the leader stores %q, the old leader stores %q", "m2", got)
	}
}

func TestExistingC02_2_EpochNotRecordedAfterRetentionEmptiedLog(t *testing.T) {
	existingC02e2Run(t, true)
}

// Control: the same steps without the retention pass. This passes on the
// unchanged tree.
func TestControlC02_2_LogNotEmptied(t *testing.T) {
	existingC02e2Run(t, false)
}
