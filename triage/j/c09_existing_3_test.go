// package dir: server/commitlog
package commitlog

import (
	"context"
	"io"
	"testing"
	"time"

	"github.com/stretchr/testify/require"
)

// A ReverseReader walks from the newest message down to the oldest. If a
// retention pass removes the oldest segments meanwhile, the reader must stop
// (io.EOF) at the new oldest offset, as it does at the start of any log. In the
// unchanged tree it fails with ErrSegmentClosed: reverseSegmentScanner.Scan
// only translates the closed index of a *replaced* segment (s.s.IsReplaced()),
// not that of a segment deleted by retention.
func TestExistingC09_3_ReverseReaderReachesSegmentsRemovedByRetention(t *testing.T) {
	value := []byte("0123456789")
	ms, _, err := newMessageSetFromProto(0, 0, []*Message{{Value: value, Timestamp: 1}}, false)
	require.NoError(t, err)

	l, cleanup := setupWithOptions(t, Options{
		Path:            tempDir(t),
		MaxSegmentBytes: int64(len(ms)), // one message per segment
		MaxLogMessages:  2,
		CleanerInterval: time.Hour,
	})
	defer cleanup()

	for i := 0; i < 5; i++ {
		_, err := l.Append([]*Message{{Value: value, Timestamp: time.Now().UnixNano()}})
		require.NoError(t, err)
	}

	r, err := l.NewReverseReaderFromEnd(true)
	require.NoError(t, err)
	ctx, cancel := context.WithTimeout(context.Background(), 5*time.Second)
	defer cancel()
	headers := make([]byte, 28)
	_, offset, _, _, err := r.ReadMessage(ctx, headers)
	require.NoError(t, err)
	require.Equal(t, int64(4), offset)

	// Retention removes s0..s2; offsets 3 and 4 survive.
	require.NoError(t, l.Clean())
	require.Equal(t, int64(3), l.OldestOffset())

	_, offset, _, _, err = r.ReadMessage(ctx, headers)
	require.NoError(t, err)
	require.Equal(t, int64(3), offset)

	// The surviving log ends here.
	_, _, _, _, err = r.ReadMessage(ctx, headers)
	require.Equal(t, io.EOF, err, "reverse reader stepping below the new oldest offset")
}
