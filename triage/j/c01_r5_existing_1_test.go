// package dir: server/commitlog
//
// Existing defect C01_1: a write to the log file of the active segment fails
// after part of the message set has reached the file (e.g. the disk is full).
// Append reports the error, so the batch is not accepted. The next Append
// succeeds, so that batch is accepted, but it cannot be read back.
package commitlog

import (
	"bytes"
	"context"
	"errors"
	"fmt"
	"io"
	"os"
	"testing"
	"time"
)

// existingC011ShortWriter passes on the first n bytes of a write and then
// fails like a file on a full disk does.
type existingC011ShortWriter struct {
	w io.Writer
	n int
}

func (s *existingC011ShortWriter) Write(p []byte) (int, error) {
	if len(p) > s.n {
		n, _ := s.w.Write(p[:s.n])
		return n, errors.New("write: no space left on device")
	}
	return s.w.Write(p)
}

func existingC011Message(i int) *Message {
	return &Message{
		Key:         []byte(fmt.Sprintf("key-%d", i)),
		Value:       []byte(fmt.Sprintf("value-%d", i)),
		Timestamp:   int64(i + 1),
		LeaderEpoch: 1,
	}
}

func TestExistingC01_1_ShortWriteCorruptsNextAppend(t *testing.T) {
	for _, written := range []int{10, 40} {
		written := written
		t.Run(fmt.Sprintf("written%d", written), func(t *testing.T) {
			dir, err := os.MkdirTemp("", "lift_existingC01_1_")
			if err != nil {
				t.Fatal(err)
			}
			defer os.RemoveAll(dir)
			cl, err := New(Options{Path: dir, MaxSegmentBytes: 1 << 20})
			if err != nil {
				t.Fatal(err)
			}
			l := cl.(*commitLog)
			defer l.Close()

			var want []*Message
			for i := 0; i < 3; i++ {
				m := existingC011Message(i)
				if _, err := l.Append([]*Message{m}); err != nil {
					t.Fatal(err)
				}
				want = append(want, m)
			}

			// The disk is full: the write of the next message set is cut short.
			seg := l.activeSegment()
			file := seg.writer
			seg.writer = &existingC011ShortWriter{w: file, n: written}
			if _, err := l.Append([]*Message{existingC011Message(100)}); err == nil {
				t.Fatal("expected the append to fail")
			}
			if got := l.NewestOffset(); got != 2 {
				t.Fatalf("newest offset after failed append: got %d, want 2", got)
			}

			// Space was freed: the next append is accepted at offset 3.
			seg.writer = file
			m := existingC011Message(3)
			offsets, err := l.Append([]*Message{m})
			if err != nil || len(offsets) != 1 || offsets[0] != 3 {
				t.Fatalf("append after failed write: offsets %v err %v", offsets, err)
			}
			want = append(want, m)

			// Everything accepted must be readable.
			err = func() (err error) {
				defer func() {
					if r := recover(); r != nil {
						err = fmt.Errorf("reader panicked: %v", r)
					}
				}()
				r, err := l.NewReader(0, true)
				if err != nil {
					return err
				}
				ctx, cancel := context.WithTimeout(context.Background(), 3*time.Second)
				defer cancel()
				headers := make([]byte, 28)
				for i, exp := range want {
					msg, offset, _, _, err := r.ReadMessage(ctx, headers)
					if err != nil {
						return fmt.Errorf("reading offset %d: %v", i, err)
					}
					if offset != int64(i) || !bytes.Equal(msg.Key(), exp.Key) || !bytes.Equal(msg.Value(), exp.Value) {
						return fmt.Errorf("got offset %d key %q value %q, want %d %q %q",
							offset, msg.Key(), msg.Value(), i, exp.Key, exp.Value)
					}
				}
				return nil
			}()
			if err != nil {
				t.Fatalf("accepted messages are not readable: %v", err)
			}
		})
	}
}
