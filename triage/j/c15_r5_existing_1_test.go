// package dir: server
//
// Existing defect 1 (C15): the four consumer group methods of the client API
// (JoinConsumerGroup, LeaveConsumerGroup, FetchConsumerGroupAssignments,
// ReportConsumerGroupCoordinator) never consult the authorisation policy.
// With authorisation switched on, a client WITHOUT A SINGLE policy entry can
// create consumer groups, add members to the groups of other clients (which
// takes partitions away from the existing members), read and heartbeat the
// assignments of other members and throw other members out of their group.
//
// The handlers are invoked in-process with a context carrying the client id,
// which is what the authz interceptors hand to them.
package server

import (
	"context"
	"os"
	"path/filepath"
	"testing"
	"time"

	client "github.com/liftbridge-io/liftbridge-api/v2/go"
	"github.com/stretchr/testify/assert"
	"github.com/stretchr/testify/require"

	proto "github.com/liftbridge-io/liftbridge/server/protocol"
)

const existingC15x1Model = `[request_definition]
r = sub, obj, act

[policy_definition]
p = sub, obj, act

[policy_effect]
e = some(where (p.eft == allow))

[matchers]
m = r.sub == p.sub && r.obj == p.obj && r.act == p.act
`

func existingC15x1Ctx(t *testing.T, clientID string) context.Context {
	ctx, cancel := context.WithTimeout(context.Background(), 10*time.Second)
	t.Cleanup(cancel)
	return context.WithValue(ctx, "clientID", clientID)
}

func TestExistingC15_1_ConsumerGroupMethodsIgnoreThePolicy(t *testing.T) {
	defer cleanupStorage(t)

	dir := t.TempDir()
	modelPath := filepath.Join(dir, "model.conf")
	policyPath := filepath.Join(dir, "policy.csv")
	require.NoError(t, os.WriteFile(modelPath, []byte(existingC15x1Model), 0o644))
	// mallory does not appear in the policy at all.
	require.NoError(t, os.WriteFile(policyPath, []byte(`p, root, foo, CreateStream
p, alice, foo, Subscribe
`), 0o644))

	config := getTestConfig("a", true, 0)
	config.TLSCert = "./configs/certs/server/server-cert.pem"
	config.TLSKey = "./configs/certs/server/server-key.pem"
	config.TLSClientAuth = true
	config.TLSClientAuthCA = "./configs/certs/ca-cert.pem"
	config.TLSClientAuthz = true
	config.TLSClientAuthzModel = modelPath
	config.TLSClientAuthzPolicy = policyPath

	s := runServerWithConfig(t, config)
	defer s.Stop()
	getMetadataLeader(t, 10*time.Second, s)
	require.NotNil(t, s.authzEnforcer, "authorization must be switched on")
	api := s.api

	// Sanity: the policy is enforced for mallory on the ordinary methods.
	_, err := api.CreateStream(existingC15x1Ctx(t, "mallory"),
		&client.CreateStreamRequest{Name: "foo", Subject: "foo", Partitions: 2})
	require.Error(t, err)
	require.Contains(t, err.Error(), "not authorized")

	_, err = api.CreateStream(existingC15x1Ctx(t, "root"),
		&client.CreateStreamRequest{Name: "foo", Subject: "foo", Partitions: 2})
	require.NoError(t, err)

	// The group of the legitimate consumer is set up through the metadata
	// layer, not through the API, so the set-up does not depend on what the
	// API allows.
	_, _, st := s.metadata.JoinConsumerGroup(context.Background(), &proto.JoinConsumerGroupOp{
		GroupId: "workers", ConsumerId: "alice-1", Streams: []string{"foo"}})
	require.Nil(t, st)
	group := s.metadata.GetConsumerGroup("workers")
	require.NotNil(t, group)
	before, groupEpoch, err := s.metadata.GetConsumerGroupAssignments("workers", "alice-1", currentGroupEpochExistingC15x1(group))
	require.NoError(t, err)
	require.ElementsMatch(t, []int32{0, 1}, before["foo"])

	// 1. mallory creates a consumer group.
	_, err = api.JoinConsumerGroup(existingC15x1Ctx(t, "mallory"), &client.JoinConsumerGroupRequest{
		GroupId: "evil", ConsumerId: "m", Streams: []string{"foo"}})
	assert.Error(t, err, "JoinConsumerGroup (new group) by a client without any policy entry was not refused")
	assert.Nil(t, s.metadata.GetConsumerGroup("evil"),
		"a client without any policy entry created a consumer group")

	// 2. mallory reads (and heartbeats) the assignments of alice's consumer.
	_, err = api.FetchConsumerGroupAssignments(existingC15x1Ctx(t, "mallory"),
		&client.FetchConsumerGroupAssignmentsRequest{GroupId: "workers", ConsumerId: "alice-1", Epoch: groupEpoch})
	assert.Error(t, err, "FetchConsumerGroupAssignments by a client without any policy entry was not refused")

	// 3. mallory adds a member to alice's group, which takes a partition away
	// from alice's consumer.
	_, err = api.JoinConsumerGroup(existingC15x1Ctx(t, "mallory"), &client.JoinConsumerGroupRequest{
		GroupId: "workers", ConsumerId: "m", Streams: []string{"foo"}})
	assert.Error(t, err, "JoinConsumerGroup (existing group) by a client without any policy entry was not refused")
	assert.False(t, group.IsMember("m"), "a client without any policy entry became a member of the group")
	after, _, err := s.metadata.GetConsumerGroupAssignments("workers", "alice-1", currentGroupEpochExistingC15x1(group))
	if assert.NoError(t, err) {
		assert.ElementsMatch(t, []int32{0, 1}, after["foo"],
			"the partition assignments of the existing member were changed by the unauthorised call")
	}

	// 4. mallory throws alice's consumer out of the group.
	_, err = api.LeaveConsumerGroup(existingC15x1Ctx(t, "mallory"), &client.LeaveConsumerGroupRequest{
		GroupId: "workers", ConsumerId: "alice-1"})
	assert.Error(t, err, "LeaveConsumerGroup by a client without any policy entry was not refused")
	assert.True(t, group.IsMember("alice-1"),
		"a client without any policy entry removed another client's consumer from its group")
}

// currentGroupEpochExistingC15x1 returns the current epoch of the group.
func currentGroupEpochExistingC15x1(group *consumerGroup) uint64 {
	group.mu.RLock()
	defer group.mu.RUnlock()
	return group.epoch
}
