// package dir: server
//
// C17 existing defect 1: whether a stream is encrypted is not recorded with
// the stream when it comes from the server default (streams.encryption). The
// decision is re-taken from the CURRENT server configuration every time the
// partition object is built (server start, resume after pause, snapshot
// restore). A stream created as encrypted silently stops being one when the
// default is switched off: its sealed values are handed to subscribers as if
// they were the data (no error), and new values are written in clear.
package server

import (
	"bytes"
	"context"
	"os"
	"path/filepath"
	"testing"
	"time"

	lift "github.com/liftbridge-io/go-liftbridge/v2"
	"github.com/stretchr/testify/require"
)

func TestExistingC17_1_EncryptedStreamSurvivesDefaultChange(t *testing.T) {
	defer cleanupStorage(t)

	os.Setenv("LIFTBRIDGE_ENCRYPTION_KEY", "t7w!z%C*F-JaNcRf")

	// The server encrypts streams by default.
	s1Config := getTestConfig("a", true, 5050)
	s1Config.Streams.Encryption = true
	s1 := runServerWithConfig(t, s1Config)
	stopped := false
	defer func() {
		if !stopped {
			s1.Stop()
		}
	}()
	getMetadataLeader(t, 10*time.Second, s1)

	client, err := lift.Connect([]string{"localhost:5050"})
	require.NoError(t, err)

	// No stream-level override: the stream is encrypted because of the
	// server default.
	name := "c17existing1"
	require.NoError(t, client.CreateStream(context.Background(), name, name))
	partition := s1.metadata.GetPartition(name, 0)
	require.NotNil(t, partition)
	require.NotNil(t, partition.encryptionHandler, "stream is expected to be encrypted")

	before := []byte("c17-published-while-encryption-was-the-default-0123456789")
	ctx, cancel := context.WithTimeout(context.Background(), 5*time.Second)
	_, err = client.Publish(ctx, name, before)
	cancel()
	require.NoError(t, err)
	waitForHW(t, 5*time.Second, name, 0, 0, s1)
	require.NoError(t, client.Close())

	// Restart the server with the default switched off (same master key).
	require.NoError(t, s1.Stop())
	stopped = true
	s1Config.Streams.Encryption = false
	s1 = runServerWithConfig(t, s1Config)
	defer s1.Stop()
	getMetadataLeader(t, 10*time.Second, s1)
	waitForPartition(t, 5*time.Second, name, 0, s1)
	getPartitionLeader(t, 10*time.Second, name, 0, s1)

	client, err = lift.Connect([]string{"localhost:5050"})
	require.NoError(t, err)
	defer client.Close()

	after := []byte("c17-published-after-the-default-was-switched-off-0123456789")
	ctx, cancel = context.WithTimeout(context.Background(), 5*time.Second)
	_, err = client.Publish(ctx, name, after)
	cancel()
	require.NoError(t, err)
	waitForHW(t, 5*time.Second, name, 0, 1, s1)

	// Subscribers get exactly what was published (or, at the very least, an
	// error) - never the sealed bytes.
	type result struct {
		msg *lift.Message
		err error
	}
	results := make(chan result, 16)
	sctx, scancel := context.WithCancel(context.Background())
	defer scancel()
	err = client.Subscribe(sctx, name, func(msg *lift.Message, err error) {
		select {
		case results <- result{msg, err}:
		default:
		}
	}, lift.StartAtEarliestReceived())
	require.NoError(t, err)
	select {
	case r := <-results:
		if r.err == nil && !bytes.Equal(r.msg.Value(), before) {
			t.Errorf("subscriber received %d bytes that are not the published value (%d bytes) "+
				"and no error: the sealed form was delivered as data",
				len(r.msg.Value()), len(before))
		}
	case <-time.After(10 * time.Second):
		t.Fatal("subscriber received nothing")
	}

	// The log of the stream does not contain values in clear.
	segments, err := filepath.Glob(filepath.Join(s1Config.DataDir, "streams", name, "0", "*.log"))
	require.NoError(t, err)
	require.NotEmpty(t, segments)
	for _, segment := range segments {
		stored, err := os.ReadFile(segment)
		require.NoError(t, err)
		require.False(t, bytes.Contains(stored, before))
		if bytes.Contains(stored, after) {
			t.Errorf("segment %s of the encrypted stream contains a published value in clear",
				filepath.Base(segment))
		}
	}
}
