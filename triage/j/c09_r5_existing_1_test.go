// package dir: server/commitlog
//
// Existing defect 1: the age limit stops at the first segment, counted from the
// oldest end, which is not past the limit. When the last-write times do not
// increase along the log (messages stamped by a new leader whose clock is
// behind, a clock stepped back, timestamps supplied through the API), segments
// behind it which are past the age limit survive the pass, although they are
// not the newest segment: the age limit does not hold after Clean().
package commitlog

import (
	"strconv"
	"testing"
	"time"

	"github.com/stretchr/testify/require"
)

func TestExistingC09_1_AgeLimitHoldsWithNonMonotonicLastWriteTimes(t *testing.T) {
	computeTTLBefore := computeTTL
	defer func() { computeTTL = computeTTLBefore }()
	// Everything written before time 50 is past the age limit.
	const ttl = int64(50)
	computeTTL = func(age time.Duration) int64 { return ttl }

	l, cleanup := setupWithOptions(t, Options{
		Path:            tempDir(t),
		MaxSegmentBytes: 6, // every message gets its own segment
		MaxLogAge:       time.Hour,
		CleanerInterval: time.Hour,
	})
	defer cleanup()

	// Last-write times of the segments, oldest first. The last one is the
	// newest (active) segment.
	for i, ts := range []int64{100, 10, 10, 200} {
		_, err := l.Append([]*Message{{
			Value:       []byte(strconv.Itoa(i)),
			Timestamp:   ts,
			LeaderEpoch: 1,
		}})
		require.NoError(t, err)
	}
	require.Len(t, l.Segments(), 4)

	require.NoError(t, l.Clean())
	require.NoError(t, l.Clean())

	// Afterwards the age limit holds unless only the newest segment remains:
	// no segment but the newest has a last-write time past the limit.
	segments := l.Segments()
	for i, seg := range segments {
		if i == len(segments)-1 {
			break
		}
		require.False(t, seg.LastWriteTime() < ttl,
			"segment with base offset %d, last written at %d, is past the age limit (%d) "+
				"but survived the retention pass; %d segments remain",
			seg.BaseOffset, seg.LastWriteTime(), ttl, len(segments))
	}
}
