// package dir: server
//
// Existing defect 1 (C18): a server which restarts from a Raft snapshot that
// covers its whole log never starts the partitions restored from the snapshot,
// among them the partition of the activity stream. Every publish of an
// activity event then times out, forever, so the operations committed after
// the restart never appear in the activity stream. See existing.txt.
package server

import (
	"context"
	"fmt"
	"testing"
	"time"

	"github.com/hashicorp/raft"
	lift "github.com/liftbridge-io/go-liftbridge/v2"
	liftApi "github.com/liftbridge-io/liftbridge-api/v2/go"
	"github.com/stretchr/testify/require"
	pb "google.golang.org/protobuf/proto"

	proto "github.com/liftbridge-io/liftbridge/server/protocol"
)

type existingC18x1Event struct {
	id uint64
	op liftApi.ActivityStreamOp
}

func (e existingC18x1Event) String() string { return fmt.Sprintf("%d:%s", e.id, e.op) }

// existingC18x1Expected walks the committed part of the Raft log of the given
// server and returns the activity events the property demands, in commit order.
func existingC18x1Expected(t *testing.T, s *Server) []existingC18x1Event {
	node := s.getRaft()
	first, err := node.store.FirstIndex()
	require.NoError(t, err)
	commit := node.getCommitIndex()
	var events []existingC18x1Event
	for i := first; i <= commit; i++ {
		l := new(raft.Log)
		require.NoError(t, node.store.GetLog(i, l))
		if l.Type != raft.LogCommand {
			continue
		}
		op := new(proto.RaftLog)
		require.NoError(t, op.Unmarshal(l.Data))
		switch op.Op {
		case proto.Op_CREATE_STREAM:
			events = append(events, existingC18x1Event{i, liftApi.ActivityStreamOp_CREATE_STREAM})
		case proto.Op_DELETE_STREAM:
			events = append(events, existingC18x1Event{i, liftApi.ActivityStreamOp_DELETE_STREAM})
		case proto.Op_PAUSE_STREAM:
			events = append(events, existingC18x1Event{i, liftApi.ActivityStreamOp_PAUSE_STREAM})
		case proto.Op_RESUME_STREAM:
			events = append(events, existingC18x1Event{i, liftApi.ActivityStreamOp_RESUME_STREAM})
		case proto.Op_SET_STREAM_READONLY:
			events = append(events, existingC18x1Event{i, liftApi.ActivityStreamOp_SET_STREAM_READONLY})
		case proto.Op_CREATE_CONSUMER_GROUP:
			if len(op.CreateConsumerGroupOp.ConsumerGroup.Members) > 0 {
				events = append(events, existingC18x1Event{i, liftApi.ActivityStreamOp_JOIN_CONSUMER_GROUP})
			}
		case proto.Op_JOIN_CONSUMER_GROUP:
			events = append(events, existingC18x1Event{i, liftApi.ActivityStreamOp_JOIN_CONSUMER_GROUP})
		case proto.Op_LEAVE_CONSUMER_GROUP:
			events = append(events, existingC18x1Event{i, liftApi.ActivityStreamOp_LEAVE_CONSUMER_GROUP})
		}
	}
	return events
}

// existingC18x1Read reads the activity stream from the beginning until an event
// with the id lastID has been seen or the timeout expires, and returns the
// events in the order in which they are stored in the stream.
func existingC18x1Read(t *testing.T, client lift.Client, lastID uint64, timeout time.Duration) []existingC18x1Event {
	type item struct {
		ev  existingC18x1Event
		err error
	}
	ch := make(chan item, 4096)
	ctx, cancel := context.WithCancel(context.Background())
	defer cancel()
	err := client.Subscribe(ctx, activityStream, func(msg *lift.Message, err error) {
		if err != nil {
			select {
			case ch <- item{err: err}:
			default:
			}
			return
		}
		var se liftApi.ActivityStreamEvent
		if err := pb.Unmarshal(msg.Value(), &se); err != nil {
			select {
			case ch <- item{err: err}:
			default:
			}
			return
		}
		select {
		case ch <- item{ev: existingC18x1Event{se.GetId(), se.GetOp()}}:
		default:
		}
	}, lift.StartAtEarliestReceived())
	require.NoError(t, err)

	var (
		got      []existingC18x1Event
		deadline = time.After(timeout)
	)
	for {
		select {
		case it := <-ch:
			if it.err != nil {
				// The subscription ended (e.g. context canceled).
				return got
			}
			got = append(got, it.ev)
			if it.ev.id == lastID {
				return got
			}
		case <-deadline:
			return got
		}
	}
}

// existingC18x1Check compares what was read from the activity stream with the
// committed log: every expected event appears at least once with the id and
// the operation of its Raft entry, nothing else appears, and the first
// appearances are in commit order.
func existingC18x1Check(t *testing.T, expected, got []existingC18x1Event) {
	want := make(map[uint64]liftApi.ActivityStreamOp, len(expected))
	for _, e := range expected {
		want[e.id] = e.op
	}
	var (
		seen  = make(map[uint64]bool)
		first []existingC18x1Event
	)
	for _, e := range got {
		op, ok := want[e.id]
		if !ok {
			t.Fatalf("activity stream holds event %s which is not an operation in the committed Raft log\nexpected %v\ngot      %v",
				e, expected, got)
		}
		if op != e.op {
			t.Fatalf("activity event %s does not match the operation %s committed at that index\nexpected %v\ngot      %v",
				e, op, expected, got)
		}
		if !seen[e.id] {
			seen[e.id] = true
			first = append(first, e)
		}
	}
	for _, e := range expected {
		if !seen[e.id] {
			t.Fatalf("committed operation %s never appeared in the activity stream\nexpected %v\ngot      %v",
				e, expected, got)
		}
	}
	for i := range expected {
		if first[i] != expected[i] {
			t.Fatalf("activity events are not in commit order\nexpected %v\ngot      %v", expected, got)
		}
	}
}

// existingC18x1WaitCaughtUp waits until the activity dispatcher has published and
// recorded every event that is currently in the committed log.
func existingC18x1WaitCaughtUp(t *testing.T, s *Server, timeout time.Duration) {
	deadline := time.Now().Add(timeout)
	for time.Now().Before(deadline) {
		expected := existingC18x1Expected(t, s)
		if len(expected) > 0 && s.activity.LastPublishedRaftIndex() == expected[len(expected)-1].id {
			return
		}
		time.Sleep(20 * time.Millisecond)
	}
	stackFatalf(t, "activity dispatcher did not catch up")
}

func TestExistingC18_1_ActivityAfterRestartFromSnapshot(t *testing.T) {
	defer cleanupStorage(t)

	config := getTestConfig("a", true, 5050)
	config.ActivityStream.Enabled = true
	config.ActivityStream.PublishTimeout = time.Second
	config.ActivityStream.PublishAckPolicy = liftApi.AckPolicy_LEADER
	s := runServerWithConfig(t, config)
	defer func() { s.Stop() }()
	getMetadataLeader(t, 10*time.Second, s)

	client, err := lift.Connect([]string{"localhost:5050"})
	require.NoError(t, err)

	ctx := context.Background()
	require.NoError(t, client.CreateStream(ctx, "foo", "foo"))
	require.NoError(t, client.CreateStream(ctx, "bar", "bar"))
	existingC18x1WaitCaughtUp(t, s, 10*time.Second)

	// Raft snapshots the metadata (it does so on its own once enough entries
	// have been committed, clustering.raft.snapshot.threshold) and the server
	// is restarted before another operation is committed.
	require.NoError(t, s.getRaft().Snapshot().Error())
	client.Close()
	require.NoError(t, s.Stop())
	s = runServerWithConfig(t, config)
	getMetadataLeader(t, 10*time.Second, s)

	client, err = lift.Connect([]string{"localhost:5050"})
	require.NoError(t, err)
	defer client.Close()

	// Operations committed after the restart.
	require.NoError(t, client.CreateStream(ctx, "baz", "baz"))
	require.NoError(t, client.DeleteStream(ctx, "bar"))

	// Redeliveries of events published before the restart are fine, the two
	// operations above have to show up as well.
	expected := existingC18x1Expected(t, s)
	last := expected[len(expected)-1]
	require.Equal(t, liftApi.ActivityStreamOp_DELETE_STREAM, last.op)
	got := existingC18x1Read(t, client, last.id, 30*time.Second)
	existingC18x1Check(t, expected, got)
}
