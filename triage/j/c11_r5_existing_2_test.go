// package dir: server
//
// Existing defect 2: after a fail-over of the cursors partition, the new leader
// serves FetchCursor from its own high watermark, which lags behind what the
// old leader had committed and acknowledged. See existing.txt for details.
package server

import (
	"context"
	"testing"
	"time"

	proto "github.com/liftbridge-io/liftbridge-api/v2/go"
	natsdTest "github.com/nats-io/nats-server/v2/test"
	"github.com/stretchr/testify/require"
)

func TestExistingC11_2_FetchCursorAfterFailover(t *testing.T) {
	defer cleanupStorage(t)

	ns := natsdTest.RunDefaultServer()
	defer ns.Shutdown()

	var (
		ids     = []string{"a", "b", "c"}
		servers = make([]*Server, len(ids))
	)
	for i, id := range ids {
		config := getTestConfig(id, false, 5050+i)
		config.EmbeddedNATS = false
		config.Clustering.RaftBootstrapPeers = ids
		config.CursorsStream.Partitions = 1
		config.Clustering.ReplicaMaxLeaderTimeout = time.Second
		config.Clustering.ReplicaFetchTimeout = 500 * time.Millisecond
		// Idle followers check in with the leader every 1-3s.
		config.Clustering.ReplicaMaxIdleWait = 3 * time.Second
		config.Clustering.ReplicaMaxLagTime = 4 * time.Second
		servers[i] = runServerWithConfig(t, config)
		defer servers[i].Stop()
	}
	getMetadataLeader(t, 20*time.Second, servers...)
	waitForPartition(t, 20*time.Second, cursorsStream, 0, servers...)
	leader := getPartitionLeader(t, 10*time.Second, cursorsStream, 0, servers...)
	require.Len(t, leader.metadata.GetPartition(cursorsStream, 0).GetReplicas(), 3)
	followers := []*Server{}
	for _, s := range servers {
		if s != leader {
			followers = append(followers, s)
		}
	}

	ctx, cancel := context.WithTimeout(context.Background(), 55*time.Second)
	defer cancel()

	set := func(offset int64) {
		sctx, scancel := context.WithTimeout(ctx, 5*time.Second)
		defer scancel()
		_, err := leader.api.SetCursor(sctx, &proto.SetCursorRequest{
			Stream: "foo", Partition: 0, CursorId: "abc", Offset: offset})
		require.NoError(t, err)
	}

	// An earlier position of the cursor which all replicas know to be
	// committed.
	set(50)
	waitForHW(t, 10*time.Second, cursorsStream, 0, 0, servers...)

	// Store the cursor until, right after a successful SetCursor, both
	// followers hold the message but have not yet learned that it is
	// committed. This is the usual state: the leader tells a follower its HW
	// in the response to the fetch with which the follower reports having the
	// message, i.e. before it commits it, and the follower then idles.
	var (
		last   int64
		lagged bool
	)
	for i := 0; i < 50 && !lagged; i++ {
		last = int64(100 + i)
		set(last)
		newest := leader.metadata.GetPartition(cursorsStream, 0).log.NewestOffset()
		require.Equal(t, newest, leader.metadata.GetPartition(cursorsStream, 0).log.HighWatermark())
		lagged = true
		for _, f := range followers {
			p := f.metadata.GetPartition(cursorsStream, 0)
			require.Equal(t, newest, p.log.NewestOffset(), "AckPolicy ALL")
			if p.log.HighWatermark() >= newest {
				lagged = false
			}
		}
	}
	if !lagged {
		t.Skip("followers always learned the HW in time")
	}

	// The leader dies right after acknowledging the cursor.
	leader.Stop()

	newLeader := getPartitionLeader(t, 30*time.Second, cursorsStream, 0, followers...)
	fetch := func() int64 {
		resp, err := newLeader.api.FetchCursor(ctx, &proto.FetchCursorRequest{
			Stream: "foo", Partition: 0, CursorId: "abc"})
		require.NoError(t, err)
		return resp.Offset
	}

	first := fetch()
	if first != last {
		t.Errorf("FetchCursor on the new leader returned %d, the last successful SetCursor stored %d", first, last)
	}

	// The HW of the new leader catches up once the dead leader has been
	// removed from the ISR, but the stale answer has been cached by then.
	p := newLeader.metadata.GetPartition(cursorsStream, 0)
	deadline := time.Now().Add(25 * time.Second)
	for p.log.HighWatermark() < p.log.NewestOffset() && time.Now().Before(deadline) {
		time.Sleep(50 * time.Millisecond)
	}
	require.Equal(t, p.log.NewestOffset(), p.log.HighWatermark())
	if later := fetch(); later != last {
		t.Errorf("FetchCursor on the new leader still returns %d after its HW caught up, "+
			"the last successful SetCursor stored %d", later, last)
	}
}
