// package dir: server/commitlog
package commitlog

import (
	"testing"

	"github.com/stretchr/testify/require"
)

// "All batch sizes" includes the empty batch. Appending it must not change
// the log; it crashes the process instead (index out of range in
// segment.write, which looks at entries[0] and entries[len(entries)-1]).
func TestExistingC01_5_AppendEmptyBatch(t *testing.T) {
	l, cleanup := setupWithOptions(t, Options{Path: tempDir(t), MaxSegmentBytes: 1024})
	defer cleanup()

	_, err := l.Append([]*Message{{Value: []byte("a"), Timestamp: 1}})
	require.NoError(t, err)

	var (
		offs      []int64
		appendErr error
		panicked  interface{}
	)
	func() {
		defer func() { panicked = recover() }()
		offs, appendErr = l.Append([]*Message{})
	}()
	require.Nil(t, panicked, "Append of an empty batch panicked")
	require.NoError(t, appendErr)
	require.Empty(t, offs)
	require.Equal(t, int64(0), l.NewestOffset())

	offs, err = l.Append([]*Message{{Value: []byte("b"), Timestamp: 2}})
	require.NoError(t, err)
	require.Equal(t, []int64{1}, offs)
}
