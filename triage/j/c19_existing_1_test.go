// package dir: server
package server

import (
	"io"
	"net/http"
	"os"
	"path/filepath"
	"strings"
	"sync"
	"testing"
	"time"

	"github.com/stretchr/testify/require"
)

// existingC19_1Recorder is an http.RoundTripper that records every outbound
// request instead of sending it. The telemetry collector's http.Client has no
// Transport of its own, so it uses http.DefaultTransport.
type existingC19_1Recorder struct {
	mu   sync.Mutex
	urls []string
}

func (r *existingC19_1Recorder) RoundTrip(req *http.Request) (*http.Response, error) {
	r.mu.Lock()
	r.urls = append(r.urls, req.Method+" "+req.URL.String())
	r.mu.Unlock()
	if req.Body != nil {
		io.Copy(io.Discard, req.Body)
		req.Body.Close()
	}
	return &http.Response{
		StatusCode: http.StatusOK,
		Status:     "200 OK",
		Proto:      "HTTP/1.1",
		ProtoMajor: 1,
		ProtoMinor: 1,
		Header:     make(http.Header),
		Body:       io.NopCloser(strings.NewReader("")),
		Request:    req,
	}, nil
}

func (r *existingC19_1Recorder) requests() []string {
	r.mu.Lock()
	defer r.mu.Unlock()
	return append([]string(nil), r.urls...)
}

func existingC19_1WriteConfig(t *testing.T) string {
	file := filepath.Join(t.TempDir(), "liftbridge.yaml")
	require.NoError(t, os.WriteFile(file, []byte(`
telemetry:
  enabled: false
`), 0600))
	return file
}

// Control: the config file route works when the environment is clean.
func TestExistingC19_1_ControlConfigFileDisables(t *testing.T) {
	config, err := NewConfig(existingC19_1WriteConfig(t))
	require.NoError(t, err)
	require.False(t, config.Telemetry.Enabled)
}

// Telemetry is switched off in the config file. In addition the operator has
// exported LIFTBRIDGE_TELEMETRY=false (an easy slip for the documented
// LIFTBRIDGE_TELEMETRY_ENABLED=false, or a belt-and-braces attempt). Because
// viper's AutomaticEnv treats a set LIFTBRIDGE_TELEMETRY as shadowing every
// telemetry.* key of the config file, `telemetry.enabled: false` is dropped
// and the default (enabled) is used.
func TestExistingC19_1_ConfigFileOptOutShadowedByEnv_Config(t *testing.T) {
	t.Setenv("LIFTBRIDGE_TELEMETRY", "false")
	config, err := NewConfig(existingC19_1WriteConfig(t))
	if err != nil {
		// Refusing such an environment is a safe outcome: no server, no traffic.
		t.Logf("NewConfig rejected the configuration: %v", err)
		return
	}
	require.False(t, config.Telemetry.Enabled,
		"config file says telemetry.enabled: false, NewConfig returned Telemetry.Enabled=true")
}

// Same scenario, end to end: the server started from that configuration
// must not make a telemetry request.
func TestExistingC19_1_ConfigFileOptOutShadowedByEnv_NoTraffic(t *testing.T) {
	defer cleanupStorage(t)
	t.Setenv("LIFTBRIDGE_TELEMETRY", "false")

	rec := &existingC19_1Recorder{}
	prev := http.DefaultTransport
	http.DefaultTransport = rec
	defer func() { http.DefaultTransport = prev }()

	parsed, err := NewConfig(existingC19_1WriteConfig(t))
	if err != nil {
		// Refusing such an environment is a safe outcome: no server, no traffic.
		t.Logf("NewConfig rejected the configuration: %v", err)
		return
	}

	// Everything but the telemetry section comes from the usual test config.
	config := getTestConfig("a", true, 0)
	config.Telemetry = parsed.Telemetry

	s := New(config)
	require.NoError(t, s.Start())
	defer s.Stop()
	getMetadataLeader(t, 10*time.Second, s)
	time.Sleep(time.Second)

	require.Empty(t, rec.requests(),
		"telemetry is disabled in the config file, yet telemetry requests were made")
}
