// package dir: server
//
// Existing defect C10/4 (lower confidence, see existing.txt): a STOP_ON_CANCEL
// subscription created while the partition is read-only is given the newest
// offset of that moment as its stop offset. If the partition is made writable
// again before the subscription has reached that offset, the subscription
// still ends there with "Stop offset reached" although it was asked to keep
// waiting for new messages and the partition is not read-only.
package server

import (
	"context"
	"testing"
	"time"

	lift "github.com/liftbridge-io/go-liftbridge/v2"
	proto "github.com/liftbridge-io/liftbridge-api/v2/go"
	"github.com/stretchr/testify/require"
	"google.golang.org/grpc/status"
)

func existingC10e4Drain(sub *subscription, max int, timeout time.Duration) ([]int64, *status.Status) {
	var (
		offsets  []int64
		deadline = time.After(timeout)
	)
	for len(offsets) < max {
		select {
		case m := <-sub.Messages():
			offsets = append(offsets, m.Offset)
		case st := <-sub.Errors():
			return offsets, st
		case <-deadline:
			return offsets, nil
		}
	}
	return offsets, nil
}

func TestExistingC10_4_SubscriptionOutlivesReadonly(t *testing.T) {
	defer cleanupStorage(t)

	config := getTestConfig("a", true, 5050)
	config.BatchMaxMessages = 1
	s := runServerWithConfig(t, config)
	defer s.Stop()
	getMetadataLeader(t, 10*time.Second, s)

	client, err := lift.Connect([]string{"localhost:5050"})
	require.NoError(t, err)
	defer client.Close()

	stream := "foo"
	require.NoError(t, client.CreateStream(context.Background(), "foo", stream))
	publish := func(n int) {
		for i := 0; i < n; i++ {
			ctx, cancel := context.WithTimeout(context.Background(), 5*time.Second)
			_, err := client.Publish(ctx, stream, []byte("x"))
			cancel()
			require.NoError(t, err)
		}
	}
	publish(3)
	require.NoError(t, client.SetStreamReadonly(context.Background(), stream))

	// A slow consumer: nothing is received yet.
	ctx, cancel := context.WithCancel(context.Background())
	defer cancel()
	sub, err := s.api.SubscribeInternal(ctx, &proto.SubscribeRequest{
		Stream:        stream,
		StartPosition: proto.StartPosition_EARLIEST,
	})
	require.NoError(t, err)
	defer sub.Close()

	// The partition is made writable again and receives two more messages.
	require.NoError(t, client.SetStreamReadonly(context.Background(), stream, lift.Readonly(false)))
	publish(2)

	offsets, st := existingC10e4Drain(sub, 5, 5*time.Second)
	if st != nil {
		t.Fatalf("subscription ended after offsets %v with %q although the partition is writable", offsets, st.Message())
	}
	require.Equal(t, []int64{0, 1, 2, 3, 4}, offsets)
}
