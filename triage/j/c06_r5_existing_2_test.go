// package dir: server
//
// Existing defect C06/2: applying a stream deletion notifies the consumer
// groups from a goroutine (metadataAPI.streamDeleted), i.e. after the apply
// has returned. consumerGroup.StreamDeleted drops the notification when the
// group epoch has moved past the index of the deletion, which is what happens
// when the next group operation is applied before the goroutine gets to run.
// The membership of a group after [delete stream, join group] therefore
// depends on goroutine scheduling, and a snapshot taken right after the
// deletion was applied still carries the subscription to the deleted stream.
//
// The tests pin the schedule by running with GOMAXPROCS(1): the goroutine
// spawned by the apply cannot run before the applying goroutine yields.
package server

import (
	"bytes"
	"fmt"
	"io"
	"runtime"
	"sort"
	"strings"
	"testing"

	"github.com/stretchr/testify/require"

	proto "github.com/liftbridge-io/liftbridge/server/protocol"
)

type existingC062Sink struct{ bytes.Buffer }

func (s *existingC062Sink) ID() string    { return "existingC06-2" }
func (s *existingC062Sink) Cancel() error { return nil }
func (s *existingC062Sink) Close() error  { return nil }

func existingC062Server(t *testing.T, dir string) *Server {
	config := getTestConfig("c06-observer", false, 0)
	config.DataDir = dir
	s := New(config)
	t.Cleanup(func() { s.metadata.Reset() })
	return s
}

func existingC062CreateOp(name string) *proto.RaftLog {
	return &proto.RaftLog{
		Op: proto.Op_CREATE_STREAM,
		CreateStreamOp: &proto.CreateStreamOp{
			Stream: &proto.Stream{
				Name:    name,
				Subject: name,
				Partitions: []*proto.Partition{{
					Subject:           name,
					Stream:            name,
					Id:                0,
					ReplicationFactor: 2,
					Replicas:          []string{"a", "b"},
					Isr:               []string{"a", "b"},
					Leader:            "a",
				}},
			},
		},
	}
}

func existingC062History() []*proto.RaftLog {
	return []*proto.RaftLog{
		existingC062CreateOp("foo"),
		existingC062CreateOp("bar"),
		{
			Op: proto.Op_CREATE_CONSUMER_GROUP,
			CreateConsumerGroupOp: &proto.CreateConsumerGroupOp{
				ConsumerGroup: &proto.ConsumerGroup{
					Id:          "g",
					Coordinator: "a",
					Members:     []*proto.Consumer{{Id: "c1", Streams: []string{"foo", "bar"}}},
				},
			},
		},
		{
			Op:             proto.Op_DELETE_STREAM,
			DeleteStreamOp: &proto.DeleteStreamOp{Stream: "foo"},
		},
		{
			Op: proto.Op_JOIN_CONSUMER_GROUP,
			JoinConsumerGroupOp: &proto.JoinConsumerGroupOp{
				GroupId: "g", ConsumerId: "c2", Streams: []string{"bar"},
			},
		},
	}
}

func existingC062DumpGroups(s *Server) string {
	var sb strings.Builder
	groups := s.metadata.GetConsumerGroups()
	sort.Slice(groups, func(i, j int) bool { return groups[i].GetID() < groups[j].GetID() })
	for _, g := range groups {
		coordinator, epoch := g.GetCoordinator()
		fmt.Fprintf(&sb, "group %s coordinator=%s epoch=%d\n", g.GetID(), coordinator, epoch)
		members := g.GetMembers()
		ids := make([]string, 0, len(members))
		for id := range members {
			ids = append(ids, id)
		}
		sort.Strings(ids)
		for _, id := range ids {
			sort.Strings(members[id])
			fmt.Fprintf(&sb, "  member %s streams=%v\n", id, members[id])
		}
	}
	return sb.String()
}

// Two servers apply the same committed sequence. On the first, the entries
// trickle in (the goroutines of an apply finish before the next entry is
// applied). On the second, entries 4 and 5 are applied back to back, as they
// are when Raft hands the FSM a batch or replays its log.
func TestExistingC06_2_DeleteStreamThenJoinDependsOnScheduling(t *testing.T) {
	defer runtime.GOMAXPROCS(runtime.GOMAXPROCS(1))

	slow := existingC062Server(t, t.TempDir())
	for i, op := range existingC062History() {
		_, err := slow.apply(op, uint64(i+1), false)
		require.NoError(t, err)
		slow.goroutineWait.Wait()
	}

	fast := existingC062Server(t, t.TempDir())
	for i, op := range existingC062History() {
		_, err := fast.apply(op, uint64(i+1), false)
		require.NoError(t, err)
	}
	fast.goroutineWait.Wait()

	require.Equal(t, existingC062DumpGroups(slow), existingC062DumpGroups(fast),
		"two servers which applied the same sequence of operations disagree on the group members' streams")
}

// A snapshot is taken right after the deletion was applied (Raft runs Snapshot
// on the same goroutine as Apply, so this is between two applies). The server
// then restarts from it.
func TestExistingC06_2_SnapshotRightAfterDeleteStream(t *testing.T) {
	defer runtime.GOMAXPROCS(runtime.GOMAXPROCS(1))

	dir := t.TempDir()
	s1 := existingC062Server(t, dir)
	history := existingC062History()[:4]
	for i, op := range history {
		s1.goroutineWait.Wait()
		_, err := s1.apply(op, uint64(i+1), false)
		require.NoError(t, err)
	}
	snap, err := s1.Snapshot()
	require.NoError(t, err)
	sink := &existingC062Sink{}
	require.NoError(t, snap.Persist(sink))

	// State of the server the snapshot was taken on, once it is quiescent.
	s1.goroutineWait.Wait()
	before := existingC062DumpGroups(s1)
	require.NoError(t, s1.metadata.Reset())

	s2 := existingC062Server(t, dir)
	require.NoError(t, s2.Restore(io.NopCloser(bytes.NewReader(sink.Bytes()))))
	_, _, err = s2.finishedRecovery(4)
	require.NoError(t, err)
	s2.goroutineWait.Wait()

	require.Nil(t, s2.metadata.GetStream("foo"))
	require.Equal(t, before, existingC062DumpGroups(s2),
		"group rebuilt from the snapshot is still subscribed to the deleted stream")
}
