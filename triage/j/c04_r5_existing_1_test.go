// package dir: server
//
// Existing defect 1: the leader records whatever offset a follower reports in
// a replication request of the current leader epoch as that replica's
// progress, even if the offset is beyond the leader's own log end offset. A
// follower cannot have stored messages the leader has not written yet, so
// such a report does not describe the leader's log (it arises when the leader
// lost the unflushed tail of its log in a crash - appends are not fsynced -
// and resumes the same leader epoch after a quick restart, which becomeLeader
// does for a recovered partition, while the follower still holds the lost
// tail). The leader then acks the AckPolicy_ALL messages it writes at the
// offsets in between although the follower, which is in the ISR, has not
// stored them (it holds other messages at these offsets and never fetches the
// new ones, because the replicator treats Offset >= log end as caught up).
package server

import (
	"testing"
	"time"

	"github.com/nats-io/nats.go"
	"github.com/stretchr/testify/require"

	client "github.com/liftbridge-io/liftbridge-api/v2/go"
	"github.com/liftbridge-io/liftbridge/server/commitlog"
	proto "github.com/liftbridge-io/liftbridge/server/protocol"
)

func TestExistingC04_1_ProgressBeyondLeaderLogEndMustNotCommit(t *testing.T) {
	defer cleanupStorage(t)

	server := createServer()
	require.NoError(t, server.Start())
	defer server.Stop()

	nc, err := nats.GetDefaultOptions().Connect()
	require.NoError(t, err)
	defer nc.Close()

	p, err := server.newPartition(&proto.Partition{
		Subject:           "foo",
		Stream:            "foo",
		ReplicationFactor: 2,
		Replicas:          []string{"a", "b"},
		Leader:            "a",
		Isr:               []string{"a", "b"},
	}, false, nil)
	require.NoError(t, err)
	defer p.Close()

	// What is left of the leader's log after the crash: offsets 0 and 1,
	// written in leader epoch 5.
	_, err = p.log.Append([]*commitlog.Message{
		{MagicByte: 1, Value: []byte("m0"), LeaderEpoch: 5, Offset: -1, Timestamp: 1},
		{MagicByte: 1, Value: []byte("m1"), LeaderEpoch: 5, Offset: -1, Timestamp: 2},
	})
	require.NoError(t, err)

	// The server resumes leading the partition in the same epoch.
	require.NoError(t, p.SetLeader("a", 5))
	require.Equal(t, int64(1), p.log.NewestOffset())

	ackInbox := "existingc04.1.acks"
	acks, err := nc.SubscribeSync(ackInbox)
	require.NoError(t, err)
	require.NoError(t, nc.Flush())

	// Follower "b" (played by the test) still holds offsets 0..3 of epoch 5,
	// i.e. including the two messages the leader lost, and says so.
	sendRequest := func(offset int64) {
		data, err := proto.MarshalReplicationRequest(&proto.ReplicationRequest{
			ReplicaID:   "b",
			Offset:      offset,
			LeaderEpoch: 5,
		})
		require.NoError(t, err)
		require.NoError(t, nc.PublishRequest(p.getReplicationRequestInbox(), nats.NewInbox(), data))
		require.NoError(t, nc.Flush())
	}
	sendRequest(3)
	time.Sleep(200 * time.Millisecond)

	// A new message is published with AckPolicy_ALL. The leader stores it at
	// offset 2. "b" has never been sent this message.
	msg, err := proto.MarshalPublish(&client.Message{
		Value:         []byte("new"),
		Stream:        "foo",
		Subject:       "foo",
		AckInbox:      ackInbox,
		CorrelationId: "cid-new",
		AckPolicy:     client.AckPolicy_ALL,
		Offset:        -1,
	})
	require.NoError(t, err)
	require.NoError(t, nc.Publish("foo", msg))
	require.NoError(t, nc.Flush())

	deadline := time.Now().Add(5 * time.Second)
	for p.log.NewestOffset() != 2 && time.Now().Before(deadline) {
		time.Sleep(10 * time.Millisecond)
	}
	require.Equal(t, int64(2), p.log.NewestOffset())

	// The real follower keeps asking from its own log end.
	sendRequest(3)

	ackMsg, err := acks.NextMsg(time.Second)
	if err == nil {
		ack, _ := proto.UnmarshalAck(ackMsg.Data)
		t.Fatalf("AckPolicy_ALL message acked (%+v) although in-sync replica b was never "+
			"sent it; HW=%d", ack, p.log.HighWatermark())
	}
	require.True(t, p.log.HighWatermark() < 2,
		"message at offset 2 committed although in-sync replica b was never sent it")
}
