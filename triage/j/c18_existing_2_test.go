// package dir: server
//
// Existing defect C18/E2: a node which restarts with no command entry behind
// its latest Raft snapshot never starts the partitions it restored from that
// snapshot. FSM.Restore (server/fsm.go) adds the streams as "recovered", i.e.
// not started until finishedRecovery() runs, but finishedRecovery() is only
// reached from Apply() when recoverLatestCommittedFSMLog() finds a committed
// command entry to replay (server/fsm.go Apply, `if s.latestRecoveredLog !=
// nil`). With nothing to replay, the first Apply after the restart is a new
// operation, recoverLatestCommittedFSMLog returns nil and the restored
// partitions (the __activity partition among them) stay stopped for good.
//
// Seen through the activity stream: after such a restart every publish of an
// activity event times out, the dispatcher is stuck in its retry loop, and no
// operation committed from then on ever appears in the activity stream.
package server

import (
	"context"
	"testing"
	"time"

	"github.com/hashicorp/raft"
	lift "github.com/liftbridge-io/go-liftbridge/v2"
	liftApi "github.com/liftbridge-io/liftbridge-api/v2/go"
	"github.com/stretchr/testify/require"
	pb "google.golang.org/protobuf/proto"

	proto "github.com/liftbridge-io/liftbridge/server/protocol"
)

// existingC18x2WaitRecorded waits until the last published index that is
// recorded is the creation of the given stream.
func existingC18x2WaitRecorded(t *testing.T, s *Server, name string) {
	deadline := time.Now().Add(30 * time.Second)
	for time.Now().Before(deadline) {
		recorded := s.activity.LastPublishedRaftIndex()
		l := new(raft.Log)
		if recorded != 0 && s.getRaft().store.GetLog(recorded, l) == nil && l.Type == raft.LogCommand {
			op := new(proto.RaftLog)
			require.NoError(t, op.Unmarshal(l.Data))
			if op.Op == proto.Op_CREATE_STREAM && op.CreateStreamOp.Stream.Name == name {
				// Let the FSM settle (the bookkeeping entry is the last entry).
				time.Sleep(300 * time.Millisecond)
				return
			}
		}
		time.Sleep(20 * time.Millisecond)
	}
	t.Fatalf("dispatcher did not publish and record the creation of stream %s", name)
}

func TestExistingC18_2_NoEventsAfterRestartBehindSnapshot(t *testing.T) {
	defer cleanupStorage(t)

	config := getTestConfig("a", true, 5050)
	config.ActivityStream.Enabled = true
	config.ActivityStream.PublishTimeout = time.Second
	config.ActivityStream.PublishAckPolicy = liftApi.AckPolicy_LEADER
	s1 := runServerWithConfig(t, config)
	getMetadataLeader(t, 10*time.Second, s1)

	client, err := lift.Connect([]string{"localhost:5050"})
	require.NoError(t, err)

	// An operation is committed, published to the activity stream and
	// recorded. The cluster is idle afterwards.
	require.NoError(t, client.CreateStream(context.Background(), "foo", "foo"))
	existingC18x2WaitRecorded(t, s1, "foo")

	// Raft snapshots the FSM (in production: every
	// clustering.raft.snapshot.threshold entries), then the node restarts.
	require.NoError(t, s1.getRaft().Snapshot().Error())
	client.Close()
	require.NoError(t, s1.Stop())

	config2 := getTestConfig("a", true, 5050)
	config2.ActivityStream = config.ActivityStream
	s1 = runServerWithConfig(t, config2)
	defer s1.Stop()
	getMetadataLeader(t, 10*time.Second, s1)

	client, err = lift.Connect([]string{"localhost:5050"})
	require.NoError(t, err)
	defer client.Close()

	// A new operation is committed.
	require.NoError(t, client.CreateStream(context.Background(), "bar", "bar"))

	// It must show up in the activity stream.
	found := make(chan struct{}, 1)
	ctx, cancel := context.WithCancel(context.Background())
	defer cancel()
	err = client.Subscribe(ctx, activityStream, func(msg *lift.Message, err error) {
		if err != nil {
			return
		}
		var se liftApi.ActivityStreamEvent
		if pb.Unmarshal(msg.Value(), &se) != nil {
			return
		}
		if se.GetOp() == liftApi.ActivityStreamOp_CREATE_STREAM && se.GetCreateStreamOp().GetStream() == "bar" {
			select {
			case found <- struct{}{}:
			default:
			}
		}
	}, lift.StartAtEarliestReceived())
	require.NoError(t, err)

	select {
	case <-found:
	case <-time.After(25 * time.Second):
		t.Fatalf("the creation of stream bar, committed after the restart, never appeared in the " +
			"activity stream: the __activity partition restored from the snapshot was never started")
	}
}
