// package dir: server
//
// Existing defect C13 #1: the leader check of a group Subscribe (api.go,
// SubscribeInternal) and the registration of the group member (partition.go,
// Subscribe) are not atomic with respect to a leadership change. A group
// subscriber whose request passed the API's leader check just before the
// server lost the partition leadership is registered on a FOLLOWER after
// becomeFollower()/cancelGroupSubscribers() already ran; nothing cancels it
// any more, while the new leader admits the group's next subscriber.
//
// There is no hook to park a request between the two steps, so the test plays
// the scheduler: it performs the check the API does (partition.GetLeader() ==
// this server), lets the leadership move, and then performs the call the API
// does next (partition.Subscribe). No lock or state is shared between the two
// steps in the real code path either.
package server

import (
	"context"
	"testing"
	"time"

	lift "github.com/liftbridge-io/go-liftbridge/v2"
	client "github.com/liftbridge-io/liftbridge-api/v2/go"
	"github.com/stretchr/testify/require"
	"google.golang.org/grpc"
)

func TestExistingC13_1_GroupSubscribeRacingLeadershipLoss(t *testing.T) {
	defer cleanupStorage(t)

	s1Config := getTestConfig("a", true, 5050)
	s1 := runServerWithConfig(t, s1Config)
	defer s1.Stop()
	s2Config := getTestConfig("b", false, 5051)
	s2 := runServerWithConfig(t, s2Config)
	defer s2.Stop()
	controller := getMetadataLeader(t, 10*time.Second, s1, s2)

	cl, err := lift.Connect([]string{"localhost:5050", "localhost:5051"})
	require.NoError(t, err)
	defer cl.Close()
	require.NoError(t, cl.CreateStream(context.Background(), "foo", "foo", lift.ReplicationFactor(2)))
	waitForPartition(t, 5*time.Second, "foo", 0, s1, s2)

	oldLeader := getPartitionLeader(t, 10*time.Second, "foo", 0, s1, s2)
	newLeader, newLeaderAddr := s2, "localhost:5051"
	if oldLeader == s2 {
		newLeader, newLeaderAddr = s1, "localhost:5050"
	}
	var (
		oldID = oldLeader.config.Clustering.ServerID
		newID = newLeader.config.Clustering.ServerID
		pOld  = oldLeader.metadata.GetPartition("foo", 0)
		pNew  = newLeader.metadata.GetPartition("foo", 0)
	)
	const group = "grp"
	groupReq := func(consumer string) *client.SubscribeRequest {
		return &client.SubscribeRequest{
			Stream:        "foo",
			Partition:     0,
			StartPosition: client.StartPosition_NEW_ONLY,
			Consumer:      &client.Consumer{GroupId: group, ConsumerId: consumer, GroupEpoch: 5},
		}
	}

	// Step 1 of apiServer.SubscribeInternal on the old leader: the leader
	// check passes.
	leader, _ := pOld.GetLeader()
	require.Equal(t, oldID, leader)

	// The controller moves the partition leadership to the other replica.
	ctx, cancel := context.WithTimeout(context.Background(), 10*time.Second)
	defer cancel()
	st := controller.metadata.electNewPartitionLeader(ctx, controller.metadata.GetPartition("foo", 0))
	require.Nil(t, st)
	deadline := time.Now().Add(10 * time.Second)
	for time.Now().Before(deadline) {
		l1, _ := pOld.GetLeader()
		l2, _ := pNew.GetLeader()
		if l1 == newID && l2 == newID && !pOld.IsLeader() && pNew.IsLeader() {
			break
		}
		time.Sleep(10 * time.Millisecond)
	}
	require.True(t, pNew.IsLeader(), "leadership did not move")
	require.False(t, pOld.IsLeader())

	// Step 2 of apiServer.SubscribeInternal -> apiServer.subscribe on the old
	// leader: the member is registered, on what is now a follower.
	subCtx, subCancel := context.WithCancel(context.Background())
	defer subCancel()
	subOld, sst := pOld.Subscribe(subCtx, groupReq("consumer-1"))
	if sst != nil {
		// This is what a repaired server does.
		t.Logf("group subscriber refused on the former leader: %v", sst.Err())
		return
	}
	defer subOld.Close()

	// The group's next subscriber goes through the public API of the real
	// leader, which has no record of consumer-1.
	conn, err := grpc.Dial(newLeaderAddr, grpc.WithInsecure())
	require.NoError(t, err)
	defer conn.Close()
	streamCtx, streamCancel := context.WithCancel(context.Background())
	defer streamCancel()
	stream, err := client.NewAPIClient(conn).Subscribe(streamCtx, groupReq("consumer-2"))
	require.NoError(t, err)
	_, err = stream.Recv()
	require.NoError(t, err, "group subscriber refused by the partition leader")

	// Publish one message. Count the members of the group that consume it.
	_, err = cl.Publish(context.Background(), "foo", []byte("hello"))
	require.NoError(t, err)

	consumers := 0
	got2 := make(chan struct{})
	go func() {
		if msg, err := stream.Recv(); err == nil && string(msg.Value) == "hello" {
			close(got2)
		}
	}()
	select {
	case <-got2:
		consumers++
	case <-time.After(40 * time.Second):
		// (The former leader needs several seconds to start replicating after
		// a graceful leader change, and the message is only delivered once it
		// is committed.)
		t.Fatalf("subscriber at the partition leader did not receive the message (HW old=%d new=%d, newest old=%d new=%d)",
			pOld.log.HighWatermark(), pNew.log.HighWatermark(), pOld.log.NewestOffset(), pNew.log.NewestOffset())
	}
	select {
	case msg := <-subOld.Messages():
		require.Equal(t, "hello", string(msg.Value))
		consumers++
	case <-subOld.Closed():
	case <-subOld.Errors():
	case <-time.After(10 * time.Second):
	}

	select {
	case <-subOld.Closed():
	default:
		t.Errorf("group subscription registered on the former leader is still active "+
			"(registered there: %v) while the leader serves another member of the group",
			pOld.GetGroupConsumer(group) != nil)
	}
	if consumers != 1 {
		t.Errorf("%d members of consumer group %q consumed the same message of the partition at the same time",
			consumers, group)
	}
}
