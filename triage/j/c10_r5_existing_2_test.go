// package dir: server
//
// Existing defect 2: a reverse subscription resolves timestamp start and stop
// positions with the rounding of a forward subscription. When the timestamp
// lies between the times of two messages (or before the oldest message), the
// subscription starts one message too new and stops one message too old,
// i.e. it delivers messages outside the requested time range.
package server

import (
	"context"
	"testing"
	"time"

	proto "github.com/liftbridge-io/liftbridge-api/v2/go"
	"github.com/stretchr/testify/require"

	"github.com/liftbridge-io/liftbridge/server/commitlog"
	"github.com/liftbridge-io/liftbridge/server/protocol"
)

func existingC10x2Partition(t *testing.T) *partition {
	config := getTestConfig("a", true, 0)
	config.DataDir = t.TempDir()
	config.Streams.CleanerInterval = time.Hour
	config.Streams.RetentionMaxAge = 0
	server := New(config)
	stream, err := server.metadata.AddStream(&protocol.Stream{
		Name:       "foo",
		Subject:    "foo",
		Partitions: []*protocol.Partition{{Stream: "foo", Id: 0}},
	}, true, 0)
	require.NoError(t, err)
	t.Cleanup(func() { stream.Close() })
	p := stream.GetPartitions()[0]
	// Offsets 0..9 with timestamps 100, 110, ..., 190.
	for i := 0; i < 10; i++ {
		_, err := p.log.Append([]*commitlog.Message{{
			Value:     []byte("value"),
			Timestamp: int64(100 + 10*i),
		}})
		require.NoError(t, err)
	}
	p.log.SetHighWatermark(9)
	return p
}

// existingC10x2Run runs the subscription to its end and returns the
// timestamps of the messages delivered.
func existingC10x2Run(t *testing.T, p *partition, req *proto.SubscribeRequest) []int64 {
	ctx, cancel := context.WithCancel(context.Background())
	defer cancel()
	sub, st := p.Subscribe(ctx, req)
	require.Nil(t, st, "subscribe refused: %v", st)
	defer sub.Close()
	timestamps := []int64{}
	for {
		select {
		case m := <-sub.Messages():
			timestamps = append(timestamps, m.Timestamp)
		case <-sub.Errors():
			return timestamps
		case <-time.After(5 * time.Second):
			t.Fatalf("subscription did not end, got %v", timestamps)
		}
	}
}

// Reading backwards from time 145 must begin with the newest message at or
// before 145 (timestamp 140), as reading forwards from 145 begins with the
// oldest message at or after it.
func TestExistingC10_2_ReverseStartTimestampBetweenMessages(t *testing.T) {
	p := existingC10x2Partition(t)

	// The forward direction is right.
	require.Equal(t, []int64{150, 160, 170, 180, 190}, existingC10x2Run(t, p, &proto.SubscribeRequest{
		StartPosition:  proto.StartPosition_TIMESTAMP,
		StartTimestamp: 145,
		StopPosition:   proto.StopPosition_STOP_LATEST,
	}))

	got := existingC10x2Run(t, p, &proto.SubscribeRequest{
		StartPosition:  proto.StartPosition_TIMESTAMP,
		StartTimestamp: 145,
		Reverse:        true,
	})
	require.Equal(t, []int64{140, 130, 120, 110, 100}, got,
		"reverse subscription from time 145 delivered a message newer than 145")
}

// Reading backwards down to time 145 must end with the oldest message at or
// after 145 (timestamp 150).
func TestExistingC10_2_ReverseStopTimestampBetweenMessages(t *testing.T) {
	p := existingC10x2Partition(t)

	// The forward direction is right.
	require.Equal(t, []int64{100, 110, 120, 130, 140}, existingC10x2Run(t, p, &proto.SubscribeRequest{
		StartPosition: proto.StartPosition_EARLIEST,
		StopPosition:  proto.StopPosition_STOP_TIMESTAMP,
		StopTimestamp: 145,
	}))

	got := existingC10x2Run(t, p, &proto.SubscribeRequest{
		StartPosition: proto.StartPosition_LATEST,
		StopPosition:  proto.StopPosition_STOP_TIMESTAMP,
		StopTimestamp: 145,
		Reverse:       true,
	})
	require.Equal(t, []int64{190, 180, 170, 160, 150}, got,
		"reverse subscription down to time 145 delivered a message older than 145")
}

// Reading backwards from a time before the oldest message must deliver
// nothing.
func TestExistingC10_2_ReverseStartTimestampBeforeLog(t *testing.T) {
	p := existingC10x2Partition(t)

	got := existingC10x2Run(t, p, &proto.SubscribeRequest{
		StartPosition:  proto.StartPosition_TIMESTAMP,
		StartTimestamp: 50,
		Reverse:        true,
	})
	require.Equal(t, []int64{}, got,
		"reverse subscription from time 50 delivered a message newer than 50")
}
