// package dir: server/commitlog
package commitlog

import (
	"context"
	"strings"
	"testing"
	"time"

	"github.com/stretchr/testify/require"

	"github.com/liftbridge-io/liftbridge/server/logger"
)

// existingC09HookLogger calls hook when the delete cleaner logs that it has
// finished, which is after it has removed the segments and before
// commitLog.Clean swaps the segment list.
type existingC09HookLogger struct {
	logger.Logger
	hook func()
}

func (h *existingC09HookLogger) Debugf(format string, v ...interface{}) {
	if strings.HasPrefix(format, "Finished cleaning log") && h.hook != nil {
		h.hook()
	}
}

// A reader that is positioned in a segment which a retention pass removes must
// carry on at the new oldest offset. In the unchanged tree a read that happens
// after the delete cleaner removed the segments and before Clean() has swapped
// the segment list fails for good with "failed to reinitialize reader: segment
// has been closed": the reader is sent back (ErrSegmentReplaced) to the segment
// list of the log, which still starts with the removed segments, because the
// "deleted" mark is not consulted by anything that picks a segment.
func TestExistingC09_1_ReaderDuringCleanBetweenDeleteAndSwap(t *testing.T) {
	value := []byte("0123456789")
	ms, _, err := newMessageSetFromProto(0, 0, []*Message{{Value: value, Timestamp: 1}}, false)
	require.NoError(t, err)

	hl := &existingC09HookLogger{Logger: noopLogger()}
	l, cleanup := setupWithOptions(t, Options{
		Path:            tempDir(t),
		MaxSegmentBytes: int64(len(ms)), // one message per segment
		MaxLogMessages:  2,
		CleanerInterval: time.Hour,
		Logger:          hl,
	})
	defer cleanup()

	for i := 0; i < 5; i++ {
		_, err := l.Append([]*Message{{Value: value, Timestamp: time.Now().UnixNano()}})
		require.NoError(t, err)
	}
	require.Len(t, l.Segments(), 5)

	ctx, cancel := context.WithTimeout(context.Background(), 5*time.Second)
	defer cancel()
	headers := make([]byte, 28)
	r, err := l.NewReader(0, true)
	require.NoError(t, err)
	_, offset, _, _, err := r.ReadMessage(ctx, headers)
	require.NoError(t, err)
	require.Equal(t, int64(0), offset)

	type result struct {
		offset int64
		err    error
	}
	results := make(chan result, 1)
	hl.hook = func() {
		hl.hook = nil
		go func() {
			_, offset, _, _, err := r.ReadMessage(ctx, headers)
			results <- result{offset, err}
		}()
		// Give the read the time to complete, or to block until the swap,
		// inside the window.
		select {
		case res := <-results:
			results <- res
		case <-time.After(300 * time.Millisecond):
		}
	}

	require.NoError(t, l.Clean())
	require.Equal(t, int64(3), l.OldestOffset())

	select {
	case res := <-results:
		require.NoError(t, res.err, "reader positioned in a segment removed by the running retention pass")
		require.Equal(t, int64(3), res.offset)
	case <-time.After(6 * time.Second):
		t.Fatal("reader did not return")
	}
}
