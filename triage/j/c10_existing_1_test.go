// package dir: server
//
// Existing defect C10/1: a reverse subscription that walks into a segment
// which retention deleted after the subscription was created ends with an
// Unknown "segment has been closed" status instead of ending at the oldest
// retained message with ResourceExhausted.
package server

import (
	"context"
	"testing"
	"time"

	lift "github.com/liftbridge-io/go-liftbridge/v2"
	proto "github.com/liftbridge-io/liftbridge-api/v2/go"
	"github.com/stretchr/testify/require"
	"google.golang.org/grpc/codes"
	"google.golang.org/grpc/status"
)

func existingC10e1Drain(sub *subscription, max int, timeout time.Duration) ([]int64, *status.Status) {
	var (
		offsets  []int64
		deadline = time.After(timeout)
	)
	for len(offsets) < max {
		select {
		case m := <-sub.Messages():
			offsets = append(offsets, m.Offset)
		case st := <-sub.Errors():
			return offsets, st
		case <-deadline:
			return offsets, nil
		}
	}
	return offsets, nil
}

func TestExistingC10_1_ReverseSubscriptionIntoSegmentDeletedByRetention(t *testing.T) {
	defer cleanupStorage(t)

	// One message per segment, retain 3 messages, no automatic cleaning.
	config := getTestConfig("a", true, 5050)
	config.BatchMaxMessages = 1
	config.Streams.SegmentMaxBytes = 1
	config.Streams.RetentionMaxMessages = 3
	s := runServerWithConfig(t, config)
	defer s.Stop()
	getMetadataLeader(t, 10*time.Second, s)

	client, err := lift.Connect([]string{"localhost:5050"})
	require.NoError(t, err)
	defer client.Close()

	stream := "foo"
	require.NoError(t, client.CreateStream(context.Background(), "foo", stream))
	for i := 0; i < 8; i++ {
		ctx, cancel := context.WithTimeout(context.Background(), 5*time.Second)
		_, err := client.Publish(ctx, stream, []byte{byte('0' + i)})
		cancel()
		require.NoError(t, err)
	}

	ctx, cancel := context.WithCancel(context.Background())
	defer cancel()
	sub, err := s.api.SubscribeInternal(ctx, &proto.SubscribeRequest{
		Stream:        stream,
		StartPosition: proto.StartPosition_LATEST,
		Reverse:       true,
	})
	require.NoError(t, err)
	defer sub.Close()

	offsets, st := existingC10e1Drain(sub, 2, 10*time.Second)
	require.Nil(t, st)
	require.Equal(t, []int64{7, 6}, offsets)

	// Retention deletes the segments of offsets 0..4 while the subscription is
	// at offset 5.
	forceLogClean(t, "foo", stream, s)
	require.Equal(t, int64(5), s.metadata.GetPartition(stream, 0).log.OldestOffset())

	rest, st := existingC10e1Drain(sub, 100, 10*time.Second)
	offsets = append(offsets, rest...)
	// The retained messages of the range are 7 6 5. (Messages the reader had
	// already read before the retention pass could arguably still follow, but
	// the subscription must end with the documented status either way.)
	require.Equal(t, []int64{7, 6, 5}, offsets)
	require.NotNil(t, st, "subscription did not end")
	require.Equal(t, codes.ResourceExhausted, st.Code(),
		"reverse subscription must end with ResourceExhausted at the oldest retained message, got: %s", st.Message())
}
