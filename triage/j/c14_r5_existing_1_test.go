// package dir: server
package server

import (
	"context"
	"fmt"
	"os"
	"os/exec"
	"strings"
	"testing"
	"time"

	lift "github.com/liftbridge-io/go-liftbridge/v2"
	"github.com/nats-io/nats.go"
	"github.com/stretchr/testify/require"

	proto "github.com/liftbridge-io/liftbridge/server/protocol"
)

const (
	existingC14_1_env      = "LIFTBRIDGE_EXISTING_C14_1_CASE"
	existingC14_1_survived = "EXISTING-C14-1-SERVER-SURVIVED"
)

// existingC14_1_cases are CREATE_STREAM operations as a NATS client can send
// them to the propagate inbox of the metadata leader. Each is a well-formed
// PropagatedRequest envelope and passes validatePropagatedRequest and the
// checks in metadataAPI.CreateStream.
var existingC14_1_cases = map[string]*proto.Stream{
	// Control: a request for a stream that can be started. This one passes
	// and shows that the harness itself works.
	"control (valid request)": {
		Name: "x", Subject: "foo",
		Partitions: []*proto.Partition{{Stream: "x", Subject: "foo", ReplicationFactor: 1}},
	},
	"subject with a space": {
		Name: "x", Subject: "foo bar",
		Partitions: []*proto.Partition{{Stream: "x", Subject: "foo bar", ReplicationFactor: 1}},
	},
	"empty subject": {
		Name: "x", Subject: "",
		Partitions: []*proto.Partition{{Stream: "x", Subject: "", ReplicationFactor: 1}},
	},
	"subject with an empty token": {
		Name: "x", Subject: "foo..bar",
		Partitions: []*proto.Partition{{Stream: "x", Subject: "foo..bar", ReplicationFactor: 1}},
	},
	"queue group with a space": {
		Name: "x", Subject: "foo",
		Partitions: []*proto.Partition{{Stream: "x", Subject: "foo", Group: "a b", ReplicationFactor: 1}},
	},
	"negative cleaner interval": {
		Name: "x", Subject: "foo",
		Config:     &proto.StreamConfig{CleanerInterval: &proto.NullableInt64{Value: -1}},
		Partitions: []*proto.Partition{{Stream: "x", Subject: "foo", ReplicationFactor: 1}},
	},
	"stream name with a NUL byte": {
		Name: "x\x00y", Subject: "foo",
		Partitions: []*proto.Partition{{Stream: "x\x00y", Subject: "foo", ReplicationFactor: 1}},
	},
}

// No payload a NATS client sends may crash the server. The propagate inbox of
// the metadata leader is a plain NATS subject. Send it CREATE_STREAM requests
// for streams the leader cannot start. The only acceptable outcomes are an
// error response or a created stream; the process must keep running.
//
// The server runs in a child process (this test binary re-executed) since the
// crash is a panic on the Raft FSM goroutine, which cannot be recovered from
// and would take the whole test binary down.
func TestExistingC14_1_PropagatedCreateStreamCrashesServer(t *testing.T) {
	if name := os.Getenv(existingC14_1_env); name != "" {
		existingC14_1_child(t, name)
		return
	}
	for name := range existingC14_1_cases {
		cmd := exec.Command(os.Args[0], "-test.run", "^TestExistingC14_1_PropagatedCreateStreamCrashesServer$",
			"-test.count=1", "-test.timeout=60s")
		cmd.Env = append(os.Environ(), existingC14_1_env+"="+name)
		out, err := cmd.CombinedOutput()
		output := string(out)
		// Keep the interesting part of a crash: the panic message.
		excerpt := output
		if i := strings.Index(output, "panic:"); i >= 0 {
			excerpt = output[i:]
			if len(excerpt) > 600 {
				excerpt = excerpt[:600]
			}
		}
		excerpt = strings.ReplaceAll(excerpt, "\x00", "\\x00")
		if err != nil || !strings.Contains(output, existingC14_1_survived) {
			t.Errorf("%s: the server process did not survive a propagated CREATE_STREAM request (%v):\n%s",
				name, err, excerpt)
		}
	}
}

func existingC14_1_child(t *testing.T, name string) {
	defer cleanupStorage(t)
	stream, ok := existingC14_1_cases[name]
	require.True(t, ok)

	s1Config := getTestConfig("a", true, 5050)
	s1 := runServerWithConfig(t, s1Config)
	defer s1.Stop()
	getMetadataLeader(t, 10*time.Second, s1)

	nc, err := nats.GetDefaultOptions().Connect()
	require.NoError(t, err)
	defer nc.Close()

	req, err := proto.MarshalPropagatedRequest(&proto.PropagatedRequest{
		Op:             proto.Op_CREATE_STREAM,
		CreateStreamOp: &proto.CreateStreamOp{Stream: stream},
	})
	require.NoError(t, err)
	// The bytes decode as exactly the request they encode.
	_, err = proto.UnmarshalPropagatedRequest(req)
	require.NoError(t, err)

	// Whatever the answer is (an error is expected), the server has to be
	// there afterwards.
	resp, err := nc.Request(s1.getPropagateInbox(), req, 5*time.Second)
	if err == nil {
		r, err := proto.UnmarshalPropagatedResponse(resp.Data)
		require.NoError(t, err)
		fmt.Printf("response: %v\n", r)
	}
	time.Sleep(500 * time.Millisecond)

	// The server still works.
	client, err := lift.Connect([]string{"localhost:5050"})
	require.NoError(t, err)
	defer client.Close()
	require.NoError(t, client.CreateStream(context.Background(), "alive", "alive"))
	ctx, cancel := context.WithTimeout(context.Background(), 5*time.Second)
	defer cancel()
	_, err = client.Publish(ctx, "alive", []byte("hello"))
	require.NoError(t, err)

	fmt.Println(existingC14_1_survived)
}
