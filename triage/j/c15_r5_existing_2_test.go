// package dir: server
//
// Existing defect 2 (C15, cross-resource effect of the cursor methods): the
// cursor manager stores the cursor (cursorId, stream, partition) under the key
// fmt.Sprintf("%s,%s,%d", cursorID, stream, partition). Neither the cursor id
// nor the stream name is restricted, so the key is ambiguous: cursor "a,b" of
// stream "c" and cursor "a" of stream "b,c" are the same key. The authorisation
// check of SetCursor / FetchCursor looks at req.Stream only. A client whose
// policy has SetCursor for stream "c" but NO entry for stream "b,c" therefore
// stores (overwrites) cursors of stream "b,c": a cursor is stored for a
// resource for which the client lacks the (client, resource, SetCursor) entry.
// The same works for reading with FetchCursor.
package server

import (
	"context"
	"os"
	"path/filepath"
	"testing"
	"time"

	client "github.com/liftbridge-io/liftbridge-api/v2/go"
	"github.com/stretchr/testify/assert"
	"github.com/stretchr/testify/require"
)

const existingC15x2Model = `[request_definition]
r = sub, obj, act

[policy_definition]
p = sub, obj, act

[policy_effect]
e = some(where (p.eft == allow))

[matchers]
m = r.sub == p.sub && r.obj == p.obj && r.act == p.act
`

// Storing any cursor requires Publish on the internal __cursors stream because
// SetCursor publishes with the identity of the caller, hence the __cursors
// entries. mallory has cursor rights on stream "c" and none on stream "b,c".
const existingC15x2Policy = `p, root, "b,c", CreateStream
p, root, c, CreateStream
p, bob, "b,c", SetCursor
p, bob, "b,c", FetchCursor
p, bob, __cursors, Publish
p, mallory, c, SetCursor
p, mallory, c, FetchCursor
p, mallory, __cursors, Publish
`

func existingC15x2Ctx(t *testing.T, clientID string) context.Context {
	ctx, cancel := context.WithTimeout(context.Background(), 10*time.Second)
	t.Cleanup(cancel)
	return context.WithValue(ctx, "clientID", clientID)
}

func TestExistingC15_2_CursorOfAnotherStreamStoredThroughAmbiguousKey(t *testing.T) {
	defer cleanupStorage(t)

	dir := t.TempDir()
	modelPath := filepath.Join(dir, "model.conf")
	policyPath := filepath.Join(dir, "policy.csv")
	require.NoError(t, os.WriteFile(modelPath, []byte(existingC15x2Model), 0o644))
	require.NoError(t, os.WriteFile(policyPath, []byte(existingC15x2Policy), 0o644))

	config := getTestConfig("a", true, 0)
	config.CursorsStream.Partitions = 1
	config.TLSCert = "./configs/certs/server/server-cert.pem"
	config.TLSKey = "./configs/certs/server/server-key.pem"
	config.TLSClientAuth = true
	config.TLSClientAuthCA = "./configs/certs/ca-cert.pem"
	config.TLSClientAuthz = true
	config.TLSClientAuthzModel = modelPath
	config.TLSClientAuthzPolicy = policyPath

	s := runServerWithConfig(t, config)
	defer s.Stop()
	getMetadataLeader(t, 10*time.Second, s)
	require.NotNil(t, s.authzEnforcer, "authorization must be switched on")
	api := s.api

	// Wait for the internal cursors stream.
	deadline := time.Now().Add(10 * time.Second)
	for s.metadata.GetPartition(cursorsStream, 0) == nil && time.Now().Before(deadline) {
		time.Sleep(20 * time.Millisecond)
	}
	require.NotNil(t, s.metadata.GetPartition(cursorsStream, 0))

	// Sanity: the policy reads the quoted resource as the stream name b,c.
	ok, err := api.enforcePolicy("bob", "b,c", "SetCursor")
	require.NoError(t, err)
	require.True(t, ok)
	ok, err = api.enforcePolicy("mallory", "b,c", "SetCursor")
	require.NoError(t, err)
	require.False(t, ok)

	for name, subject := range map[string]string{"b,c": "subject1", "c": "subject2"} {
		_, err := api.CreateStream(existingC15x2Ctx(t, "root"),
			&client.CreateStreamRequest{Name: name, Subject: subject})
		require.NoError(t, err)
	}

	// bob stores his cursor "a" for partition 0 of stream "b,c".
	_, err = api.SetCursor(existingC15x2Ctx(t, "bob"),
		&client.SetCursorRequest{Stream: "b,c", Partition: 0, CursorId: "a", Offset: 7})
	require.NoError(t, err)
	resp, err := api.FetchCursor(existingC15x2Ctx(t, "bob"),
		&client.FetchCursorRequest{Stream: "b,c", Partition: 0, CursorId: "a"})
	require.NoError(t, err)
	require.Equal(t, int64(7), resp.Offset)

	// mallory has no entry for stream "b,c": the direct attempts are refused.
	_, err = api.SetCursor(existingC15x2Ctx(t, "mallory"),
		&client.SetCursorRequest{Stream: "b,c", Partition: 0, CursorId: "a", Offset: 999})
	require.Error(t, err)
	require.Contains(t, err.Error(), "not authorized")
	_, err = api.FetchCursor(existingC15x2Ctx(t, "mallory"),
		&client.FetchCursorRequest{Stream: "b,c", Partition: 0, CursorId: "a"})
	require.Error(t, err)
	require.Contains(t, err.Error(), "not authorized")

	// The same client reads bob's cursor of stream "b,c" through stream "c"...
	leaked, err := api.FetchCursor(existingC15x2Ctx(t, "mallory"),
		&client.FetchCursorRequest{Stream: "c", Partition: 0, CursorId: "a,b"})
	if assert.NoError(t, err) {
		assert.Equal(t, int64(-1), leaked.Offset,
			"a client without a FetchCursor entry for stream \"b,c\" read a cursor of that stream")
	}

	// ... and overwrites it.
	_, err = api.SetCursor(existingC15x2Ctx(t, "mallory"),
		&client.SetCursorRequest{Stream: "c", Partition: 0, CursorId: "a,b", Offset: 999})
	require.NoError(t, err, "mallory is allowed to set cursors of stream c")

	resp, err = api.FetchCursor(existingC15x2Ctx(t, "bob"),
		&client.FetchCursorRequest{Stream: "b,c", Partition: 0, CursorId: "a"})
	require.NoError(t, err)
	assert.Equal(t, int64(7), resp.Offset,
		"a client without a SetCursor entry for stream \"b,c\" stored a cursor of that stream")
}
