// package dir: server/commitlog
package commitlog

import (
	"context"
	"testing"
	"time"

	"github.com/stretchr/testify/require"
)

// After a retention pass the log must be readable from its new oldest offset,
// i.e. OldestOffset() has to name the first message of the oldest surviving
// segment. segment.write uses firstWriteTime == 0 as "nothing written yet", so
// for a segment whose first message carries timestamp 0 every later write
// moves firstOffset forward, and OldestOffset() points into the middle of the
// oldest surviving segment: a reader started there misses surviving messages.
func TestExistingC09_4_OldestOffsetAfterCleanWithZeroTimestamps(t *testing.T) {
	value := []byte("0123456789")
	ms, _, err := newMessageSetFromProto(0, 0, []*Message{{Value: value}}, false)
	require.NoError(t, err)

	l, cleanup := setupWithOptions(t, Options{
		Path:            tempDir(t),
		MaxSegmentBytes: 3 * int64(len(ms)), // three messages per segment
		MaxLogMessages:  5,
		CleanerInterval: time.Hour,
	})
	defer cleanup()

	// [0-2] [3-5] [6], all with timestamp 0 (the commit log API does not
	// require a timestamp, see e.g. TestOffsets).
	for i := 0; i < 7; i++ {
		_, err := l.Append([]*Message{{Value: value}})
		require.NoError(t, err)
	}
	require.Len(t, l.Segments(), 3)

	require.NoError(t, l.Clean())
	segs := l.Segments()
	require.Len(t, segs, 2)
	require.Equal(t, int64(3), segs[0].BaseOffset)

	// The oldest surviving message is 3.
	r, err := l.NewReader(0, true)
	require.NoError(t, err)
	ctx, cancel := context.WithTimeout(context.Background(), 5*time.Second)
	defer cancel()
	_, offset, _, _, err := r.ReadMessage(ctx, make([]byte, 28))
	require.NoError(t, err)
	require.Equal(t, int64(3), offset)

	require.Equal(t, int64(3), l.OldestOffset(), "OldestOffset() after the retention pass")
}
