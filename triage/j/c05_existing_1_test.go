// package dir: server/commitlog
//
// Existing defect 1: commitLog.Truncate deletes the segments which follow the
// truncation offset oldest first. A process crash in the middle of that loop
// leaves a log with a hole: the older of the segments being removed are gone,
// the newer ones are still there. recovery in New() only trims the leader
// epoch checkpoint to the end of the log, so the reopened log's leader epoch
// history lists epochs (with their start offsets) of which no message is left,
// in front of epochs whose messages are all still there.
//
// The crash is produced by making the deletion of the second of the following
// segments fail before it has any effect on the file system (its log file
// descriptor is closed behind the segment's back, so segment.Close, the first
// step of segment.Delete, returns an error). Truncate returns at that point,
// i.e. the directory is exactly what a crash between the deletion of the first
// and of the second following segment leaves behind. The directory is copied
// and the copy is reopened.
package commitlog

import (
	"context"
	"fmt"
	"io"
	"os"
	"path/filepath"
	"testing"
	"time"

	"github.com/stretchr/testify/require"
)

func existingC05x1CopyDir(t *testing.T, from, to string) {
	require.NoError(t, os.MkdirAll(to, 0755))
	files, err := os.ReadDir(from)
	require.NoError(t, err)
	for _, file := range files {
		src, err := os.Open(filepath.Join(from, file.Name()))
		require.NoError(t, err)
		dst, err := os.Create(filepath.Join(to, file.Name()))
		require.NoError(t, err)
		_, err = io.Copy(dst, src)
		require.NoError(t, err)
		require.NoError(t, src.Close())
		require.NoError(t, dst.Close())
	}
}

func TestExistingC05_1_CrashInTruncateLeavesAHoleAndEpochsWithoutMessages(t *testing.T) {
	root := tempDir(t)
	defer remove(t, root)
	var (
		live    = filepath.Join(root, "live")
		crashed = filepath.Join(root, "crashed")
	)
	opts := Options{
		Path:                 live,
		MaxSegmentBytes:      100, // two messages per segment
		HWCheckpointInterval: time.Hour,
		CleanerInterval:      time.Hour,
	}
	l, err := New(opts)
	require.NoError(t, err)
	log := l.(*commitLog)
	defer log.Close() // nolint: errcheck

	// Eight leader epochs with two messages each: epoch e holds offsets
	// 2(e-1) and 2(e-1)+1, one segment per epoch.
	for i := 0; i < 16; i++ {
		_, err := log.Append([]*Message{{
			Value:       []byte(fmt.Sprintf("message-%02d", i)),
			Timestamp:   time.Now().UnixNano(),
			LeaderEpoch: uint64(1 + i/2),
		}})
		require.NoError(t, err)
	}
	segments := log.Segments()
	require.Equal(t, 8, len(segments))
	for i, seg := range segments {
		require.Equal(t, int64(2*i), seg.BaseOffset)
	}

	// Truncate(3) replaces the segment with base offset 2 and deletes the
	// segments with base offsets 4, 6, ..., 14 in that order. The process dies
	// once the segment with base offset 4 (all of leader epoch 3) is gone.
	require.NoError(t, segments[3].log.Close())
	require.Error(t, log.Truncate(3))
	t.Logf("segment 4 deleted: %v, segment 6 deleted: %v, segment 14 deleted: %v",
		!exists(segments[2].logPath()), !exists(segments[3].logPath()), !exists(segments[7].logPath()))
	existingC05x1CopyDir(t, live, crashed)

	opts.Path = crashed
	rl, err := New(opts)
	require.NoError(t, err, "reopening the crashed partition failed")
	reopened := rl.(*commitLog)
	defer reopened.Close()

	// Read the reopened log.
	var (
		history []string
		offsets []int64
		last    uint64
		newest  = reopened.NewestOffset()
		headers = make([]byte, 28)
	)
	r, err := reopened.NewReader(reopened.OldestOffset(), true)
	require.NoError(t, err)
	for {
		ctx, cancel := context.WithTimeout(context.Background(), 5*time.Second)
		msg, offset, _, leaderEpoch, err := r.ReadMessage(ctx, headers)
		cancel()
		require.NoError(t, err)
		require.Equal(t, fmt.Sprintf("message-%02d", offset), string(msg.Value()))
		offsets = append(offsets, offset)
		if leaderEpoch != last {
			history = append(history, fmt.Sprintf("%d:%d", leaderEpoch, offset))
			last = leaderEpoch
		}
		if offset == newest {
			break
		}
	}
	t.Logf("offsets in the reopened log: %v", offsets)

	// Everything below the truncation offset must be there.
	require.Equal(t, []int64{0, 1, 2}, offsets[:3])

	// The leader epoch history must match the messages present.
	var cached []string
	for _, eo := range reopened.leaderEpochCache.epochOffsets {
		cached = append(cached, fmt.Sprintf("%d:%d", eo.leaderEpoch, eo.startOffset))
	}
	require.Equal(t, history, cached,
		"the leader epoch history of the reopened log does not match its messages (offsets %v)", offsets)
}
