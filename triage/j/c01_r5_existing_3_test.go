// package dir: server/commitlog
//
// Existing defect C01_3: a committed reader remembers the segment holding the
// high watermark by pointer. When a tail truncation rewrites that segment
// while the reader is still in an earlier segment, the reader enters the
// rewritten segment without recognising it as the HW segment, reads the
// uncommitted messages after the HW and then fails with "no segment to
// consume" at the end of the log instead of waiting for the HW to advance.
package commitlog

import (
	"bytes"
	"context"
	"fmt"
	"os"
	"testing"
	"time"
)

func existingC013Message(gen, i int) *Message {
	return &Message{
		Key:         []byte("k"),
		Value:       []byte(fmt.Sprintf("gen%d-%d-%s", gen, i, bytes.Repeat([]byte("p"), 20))),
		Timestamp:   int64(100*gen + i + 1),
		LeaderEpoch: uint64(gen),
	}
}

func TestExistingC01_3_CommittedReaderAcrossTruncationOfHWSegment(t *testing.T) {
	dir, err := os.MkdirTemp("", "lift_existingC01_3_")
	if err != nil {
		t.Fatal(err)
	}
	defer os.RemoveAll(dir)
	// Each message set is 28+16+1+26 = 71 bytes, so a segment is rolled after
	// three messages.
	cl, err := New(Options{Path: dir, MaxSegmentBytes: 200})
	if err != nil {
		t.Fatal(err)
	}
	l := cl.(*commitLog)
	defer l.Close()

	var want []*Message
	for i := 0; i < 6; i++ {
		m := existingC013Message(1, i)
		if _, err := l.Append([]*Message{m}); err != nil {
			t.Fatal(err)
		}
		want = append(want, m)
	}
	segments := l.Segments()
	if len(segments) != 2 || segments[1].BaseOffset != 3 {
		t.Fatalf("unexpected layout: %d segments", len(segments))
	}

	// Offsets 0-3 are committed, 4 and 5 are not. The HW is in the second
	// segment.
	l.SetHighWatermark(3)

	// A committed reader starts in the first segment.
	r, err := l.NewReader(0, false)
	if err != nil {
		t.Fatal(err)
	}
	headers := make([]byte, 28)
	msg, offset, _, _, err := r.ReadMessage(context.Background(), headers)
	if err != nil || offset != 0 || !bytes.Equal(msg.Value(), want[0].Value) {
		t.Fatalf("reading offset 0: %d %v", offset, err)
	}

	// The uncommitted message 5 is truncated away, e.g. because the replica
	// follows a new leader. This rewrites the second segment. 0-4 are retained
	// and 0-3 are committed.
	if err := l.Truncate(5); err != nil {
		t.Fatal(err)
	}
	want = want[:5]

	// The reader gets the committed messages 1-3.
	for i := 1; i <= 3; i++ {
		ctx, cancel := context.WithTimeout(context.Background(), 2*time.Second)
		msg, offset, _, _, err := r.ReadMessage(ctx, headers)
		cancel()
		if err != nil {
			t.Fatalf("reading committed offset %d: %v", i, err)
		}
		if offset != int64(i) || !bytes.Equal(msg.Value(), want[i].Value) {
			t.Fatalf("got offset %d value %q, want %d %q", offset, msg.Value(), i, want[i].Value)
		}
	}

	// Offset 4 is not committed, so the reader has to wait for the HW.
	ctx, cancel := context.WithTimeout(context.Background(), 100*time.Millisecond)
	_, offset, _, _, err = r.ReadMessage(ctx, headers)
	cancel()
	if err == nil {
		t.Errorf("committed reader returned offset %d while the HW is %d", offset, l.HighWatermark())
	}

	// Once the HW advances, the reader gets the message at offset 4, whatever
	// it is by then. Here the uncommitted one is replaced first.
	if err := l.Truncate(4); err != nil {
		t.Fatal(err)
	}
	m := existingC013Message(2, 4)
	if _, err := l.Append([]*Message{m}); err != nil {
		t.Fatal(err)
	}
	want = append(want[:4], m)
	l.SetHighWatermark(4)
	if offset == 4 && err == nil {
		// Already delivered the uncommitted message which does not exist
		// anymore.
		t.Fatalf("reader delivered value of offset 4 before it was committed; the committed value is %q", m.Value)
	}
	ctx, cancel = context.WithTimeout(context.Background(), 2*time.Second)
	defer cancel()
	msg, offset, _, _, err = r.ReadMessage(ctx, headers)
	if err != nil {
		t.Fatalf("reading offset 4 after it was committed: %v", err)
	}
	if offset != 4 || !bytes.Equal(msg.Value(), m.Value) {
		t.Fatalf("got offset %d value %q, want 4 %q", offset, msg.Value(), m.Value)
	}
}
