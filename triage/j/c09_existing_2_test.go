// package dir: server/commitlog
package commitlog

import (
	"context"
	"os"
	"testing"
	"time"

	"github.com/stretchr/testify/require"
)

// A retention pass that fails part of the way (here: the second of three
// segments cannot be closed) has already removed the oldest segment from disk
// and has closed and marked the others, but leaves all of them in the segment
// list. The log then reports an oldest offset that is gone and cannot be read
// from it, and stays like that for as long as the fault persists.
func TestExistingC09_2_FailedPassLeavesRemovedSegmentsInTheLog(t *testing.T) {
	value := []byte("0123456789")
	ms, _, err := newMessageSetFromProto(0, 0, []*Message{{Value: value, Timestamp: 1}}, false)
	require.NoError(t, err)

	opts := Options{
		Path:            tempDir(t),
		MaxSegmentBytes: int64(len(ms)), // one message per segment
		MaxLogMessages:  3,
		CleanerInterval: time.Hour,
	}
	defer os.RemoveAll(opts.Path)
	cl, err := New(opts)
	require.NoError(t, err)
	l := cl.(*commitLog)
	defer l.Close()

	for i := 0; i < 6; i++ {
		_, err := l.Append([]*Message{{Value: value, Timestamp: time.Now().UnixNano()}})
		require.NoError(t, err)
	}
	segs := l.Segments()
	require.Len(t, segs, 6)

	// The fault: s1 cannot be closed, hence not deleted.
	require.NoError(t, segs[1].log.Close())
	require.Error(t, l.Clean())

	// s0 is gone for good.
	require.False(t, exists(segs[0].logPath()))
	require.True(t, segs[0].IsDeleted())

	// Whatever the log now calls its oldest offset must be readable: the
	// surviving log is a suffix that readers can read from its oldest offset.
	oldest := l.OldestOffset()
	r, err := l.NewReader(oldest, true)
	require.NoError(t, err, "reader at OldestOffset()=%d after a retention pass that failed part of the way", oldest)
	ctx, cancel := context.WithTimeout(context.Background(), 5*time.Second)
	defer cancel()
	_, offset, _, _, err := r.ReadMessage(ctx, make([]byte, 28))
	require.NoError(t, err)
	require.Equal(t, oldest, offset)
}
