// package dir: server/commitlog
//
// Existing defect 2: commitLog.Clean replaces the segments with their
// compacted versions on disk first and replaces the leader epoch checkpoint
// with the history compaction computed (the first retained offset of every
// epoch which still has messages) afterwards. A process crash in between
// leaves the compacted segments next to the checkpoint of the uncompacted log.
// Recovery in New() only adjusts the two ends of the history, so the reopened
// log keeps start offsets which no longer are the first message of their
// epoch and epochs of which no message is left, i.e. a history which differs
// from the one the same compaction yields without the crash.
//
// The test copies the partition directory at the instant the compact cleaner
// logs that it has finished, which is after the last segment has been swapped
// and before Clean touches the leader epoch cache. The copy is what a crash at
// that instant leaves on disk. It is reopened and its leader epoch history is
// compared with the messages present, and with the history of the log which
// did not crash.
package commitlog

import (
	"context"
	"fmt"
	"io"
	"os"
	"path/filepath"
	"strings"
	"testing"
	"time"

	"github.com/stretchr/testify/require"

	"github.com/liftbridge-io/liftbridge/server/logger"
)

type existingC05x2Logger struct {
	logger.Logger
	hook func(format string)
}

func (l *existingC05x2Logger) Debugf(format string, v ...interface{}) {
	if l.hook != nil {
		l.hook(format)
	}
}

func existingC05x2CopyDir(t *testing.T, from, to string) {
	require.NoError(t, os.MkdirAll(to, 0755))
	files, err := os.ReadDir(from)
	require.NoError(t, err)
	for _, file := range files {
		src, err := os.Open(filepath.Join(from, file.Name()))
		require.NoError(t, err)
		dst, err := os.Create(filepath.Join(to, file.Name()))
		require.NoError(t, err)
		_, err = io.Copy(dst, src)
		require.NoError(t, err)
		require.NoError(t, src.Close())
		require.NoError(t, dst.Close())
	}
}

// existingC05x2History returns the leader epoch history the messages of the
// log imply ("epoch:first offset") and the one the log has cached.
func existingC05x2History(t *testing.T, l *commitLog) (implied, cached []string) {
	var (
		last    uint64
		newest  = l.NewestOffset()
		headers = make([]byte, 28)
	)
	r, err := l.NewReader(l.OldestOffset(), true)
	require.NoError(t, err)
	for {
		ctx, cancel := context.WithTimeout(context.Background(), 5*time.Second)
		_, offset, _, leaderEpoch, err := r.ReadMessage(ctx, headers)
		cancel()
		require.NoError(t, err)
		if leaderEpoch != last {
			implied = append(implied, fmt.Sprintf("%d:%d", leaderEpoch, offset))
			last = leaderEpoch
		}
		if offset == newest {
			break
		}
	}
	for _, eo := range l.leaderEpochCache.epochOffsets {
		cached = append(cached, fmt.Sprintf("%d:%d", eo.leaderEpoch, eo.startOffset))
	}
	return implied, cached
}

func TestExistingC05_2_CrashAfterCompactionSwapKeepsStaleLeaderEpochs(t *testing.T) {
	root := tempDir(t)
	defer remove(t, root)
	var (
		live     = filepath.Join(root, "live")
		crashed  = filepath.Join(root, "crashed")
		log      = &existingC05x2Logger{Logger: noopLogger()}
		snapshot bool
	)
	opts := Options{
		Path:                 live,
		MaxSegmentBytes:      100, // two messages per segment
		Compact:              true,
		HWCheckpointInterval: time.Hour,
		CleanerInterval:      time.Hour,
		Logger:               log,
	}
	l, cleanup := setupWithOptions(t, opts)
	defer cleanup()

	// Leader epoch e holds offsets 2(e-1) and 2(e-1)+1. Both messages of epoch
	// 2 and the first message of epoch 3 are superseded by later messages with
	// the same keys.
	keys := []string{"a", "b", "c", "d", "e", "f", "c", "d", "e", "g", "h", "i"}
	for i, key := range keys {
		_, err := l.Append([]*Message{{
			Key:         []byte(key),
			Value:       []byte(fmt.Sprintf("value-%02d", i)),
			Timestamp:   time.Now().UnixNano(),
			LeaderEpoch: uint64(1 + i/2),
		}})
		require.NoError(t, err)
	}
	require.Equal(t, 6, len(l.Segments()))
	l.SetHighWatermark(l.NewestOffset())

	log.hook = func(format string) {
		if !snapshot && strings.HasPrefix(format, "Finished compacting") {
			snapshot = true
			existingC05x2CopyDir(t, live, crashed)
		}
	}
	require.NoError(t, l.Clean())
	log.hook = nil
	require.True(t, snapshot, "no crash point was hit during Clean")

	// Without the crash, the history matches the messages.
	implied, cached := existingC05x2History(t, l)
	require.Equal(t, []string{"1:0", "3:5", "4:6", "5:8", "6:10"}, implied)
	require.Equal(t, implied, cached)

	// With the crash, it must as well.
	opts.Path = crashed
	opts.Logger = nil
	rl, err := New(opts)
	require.NoError(t, err, "reopening the crashed partition failed")
	reopened := rl.(*commitLog)
	defer reopened.Close()

	impliedAfterCrash, cachedAfterCrash := existingC05x2History(t, reopened)
	require.Equal(t, implied, impliedAfterCrash, "the crashed log does not hold the compacted messages")
	require.Equal(t, impliedAfterCrash, cachedAfterCrash,
		"the leader epoch history of the reopened log does not match its messages")
}
