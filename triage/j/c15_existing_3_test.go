// package dir: server
//
// Existing defect C15/3 (unchanged tree): the key a cursor is stored under is
// "<cursorID>,<stream>,<partition>" (cursorManager.getCursorKey) and neither
// cursor ids nor stream names are restricted, so the key does not identify the
// stream. A client which may set cursors on stream "c" only stores (overwrites)
// the cursor "a" of stream "b,c", for which it has no SetCursor policy entry,
// by using the cursor id "a,b".
//
// Run on its own:
//   go test -vet=off -count=1 -run 'TestExistingC15_3' ./server/
package server

import (
	"context"
	"os"
	"path/filepath"
	"strings"
	"testing"
	"time"

	client "github.com/liftbridge-io/liftbridge-api/v2/go"
	"github.com/stretchr/testify/require"
)

func TestExistingC15_3_CursorOfOtherStreamOverwritten(t *testing.T) {
	defer cleanupStorage(t)

	policy := []string{
		`p, admin, c, CreateStream`,
		`p, admin, "b,c", CreateStream`,
		// client1 may manage cursors of stream c.
		`p, client1, c, SetCursor`,
		`p, client1, c, FetchCursor`,
		`p, client1, __cursors, Publish`,
		// client2 owns the cursors of stream "b,c".
		`p, client2, "b,c", SetCursor`,
		`p, client2, "b,c", FetchCursor`,
		`p, client2, __cursors, Publish`,
	}
	policyPath := filepath.Join(t.TempDir(), "policy.csv")
	require.NoError(t, os.WriteFile(policyPath, []byte(strings.Join(policy, "\n")+"\n"), 0o600))

	config := getTestConfig("a", true, 5050)
	config.CursorsStream.Partitions = 1
	config.TLSCert = "./configs/certs/server/server-cert.pem"
	config.TLSKey = "./configs/certs/server/server-key.pem"
	config.TLSClientAuth = true
	config.TLSClientAuthCA = "./configs/certs/ca-cert.pem"
	config.TLSClientAuthz = true
	config.TLSClientAuthzModel = "./configs/authz/model.conf"
	config.TLSClientAuthzPolicy = policyPath

	s := runServerWithConfig(t, config)
	defer s.Stop()
	getMetadataLeader(t, 10*time.Second, s)

	as := func(clientID string) context.Context {
		// The identity the authz interceptors take from the verified client
		// certificate.
		return context.WithValue(context.Background(), "clientID", clientID) // nolint
	}

	for i, name := range []string{"c", "b,c"} {
		subject := []string{"subj-c", "subj-bc"}[i]
		_, err := s.api.CreateStream(as("admin"), &client.CreateStreamRequest{Name: name, Subject: subject})
		require.NoError(t, err)
		waitForPartition(t, 5*time.Second, name, 0, s)
	}
	waitForPartition(t, 5*time.Second, cursorsStream, 0, s)
	getPartitionLeader(t, 10*time.Second, cursorsStream, 0, s)

	// client2 stores its cursor.
	_, err := s.api.SetCursor(as("client2"), &client.SetCursorRequest{Stream: "b,c", Partition: 0, CursorId: "a", Offset: 5})
	require.NoError(t, err)

	// Sanity: client1 is refused on stream "b,c".
	_, err = s.api.SetCursor(as("client1"), &client.SetCursorRequest{Stream: "b,c", Partition: 0, CursorId: "a", Offset: 99})
	require.Error(t, err)
	require.Contains(t, err.Error(), "not authorized")

	// client1 sets a cursor on its own stream.
	_, err = s.api.SetCursor(as("client1"), &client.SetCursorRequest{Stream: "c", Partition: 0, CursorId: "a,b", Offset: 99})
	require.NoError(t, err)

	resp, err := s.api.FetchCursor(as("client2"), &client.FetchCursorRequest{Stream: "b,c", Partition: 0, CursorId: "a"})
	require.NoError(t, err)
	require.Equal(t, int64(5), resp.Offset,
		"the cursor of stream \"b,c\" was overwritten by client1 which has no SetCursor policy entry for it")
}
