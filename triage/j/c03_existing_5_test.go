// package dir: server/commitlog
package commitlog

import (
	"context"
	"sync"
	"testing"
	"time"

	"github.com/stretchr/testify/require"
)

// TestExistingC03_5_ConcurrentAppendsShareOffsets: Append reads the active
// segment's position and next offset, builds the message set from them and
// only then takes the segment lock in WriteMessageSet. The log's read lock it
// holds meanwhile excludes rolls and truncations but not other appends, so
// two concurrent Append calls are given the same offset (and the same index
// position). A committed reader then delivers an offset more than once.
//
// This is a stress test (8 goroutines x 500 appends); on the unchanged tree
// hundreds of offsets collide in every run. In the server a partition has a
// single appender at a time (leader loop / follower response handler), so
// this only matters to other users of the CommitLog API and in the window
// where a replica is promoted while a replication response is still being
// applied (stopFollowing does not wait for it).
func TestExistingC03_5_ConcurrentAppendsShareOffsets(t *testing.T) {
	l, cleanup := setupWithOptions(t, Options{Path: tempDir(t), MaxSegmentBytes: 1 << 20})
	defer l.Close()
	defer cleanup()

	const (
		writers   = 8
		perWriter = 500
	)
	var (
		wg       sync.WaitGroup
		mu       sync.Mutex
		assigned = map[int64]int{}
	)
	for g := 0; g < writers; g++ {
		wg.Add(1)
		go func() {
			defer wg.Done()
			for i := 0; i < perWriter; i++ {
				offsets, err := l.Append([]*Message{{Value: []byte("x"), Timestamp: 1, LeaderEpoch: 1}})
				if err != nil {
					t.Error(err)
					return
				}
				mu.Lock()
				assigned[offsets[0]]++
				mu.Unlock()
			}
		}()
	}
	wg.Wait()

	collisions := 0
	for _, n := range assigned {
		if n > 1 {
			collisions++
		}
	}
	if collisions > 0 {
		t.Errorf("%d appends were acknowledged with only %d distinct offsets (%d offsets handed out more than once)",
			writers*perWriter, len(assigned), collisions)
	}

	// What a subscriber sees: offsets must be strictly increasing.
	l.SetHighWatermark(l.NewestOffset())
	r, err := l.NewReader(0, false)
	require.NoError(t, err)
	var (
		headers = make([]byte, 28)
		last    = int64(-1)
		repeats = 0
	)
	for i := 0; i < writers*perWriter; i++ {
		ctx, cancel := context.WithTimeout(context.Background(), 200*time.Millisecond)
		_, offset, _, _, err := r.ReadMessage(ctx, headers)
		cancel()
		if err != nil {
			break
		}
		if offset <= last {
			repeats++
		}
		last = offset
	}
	if repeats > 0 {
		t.Errorf("committed reader delivered %d messages whose offset did not increase", repeats)
	}
}
