// package dir: server
//
// Existing defect C18/E1: the recorded "last published" Raft index is not part
// of the FSM snapshot (server/fsm.go Snapshot/Restore) and the dispatcher
// resumes from lastPublishedRaftIndex+1 without looking at the first index
// that is still in the Raft log (server/activity.go dispatch: `index =
// a.LastPublishedRaftIndex() + 1`, `raftNode.store.GetLog(index, log)`,
// `panic(err)`).
//
// Once the metadata Raft log has been compacted (hashicorp/raft keeps 10240
// trailing entries behind a snapshot), a controller which starts without a
// PUBLISH_ACTIVITY entry behind its latest snapshot resumes at index 1, which
// no longer exists: the dispatcher panics, on every start. No operation ever
// reaches the activity stream again.
//
// TestExistingC18_1_ResumePointLostBySnapshot shows this without taking the
// test binary down: the node is restarted with the activity stream switched
// off, and the test evaluates exactly what dispatch() would evaluate.
//
// TestExistingC18_1_ControllerPanicsAfterCompaction restarts the node with the
// activity stream switched on. It crashes the whole test binary ("panic: log
// not found" from activityManager.dispatch), so it only runs when
// LIFTBRIDGE_C18_CRASH=1 is set.
package server

import (
	"context"
	"os"
	"testing"
	"time"

	"github.com/hashicorp/raft"
	lift "github.com/liftbridge-io/go-liftbridge/v2"
	liftApi "github.com/liftbridge-io/liftbridge-api/v2/go"
	"github.com/stretchr/testify/require"

	proto "github.com/liftbridge-io/liftbridge/server/protocol"
)

// existingC18x1Prepare runs a controller with the activity stream enabled,
// lets the metadata log grow beyond raft's trailing-log window, waits until
// every event has been published and recorded, takes a snapshot and stops the
// node. It returns the last published index that was recorded.
func existingC18x1Prepare(t *testing.T) uint64 {
	config := getTestConfig("a", true, 5050)
	config.ActivityStream.Enabled = true
	config.ActivityStream.PublishTimeout = 2 * time.Second
	config.ActivityStream.PublishAckPolicy = liftApi.AckPolicy_LEADER
	s1 := runServerWithConfig(t, config)
	getMetadataLeader(t, 10*time.Second, s1)

	client, err := lift.Connect([]string{"localhost:5050"})
	require.NoError(t, err)
	defer client.Close()

	require.NoError(t, client.CreateStream(context.Background(), "foo", "foo"))

	// A long-lived cluster: the metadata log grows. The entries used here are
	// the bookkeeping entries the activity manager itself writes after every
	// event (one per event), re-stating the index that is already recorded, so
	// they do not change any state.
	node := s1.getRaft()
	existingC18x1WaitRecorded(t, s1, "foo")
	data, err := (&proto.RaftLog{
		Op: proto.Op_PUBLISH_ACTIVITY,
		PublishActivityOp: &proto.PublishActivityOp{
			RaftIndex: s1.activity.LastPublishedRaftIndex(),
		},
	}).Marshal()
	require.NoError(t, err)
	var last raft.ApplyFuture
	for i := 0; i < 10400; i++ {
		last = node.Apply(data, 30*time.Second)
		if i%500 == 0 {
			require.NoError(t, last.Error())
		}
	}
	require.NoError(t, last.Error())

	require.NoError(t, client.CreateStream(context.Background(), "bar", "bar"))

	// Wait until the dispatcher has published and recorded everything.
	recorded := existingC18x1WaitRecorded(t, s1, "bar")

	// Raft snapshots the FSM (in production: every
	// clustering.raft.snapshot.threshold entries) and compacts the log.
	require.NoError(t, node.Snapshot().Error())
	first, err := node.store.FirstIndex()
	require.NoError(t, err)
	require.True(t, first > 1, "log was not compacted")

	require.NoError(t, s1.Stop())
	return recorded
}

// existingC18x1WaitRecorded waits until the last published index that is
// recorded is the creation of the given stream and returns that index.
func existingC18x1WaitRecorded(t *testing.T, s *Server, name string) uint64 {
	deadline := time.Now().Add(30 * time.Second)
	for time.Now().Before(deadline) {
		recorded := s.activity.LastPublishedRaftIndex()
		if recorded != 0 && existingC18x1IsCreateStream(t, s, recorded, name) {
			// Let the FSM settle (the bookkeeping entry is the last entry).
			time.Sleep(200 * time.Millisecond)
			return s.activity.LastPublishedRaftIndex()
		}
		time.Sleep(20 * time.Millisecond)
	}
	t.Fatalf("dispatcher did not publish and record the creation of stream %s", name)
	return 0
}

func existingC18x1IsCreateStream(t *testing.T, s *Server, index uint64, name string) bool {
	l := new(raft.Log)
	if err := s.getRaft().store.GetLog(index, l); err != nil || l.Type != raft.LogCommand {
		return false
	}
	op := new(proto.RaftLog)
	require.NoError(t, op.Unmarshal(l.Data))
	return op.Op == proto.Op_CREATE_STREAM && op.CreateStreamOp.Stream.Name == name
}

func TestExistingC18_1_ResumePointLostBySnapshot(t *testing.T) {
	defer cleanupStorage(t)
	recorded := existingC18x1Prepare(t)

	// Restart the node. The activity stream is switched off for this run only
	// so that the test can look at the state the dispatcher would start from
	// instead of having the dispatcher panic.
	config := getTestConfig("a", true, 5050)
	config.ActivityStream.Enabled = false
	s1 := runServerWithConfig(t, config)
	defer s1.Stop()
	getMetadataLeader(t, 10*time.Second, s1)
	require.NoError(t, s1.getRaft().Barrier(5*time.Second).Error())

	// What activityManager.dispatch does first (activity.go:99-100, 121-123).
	var (
		node   = s1.getRaft()
		resume = s1.activity.LastPublishedRaftIndex() + 1
	)
	first, err := node.store.FirstIndex()
	require.NoError(t, err)
	t.Logf("recorded before restart: %d, after restart: %d, first index in the Raft log: %d, commit index: %d",
		recorded, resume-1, first, node.getCommitIndex())

	if recorded != resume-1 {
		t.Errorf("the recorded last-published index did not survive the restart "+
			"(it is not part of the FSM snapshot): recorded %d, restored %d", recorded, resume-1)
	}
	require.NoError(t, node.store.GetLog(resume, new(raft.Log)),
		"dispatch() reads Raft index %d first and panics on this error", resume)
}

func TestExistingC18_1_ControllerPanicsAfterCompaction(t *testing.T) {
	if os.Getenv("LIFTBRIDGE_C18_CRASH") != "1" {
		t.Skip("crashes the test binary; set LIFTBRIDGE_C18_CRASH=1 to run")
	}
	defer cleanupStorage(t)
	existingC18x1Prepare(t)

	config := getTestConfig("a", true, 5050)
	config.ActivityStream.Enabled = true
	config.ActivityStream.PublishTimeout = 2 * time.Second
	config.ActivityStream.PublishAckPolicy = liftApi.AckPolicy_LEADER
	s1 := runServerWithConfig(t, config)
	defer s1.Stop()
	getMetadataLeader(t, 10*time.Second, s1)
	// The dispatcher panics as soon as this node has become the controller.
	time.Sleep(5 * time.Second)
	t.Log("controller survived")
}
