// package dir: server/commitlog
package commitlog

import (
	"context"
	"fmt"
	"testing"
	"time"

	"github.com/stretchr/testify/require"
)

func existingC01_3Set(t *testing.T, first, count int64) []byte {
	t.Helper()
	msgs := make([]*Message, count)
	for i := range msgs {
		o := first + int64(i)
		msgs[i] = &Message{
			Value:       []byte(fmt.Sprintf("v%d", o)),
			Timestamp:   1000 + o,
			LeaderEpoch: 1,
		}
	}
	ms, _, err := newMessageSetFromProto(first, 0, msgs, false)
	require.NoError(t, err)
	return ms
}

// A follower which is catching up knows a HW that is ahead of its log. A
// committed reader which has read everything in the log waits for the HW to
// change. When the follower then appends messages at or below that HW (they
// are committed the moment they arrive) nothing wakes the reader: it does not
// deliver them until the HW itself moves, which on an idle stream is never. A
// reader created afterwards at the same offset gets them at once.
func TestExistingC01_3_CommittedReaderMissesCommittedAppendsBelowKnownHW(t *testing.T) {
	l, cleanup := setupWithOptions(t, Options{Path: tempDir(t), MaxSegmentBytes: 1024})
	defer cleanup()

	_, err := l.AppendMessageSet(existingC01_3Set(t, 0, 3))
	require.NoError(t, err)
	l.SetHighWatermark(5) // leader's HW, ahead of this log

	r, err := l.NewReader(0, false)
	require.NoError(t, err)
	ctx, cancel := context.WithTimeout(context.Background(), 3*time.Second)
	defer cancel()
	headers := make([]byte, 28)
	for want := int64(0); want < 3; want++ {
		_, offset, _, _, err := r.ReadMessage(ctx, headers)
		require.NoError(t, err)
		require.Equal(t, want, offset)
	}

	// The follower catches up to the HW; the leader repeats the same HW.
	_, err = l.AppendMessageSet(existingC01_3Set(t, 3, 3))
	require.NoError(t, err)
	l.SetHighWatermark(5)

	// Offsets 3..5 are in the log and committed. A new reader proves it.
	r2, err := l.NewReader(3, false)
	require.NoError(t, err)
	_, offset, _, _, err := r2.ReadMessage(ctx, make([]byte, 28))
	require.NoError(t, err)
	require.Equal(t, int64(3), offset)

	// The reader which was already there must deliver them as well.
	for want := int64(3); want <= 5; want++ {
		m, offset, _, _, err := r.ReadMessage(ctx, headers)
		require.NoError(t, err,
			"committed reader did not deliver offset %d although it is in the log and at or below the HW", want)
		require.Equal(t, want, offset)
		require.Equal(t, fmt.Sprintf("v%d", want), string(m.Value()))
	}
}
