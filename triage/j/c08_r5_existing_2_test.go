// package dir: server/commitlog
//
// Existing defect 2: a compaction which fails part of the way leaves the log
// unreadable and uncompactable until the process is restarted. The segments
// compacted before the failure have been replaced on disk and their old
// objects closed, but Clean returns the error without installing the new
// segment objects, so l.segments keeps the closed ones.
//
// The fault injected here is an I/O error when the compactor creates the
// ".cleaned" file of the third segment: a non-empty directory is in the way, so
// neither removing the "stale" file nor creating the new one works. Any other
// error on a later segment (EMFILE, ENOSPC, EIO on a write, ...) has the same
// effect.
package commitlog

import (
	"context"
	"fmt"
	"os"
	"path/filepath"
	"testing"
	"time"

	"github.com/stretchr/testify/require"
)

func existingC08_2ReadAll(l *commitLog) ([]int64, error) {
	ctx, cancel := context.WithTimeout(context.Background(), 5*time.Second)
	defer cancel()
	var (
		offsets = []int64{}
		headers = make([]byte, 28)
		newest  = l.NewestOffset()
	)
	r, err := l.NewReader(0, true)
	if err != nil {
		return nil, err
	}
	for {
		_, offset, _, _, err := r.ReadMessage(ctx, headers)
		if err != nil {
			return offsets, err
		}
		offsets = append(offsets, offset)
		if offset >= newest {
			return offsets, nil
		}
	}
}

func TestExistingC08_2_LogUnusableAfterCompactionFailedHalfway(t *testing.T) {
	opts := Options{
		Path:            tempDir(t),
		MaxSegmentBytes: 200,
		Compact:         true,
	}
	l, cleanup := setupWithOptions(t, opts)
	defer cleanup()

	// Five segments of four messages. "dup" is written once per segment, so all
	// but its last message (offset 17) are removed by a compaction.
	for i := 0; i < 20; i++ {
		key := fmt.Sprintf("key%02d", i)
		if i%4 == 1 {
			key = "dup"
		}
		offsets, err := l.Append([]*Message{{
			Key:       []byte(key),
			Value:     []byte("value"),
			Timestamp: int64(1000 + i),
		}})
		require.NoError(t, err)
		l.SetHighWatermark(offsets[0])
	}
	segments := l.Segments()
	require.Equal(t, 5, len(segments))

	// Make the compaction fail when it gets to the third segment.
	obstacle := segments[2].logPath() + cleanedSuffix
	require.NoError(t, os.MkdirAll(filepath.Join(obstacle, "x"), 0755))
	require.Error(t, l.Clean())

	// The fault goes away.
	require.NoError(t, os.RemoveAll(obstacle))

	// Whatever the failed pass got done, the messages which survive a
	// compaction must still be readable: the first two segments are compacted
	// on disk, the others are untouched.
	mustSurvive := []int64{0, 2, 3, 4, 6, 7, 8, 10, 11, 12, 14, 15, 16, 17, 18, 19}
	offsets, err := existingC08_2ReadAll(l)
	require.NoError(t, err, "log is unreadable after a failed compaction")
	for _, offset := range mustSurvive {
		require.Contains(t, offsets, offset)
	}

	// The next pass completes the job.
	require.NoError(t, l.Clean(), "log cannot be compacted anymore")
	offsets, err = existingC08_2ReadAll(l)
	require.NoError(t, err)
	require.Equal(t, mustSurvive, offsets)
}
