// package dir: server/commitlog
//
// Existing defect 1 (C16): commitLog.Append does not serialise concurrent
// callers. Append holds only the READ lock of the log while it reads the next
// offset from the active segment, checks the expected offset against it and
// writes the message set. Two callers racing with the same expected offset
// can therefore both read the same next offset, both pass the check and both
// write: more than one racer succeeds and the log holds two messages with the
// same offset.
package commitlog

import (
	"sync"
	"sync/atomic"
	"testing"

	"github.com/stretchr/testify/require"
)

func TestExistingC16_1_ConcurrentConditionalAppendsAtMostOneWinner(t *testing.T) {
	l, cleanup := setupWithOptions(t, Options{Path: tempDir(t), ConcurrencyControl: true})
	defer cleanup()

	const (
		rounds = 3000
		racers = 8
	)
	for r := 0; r < rounds; r++ {
		var (
			expected = l.NewestOffset() + 1
			wins     int32
			wg       sync.WaitGroup
			start    = make(chan struct{})
			errs     = make(chan error, racers)
		)
		for i := 0; i < racers; i++ {
			wg.Add(1)
			go func() {
				defer wg.Done()
				<-start
				offsets, err := l.Append([]*Message{{
					MagicByte: 1,
					Value:     []byte("x"),
					Timestamp: 1,
					Offset:    expected,
				}})
				if err != nil {
					errs <- err
					return
				}
				if len(offsets) == 1 && offsets[0] == expected {
					atomic.AddInt32(&wins, 1)
				}
			}()
		}
		close(start)
		wg.Wait()
		close(errs)
		for err := range errs {
			require.Equal(t, ErrIncorrectOffset, err)
		}
		if wins != 1 {
			// Show what the log looks like now.
			var offsets []int64
			for _, seg := range l.Segments() {
				ss := newSegmentScanner(seg)
				for ms, _, err := ss.Scan(); err == nil; ms, _, err = ss.Scan() {
					offsets = append(offsets, ms.Offset())
				}
			}
			tail := offsets
			if len(tail) > 6 {
				tail = tail[len(tail)-6:]
			}
			t.Fatalf("round %d: %d of %d appends expecting offset %d succeeded; last offsets in the log: %v",
				r, wins, racers, expected, tail)
		}
	}
}
