package server

import (
	"context"
	"testing"
	"time"

	lift "github.com/liftbridge-io/go-liftbridge/v2"
	natsdTest "github.com/nats-io/nats-server/v2/test"
	"github.com/nats-io/nats.go"
	"github.com/stretchr/testify/require"
)

// A payload published straight to the stream's NATS subject that is not a Liftbridge envelope is stored verbatim as an
// opaque message value (documentation: "Liftbridge streams attach to NATS subjects"). That must hold on a stream with
// optimistic concurrency control too: a raw payload cannot carry an expected offset, so it cannot claim one.
func TestF67RawPayloadsOnConcurrencyControlledStream(t *testing.T) {
	defer cleanupStorage(t)
	ns := natsdTest.RunDefaultServer()
	defer ns.Shutdown()
	s1Config := getTestConfig("a", true, 5050)
	s1Config.EmbeddedNATS = false
	s1 := runServerWithConfig(t, s1Config)
	defer s1.Stop()
	getMetadataLeader(t, 10*time.Second, s1)

	client, err := lift.Connect([]string{"localhost:5050"})
	require.NoError(t, err)
	defer client.Close()
	require.NoError(t, client.CreateStream(context.Background(), "foo", "foo", lift.OptimisticConcurrencyControl(true)))

	nc, err := nats.Connect(nats.DefaultURL)
	require.NoError(t, err)
	defer nc.Close()
	payloads := []string{"raw-0", "raw-1", "raw-2"}
	for _, p := range payloads {
		require.NoError(t, nc.Publish("foo", []byte(p)))
	}
	require.NoError(t, nc.Flush())

	got := make(chan string, 10)
	ctx, cancel := context.WithCancel(context.Background())
	defer cancel()
	require.NoError(t, client.Subscribe(ctx, "foo", func(m *lift.Message, err error) {
		if err == nil {
			got <- string(m.Value())
		}
	}, lift.StartAtEarliestReceived()))
	for i, want := range payloads {
		select {
		case v := <-got:
			require.Equal(t, want, v, "message %d", i)
		case <-time.After(3 * time.Second):
			t.Fatalf("raw payload %d (%q) was never stored", i, want)
		}
	}
}
