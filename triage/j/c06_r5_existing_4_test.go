// package dir: server
//
// Existing defect C06/4: partitions and consumer groups added by
// Server.Restore are put in recovery mode (recovered=true, "deferred start")
// and rely on finishedRecovery() to be started. finishedRecovery() is only
// ever called from Apply when the entry being applied is the last one of a
// replayed range. When the snapshot covers the whole committed log (the split
// "snapshot = everything, replay = nothing") there is no such entry: Apply is
// not called at all until a new operation commits, and for that first new
// entry recoverLatestCommittedFSMLog returns nil (i == applyIndex ==
// commitIndex), so recovery is never "finished". The restarted server has the
// metadata but never reaches the state it had before: the partition it leads
// is never started, publishes to it time out, and this does not heal when
// further operations are applied. (The same applies to a running follower
// which is sent a snapshot by the leader: recoveryStarted is already true.)
//
// Uses a real single-node cluster (embedded NATS, port 5050) like
// TestFSMSnapshotRestore, which only checks that the streams are listed.
package server

import (
	"context"
	"testing"
	"time"

	lift "github.com/liftbridge-io/go-liftbridge/v2"
	"github.com/stretchr/testify/require"
)

func TestExistingC06_4_RestoredPartitionsNeverLeaveRecovery(t *testing.T) {
	defer cleanupStorage(t)

	s1Config := getTestConfig("a", true, 5050)
	s1 := runServerWithConfig(t, s1Config)
	defer s1.Stop()
	getMetadataLeader(t, 10*time.Second, s1)

	client, err := lift.Connect([]string{"localhost:5050"})
	require.NoError(t, err)
	defer client.Close()

	require.NoError(t, client.CreateStream(context.Background(), "foo", "foo"))

	// The stream works.
	ctx, cancel := context.WithTimeout(context.Background(), 10*time.Second)
	_, err = client.Publish(ctx, "foo", []byte("before"), lift.AckPolicyLeader())
	cancel()
	require.NoError(t, err)

	// Snapshot covering the whole log, then restart.
	require.NoError(t, s1.getRaft().Snapshot().Error())
	client.Close()
	s1.Stop()
	s1 = runServerWithConfig(t, s1.config)
	defer s1.Stop()
	getMetadataLeader(t, 10*time.Second, s1)
	waitForPartition(t, 10*time.Second, "foo", 0, s1)

	client, err = lift.Connect([]string{"localhost:5050"})
	require.NoError(t, err)
	defer client.Close()

	// Commit a new operation so that Apply runs on the restarted server.
	require.NoError(t, client.CreateStream(context.Background(), "bar", "bar"))
	waitForPartition(t, 10*time.Second, "bar", 0, s1)

	// The restored partition must be back in the state it had before the
	// restart: led by this server and accepting publishes.
	deadline := time.Now().Add(10 * time.Second)
	for time.Now().Before(deadline) && !s1.metadata.GetPartition("foo", 0).IsLeader() {
		time.Sleep(50 * time.Millisecond)
	}
	p := s1.metadata.GetPartition("foo", 0)
	p.mu.RLock()
	recovered, leading := p.recovered, p.isLeading
	p.mu.RUnlock()
	require.False(t, recovered, "partition restored from the snapshot is still in recovery mode")
	require.True(t, leading, "partition restored from the snapshot was never started")

	ctx, cancel = context.WithTimeout(context.Background(), 10*time.Second)
	defer cancel()
	_, err = client.Publish(ctx, "foo", []byte("after"), lift.AckPolicyLeader())
	require.NoError(t, err)
}
