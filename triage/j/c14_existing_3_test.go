// package dir: server
//
// Existing defect 3 (C14): the AckInbox of a publish envelope is used as the
// NATS subject of the ack without being looked at (partition.sendAck ->
// nats.Conn.Publish, which only refuses the empty subject). The NATS protocol
// is line based, so an AckInbox containing spaces or CR LF lets the sender of
// one payload on a stream's NATS subject write arbitrary protocol lines into
// the server's own "acks" connection:
//   - "x 0\r\n\r\nPUB victim 5\r\nhello\r\nPUB y" makes the Liftbridge server
//     itself publish "hello" to the subject "victim" (with the server's NATS
//     identity and permissions);
//   - "x\r\nBOGUS" makes the NATS server close the Liftbridge server's acks
//     connection for a protocol violation; acks published until the client has
//     reconnected are delayed or, if the buffer overflows, lost.
// The envelope is decoded exactly, but the server is made to do things nobody
// asked it for, i.e. it is "confused" by a payload.

package server

import (
	"context"
	"testing"
	"time"

	lift "github.com/liftbridge-io/go-liftbridge/v2"
	client "github.com/liftbridge-io/liftbridge-api/v2/go"
	"github.com/nats-io/nats.go"
	"github.com/stretchr/testify/require"

	proto "github.com/liftbridge-io/liftbridge/server/protocol"
)

func TestExistingC14_3_AckInboxProtocolInjection(t *testing.T) {
	defer cleanupStorage(t)

	s1Config := getTestConfig("a", true, 5050)
	s1 := runServerWithConfig(t, s1Config)
	defer s1.Stop()
	getMetadataLeader(t, 10*time.Second, s1)

	lc, err := lift.Connect([]string{"localhost:5050"})
	require.NoError(t, err)
	defer lc.Close()

	nc, err := nats.GetDefaultOptions().Connect()
	require.NoError(t, err)
	defer nc.Close()

	require.NoError(t, lc.CreateStream(context.Background(), "foo", "foo"))
	getPartitionLeader(t, 10*time.Second, "foo", 0, s1)

	// Somebody else's subject.
	victim, err := nc.SubscribeSync("victim.subject")
	require.NoError(t, err)
	require.NoError(t, nc.Flush())

	publish := func(ackInbox string) {
		envelope, err := proto.MarshalPublish(&client.Message{
			Value:     []byte("v"),
			AckInbox:  ackInbox,
			AckPolicy: client.AckPolicy_LEADER,
		})
		require.NoError(t, err)
		newest := s1.metadata.GetPartition("foo", 0).log.NewestOffset()
		require.NoError(t, nc.Publish("foo", envelope))
		require.NoError(t, nc.Flush())
		// Wait until the message has been processed (stored or refused).
		deadline := time.Now().Add(2 * time.Second)
		for s1.metadata.GetPartition("foo", 0).log.NewestOffset() == newest && time.Now().Before(deadline) {
			time.Sleep(5 * time.Millisecond)
		}
		time.Sleep(100 * time.Millisecond)
	}

	// 1. Smuggle a PUB to another subject into the server's acks connection.
	publish("x 0\r\n\r\nPUB victim.subject 5\r\nhello\r\nPUB y")
	if msg, err := victim.NextMsg(500 * time.Millisecond); err == nil {
		t.Errorf("the server published %q to %q on behalf of an AckInbox", msg.Data, msg.Subject)
	}

	// 2. Make the NATS server drop the Liftbridge server's acks connection.
	reconnects := s1.ncAcks.Stats().Reconnects
	publish("x\r\nBOGUS")
	deadline := time.Now().Add(time.Second)
	for s1.ncAcks.Stats().Reconnects == reconnects && time.Now().Before(deadline) {
		time.Sleep(10 * time.Millisecond)
	}
	require.Equal(t, reconnects, s1.ncAcks.Stats().Reconnects,
		"the server's acks connection was closed by NATS because of an AckInbox")
}
