// package dir: server
//
// Existing defect 1 (unchanged tree): a witness that reported the partition
// leader long ago is still counted towards the failover quorum as long as ANY
// replica (e.g. one other follower repeating its own report, which followers do
// on every fetch round once the leader timed out for them) keeps reporting at
// intervals shorter than ReplicaMaxLeaderTimeout. failoverStatus.report resets
// the single, shared expiry timer on every report and never looks at the age
// of the individual witnesses, so "reported within the timeout window" is not
// what is counted.
package server

import (
	"context"
	"testing"
	"time"

	"github.com/stretchr/testify/require"

	proto "github.com/liftbridge-io/liftbridge/server/protocol"
)

func existingC07Controller(t *testing.T, leaderTimeout time.Duration) *Server {
	cfg := getTestConfig("a", true, 0)
	cfg.Clustering.ReplicaMaxLeaderTimeout = leaderTimeout
	s := runServerWithConfig(t, cfg)
	getMetadataLeader(t, 10*time.Second, s)
	return s
}

// existingC07CreateStream commits a CREATE_STREAM operation for a stream with
// one partition whose replicas are brokers other than the (single-node)
// controller, so that the controller only keeps the metadata and no
// leader/follower loop interferes with the scripted reports.
func existingC07CreateStream(t *testing.T, s *Server, name string, replicas []string, leader string) *partition {
	op := &proto.RaftLog{
		Op: proto.Op_CREATE_STREAM,
		CreateStreamOp: &proto.CreateStreamOp{
			Stream: &proto.Stream{
				Name:    name,
				Subject: name,
				Partitions: []*proto.Partition{{
					Subject:           name,
					Stream:            name,
					Id:                0,
					ReplicationFactor: int32(len(replicas)),
					Replicas:          append([]string(nil), replicas...),
					Isr:               append([]string(nil), replicas...),
					Leader:            leader,
				}},
			},
		},
	}
	ctx, cancel := context.WithTimeout(context.Background(), 5*time.Second)
	defer cancel()
	future, err := s.getRaft().applyOperation(ctx, op, s.metadata.checkCreateStreamPreconditions)
	require.NoError(t, err)
	require.NoError(t, future.Error())
	p := s.metadata.GetPartition(name, 0)
	require.NotNil(t, p)
	return p
}

func existingC07Report(t *testing.T, s *Server, p *partition, replica string) {
	leader, epoch := p.GetLeader()
	st := s.metadata.ReportLeader(context.Background(), &proto.ReportLeaderOp{
		Stream:      p.Stream,
		Partition:   p.Id,
		Replica:     replica,
		Leader:      leader,
		LeaderEpoch: epoch,
	})
	if st != nil {
		t.Fatalf("report of leader %s by %s refused: %v", leader, replica, st.Err())
	}
}

// ISR = {b (leader), c, d, e, f}: four in-sync followers, so a failover needs
// three of them to have reported b within ReplicaMaxLeaderTimeout (400ms).
//
//	t=0        c reports b once (a blip; c never reports again)
//	t=0..2.4s  d repeats its report every 150ms (d really lost the leader)
//	t=2.4s     e reports b
//
// At t=2.4s only d and e (2 of 4 in-sync followers, not more than half) have
// reported b within the last 400ms; c's report is six timeouts old. The
// leader must not be replaced.
func TestExistingC07_1_StaleWitnessKeptAliveByRepeatedReports(t *testing.T) {
	defer cleanupStorage(t)
	const leaderTimeout = 400 * time.Millisecond
	s := existingC07Controller(t, leaderTimeout)
	defer s.Stop()

	p := existingC07CreateStream(t, s, "foo", []string{"b", "c", "d", "e", "f"}, "b")
	_, epoch := p.GetLeader()

	existingC07Report(t, s, p, "c")
	cReported := time.Now()

	for i := 0; i < 16; i++ {
		time.Sleep(150 * time.Millisecond)
		existingC07Report(t, s, p, "d")
		leader, _ := p.GetLeader()
		require.Equal(t, "b", leader, "two witnesses must not be enough")
	}

	age := time.Since(cReported)
	require.Greater(t, int64(age), int64(5*leaderTimeout))

	existingC07Report(t, s, p, "e")

	leader, newEpoch := p.GetLeader()
	if leader != "b" || newEpoch != epoch {
		t.Fatalf("leader b (epoch %d) was replaced by %s (epoch %d) although only d and e "+
			"(2 of 4 in-sync followers) reported it within ReplicaMaxLeaderTimeout=%s; "+
			"the third witness, c, reported %s ago",
			epoch, leader, newEpoch, leaderTimeout, age)
	}
}
