// package dir: server
//
// Existing defect 3 (minor, literal reading of the property's second
// sentence): a follower takes over the leader's high watermark from every
// replication response as is (partition.handleReplicationResponse ->
// SetHighWatermark(hw)), even if its own log ends before it. A follower that
// is catching up thus reports a HW for offsets it does not hold, so "any two
// replicas hold identical messages at every offset at or below both of their
// high watermarks" does not hold for it and the leader.
//
// This test FAILS on the unchanged tree. Run with:
//
//	unshare -n bash -c "ip link set lo up; go test -vet=off -count=1 -run 'TestExistingC02_3' ./server/"
package server

import (
	"context"
	"testing"
	"time"

	"github.com/stretchr/testify/require"

	lift "github.com/liftbridge-io/go-liftbridge/v2"
)

func TestExistingC02_3_FollowerHWBeyondItsLog(t *testing.T) {
	defer cleanupStorage(t)

	run := func(id string, bootstrap bool, port int) *Server {
		config := getTestConfig(id, bootstrap, port)
		config.Clustering.MinISR = 1
		config.Clustering.ReplicaMaxLagTime = 2 * time.Second
		config.Clustering.ReplicaMaxLeaderTimeout = time.Minute
		config.Clustering.ReplicaMaxIdleWait = 500 * time.Millisecond
		config.Clustering.ReplicaFetchTimeout = 500 * time.Millisecond
		// One small message per replication response.
		config.Clustering.ReplicationMaxBytes = 150
		return runServerWithConfig(t, config)
	}
	s1 := run("a", true, 5050)
	defer s1.Stop()
	s2 := run("b", false, 5051)
	defer s2.Stop()
	servers := []*Server{s1, s2}
	getMetadataLeader(t, 10*time.Second, servers...)

	client, err := lift.Connect([]string{"localhost:5050", "localhost:5051"})
	require.NoError(t, err)
	defer client.Close()

	name := "foo"
	ctx, cancel := context.WithTimeout(context.Background(), 5*time.Second)
	defer cancel()
	require.NoError(t, client.CreateStream(ctx, "foo", name, lift.ReplicationFactor(2)))
	waitForPartition(t, 10*time.Second, name, 0, servers...)

	publish := func(value string) {
		ctx, cancel := context.WithTimeout(context.Background(), 5*time.Second)
		defer cancel()
		_, err := client.Publish(ctx, name, []byte(value), lift.AckPolicyAll())
		require.NoError(t, err)
	}
	publish("m0")
	waitForHW(t, 5*time.Second, name, 0, 0, servers...)

	leader := getPartitionLeader(t, 10*time.Second, name, 0, servers...)
	follower := s1
	if leader == s1 {
		follower = s2
	}
	var (
		pl             = leader.metadata.GetPartition(name, 0)
		pf             = follower.metadata.GetPartition(name, 0)
		_, leaderEpoch = pl.GetLeader()
	)

	// The follower falls behind and leaves the ISR; the leader commits two
	// more messages on its own.
	stopFollowing(t, pf)
	waitForISR(t, 15*time.Second, name, 0, 1, servers...)
	publish("m1")
	publish("m2")
	require.Equal(t, int64(2), pl.log.HighWatermark())

	// The follower starts to catch up: one fetch, which carries m1 and the
	// leader's HW. The partition is marked as following again without
	// starting the fetch loop such that the test can step through the fetches
	// one at a time (responses are dropped while not following).
	setFollowing := func(following bool) {
		pf.mu.Lock()
		pf.isFollowing = following
		pf.mu.Unlock()
	}
	setFollowing(true)
	defer setFollowing(false)
	replicated, err := pf.sendReplicationRequest(leaderEpoch)
	require.NoError(t, err)
	require.Equal(t, 1, replicated)
	require.Equal(t, int64(1), pf.log.NewestOffset())

	// Both replicas hold the same message at every offset at or below both of
	// their high watermarks.
	hw := pl.log.HighWatermark()
	if fhw := pf.log.HighWatermark(); fhw < hw {
		hw = fhw
	}
	for offset := int64(0); offset <= hw; offset++ {
		require.True(t, offset <= pf.log.NewestOffset(),
			"offset %d is at or below the HW of the leader (%d) and of the follower (%d), "+
				"but the follower's log ends at offset %d",
			offset, pl.log.HighWatermark(), pf.log.HighWatermark(), pf.log.NewestOffset())
	}
}
