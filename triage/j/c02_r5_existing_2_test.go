// package dir: server
//
// Existing defect 2: the leader re-adds a replica to the ISR when the replica
// "was caught up at some point within the max lag time" (replicator.tick /
// replicator.caughtUp), without checking that the replica holds everything
// that has been committed since. Messages committed by the shrunken ISR in the
// window between the replica's last caught-up fetch and the ISR expansion are
// not on the replica when it joins the ISR. If the leader then fails, the
// replica is the election candidate and the committed, acked messages are
// gone.
//
// This test FAILS on the unchanged tree. Run with:
//
//	unshare -n bash -c "ip link set lo up; go test -vet=off -count=1 -run 'TestExistingC02_2' ./server/"
package server

import (
	"context"
	"testing"
	"time"

	natsdTest "github.com/nats-io/nats-server/v2/test"
	"github.com/stretchr/testify/require"

	lift "github.com/liftbridge-io/go-liftbridge/v2"
)

func TestExistingC02_2_ISRExpandWithoutCommittedMessages(t *testing.T) {
	defer cleanupStorage(t)

	// Use an external NATS server so it survives the leader.
	ns := natsdTest.RunDefaultServer()
	defer ns.Shutdown()

	byID := make(map[string]*Server)
	run := func(id string, bootstrap bool, port int) *Server {
		config := getTestConfig(id, bootstrap, port)
		config.EmbeddedNATS = false
		config.Clustering.MinISR = 1
		config.Clustering.ReplicaMaxLagTime = 2 * time.Second
		config.Clustering.ReplicaMaxLeaderTimeout = time.Second
		config.Clustering.ReplicaMaxIdleWait = 500 * time.Millisecond
		config.Clustering.ReplicaFetchTimeout = 500 * time.Millisecond
		s := runServerWithConfig(t, config)
		byID[id] = s
		return s
	}
	s1 := run("a", true, 5050)
	defer s1.Stop()
	s2 := run("b", false, 5051)
	defer s2.Stop()
	s3 := run("c", false, 5052)
	defer s3.Stop()
	servers := []*Server{s1, s2, s3}
	getMetadataLeader(t, 10*time.Second, servers...)

	client, err := lift.Connect([]string{"localhost:5050", "localhost:5051", "localhost:5052"})
	require.NoError(t, err)
	defer client.Close()

	// Two replicas; the third server only keeps the metadata quorum alive.
	name := "foo"
	ctx, cancel := context.WithTimeout(context.Background(), 5*time.Second)
	defer cancel()
	require.NoError(t, client.CreateStream(ctx, "foo", name, lift.ReplicationFactor(2)))
	waitForPartition(t, 10*time.Second, name, 0, servers...)

	leader := getPartitionLeader(t, 10*time.Second, name, 0, servers...)
	var follower *Server
	for _, id := range leader.metadata.GetPartition(name, 0).GetReplicas() {
		if id != leader.config.Clustering.ServerID {
			follower = byID[id]
		}
	}
	require.NotNil(t, follower)
	var (
		leaderID       = leader.config.Clustering.ServerID
		followerID     = follower.config.Clustering.ServerID
		pl             = leader.metadata.GetPartition(name, 0)
		pf             = follower.metadata.GetPartition(name, 0)
		_, leaderEpoch = pl.GetLeader()
	)

	// m0 is committed on both replicas.
	ctx, cancel = context.WithTimeout(context.Background(), 5*time.Second)
	defer cancel()
	_, err = client.Publish(ctx, name, []byte("m0"), lift.AckPolicyAll())
	require.NoError(t, err)
	waitForHW(t, 5*time.Second, name, 0, 0, leader, follower)

	// The follower is cut off from the leader and leaves the ISR.
	stopFollowing(t, pf)
	waitForISR(t, 15*time.Second, name, 0, 1, servers...)

	// A single fetch of the follower gets through. The follower has all of the
	// leader's log at this point, so the leader notes it as caught up.
	replicated, err := pf.sendReplicationRequest(leaderEpoch)
	require.NoError(t, err)
	require.Equal(t, 0, replicated)

	// m1 is published with AckPolicy ALL. The ISR is just the leader, so m1
	// is committed and acked right away.
	ctx, cancel = context.WithTimeout(context.Background(), 5*time.Second)
	defer cancel()
	ack, err := client.Publish(ctx, name, []byte("m1"), lift.AckPolicyAll())
	require.NoError(t, err)
	require.Equal(t, int64(1), ack.Offset())
	require.Equal(t, int64(1), pl.log.HighWatermark())

	// The leader puts the follower back into the ISR because it was caught up
	// less than the max lag time ago. The follower has not fetched since and
	// does not hold m1. (An implementation which only re-admits replicas that
	// hold everything committed never does this, in which case the follower
	// cannot be elected and there is nothing left to check.)
	expanded := false
	for deadline := time.Now().Add(3 * pl.srv.config.Clustering.ReplicaMaxLagTime); time.Now().Before(deadline); {
		if pl.inISR(followerID) {
			expanded = true
			break
		}
		time.Sleep(15 * time.Millisecond)
	}
	require.Equal(t, int64(0), pf.log.NewestOffset())
	if !expanded {
		return
	}
	waitForISR(t, 10*time.Second, name, 0, 2, servers...)

	// The leader fails before the follower fetches again. The follower's
	// connectivity is back: it resumes following, finds the leader gone,
	// reports it and, being the only other ISR member, is elected.
	leader.Stop()
	pf.mu.Lock()
	err = pf.becomeFollower()
	pf.mu.Unlock()
	require.NoError(t, err)

	deadline := time.Now().Add(30 * time.Second)
	for time.Now().Before(deadline) {
		if id, _ := pf.GetLeader(); id == followerID && pf.IsLeader() {
			break
		}
		time.Sleep(15 * time.Millisecond)
	}
	newLeaderID, _ := pf.GetLeader()
	require.Equal(t, followerID, newLeaderID, "the follower was not elected (old leader %s)", leaderID)
	require.True(t, pf.IsLeader())

	// m1 was committed and acked at offset 1, so the new leader has to serve
	// m1 at offset 1.
	require.True(t, pf.log.NewestOffset() >= 1,
		"the new leader's log ends at offset %d: committed message m1 at offset 1 is lost",
		pf.log.NewestOffset())
	reader, err := pf.log.NewReader(1, true)
	require.NoError(t, err)
	ctx, cancel = context.WithTimeout(context.Background(), 5*time.Second)
	defer cancel()
	msg, offset, _, _, err := reader.ReadMessage(ctx, make([]byte, 28))
	require.NoError(t, err)
	require.Equal(t, int64(1), offset)
	require.Equal(t, "m1", string(msg.Value()))
}
