// package dir: server
//
// Existing defect 1: consumer groups are told about a stream deletion from a
// goroutine (metadataAPI.streamDeleted). If the FSM applies the next group
// operation before that goroutine has run, consumerGroup.StreamDeleted refuses
// the notification as stale (epoch < c.epoch) and the error is dropped. Two
// servers that apply the very same Raft log then disagree on the assignments
// of the same group epoch, and one of them keeps a member subscribed to (and
// assigned partitions of) a stream that no longer exists.
package server

import (
	"fmt"
	"runtime"
	"sort"
	"testing"
	"time"

	"github.com/stretchr/testify/require"

	proto "github.com/liftbridge-io/liftbridge/server/protocol"
)

func existingC12e1Stream(name string, partitions int32) *proto.Stream {
	stream := &proto.Stream{Name: name, Subject: name}
	for i := int32(0); i < partitions; i++ {
		stream.Partitions = append(stream.Partitions, &proto.Partition{
			Stream:  name,
			Subject: name,
			Id:      i,
		})
	}
	return stream
}

// existingC12e1Log is the Raft log both servers apply, index 1..6.
func existingC12e1Log() []*proto.RaftLog {
	return []*proto.RaftLog{
		{Op: proto.Op_CREATE_STREAM, CreateStreamOp: &proto.CreateStreamOp{Stream: existingC12e1Stream("foo", 2)}},
		{Op: proto.Op_CREATE_STREAM, CreateStreamOp: &proto.CreateStreamOp{Stream: existingC12e1Stream("bar", 2)}},
		{Op: proto.Op_CREATE_CONSUMER_GROUP, CreateConsumerGroupOp: &proto.CreateConsumerGroupOp{
			ConsumerGroup: &proto.ConsumerGroup{
				Id: "g",
				// The coordinator is a third server so that no liveness
				// timers run on the servers under test.
				Coordinator: "z",
				Members:     []*proto.Consumer{{Id: "m1", Streams: []string{"bar", "foo"}}},
			}}},
		{Op: proto.Op_JOIN_CONSUMER_GROUP, JoinConsumerGroupOp: &proto.JoinConsumerGroupOp{
			GroupId: "g", ConsumerId: "m2", Streams: []string{"bar"}}},
		{Op: proto.Op_DELETE_STREAM, DeleteStreamOp: &proto.DeleteStreamOp{Stream: "foo"}},
		{Op: proto.Op_JOIN_CONSUMER_GROUP, JoinConsumerGroupOp: &proto.JoinConsumerGroupOp{
			GroupId: "g", ConsumerId: "m3", Streams: []string{"bar"}}},
	}
}

// existingC12e1Dump renders epoch, subscriptions and assignments of a group.
func existingC12e1Dump(g *consumerGroup) string {
	g.mu.RLock()
	defer g.mu.RUnlock()
	ids := make([]string, 0, len(g.members))
	for id := range g.members {
		ids = append(ids, id)
	}
	sort.Strings(ids)
	out := fmt.Sprintf("epoch=%d", g.epoch)
	for _, id := range ids {
		member := g.members[id]
		streams := make([]string, 0, len(member.streams))
		for stream := range member.streams {
			streams = append(streams, stream)
		}
		sort.Strings(streams)
		assigned := make([]string, 0, len(member.assignments))
		for stream, partitions := range member.assignments {
			assigned = append(assigned, fmt.Sprintf("%s%v", stream, partitions))
		}
		sort.Strings(assigned)
		out += fmt.Sprintf(" | %s subscribed=%v assigned=%v", id, streams, assigned)
	}
	return out
}

func existingC12e1Subscribed(g *consumerGroup, member, stream string) bool {
	g.mu.RLock()
	defer g.mu.RUnlock()
	_, ok := g.members[member].streams[stream]
	return ok
}

func TestExistingC12_1_StreamDeletedNotificationOvertaken(t *testing.T) {
	defer cleanupStorage(t)

	// One processor models a busy machine: the goroutine spawned for the
	// notification does not get to run before the FSM applies the next entry.
	defer runtime.GOMAXPROCS(runtime.GOMAXPROCS(1))

	ops := existingC12e1Log()

	// Server "a" applies the log with a pause after the deletion (think: the
	// next entry is committed a little later).
	a := New(getTestConfig("a", true, 0))
	defer a.metadata.Reset()
	for i, op := range ops {
		_, err := a.apply(op, uint64(i+1), false)
		require.NoError(t, err)
		if op.Op == proto.Op_DELETE_STREAM {
			group := a.metadata.GetConsumerGroup("g")
			deadline := time.Now().Add(10 * time.Second)
			for existingC12e1Subscribed(group, "m1", "foo") && time.Now().Before(deadline) {
				time.Sleep(time.Millisecond)
			}
			require.False(t, existingC12e1Subscribed(group, "m1", "foo"),
				"server a never processed the stream deletion")
		}
	}

	// Server "b" applies the same log back to back (think: a follower
	// catching up, or entries committed in one batch).
	b := New(getTestConfig("b", true, 0))
	defer b.metadata.Reset()
	for i, op := range ops {
		_, err := b.apply(op, uint64(i+1), false)
		require.NoError(t, err)
	}
	// Let every pending notification on b run to completion.
	b.goroutineWait.Wait()
	a.goroutineWait.Wait()

	groupA := a.metadata.GetConsumerGroup("g")
	groupB := b.metadata.GetConsumerGroup("g")
	dumpA, dumpB := existingC12e1Dump(groupA), existingC12e1Dump(groupB)
	t.Logf("server a: %s", dumpA)
	t.Logf("server b: %s", dumpB)

	// Same log, same group epoch, hence the same assignments.
	require.Equal(t, dumpA, dumpB,
		"servers which applied the same log disagree on the group's assignments")

	// And nobody may keep partitions of the deleted stream.
	for _, g := range []*consumerGroup{groupA, groupB} {
		g.mu.RLock()
		for id, member := range g.members {
			require.Empty(t, member.assignments["foo"],
				"member %s is still assigned partitions of the deleted stream foo", id)
		}
		g.mu.RUnlock()
	}
}
