// package dir: server
//
// Existing defect C10/2: on a log which retention has trimmed completely (the
// cleaner rolled the active segment on age and deleted every older segment, so
// only an empty active segment is left while newest offset and HW are >= 0), a
// forward subscription with a stop position that lies in the trimmed part
// (STOP_LATEST, or STOP_OFFSET <= newest offset) never ends: the range holds
// no retained message, but the subscription waits for the next publish.
package server

import (
	"context"
	"testing"
	"time"

	lift "github.com/liftbridge-io/go-liftbridge/v2"
	proto "github.com/liftbridge-io/liftbridge-api/v2/go"
	"github.com/stretchr/testify/require"
	"google.golang.org/grpc/status"
)

func existingC10e2Drain(sub *subscription, max int, timeout time.Duration) ([]int64, *status.Status) {
	var (
		offsets  []int64
		deadline = time.After(timeout)
	)
	for len(offsets) < max {
		select {
		case m := <-sub.Messages():
			offsets = append(offsets, m.Offset)
		case st := <-sub.Errors():
			return offsets, st
		case <-deadline:
			return offsets, nil
		}
	}
	return offsets, nil
}

func TestExistingC10_2_StopPositionOnLogTrimmedEmptyNeverEnds(t *testing.T) {
	defer cleanupStorage(t)

	// Segments are rolled and expire after half a second.
	config := getTestConfig("a", true, 5050)
	config.BatchMaxMessages = 1
	config.Streams.SegmentMaxAge = 500 * time.Millisecond
	config.Streams.RetentionMaxAge = 500 * time.Millisecond
	config.Streams.CleanerInterval = 200 * time.Millisecond
	s := runServerWithConfig(t, config)
	defer s.Stop()
	getMetadataLeader(t, 10*time.Second, s)

	client, err := lift.Connect([]string{"localhost:5050"})
	require.NoError(t, err)
	defer client.Close()

	stream := "foo"
	require.NoError(t, client.CreateStream(context.Background(), "foo", stream))
	for i := 0; i < 5; i++ {
		ctx, cancel := context.WithTimeout(context.Background(), 5*time.Second)
		_, err := client.Publish(ctx, stream, []byte{byte('0' + i)})
		cancel()
		require.NoError(t, err)
	}

	// Wait for the cleaner to roll the active segment and expire the rest.
	partition := s.metadata.GetPartition(stream, 0)
	deadline := time.Now().Add(15 * time.Second)
	for partition.log.OldestOffset() != -1 && time.Now().Before(deadline) {
		time.Sleep(50 * time.Millisecond)
	}
	require.Equal(t, int64(-1), partition.log.OldestOffset(), "log was not trimmed")
	require.Equal(t, int64(4), partition.log.NewestOffset())
	require.Equal(t, int64(4), partition.log.HighWatermark())

	for _, req := range []*proto.SubscribeRequest{
		{
			Stream:        stream,
			StartPosition: proto.StartPosition_EARLIEST,
			StopPosition:  proto.StopPosition_STOP_LATEST,
		},
		{
			Stream:        stream,
			StartPosition: proto.StartPosition_OFFSET,
			StartOffset:   1,
			StopPosition:  proto.StopPosition_STOP_OFFSET,
			StopOffset:    3,
		},
	} {
		ctx, cancel := context.WithCancel(context.Background())
		sub, err := s.api.SubscribeInternal(ctx, req)
		if err != nil {
			// Refusing the subscription with a status is a way of ending it.
			cancel()
			continue
		}
		offsets, st := existingC10e2Drain(sub, 100, 3*time.Second)
		sub.Close()
		cancel()
		require.Empty(t, offsets)
		require.NotNil(t, st,
			"subscription %s..%s over a range without retained messages did not end",
			req.StartPosition, req.StopPosition)
	}
}
