// package dir: server
//
// Existing defect C04/1 (unchanged tree): a publish to stream X with AckPolicy
// ALL is positively acknowledged through the Publish/PublishAsync API by the
// ack of a different stream Y attached to the same NATS subject, while X has
// neither committed the message nor a large enough ISR.
package server

import (
	"context"
	"testing"
	"time"

	lift "github.com/liftbridge-io/go-liftbridge/v2"
	"github.com/stretchr/testify/require"
)

func TestExistingC04_1_AckOfOtherStreamOnSameSubjectCompletesPublish(t *testing.T) {
	defer cleanupStorage(t)

	config := getTestConfig("a", true, 5050)
	s := runServerWithConfig(t, config)
	defer s.Stop()
	getMetadataLeader(t, 10*time.Second, s)

	client, err := lift.Connect([]string{"localhost:5050"})
	require.NoError(t, err)
	defer client.Close()

	// "strict" requires two in-sync replicas but only has one replica, so
	// nothing published to it with AckPolicy ALL can be committed or acked.
	ctx, cancel := context.WithTimeout(context.Background(), 5*time.Second)
	defer cancel()
	require.NoError(t, client.CreateStream(ctx, "foo", "strict", lift.MinISR(2)))
	// "other" is attached to the same NATS subject and commits right away.
	require.NoError(t, client.CreateStream(ctx, "foo", "other"))

	strict := s.metadata.GetPartition("strict", 0)
	require.NotNil(t, strict)
	require.Equal(t, 2, strict.minISR)
	require.Equal(t, 1, strict.ISRSize())

	// Publish to "strict" with AckPolicy ALL.
	pubCtx, pubCancel := context.WithTimeout(context.Background(), 2*time.Second)
	defer pubCancel()
	ack, err := client.Publish(pubCtx, "strict", []byte("hello"),
		lift.AckPolicyAll(), lift.CorrelationID("cid-1"))

	// The message reached the leader of "strict" but is not committed there.
	deadline := time.Now().Add(2 * time.Second)
	for strict.log.NewestOffset() != 0 && time.Now().Before(deadline) {
		time.Sleep(5 * time.Millisecond)
	}
	require.Equal(t, int64(0), strict.log.NewestOffset())
	require.Equal(t, int64(-1), strict.log.HighWatermark())

	if err == nil {
		require.NotNil(t, ack)
		if ack.Stream() != "strict" {
			t.Fatalf("publish to stream %q with AckPolicy ALL completed with a positive ack "+
				"(stream %q, offset %d, correlation id %q) although the ISR of %q has %d "+
				"member(s), its minimum is %d and its high watermark is %d",
				"strict", ack.Stream(), ack.Offset(), ack.CorrelationID(), "strict",
				strict.ISRSize(), strict.minISR, strict.log.HighWatermark())
		}
		t.Fatalf("stream strict acked a message with an ISR below the minimum")
	}
}
