// package dir: server/commitlog
package commitlog

import (
	"context"
	"testing"
	"time"

	"github.com/stretchr/testify/require"
)

// The timestamp of a message is whatever the caller stored (the property
// demands it is read back exactly), and 0 is what most of the package's own
// tests store. A segment uses firstWriteTime == 0 as "nothing written yet", so
// with a zero timestamp every later write to the segment is taken for the
// first one and overwrites the first offset of the segment: OldestOffset
// reports the offset of the last batch instead of the oldest retained message,
// until the next restart, after which it reports the right one.
func TestExistingC01_4_OldestOffsetWithZeroTimestamps(t *testing.T) {
	opts := Options{Path: tempDir(t), MaxSegmentBytes: 1024}
	l, cleanup := setupWithOptions(t, opts)
	defer cleanup()

	for i := 0; i < 3; i++ {
		offs, err := l.Append([]*Message{{Value: []byte("x")}})
		require.NoError(t, err)
		require.Equal(t, []int64{int64(i)}, offs)
	}

	// All three messages are retained and readable from offset 0.
	r, err := l.NewReader(0, true)
	require.NoError(t, err)
	ctx, cancel := context.WithTimeout(context.Background(), 3*time.Second)
	defer cancel()
	headers := make([]byte, 28)
	for want := int64(0); want < 3; want++ {
		_, offset, timestamp, _, err := r.ReadMessage(ctx, headers)
		require.NoError(t, err)
		require.Equal(t, want, offset)
		require.Equal(t, int64(0), timestamp)
	}

	require.Equal(t, int64(2), l.NewestOffset())
	require.Equal(t, int64(0), l.OldestOffset(),
		"OldestOffset must be the offset of the first retained message")
}
