// package dir: server
//
// Existing defect C06/1: a snapshot taken while the server is still replaying
// its Raft log records streams which the replay has already deleted (they are
// only tombstoned until the replay finishes) as ordinary live streams. A
// server restoring that snapshot brings the deleted stream back.
package server

import (
	"bytes"
	"io"
	"os"
	"path/filepath"
	"sort"
	"testing"

	"github.com/stretchr/testify/require"

	proto "github.com/liftbridge-io/liftbridge/server/protocol"
)

type existingC06k1Sink struct{ bytes.Buffer }

func (m *existingC06k1Sink) ID() string    { return "existingC06k1" }
func (m *existingC06k1Sink) Cancel() error { return nil }
func (m *existingC06k1Sink) Close() error  { return nil }

func existingC06k1Apply(t *testing.T, s *Server, op *proto.RaftLog, index uint64, recovered bool) {
	t.Helper()
	data, err := op.Marshal()
	require.NoError(t, err)
	cp := &proto.RaftLog{}
	require.NoError(t, cp.Unmarshal(data))
	_, err = s.apply(cp, index, recovered)
	require.NoError(t, err)
}

func existingC06k1Create(name string) *proto.RaftLog {
	return &proto.RaftLog{Op: proto.Op_CREATE_STREAM, CreateStreamOp: &proto.CreateStreamOp{
		Stream: &proto.Stream{
			Name:              name,
			Subject:           name,
			CreationTimestamp: 1,
			Partitions: []*proto.Partition{{
				Subject:  name,
				Stream:   name,
				Id:       0,
				Replicas: []string{"b", "c"},
				Isr:      []string{"b", "c"},
				Leader:   "b",
			}},
		},
	}}
}

func existingC06k1StreamNames(s *Server) []string {
	names := []string{}
	for _, st := range s.metadata.GetStreams() {
		names = append(names, st.GetName())
	}
	sort.Strings(names)
	return names
}

func TestExistingC06_1_SnapshotDuringReplayResurrectsDeletedStream(t *testing.T) {
	defer cleanupStorage(t)

	// Committed log: 1 create foo; 2 create bar; 3 delete foo; 4 create baz.
	log := map[uint64]*proto.RaftLog{
		1: existingC06k1Create("foo"),
		2: existingC06k1Create("bar"),
		3: {Op: proto.Op_DELETE_STREAM, DeleteStreamOp: &proto.DeleteStreamOp{Stream: "foo"}},
		4: existingC06k1Create("baz"),
	}

	// A server restarts and replays the log (entries 1..4 are "recovered").
	// It is never started and is not a replica, so no NATS or Raft is needed.
	s := New(getTestConfig("a", true, 0))
	defer s.metadata.Reset()
	existingC06k1Apply(t, s, log[1], 1, true)
	existingC06k1Apply(t, s, log[2], 2, true)
	existingC06k1Apply(t, s, log[3], 3, true)

	// Raft takes a snapshot between two applies, i.e. at index 3, and
	// persists it.
	snap, err := s.Snapshot()
	require.NoError(t, err)
	sink := &existingC06k1Sink{}
	require.NoError(t, snap.Persist(sink))

	// The replay finishes.
	existingC06k1Apply(t, s, log[4], 4, true)
	_, _, err = s.finishedRecovery(4)
	require.NoError(t, err)
	require.Equal(t, []string{"bar", "baz"}, existingC06k1StreamNames(s))

	// The server restarts once more (same data directory), now from the
	// snapshot at index 3 plus entry 4.
	require.NoError(t, s.metadata.Reset())
	again := New(getTestConfig("a", true, 0))
	defer again.metadata.Reset()
	require.NoError(t, again.Restore(io.NopCloser(bytes.NewReader(sink.Bytes()))))
	existingC06k1Apply(t, again, log[4], 4, true)
	_, _, err = again.finishedRecovery(4)
	require.NoError(t, err)

	// foo was deleted at index 3, which the snapshot covers. It must not be
	// back, neither in the metadata nor on disk.
	require.Equal(t, []string{"bar", "baz"}, existingC06k1StreamNames(again),
		"stream deleted at index 3 came back from the snapshot taken at index 3")
	_, err = os.Stat(filepath.Join(again.config.DataDir, "streams", "foo"))
	require.True(t, os.IsNotExist(err), "data directory of the deleted stream exists again")
}
