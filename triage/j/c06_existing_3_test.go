// package dir: server
//
// Existing defect C06/3: Restore drops every stream the snapshot does not
// contain from the metadata but leaves its data on disk (metadataAPI.Reset
// only closes the streams). A follower that learns of a stream deletion
// through a snapshot installed by the leader, rather than through the
// DELETE_STREAM entry, therefore keeps <data>/streams/<name>, and when a
// stream of that name is created again the messages of the deleted stream are
// back.
package server

import (
	"bytes"
	"io"
	"os"
	"path/filepath"
	"testing"

	"github.com/stretchr/testify/require"

	"github.com/liftbridge-io/liftbridge/server/commitlog"
	proto "github.com/liftbridge-io/liftbridge/server/protocol"
)

type existingC06k3Sink struct{ bytes.Buffer }

func (m *existingC06k3Sink) ID() string    { return "existingC06k3" }
func (m *existingC06k3Sink) Cancel() error { return nil }
func (m *existingC06k3Sink) Close() error  { return nil }

func existingC06k3Apply(t *testing.T, s *Server, op *proto.RaftLog, index uint64, recovered bool) {
	t.Helper()
	data, err := op.Marshal()
	require.NoError(t, err)
	cp := &proto.RaftLog{}
	require.NoError(t, cp.Unmarshal(data))
	_, err = s.apply(cp, index, recovered)
	require.NoError(t, err)
}

func existingC06k3Create(name string) *proto.RaftLog {
	return &proto.RaftLog{Op: proto.Op_CREATE_STREAM, CreateStreamOp: &proto.CreateStreamOp{
		Stream: &proto.Stream{
			Name:              name,
			Subject:           name,
			CreationTimestamp: 1,
			Partitions: []*proto.Partition{{
				Subject:  name,
				Stream:   name,
				Id:       0,
				Replicas: []string{"b", "a"},
				Isr:      []string{"b", "a"},
				Leader:   "b",
			}},
		},
	}}
}

func TestExistingC06_3_InstalledSnapshotLeavesDeletedStreamDataWhichComesBack(t *testing.T) {
	defer cleanupStorage(t)

	// Committed log: 1 create foo; 2 create bar; 3 delete foo; 4 create foo.
	log := map[uint64]*proto.RaftLog{
		1: existingC06k3Create("foo"),
		2: existingC06k3Create("bar"),
		3: {Op: proto.Op_DELETE_STREAM, DeleteStreamOp: &proto.DeleteStreamOp{Stream: "foo"}},
		4: existingC06k3Create("foo"),
	}

	// Any server that applied 1..3 (here z, which replicates nothing and
	// stands in for the leader) compacts its log into a snapshot at index 3,
	// which does not contain foo.
	leader := New(getTestConfig("z", true, 0))
	defer leader.metadata.Reset()
	for i := uint64(1); i <= 3; i++ {
		existingC06k3Apply(t, leader, log[i], i, false)
	}
	snap, err := leader.Snapshot()
	require.NoError(t, err)
	sink := &existingC06k3Sink{}
	require.NoError(t, snap.Persist(sink))

	// Follower a applied 1..2 and holds two replicated messages of foo. (The
	// entries are applied as recovered so the partitions, which a replicates,
	// are not started: no NATS or Raft is needed.)
	follower := New(getTestConfig("a", true, 0))
	defer follower.metadata.Reset()
	existingC06k3Apply(t, follower, log[1], 1, true)
	existingC06k3Apply(t, follower, log[2], 2, true)
	foo := follower.metadata.GetPartition("foo", 0)
	require.NotNil(t, foo)
	_, err = foo.log.Append([]*commitlog.Message{
		{Value: []byte("old-0"), Timestamp: 1},
		{Value: []byte("old-1"), Timestamp: 2},
	})
	require.NoError(t, err)
	require.Equal(t, int64(1), foo.log.NewestOffset())

	// It fell behind, so the leader sends it the snapshot instead of entry 3.
	require.NoError(t, follower.Restore(io.NopCloser(bytes.NewReader(sink.Bytes()))))
	require.Nil(t, follower.metadata.GetStream("foo"))

	// foo was deleted at index 3, which the snapshot covers: its data must be
	// gone from the follower like it is gone from the leader.
	_, err = os.Stat(filepath.Join(leader.config.DataDir, "streams", "foo"))
	require.True(t, os.IsNotExist(err))
	_, statErr := os.Stat(filepath.Join(follower.config.DataDir, "streams", "foo"))

	// foo is created again at index 4. The new stream must be empty.
	existingC06k3Apply(t, follower, log[4], 4, true)
	foo = follower.metadata.GetPartition("foo", 0)
	require.NotNil(t, foo)
	require.Equal(t, int64(-1), foo.log.NewestOffset(),
		"the recreated stream contains the messages of the stream deleted at index 3")
	require.True(t, os.IsNotExist(statErr),
		"data directory of the deleted stream survived the snapshot restore")
}
