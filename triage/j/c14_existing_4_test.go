// package dir: server
//
// Existing defect 4 (C14, borderline: the offending bytes are the NATS reply
// subject of the published message rather than its payload): a message
// published to a stream's NATS subject with a reply subject that is not valid
// UTF-8 is written to the log, but it can never be delivered: the subscribe
// loop copies the stored "reply" header into the string field
// Message.ReplySubject, gRPC refuses to marshal it and the subscription is
// terminated with codes.Internal. Every subscription which has to pass that
// offset ends there, so the opaque value that was stored - and everything
// behind it for a subscriber that starts in front of it - is unreadable.

package server

import (
	"context"
	"testing"
	"time"

	lift "github.com/liftbridge-io/go-liftbridge/v2"
	"github.com/nats-io/nats.go"
	"github.com/stretchr/testify/require"
)

func TestExistingC14_4_NonUTF8ReplySubjectPoisonsPartition(t *testing.T) {
	defer cleanupStorage(t)

	s1Config := getTestConfig("a", true, 5050)
	s1 := runServerWithConfig(t, s1Config)
	defer s1.Stop()
	getMetadataLeader(t, 10*time.Second, s1)

	lc, err := lift.Connect([]string{"localhost:5050"})
	require.NoError(t, err)
	defer lc.Close()

	nc, err := nats.GetDefaultOptions().Connect()
	require.NoError(t, err)
	defer nc.Close()

	require.NoError(t, lc.CreateStream(context.Background(), "foo", "foo"))
	getPartitionLeader(t, 10*time.Second, "foo", 0, s1)

	// Three opaque payloads; the second one is published with a reply subject
	// that is a legal NATS subject (no whitespace, no empty token) but not
	// valid UTF-8.
	require.NoError(t, nc.Publish("foo", []byte("first")))
	require.NoError(t, nc.PublishRequest("foo", "re\xffply", []byte("second")))
	require.NoError(t, nc.Publish("foo", []byte("third")))
	require.NoError(t, nc.Flush())

	partition := s1.metadata.GetPartition("foo", 0)
	require.NotNil(t, partition)
	deadline := time.Now().Add(5 * time.Second)
	for partition.log.NewestOffset() < 2 && time.Now().Before(deadline) {
		time.Sleep(5 * time.Millisecond)
	}
	require.Equal(t, int64(2), partition.log.NewestOffset(), "all three payloads are stored")

	type delivery struct {
		value string
		err   error
	}
	var (
		ctx, cancel = context.WithCancel(context.Background())
		deliveries  = make(chan delivery, 10)
	)
	defer cancel()
	err = lc.Subscribe(ctx, "foo", func(msg *lift.Message, err error) {
		if err != nil {
			deliveries <- delivery{err: err}
			return
		}
		deliveries <- delivery{value: string(msg.Value())}
	}, lift.StartAtEarliestReceived())
	require.NoError(t, err)

	for _, expected := range []string{"first", "second", "third"} {
		select {
		case d := <-deliveries:
			require.NoError(t, d.err, "subscription ended instead of delivering %q", expected)
			require.Equal(t, expected, d.value)
		case <-time.After(5 * time.Second):
			t.Fatalf("did not receive %q", expected)
		}
	}
}
