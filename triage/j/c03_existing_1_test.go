// package dir: server/commitlog
package commitlog

import (
	"context"
	"strconv"
	"testing"
	"time"

	"github.com/stretchr/testify/require"
)

// TestExistingC03_1_ReaderStallsWhenLogCatchesUpToHW: the HW is ahead of the
// log end (a replica that is catching up adopts the leader's HW before it has
// the data, see handleReplicationResponse which sets the HW and then appends).
// A committed reader that has read the whole log parks in waitForHW. The
// messages appended afterwards are at or below the HW, i.e. already
// committed, but nothing wakes the reader: it only wakes on the next HW
// *change*. If the leader is idle the subscriber never receives them.
func TestExistingC03_1_ReaderStallsWhenLogCatchesUpToHW(t *testing.T) {
	l, cleanup := setupWithOptions(t, Options{Path: tempDir(t), MaxSegmentBytes: 1024})
	defer l.Close()
	defer cleanup()

	mk := func(from, n int) []*Message {
		msgs := make([]*Message, n)
		for i := range msgs {
			msgs[i] = &Message{Value: []byte(strconv.Itoa(from + i)), Timestamp: int64(from + i + 1), LeaderEpoch: 1}
		}
		return msgs
	}

	_, err := l.Append(mk(0, 5)) // offsets 0..4
	require.NoError(t, err)
	l.SetHighWatermark(9) // leader's HW, ahead of this log

	r, err := l.NewReader(0, false)
	require.NoError(t, err)
	headers := make([]byte, 28)
	for i := int64(0); i < 5; i++ {
		_, offset, _, _, err := r.ReadMessage(context.Background(), headers)
		require.NoError(t, err)
		require.Equal(t, i, offset)
	}

	type result struct {
		offset int64
		err    error
	}
	resC := make(chan result, 1)
	go func() {
		ctx, cancel := context.WithTimeout(context.Background(), 3*time.Second)
		defer cancel()
		_, offset, _, _, err := r.ReadMessage(ctx, make([]byte, 28))
		resC <- result{offset, err}
	}()

	// Let the reader park, then let the log catch up to the HW.
	time.Sleep(100 * time.Millisecond)
	_, err = l.Append(mk(5, 5)) // offsets 5..9, all <= HW
	require.NoError(t, err)
	require.Equal(t, int64(9), l.HighWatermark())
	require.Equal(t, int64(9), l.NewestOffset())

	res := <-resC
	require.NoError(t, res.err, "offsets 5..9 are covered by the HW (%d) but the reader was never woken", l.HighWatermark())
	require.Equal(t, int64(5), res.offset)
}
