// package dir: server/commitlog
package commitlog

import (
	"context"
	"fmt"
	"testing"
	"time"

	"github.com/stretchr/testify/require"
)

func existingC01_2Set(t *testing.T, first, count int64) []byte {
	t.Helper()
	msgs := make([]*Message, count)
	for i := range msgs {
		o := first + int64(i)
		msgs[i] = &Message{
			Value:       []byte(fmt.Sprintf("v%d", o)),
			Timestamp:   1000 + o,
			LeaderEpoch: 1,
		}
	}
	ms, _, err := newMessageSetFromProto(first, 0, msgs, false)
	require.NoError(t, err)
	return ms
}

// A follower learns the leader's high watermark from a replication response
// before it appends the data of that response (partition.go,
// handleReplicationResponse: SetHighWatermark, then AppendMessageSet). A
// committed reader created from offset 0 while the log is still empty but the
// HW is already known must still deliver the messages from offset 0 on. It
// starts at HW+1 instead and never delivers what is at or below that HW.
func TestExistingC01_2_CommittedReaderOnEmptyLogWithKnownHW(t *testing.T) {
	l, cleanup := setupWithOptions(t, Options{Path: tempDir(t), MaxSegmentBytes: 1024})
	defer cleanup()

	// HW of the leader arrives first.
	l.SetHighWatermark(5)
	require.Equal(t, int64(-1), l.NewestOffset())

	r, err := l.NewReader(0, false)
	require.NoError(t, err)

	// Then the data, and later a new HW.
	offs, err := l.AppendMessageSet(existingC01_2Set(t, 0, 8))
	require.NoError(t, err)
	require.Equal(t, []int64{0, 1, 2, 3, 4, 5, 6, 7}, offs)
	l.SetHighWatermark(7)

	ctx, cancel := context.WithTimeout(context.Background(), 3*time.Second)
	defer cancel()
	headers := make([]byte, 28)
	for want := int64(0); want <= 7; want++ {
		m, offset, _, _, err := r.ReadMessage(ctx, headers)
		require.NoError(t, err)
		require.Equal(t, want, offset,
			"reader started at offset 0 must return the retained, committed messages from 0 on")
		require.Equal(t, fmt.Sprintf("v%d", want), string(m.Value()))
	}
}
