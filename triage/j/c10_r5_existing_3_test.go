// package dir: server
//
// Existing defect 3: the stop offset -1 collides with the server's internal
// "no stop offset" sentinel (waitForNewMessages). A forward subscription with
// StopPosition STOP_OFFSET and StopOffset -1 is not refused like every other
// stop offset below the start offset is, but delivers the whole partition and
// then waits for new messages forever.
package server

import (
	"context"
	"testing"
	"time"

	proto "github.com/liftbridge-io/liftbridge-api/v2/go"
	"github.com/stretchr/testify/require"
	"google.golang.org/grpc/codes"

	"github.com/liftbridge-io/liftbridge/server/commitlog"
	"github.com/liftbridge-io/liftbridge/server/protocol"
)

func TestExistingC10_3_StopOffsetMinusOne(t *testing.T) {
	config := getTestConfig("a", true, 0)
	config.DataDir = t.TempDir()
	config.Streams.CleanerInterval = time.Hour
	config.Streams.RetentionMaxAge = 0
	server := New(config)
	stream, err := server.metadata.AddStream(&protocol.Stream{
		Name:       "foo",
		Subject:    "foo",
		Partitions: []*protocol.Partition{{Stream: "foo", Id: 0}},
	}, true, 0)
	require.NoError(t, err)
	defer stream.Close()
	p := stream.GetPartitions()[0]
	for i := 0; i < 5; i++ {
		_, err := p.log.Append([]*commitlog.Message{{
			Value:     []byte("value"),
			Timestamp: time.Now().UnixNano(),
		}})
		require.NoError(t, err)
	}
	p.log.SetHighWatermark(4)

	subscribe := func(stopOffset int64) ([]int64, *codes.Code) {
		ctx, cancel := context.WithCancel(context.Background())
		defer cancel()
		sub, st := p.Subscribe(ctx, &proto.SubscribeRequest{
			StartPosition: proto.StartPosition_OFFSET,
			StartOffset:   2,
			StopPosition:  proto.StopPosition_STOP_OFFSET,
			StopOffset:    stopOffset,
		})
		if st != nil {
			code := st.Code()
			return nil, &code
		}
		defer sub.Close()
		offsets := []int64{}
		for {
			select {
			case m := <-sub.Messages():
				offsets = append(offsets, m.Offset)
			case st := <-sub.Errors():
				code := st.Code()
				return offsets, &code
			case <-time.After(time.Second):
				// Still waiting for new messages.
				return offsets, nil
			}
		}
	}

	// Stop offsets below the start offset are refused...
	for _, stop := range []int64{1, 0, -2} {
		offsets, code := subscribe(stop)
		require.Empty(t, offsets, "stop offset %d", stop)
		require.NotNil(t, code, "stop offset %d", stop)
		require.Equal(t, codes.InvalidArgument, *code, "stop offset %d", stop)
	}

	// ...so -1 must be too, or at least deliver nothing and end: there is no
	// message in [2, -1].
	offsets, code := subscribe(-1)
	require.Empty(t, offsets, "subscription with stop offset -1 delivered messages past its stop offset")
	require.NotNil(t, code, "subscription with stop offset -1 did not end")
}
