// package dir: server/commitlog
package commitlog

import (
	"context"
	"testing"
	"time"

	"github.com/stretchr/testify/require"
)

// TestExistingC03_4_AppendRacesWithSetReadonly: Append checks IsReadonly()
// before it takes the log lock. If SetReadonly(true) runs in between, the
// committed readers parked at the end of the log are told that they reached
// the end of a readonly log (ErrCommitLogReadonly, which ends a subscription
// with "End of readonly partition"), and then the append goes through anyway.
// The message gets committed, but the subscribers positioned right before it
// have been ended by the log and never receive it.
//
// The test stops Append between the readonly check and the write using the
// package's timestamp hook, which CheckSplit calls when MaxSegmentAge is set.
func TestExistingC03_4_AppendRacesWithSetReadonly(t *testing.T) {
	realTimestamp := timestamp
	defer func() { timestamp = realTimestamp }()

	l, cleanup := setupWithOptions(t, Options{
		Path:            tempDir(t),
		MaxSegmentBytes: 1024,
		MaxSegmentAge:   time.Hour,
	})
	defer l.Close()
	defer cleanup()

	_, err := l.Append([]*Message{{Value: []byte("0"), Timestamp: realTimestamp(), LeaderEpoch: 1}})
	require.NoError(t, err)
	l.SetHighWatermark(0)

	r, err := l.NewReader(0, false)
	require.NoError(t, err)
	headers := make([]byte, 28)
	_, offset, _, _, err := r.ReadMessage(context.Background(), headers)
	require.NoError(t, err)
	require.Equal(t, int64(0), offset)

	// The subscriber now waits for offset 1.
	type result struct {
		offset int64
		err    error
	}
	resC := make(chan result, 1)
	go func() {
		ctx, cancel := context.WithTimeout(context.Background(), 5*time.Second)
		defer cancel()
		_, offset, _, _, err := r.ReadMessage(ctx, make([]byte, 28))
		resC <- result{offset, err}
	}()
	time.Sleep(100 * time.Millisecond)

	// Stop the next Append after its readonly check.
	var (
		reached = make(chan struct{})
		release = make(chan struct{})
	)
	timestamp = func() int64 {
		reached <- struct{}{}
		<-release
		return realTimestamp()
	}
	type appendResult struct {
		offsets []int64
		err     error
	}
	appC := make(chan appendResult, 1)
	go func() {
		offsets, err := l.Append([]*Message{{Value: []byte("1"), Timestamp: realTimestamp(), LeaderEpoch: 1}})
		appC <- appendResult{offsets, err}
	}()
	<-reached
	timestamp = realTimestamp

	l.SetReadonly(true)
	close(release)
	app := <-appC

	if app.err == nil {
		// The append was accepted, so the message is in the log and it gets
		// committed like any other.
		require.Equal(t, []int64{1}, app.offsets)
		l.SetHighWatermark(1)
	}

	res := <-resC
	if app.err == nil {
		require.NoError(t, res.err,
			"offset 1 was appended and the HW (%d) covers it, but the reader waiting for it was ended", l.HighWatermark())
		require.Equal(t, int64(1), res.offset)
	} else {
		// Rejecting the append is fine too, then the reader is at the end.
		require.Equal(t, ErrCommitLogReadonly, app.err)
		require.Equal(t, ErrCommitLogReadonly, res.err)
	}
}
