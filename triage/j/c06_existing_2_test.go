// package dir: server
//
// Existing defect C06/2: whether the deletion of a stream advances the epoch
// of a consumer group depends on a leftover of members that have already left
// the group (an empty entry in consumerGroup.subscribers), and that leftover
// is not part of a snapshot. A server which restarts from a snapshot taken
// after the member left therefore ends with a different group epoch than a
// server which applied the same log without restarting.
package server

import (
	"bytes"
	"fmt"
	"io"
	"sort"
	"strings"
	"testing"

	"github.com/stretchr/testify/require"

	proto "github.com/liftbridge-io/liftbridge/server/protocol"
)

type existingC06k2Sink struct{ bytes.Buffer }

func (m *existingC06k2Sink) ID() string    { return "existingC06k2" }
func (m *existingC06k2Sink) Cancel() error { return nil }
func (m *existingC06k2Sink) Close() error  { return nil }

// existingC06k2Apply applies a private copy of the operation and then waits
// for the consumer group notification that removeStream issues from a
// goroutine, so the asynchrony (a known issue) plays no role here.
func existingC06k2Apply(t *testing.T, s *Server, op *proto.RaftLog, index uint64, recovered bool) {
	t.Helper()
	data, err := op.Marshal()
	require.NoError(t, err)
	cp := &proto.RaftLog{}
	require.NoError(t, cp.Unmarshal(data))
	_, err = s.apply(cp, index, recovered)
	require.NoError(t, err)
	s.goroutineWait.Wait()
}

func existingC06k2Create(name string) *proto.RaftLog {
	return &proto.RaftLog{Op: proto.Op_CREATE_STREAM, CreateStreamOp: &proto.CreateStreamOp{
		Stream: &proto.Stream{
			Name:              name,
			Subject:           name,
			CreationTimestamp: 1,
			Partitions: []*proto.Partition{{
				Subject:  name,
				Stream:   name,
				Id:       0,
				Replicas: []string{"b", "c"},
				Isr:      []string{"b", "c"},
				Leader:   "b",
			}},
		},
	}}
}

func existingC06k2Groups(s *Server) string {
	var lines []string
	for _, g := range s.metadata.GetConsumerGroups() {
		coordinator, epoch := g.GetCoordinator()
		var members []string
		for id, streams := range g.GetMembers() {
			sort.Strings(streams)
			members = append(members, fmt.Sprintf("%s%v", id, streams))
		}
		sort.Strings(members)
		lines = append(lines, fmt.Sprintf("group=%s coordinator=%s epoch=%d members=%v",
			g.GetID(), coordinator, epoch, members))
	}
	sort.Strings(lines)
	return strings.Join(lines, "\n")
}

func TestExistingC06_2_GroupEpochAfterStreamDeleteDependsOnRestart(t *testing.T) {
	defer cleanupStorage(t)

	log := map[uint64]*proto.RaftLog{
		1: existingC06k2Create("foo"),
		2: existingC06k2Create("bar"),
		// Group g: c1 consumes foo.
		3: {Op: proto.Op_CREATE_CONSUMER_GROUP, CreateConsumerGroupOp: &proto.CreateConsumerGroupOp{
			ConsumerGroup: &proto.ConsumerGroup{Id: "g", Coordinator: "b",
				Members: []*proto.Consumer{{Id: "c1", Streams: []string{"foo"}}}}}},
		// c2 joins consuming bar, and leaves again.
		4: {Op: proto.Op_JOIN_CONSUMER_GROUP, JoinConsumerGroupOp: &proto.JoinConsumerGroupOp{
			GroupId: "g", ConsumerId: "c2", Streams: []string{"bar"}}},
		5: {Op: proto.Op_LEAVE_CONSUMER_GROUP, LeaveConsumerGroupOp: &proto.LeaveConsumerGroupOp{
			GroupId: "g", ConsumerId: "c2"}},
		// bar, which no member of g consumes any more, is deleted.
		6: {Op: proto.Op_DELETE_STREAM, DeleteStreamOp: &proto.DeleteStreamOp{Stream: "bar"}},
	}

	// Server 1 applies the whole log without restarting and takes a snapshot
	// at index 5. Neither server is started or a replica/coordinator, so no
	// NATS or Raft is needed.
	live := New(getTestConfig("a", true, 0))
	defer live.metadata.Reset()
	for i := uint64(1); i <= 5; i++ {
		existingC06k2Apply(t, live, log[i], i, false)
	}
	snap, err := live.Snapshot()
	require.NoError(t, err)
	sink := &existingC06k2Sink{}
	require.NoError(t, snap.Persist(sink))
	existingC06k2Apply(t, live, log[6], 6, false)

	// Server 2 restarts from the snapshot at index 5 and replays entry 6.
	restarted := New(getTestConfig("z", true, 0))
	defer restarted.metadata.Reset()
	require.NoError(t, restarted.Restore(io.NopCloser(bytes.NewReader(sink.Bytes()))))
	existingC06k2Apply(t, restarted, log[6], 6, true)
	_, _, err = restarted.finishedRecovery(6)
	require.NoError(t, err)
	restarted.goroutineWait.Wait()

	// Server 3 applies 1..6 live like server 1 and must agree with it (sanity
	// check of the harness).
	other := New(getTestConfig("y", true, 0))
	defer other.metadata.Reset()
	for i := uint64(1); i <= 6; i++ {
		existingC06k2Apply(t, other, log[i], i, false)
	}
	require.Equal(t, existingC06k2Groups(live), existingC06k2Groups(other))

	// Same committed sequence, same consumer group metadata (id, coordinator,
	// epoch, members).
	require.Equal(t, existingC06k2Groups(live), existingC06k2Groups(restarted),
		"consumer group state after snapshot restore + replay differs from the state of the server that never restarted")
}
