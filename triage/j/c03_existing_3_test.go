// package dir: server/commitlog
package commitlog

import (
	"context"
	"strconv"
	"strings"
	"sync/atomic"
	"testing"
	"time"

	"github.com/stretchr/testify/require"

	"github.com/liftbridge-io/liftbridge/server/logger"
)

// blockingLogger lets the test stop the cleaner at a log statement.
type blockingLogger struct {
	logger.Logger
	prefix  string
	armed   int32
	reached chan struct{}
	release chan struct{}
}

func (b *blockingLogger) Debugf(format string, v ...interface{}) {
	if strings.HasPrefix(format, b.prefix) && atomic.CompareAndSwapInt32(&b.armed, 1, 0) {
		b.reached <- struct{}{}
		<-b.release
	}
}

// TestExistingC03_3_ReaderFailsWhileCleanerHasNotSwappedSegments: Clean()
// deletes (or, with compaction, replaces) segments first and only afterwards
// swaps l.segments under the log lock. A committed reader positioned in one
// of those segments gets ErrSegmentReplaced from ReadAt and re-initialises
// itself with newReaderCommitted, which looks its offset up in l.Segments().
// Until the swap this is still the old list, so the lookup lands on a segment
// that is already closed, findEntry fails with ErrSegmentClosed and
// ReadMessage returns "failed to reinitialize reader". The subscription ends
// with an error although committed messages at and after the reader's
// position remain in the log.
func TestExistingC03_3_ReaderFailsWhileCleanerHasNotSwappedSegments(t *testing.T) {
	silent := logger.NewLogger(0)
	silent.Silent(true)
	bl := &blockingLogger{
		Logger:  silent,
		prefix:  "Finished cleaning log", // deleteCleaner.Clean, after the deletions
		armed:   1,
		reached: make(chan struct{}),
		release: make(chan struct{}),
	}
	l, cleanup := setupWithOptions(t, Options{
		Path:            tempDir(t),
		MaxSegmentBytes: 40, // A message is 45 bytes, so every message gets its own segment.
		MaxLogMessages:  3,
		Logger:          bl,
	})
	defer l.Close()
	defer cleanup()

	const numMsgs = 6
	for i := 0; i < numMsgs; i++ {
		_, err := l.Append([]*Message{{
			Value:       []byte(strconv.Itoa(i)),
			Timestamp:   int64(i + 1),
			LeaderEpoch: 1,
		}})
		require.NoError(t, err)
	}
	l.SetHighWatermark(numMsgs - 1)

	r, err := l.NewReader(0, false)
	require.NoError(t, err)
	headers := make([]byte, 28)
	_, offset, _, _, err := r.ReadMessage(context.Background(), headers)
	require.NoError(t, err)
	require.Equal(t, int64(0), offset)

	// Run the retention pass and stop it after it has deleted the segments
	// for offsets 0..2, before it swaps the segment list.
	cleanErr := make(chan error, 1)
	go func() { cleanErr <- l.Clean() }()
	select {
	case <-bl.reached:
	case <-time.After(10 * time.Second):
		t.Fatal("cleaner did not reach the log statement")
	}

	type result struct {
		offset int64
		err    error
	}
	resC := make(chan result, 1)
	go func() {
		ctx, cancel := context.WithTimeout(context.Background(), 10*time.Second)
		defer cancel()
		_, offset, _, _, err := r.ReadMessage(ctx, make([]byte, 28))
		resC <- result{offset, err}
	}()

	// Let the cleaner finish.
	time.Sleep(100 * time.Millisecond)
	close(bl.release)
	require.NoError(t, <-cleanErr)
	require.Equal(t, int64(3), l.OldestOffset())

	// Offsets 3..5 are committed, in the log, and after the reader's
	// position, so the reader has to get to them.
	res := <-resC
	require.NoError(t, res.err, "reader failed although committed messages remain ahead of it")
	require.Equal(t, int64(3), res.offset)
	for i := int64(4); i < numMsgs; i++ {
		_, offset, _, _, err := r.ReadMessage(context.Background(), headers)
		require.NoError(t, err)
		require.Equal(t, i, offset)
	}
}
