// package dir: server/commitlog
package commitlog

import (
	"context"
	"io"
	"testing"

	"github.com/stretchr/testify/require"
)

// TestExistingC08_2_ReverseReaderAcrossCleanWithRetention starts a reverse
// reader at the end of a compacted log with a retention limit, reads the
// newest message, lets a cleaning pass (retention, then compaction) run and
// reads on. The pass deletes all sealed segments, so the only surviving
// message is the one in the active segment, which the reader has returned
// already: the reader must report the end of the log (io.EOF), as a reverse
// reader started after the pass does, and as a forward reader in the same
// situation recovers (ErrSegmentReplaced -> reinitialize).
func TestExistingC08_2_ReverseReaderAcrossCleanWithRetention(t *testing.T) {
	l, cleanup := setupWithOptions(t, Options{
		Path:            tempDir(t),
		MaxSegmentBytes: 100,
		Compact:         true,
		MaxLogMessages:  1,
	})
	defer cleanup()

	for i, k := range []string{"a", "b", "c", "d", "e", "f", "g", "h", "i"} {
		_, err := l.Append([]*Message{{
			Key:       []byte(k),
			Value:     []byte("value"),
			Timestamp: int64(1000 + i),
		}})
		require.NoError(t, err)
	}
	// Two messages per segment: [0 1] [2 3] [4 5] [6 7] [8].
	require.Len(t, l.Segments(), 5)
	l.SetHighWatermark(8)

	r, err := l.NewReverseReaderFromEnd(true)
	require.NoError(t, err)
	headers := make([]byte, 28)
	_, offset, _, _, err := r.ReadMessage(context.Background(), headers)
	require.NoError(t, err)
	require.Equal(t, int64(8), offset)

	require.NoError(t, l.Clean())
	require.Len(t, l.Segments(), 1)
	require.Equal(t, int64(8), l.OldestOffset())

	// Nothing older than message 8 is left.
	_, offset, _, _, err = r.ReadMessage(context.Background(), headers)
	require.Equal(t, io.EOF, err,
		"reverse reader continued after the cleaning pass: offset %d, err %v", offset, err)

	// A reader started now sees message 8 and then the end of the log.
	r, err = l.NewReverseReaderFromEnd(true)
	require.NoError(t, err)
	_, offset, _, _, err = r.ReadMessage(context.Background(), headers)
	require.NoError(t, err)
	require.Equal(t, int64(8), offset)
	_, _, _, _, err = r.ReadMessage(context.Background(), headers)
	require.Equal(t, io.EOF, err)
}
