// package dir: server
//
// Existing defect 2 (C16): PublishToSubject cannot carry an expected offset
// (PublishToSubjectRequest has no such field), so such a publish can only mean
// "no expectation". apiServer.PublishToSubject nevertheless builds the
// client.Message without setting Offset, i.e. with expected offset 0 instead
// of -1. On a stream with optimistic concurrency control every
// PublishToSubject but the one which happens to land at offset 0 is rejected
// with INCORRECT_OFFSET and, since PublishToSubject (unlike Publish) does not
// turn the ack error into an RPC error, the publisher is handed an ack which
// looks like a success for offset 0.
package server

import (
	"context"
	"testing"
	"time"

	lift "github.com/liftbridge-io/go-liftbridge/v2"
	"github.com/stretchr/testify/require"
)

func TestExistingC16_2_PublishToSubjectWaivesTheCheck(t *testing.T) {
	defer cleanupStorage(t)

	s1Config := getTestConfig("a", true, 5050)
	s1 := runServerWithConfig(t, s1Config)
	defer s1.Stop()
	getMetadataLeader(t, 10*time.Second, s1)

	client, err := lift.Connect([]string{"localhost:5050"})
	require.NoError(t, err)
	defer client.Close()

	subject, stream := "foo", "foo-stream"
	require.NoError(t, client.CreateStream(context.Background(), subject, stream,
		lift.OptimisticConcurrencyControl(true)))

	// Three publishes to the subject of the stream, none of which states (or
	// can state) an expected offset.
	for i := int64(0); i < 3; i++ {
		ctx, cancel := context.WithTimeout(context.Background(), 5*time.Second)
		ack, err := client.PublishToSubject(ctx, subject, []byte("hello"), lift.AckPolicyLeader())
		cancel()
		require.NoError(t, err)
		require.NotNil(t, ack)

		// Every one of them must have been stored.
		meta, err := client.FetchPartitionMetadata(context.Background(), stream, 0)
		require.NoError(t, err)
		require.Equal(t, i, meta.NewestOffset(),
			"publish %d to the subject was acked (offset %d, no error) but the log did not grow", i, ack.Offset())
		require.Equal(t, i, ack.Offset())
	}
}
