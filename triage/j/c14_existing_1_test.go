// package dir: server
//
// Existing defect 1 (C14): a well-formed PropagatedRequest envelope for
// CREATE_STREAM whose payload is internally inconsistent (the stream is named
// after an existing stream while its first partition names another one) passes
// every check on the way in (envelope, validatePropagatedRequest,
// metadataAPI.CreateStream, checkCreateStreamPreconditions), is committed to
// the metadata Raft log and then makes FSM.Apply panic - on every server of the
// cluster, and again on every restart since the entry stays in the Raft log.
// The request is reachable by any NATS client: it only has to publish the
// bytes to the metadata leader's propagate inbox.

package server

import (
	"context"
	"os"
	"testing"
	"time"

	lift "github.com/liftbridge-io/go-liftbridge/v2"
	"github.com/hashicorp/raft"
	"github.com/nats-io/nats.go"
	"github.com/stretchr/testify/require"

	proto "github.com/liftbridge-io/liftbridge/server/protocol"
)

func existingC14_1Server(t *testing.T) (*Server, func()) {
	s1Config := getTestConfig("a", true, 5050)
	s1 := runServerWithConfig(t, s1Config)
	getMetadataLeader(t, 10*time.Second, s1)

	lc, err := lift.Connect([]string{"localhost:5050"})
	require.NoError(t, err)
	require.NoError(t, lc.CreateStream(context.Background(), "foo", "foo"))
	getPartitionLeader(t, 10*time.Second, "foo", 0, s1)
	return s1, func() {
		lc.Close()
		s1.Stop()
	}
}

// existingC14_1Payloads returns the bytes a NATS client publishes to the
// propagate inbox.
func existingC14_1Payloads(t *testing.T) map[string][]byte {
	payloads := map[string]*proto.CreateStreamOp{
		// Named after the existing stream "foo", but the first partition
		// (which is what the precondition looks at) names stream "bar".
		"name of existing stream, partition of another": {Stream: &proto.Stream{
			Name:    "foo",
			Subject: "foo",
			Partitions: []*proto.Partition{
				{Stream: "bar", Subject: "foo", Id: 0, ReplicationFactor: 1},
			},
		}},
		// (A new stream which lists the same partition id twice panics the FSM
		// in the same way - "partition 0 already exists for stream baz" - but
		// leaves the goroutines of the first copy running, which would make
		// this test hang in Server.Stop, so it is left out here.)
	}
	encoded := make(map[string][]byte, len(payloads))
	for name, op := range payloads {
		data, err := proto.MarshalPropagatedRequest(&proto.PropagatedRequest{
			Op:             proto.Op_CREATE_STREAM,
			CreateStreamOp: op,
		})
		require.NoError(t, err)
		encoded[name] = data
	}
	return encoded
}

// The request must either be refused before it is proposed to the Raft group or
// be harmless to apply. This test follows the request by hand through the very
// steps handlePropagatedRequest -> metadataAPI.CreateStream -> FSM.Apply take,
// so that the panic can be caught instead of killing the test binary.
func TestExistingC14_1_InconsistentPropagatedCreateStream(t *testing.T) {
	defer cleanupStorage(t)
	s1, stop := existingC14_1Server(t)
	defer stop()

	index := s1.getRaft().getCommitIndex()

	for name, data := range existingC14_1Payloads(t) {
		data := data
		t.Run(name, func(t *testing.T) {
			// handlePropagatedRequest
			req, err := proto.UnmarshalPropagatedRequest(data)
			require.NoError(t, err)
			if err := validatePropagatedRequest(req); err != nil {
				return // refused: fine
			}
			// metadataAPI.CreateStream (leader side)
			if len(req.CreateStreamOp.Stream.Partitions) == 0 {
				return
			}
			for _, partition := range req.CreateStreamOp.Stream.Partitions {
				replicas, st := s1.metadata.getPartitionReplicas(partition.ReplicationFactor)
				if st != nil {
					return // refused: fine
				}
				partition.Replicas = replicas
				partition.Isr = replicas
				partition.Leader = s1.metadata.selectPartitionLeader(replicas)
			}
			op := &proto.RaftLog{Op: proto.Op_CREATE_STREAM, CreateStreamOp: req.CreateStreamOp}
			if err := s1.metadata.checkCreateStreamPreconditions(op); err != nil {
				return // refused: fine
			}
			// The operation is now proposed and committed; every server
			// applies it.
			entry, err := op.Marshal()
			require.NoError(t, err)
			index++
			require.NotPanics(t, func() {
				s1.Apply(&raft.Log{Index: index, Term: 1, Type: raft.LogCommand, Data: entry})
			}, "applying a propagated CREATE_STREAM that passed every check panics the FSM")
		})
	}
}

// The same bytes sent the way an arbitrary NATS client would send them. This
// kills the test binary (panic in the Raft FSM goroutine: "failed to add stream
// to metadata store: stream already exists"), so it only runs on request:
//
//	C14_E2E_CRASH=1 go test -run TestExistingC14_1_E2E ./server/
func TestExistingC14_1_E2E_PropagateInboxPayloadKillsServer(t *testing.T) {
	if os.Getenv("C14_E2E_CRASH") == "" {
		t.Skip("set C14_E2E_CRASH=1 to run; the server panic ends the test binary")
	}
	defer cleanupStorage(t)
	s1, stop := existingC14_1Server(t)
	defer stop()

	nc, err := nats.GetDefaultOptions().Connect()
	require.NoError(t, err)
	defer nc.Close()

	for _, data := range existingC14_1Payloads(t) {
		_, err := nc.Request(s1.getPropagateInbox(), data, 5*time.Second)
		require.NoError(t, err, "no response from the metadata leader")
	}
	// Still alive.
	time.Sleep(time.Second)
	require.True(t, s1.IsRunning())
}
