// package dir: server/commitlog
package commitlog

import (
	"context"
	"fmt"
	"testing"
	"time"

	"github.com/stretchr/testify/require"
)

func existingC01_1Set(t *testing.T, first, count int64) []byte {
	t.Helper()
	msgs := make([]*Message, count)
	for i := range msgs {
		o := first + int64(i)
		msgs[i] = &Message{
			Value:       []byte(fmt.Sprintf("v%d", o)),
			Timestamp:   1000 + int64(i),
			LeaderEpoch: 1,
		}
	}
	ms, _, err := newMessageSetFromProto(first, 0, msgs, false)
	require.NoError(t, err)
	return ms
}

// A follower replicates message sets whose offsets skip ahead (the leader's
// log is compacted). Nothing bounds how far the offsets inside one follower
// segment are apart, but the index stores them as int32 relative to the base
// offset of the segment. Once a segment spans 2^31 offsets the index entries
// wrap around: readers can no longer be started at the retained offsets, and
// after a clean restart the log does not open at all.
func TestExistingC01_1_OffsetsMoreThanInt32ApartInOneSegment(t *testing.T) {
	opts := Options{Path: tempDir(t), MaxSegmentBytes: 1 << 20}
	l, cleanup := setupWithOptions(t, opts)
	defer cleanup()

	const far = int64(1) << 31

	offs, err := l.AppendMessageSet(existingC01_1Set(t, 0, 2))
	require.NoError(t, err)
	require.Equal(t, []int64{0, 1}, offs)
	offs, err = l.AppendMessageSet(existingC01_1Set(t, far, 2))
	require.NoError(t, err, "the log accepted the message set")
	require.Equal(t, []int64{far, far + 1}, offs)
	require.Equal(t, far+1, l.NewestOffset())

	retained := []int64{0, 1, far, far + 1}
	check := func(t *testing.T, stage string, l *commitLog) {
		for _, start := range []int64{0, 1, 2, far - 1, far, far + 1} {
			var expect []int64
			for _, o := range retained {
				if o >= start {
					expect = append(expect, o)
				}
			}
			name := fmt.Sprintf("%s: start=%d", stage, start)
			r, err := l.NewReader(start, true)
			require.NoError(t, err, name)
			ctx, cancel := context.WithTimeout(context.Background(), 3*time.Second)
			headers := make([]byte, 28)
			for _, want := range expect {
				m, offset, _, _, err := r.ReadMessage(ctx, headers)
				require.NoError(t, err, name)
				require.Equal(t, want, offset, name)
				require.Equal(t, fmt.Sprintf("v%d", want), string(m.Value()), name)
			}
			cancel()
		}
	}

	t.Run("readers", func(t *testing.T) { check(t, "fresh", l) })

	t.Run("restart", func(t *testing.T) {
		require.NoError(t, l.Close())
		reopened, err := New(opts)
		require.NoError(t, err, "the log cannot be opened again after a clean Close")
		l2 := reopened.(*commitLog)
		defer l2.Close()
		require.Equal(t, far+1, l2.NewestOffset())
		check(t, "after restart", l2)
	})
}
