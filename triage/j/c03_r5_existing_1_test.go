// package dir: server/commitlog
package commitlog

import (
	"context"
	"strconv"
	"testing"
	"time"

	"github.com/stretchr/testify/require"
)

// The HW of a log can be ahead of the log end: a follower adopts the leader's
// HW from a replication response before it appends the data of that response
// (partition.handleReplicationResponse calls SetHighWatermark and only then
// AppendMessageSet), and a follower that is catching up learns a HW far beyond
// what it holds. Followers serve committed readers (SubscribeRequest
// ReadISRReplica). Messages appended below such a HW are committed the moment
// they are written, so the property demands that committed readers positioned
// at or before them receive them.

func existingC03_1Messages(from, to int64) []*Message {
	msgs := []*Message{}
	for i := from; i <= to; i++ {
		msgs = append(msgs, &Message{Value: []byte(strconv.FormatInt(i, 10)), Timestamp: i + 1, LeaderEpoch: 1})
	}
	return msgs
}

type existingC03_1Result struct {
	offset int64
	err    error
}

func existingC03_1Read(r *Reader, timeout time.Duration) existingC03_1Result {
	ctx, cancel := context.WithTimeout(context.Background(), timeout)
	defer cancel()
	_, offset, _, _, err := r.ReadMessage(ctx, make([]byte, 28))
	return existingC03_1Result{offset, err}
}

// A reader which has consumed the whole log parks at the log end. The HW moves
// ahead of the log, then the messages it covers arrive. Nothing wakes the
// reader: appends do not notify HW waiters and the HW does not change anymore.
func TestExistingC03_1_ParkedReaderMissesAppendsBelowHW(t *testing.T) {
	l, cleanup := setupWithOptions(t, Options{Path: tempDir(t), MaxSegmentBytes: 1024})
	defer l.Close()
	defer cleanup()

	_, err := l.Append(existingC03_1Messages(0, 1))
	require.NoError(t, err)
	l.SetHighWatermark(1)
	r, err := l.NewReader(0, false)
	require.NoError(t, err)
	for i := int64(0); i <= 1; i++ {
		res := existingC03_1Read(r, 5*time.Second)
		require.NoError(t, res.err)
		require.Equal(t, i, res.offset)
	}

	results := make(chan existingC03_1Result, 1)
	go func() { results <- existingC03_1Read(r, 3*time.Second) }()
	// Let the reader park at the HW.
	time.Sleep(200 * time.Millisecond)

	// The leader's HW is 4. The data up to it arrives afterwards.
	l.SetHighWatermark(4)
	time.Sleep(200 * time.Millisecond)
	_, err = l.Append(existingC03_1Messages(2, 4))
	require.NoError(t, err)
	require.Equal(t, int64(4), l.HighWatermark())
	require.Equal(t, int64(4), l.NewestOffset())

	res := <-results
	require.NoError(t, res.err, "offsets 2..4 are in the log and covered by HW 4 but the parked reader is never handed offset 2")
	require.Equal(t, int64(2), res.offset)
}

// A reader waits on an empty log. The HW is set ahead of the (still empty)
// log. The reader wakes up, finds no segment holding its offset and fails with
// ErrSegmentNotFound instead of waiting for the data.
func TestExistingC03_1_WaitingReaderFailsWhenHWPassesEmptyLog(t *testing.T) {
	l, cleanup := setupWithOptions(t, Options{Path: tempDir(t), MaxSegmentBytes: 1024})
	defer l.Close()
	defer cleanup()

	r, err := l.NewReader(0, false)
	require.NoError(t, err)
	results := make(chan existingC03_1Result, 1)
	go func() { results <- existingC03_1Read(r, 3*time.Second) }()
	time.Sleep(200 * time.Millisecond)

	l.SetHighWatermark(4)
	time.Sleep(200 * time.Millisecond)
	_, err = l.Append(existingC03_1Messages(0, 4))
	require.NoError(t, err)

	res := <-results
	require.NoError(t, res.err, "reader at offset 0 must be handed offset 0 once it is in the log, HW is 4")
	require.Equal(t, int64(0), res.offset)
}

// A reader is started at offset 0 of an empty log whose HW is already ahead
// (a fresh follower after its first replication response). It treats the log
// like one emptied by retention and waits for HW+1, so offsets 0..4 are
// skipped although they are committed and the reader is positioned before
// them.
func TestExistingC03_1_NewReaderOnEmptyLogBehindHWSkips(t *testing.T) {
	l, cleanup := setupWithOptions(t, Options{Path: tempDir(t), MaxSegmentBytes: 1024})
	defer l.Close()
	defer cleanup()

	l.SetHighWatermark(4)
	r, err := l.NewReader(0, false)
	require.NoError(t, err)

	_, err = l.Append(existingC03_1Messages(0, 5))
	require.NoError(t, err)
	l.SetHighWatermark(5)

	res := existingC03_1Read(r, 3*time.Second)
	require.NoError(t, res.err)
	require.Equal(t, int64(0), res.offset, "reader started at offset 0 skipped committed messages")
}
