// package dir: server
//
// Existing defect C06/3: the partition assignments of a consumer group are a
// function of the ORDER in which the members were added (each join rebalances
// the joined streams using the assignment counts produced by the previous
// joins). Snapshot stores the members sorted by id and Restore adds them back
// in that order, so whenever members did not join in lexicographical order a
// server rebuilt from a snapshot hands out different assignments than it did
// before the restart, and than the servers which applied the log -- under the
// same group epoch.
package server

import (
	"bytes"
	"fmt"
	"io"
	"sort"
	"strings"
	"testing"

	"github.com/stretchr/testify/require"

	proto "github.com/liftbridge-io/liftbridge/server/protocol"
)

type existingC063Sink struct{ bytes.Buffer }

func (s *existingC063Sink) ID() string    { return "existingC06-3" }
func (s *existingC063Sink) Cancel() error { return nil }
func (s *existingC063Sink) Close() error  { return nil }

func existingC063Server(t *testing.T, dir string) *Server {
	config := getTestConfig("c06-observer", false, 0)
	config.DataDir = dir
	s := New(config)
	t.Cleanup(func() { s.metadata.Reset() })
	return s
}

func existingC063CreateOp(name string) *proto.RaftLog {
	return &proto.RaftLog{
		Op: proto.Op_CREATE_STREAM,
		CreateStreamOp: &proto.CreateStreamOp{
			Stream: &proto.Stream{
				Name:    name,
				Subject: name,
				Partitions: []*proto.Partition{{
					Subject:           name,
					Stream:            name,
					Id:                0,
					ReplicationFactor: 2,
					Replicas:          []string{"a", "b"},
					Isr:               []string{"a", "b"},
					Leader:            "a",
				}},
			},
		},
	}
}

// existingC063Assignments renders the group epoch and the partition
// assignments of every member of the group.
func existingC063Assignments(s *Server, groupID string) string {
	group := s.metadata.GetConsumerGroup(groupID)
	if group == nil {
		return "<no group>"
	}
	group.mu.RLock()
	defer group.mu.RUnlock()
	var sb strings.Builder
	fmt.Fprintf(&sb, "epoch=%d\n", group.epoch)
	ids := make([]string, 0, len(group.members))
	for id := range group.members {
		ids = append(ids, id)
	}
	sort.Strings(ids)
	for _, id := range ids {
		member := group.members[id]
		streams := make([]string, 0, len(member.assignments))
		for stream := range member.assignments {
			streams = append(streams, stream)
		}
		sort.Strings(streams)
		fmt.Fprintf(&sb, "member %s:", id)
		for _, stream := range streams {
			fmt.Fprintf(&sb, " %s=%v", stream, member.assignments[stream])
		}
		sb.WriteString("\n")
	}
	return sb.String()
}

func TestExistingC06_3_AssignmentsChangeWhenRebuiltFromSnapshot(t *testing.T) {
	dir := t.TempDir()
	history := []*proto.RaftLog{
		existingC063CreateOp("s1"),
		existingC063CreateOp("s2"),
		{
			// Consumer "b" is first.
			Op: proto.Op_CREATE_CONSUMER_GROUP,
			CreateConsumerGroupOp: &proto.CreateConsumerGroupOp{
				ConsumerGroup: &proto.ConsumerGroup{
					Id:          "g",
					Coordinator: "a",
					Members:     []*proto.Consumer{{Id: "b", Streams: []string{"s1", "s2"}}},
				},
			},
		},
		{
			// Consumer "a" joins second.
			Op: proto.Op_JOIN_CONSUMER_GROUP,
			JoinConsumerGroupOp: &proto.JoinConsumerGroupOp{
				GroupId: "g", ConsumerId: "a", Streams: []string{"s1", "s2"},
			},
		},
	}

	s1 := existingC063Server(t, dir)
	for i, op := range history {
		_, err := s1.apply(op, uint64(i+1), false)
		require.NoError(t, err)
	}
	before := existingC063Assignments(s1, "g")

	snap, err := s1.Snapshot()
	require.NoError(t, err)
	sink := &existingC063Sink{}
	require.NoError(t, snap.Persist(sink))
	require.NoError(t, s1.metadata.Reset())

	// Restart from the snapshot.
	s2 := existingC063Server(t, dir)
	require.NoError(t, s2.Restore(io.NopCloser(bytes.NewReader(sink.Bytes()))))
	_, _, err = s2.finishedRecovery(4)
	require.NoError(t, err)

	// A restart which replays the log instead reproduces the assignments.
	s3 := existingC063Server(t, t.TempDir())
	for i, op := range history {
		_, err := s3.apply(op, uint64(i+1), true)
		require.NoError(t, err)
	}
	_, _, err = s3.finishedRecovery(4)
	require.NoError(t, err)
	require.Equal(t, before, existingC063Assignments(s3, "g"))

	require.Equal(t, before, existingC063Assignments(s2, "g"),
		"the group rebuilt from the snapshot assigns partitions differently under the same epoch")
}
