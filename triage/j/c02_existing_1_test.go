// package dir: server
//
// Existing defect 1: a leader elected on an EMPTY log records its epoch with
// start offset -1 (commitLog.NewLeaderEpoch assigns NewestOffset()), and -1 is
// also the value leaderEpochCache.LastOffsetForLeaderEpoch returns for "the
// requested epoch is the current one". commitLog.LastOffsetForLeaderEpoch then
// answers a follower of the PREVIOUS epoch with the leader's log end offset
// instead of -1, so the old leader does not truncate the messages nobody
// replicated and keeps them below the high watermark.
package server

import (
	"context"
	"testing"
	"time"

	natsdTest "github.com/nats-io/nats-server/v2/test"
	"github.com/nats-io/nats.go"
	"github.com/stretchr/testify/require"

	lift "github.com/liftbridge-io/go-liftbridge/v2"
	proto "github.com/liftbridge-io/liftbridge/server/protocol"
)

// existingC02e1DumpLog returns the values stored in the partition's log by offset.
func existingC02e1DumpLog(t *testing.T, p *partition) map[int64]string {
	msgs := make(map[int64]string)
	newest := p.log.NewestOffset()
	if newest < 0 {
		return msgs
	}
	reader, err := p.log.NewReader(p.log.OldestOffset(), true)
	require.NoError(t, err)
	headersBuf := make([]byte, 28)
	for {
		ctx, cancel := context.WithTimeout(context.Background(), 2*time.Second)
		msg, offset, _, _, err := reader.ReadMessage(ctx, headersBuf)
		cancel()
		require.NoError(t, err)
		msgs[offset] = string(msg.Value())
		if offset >= newest {
			return msgs
		}
	}
}

// existingC02e1Elect runs a leader election for the partition with the given
// winner through the metadata leader, using the same Raft operation and the
// same preconditions as electNewPartitionLeader.
func existingC02e1Elect(t *testing.T, name string, winner string, servers ...*Server) {
	controller := getMetadataLeader(t, 15*time.Second, servers...)
	p := controller.metadata.GetPartition(name, 0)
	require.NotNil(t, p)
	oldLeader, epoch := p.GetLeader()
	op := &proto.RaftLog{
		Op: proto.Op_CHANGE_LEADER,
		ChangeLeaderOp: &proto.ChangeLeaderOp{
			Stream:    name,
			Partition: 0,
			Leader:    winner,
		},
	}
	ctx, cancel := context.WithTimeout(context.Background(), 5*time.Second)
	defer cancel()
	future, err := controller.getRaft().applyOperation(ctx, op,
		controller.metadata.checkChangeLeaderPreconditions(oldLeader, epoch))
	require.NoError(t, err)
	require.NoError(t, future.Error())
}

func existingC02e1WaitLeading(t *testing.T, name string, s *Server) {
	deadline := time.Now().Add(15 * time.Second)
	for time.Now().Before(deadline) {
		if p := s.metadata.GetPartition(name, 0); p != nil && p.IsLeader() {
			return
		}
		time.Sleep(15 * time.Millisecond)
	}
	stackFatalf(t, "server %s did not start leading", s.config.Clustering.ServerID)
}

// existingC02e1Publish publishes the values to the partition's NATS subject and
// waits until the given partition leader has written them to its log.
func existingC02e1Publish(t *testing.T, subject, name string, leader *Server, values ...string) {
	nc, err := nats.Connect(nats.DefaultURL)
	require.NoError(t, err)
	defer nc.Close()
	p := leader.metadata.GetPartition(name, 0)
	require.NotNil(t, p)
	for _, value := range values {
		next := p.log.NewestOffset() + 1
		require.NoError(t, nc.Publish(subject, []byte(value)))
		require.NoError(t, nc.Flush())
		deadline := time.Now().Add(10 * time.Second)
		for p.log.NewestOffset() < next && time.Now().Before(deadline) {
			time.Sleep(5 * time.Millisecond)
		}
		require.Equal(t, next, p.log.NewestOffset())
	}
}

func TestExistingC02_1_LeaderElectedOnEmptyLogAnswersLogEnd(t *testing.T) {
	defer cleanupStorage(t)

	// Use an external NATS server since servers are restarted.
	ns := natsdTest.RunDefaultServer()
	defer ns.Shutdown()

	configs := map[string]*Config{}
	for i, id := range []string{"a", "b", "c"} {
		config := getTestConfig(id, i == 0, 5050+i)
		config.EmbeddedNATS = false
		// Nothing in this test relies on timeouts: no replica is removed from
		// the ISR and no leader is reported while it runs.
		config.Clustering.ReplicaMaxLagTime = time.Minute
		config.Clustering.ReplicaMaxLeaderTimeout = time.Minute
		config.Clustering.ReplicaMaxIdleWait = 200 * time.Millisecond
		config.Clustering.ReplicaFetchTimeout = time.Second
		configs[id] = config
	}
	running := map[string]*Server{}
	for _, id := range []string{"a", "b", "c"} {
		running[id] = runServerWithConfig(t, configs[id])
	}
	defer func() {
		for _, s := range running {
			s.Stop()
		}
	}()
	all := func() []*Server {
		servers := []*Server{}
		for _, s := range running {
			servers = append(servers, s)
		}
		return servers
	}
	getMetadataLeader(t, 10*time.Second, all()...)

	name := "foo"
	client, err := lift.Connect([]string{"localhost:5050", "localhost:5051", "localhost:5052"})
	require.NoError(t, err)
	ctx, cancel := context.WithTimeout(context.Background(), 5*time.Second)
	defer cancel()
	require.NoError(t, client.CreateStream(ctx, "foo", name, lift.ReplicationFactor(3)))
	require.NoError(t, client.Close())
	waitForPartition(t, 5*time.Second, name, 0, all()...)
	oldLeader := getPartitionLeader(t, 10*time.Second, name, 0, all()...)
	oldLeaderID := oldLeader.config.Clustering.ServerID
	followerIDs := []string{}
	for _, id := range []string{"a", "b", "c"} {
		if id != oldLeaderID {
			followerIDs = append(followerIDs, id)
		}
	}
	newLeaderID, otherID := followerIDs[0], followerIDs[1]
	existingC02e1WaitLeading(t, name, oldLeader)

	// The first leader stops answering its followers, receives x0 and x1
	// which are never replicated, and dies.
	oldLeader.metadata.GetPartition(name, 0).pauseReplication()
	existingC02e1Publish(t, "foo", name, oldLeader, "x0", "x1")
	require.NoError(t, oldLeader.Stop())
	delete(running, oldLeaderID)

	// An in-sync follower is elected. Its log is empty.
	existingC02e1Elect(t, name, newLeaderID, all()...)
	existingC02e1WaitLeading(t, name, running[newLeaderID])
	require.Equal(t, int64(-1), running[newLeaderID].metadata.GetPartition(name, 0).log.NewestOffset())

	// It receives m0 and m1, which the other follower replicates.
	existingC02e1Publish(t, "foo", name, running[newLeaderID], "m0", "m1")

	// The old leader comes back and reconciles its log with the new leader.
	running[oldLeaderID] = runServerWithConfig(t, configs[oldLeaderID])
	getMetadataLeader(t, 15*time.Second, all()...)
	waitForPartition(t, 10*time.Second, name, 0, all()...)

	// Every replica is in the ISR, so m0 and m1 are committed once the old
	// leader reports offset 1.
	waitForHW(t, 20*time.Second, name, 0, 1, all()...)

	// Replicas must hold the same messages up to the high watermark.
	expected := map[int64]string{0: "m0", 1: "m1"}
	for _, id := range []string{newLeaderID, otherID, oldLeaderID} {
		p := running[id].metadata.GetPartition(name, 0)
		require.NotNil(t, p)
		stored := existingC02e1DumpLog(t, p)
		for offset := int64(0); offset <= 1; offset++ {
			if stored[offset] != expected[offset] {
				t.Errorf("replica %s (HW %d) stores %q at offset %d, the leader %s committed %q",
					id, p.log.HighWatermark(), stored[offset], offset, newLeaderID, expected[offset])
			}
		}
	}
}
