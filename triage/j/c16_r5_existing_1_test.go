// package dir: server
package server

import (
	"context"
	"testing"
	"time"

	lift "github.com/liftbridge-io/go-liftbridge/v2"
	proto "github.com/liftbridge-io/liftbridge-api/v2/go"
	"github.com/stretchr/testify/require"
	"google.golang.org/grpc"
)

// TestExistingC16_1_PublishWithoutDeadlineHidesRejection publishes with the
// synchronous Publish RPC to a stream with optimistic concurrency control
// using a stale expected offset and AckPolicy LEADER. The message is not
// stored, so the publisher has to get an incorrect-offset error. With a
// deadline on the call it does. Without a deadline, the server publishes the
// message fire-and-forget (apiServer.publish) and answers with an empty
// PublishResponse and no error, exactly like for a publish that was stored.
// This is the hole the server closes for AckPolicy NONE by refusing such
// publishes (ensurePublishPreconditions), but the call without a deadline goes
// through.
func TestExistingC16_1_PublishWithoutDeadlineHidesRejection(t *testing.T) {
	defer cleanupStorage(t)

	s1Config := getTestConfig("a", true, 5050)
	s1 := runServerWithConfig(t, s1Config)
	defer s1.Stop()

	getMetadataLeader(t, 10*time.Second, s1)

	client, err := lift.Connect([]string{"localhost:5050"})
	require.NoError(t, err)
	defer client.Close()

	stream := "foo"
	err = client.CreateStream(context.Background(), "foo", stream, lift.OptimisticConcurrencyControl(true))
	require.NoError(t, err)

	conn, err := grpc.Dial("localhost:5050", grpc.WithInsecure())
	require.NoError(t, err)
	defer conn.Close()
	apiClient := proto.NewAPIClient(conn)

	request := func(value string, expected int64) *proto.PublishRequest {
		return &proto.PublishRequest{
			Stream:         stream,
			Value:          []byte(value),
			AckPolicy:      proto.AckPolicy_LEADER,
			ExpectedOffset: expected,
		}
	}

	// The first message lands at offset 0.
	ctx, cancel := context.WithTimeout(context.Background(), 5*time.Second)
	defer cancel()
	resp, err := apiClient.Publish(ctx, request("first", 0))
	require.NoError(t, err)
	require.NotNil(t, resp.Ack)
	require.Equal(t, int64(0), resp.Ack.Offset)

	// Control: with a deadline, the stale expected offset is reported.
	ctx, cancel = context.WithTimeout(context.Background(), 5*time.Second)
	defer cancel()
	_, err = apiClient.Publish(ctx, request("stale with deadline", 0))
	require.Error(t, err)
	require.Contains(t, err.Error(), "incorrect expected offset")

	// Without a deadline, the same publish must be reported as rejected, too.
	resp, err = apiClient.Publish(context.Background(), request("stale without deadline", 0))

	// It was indeed not stored: the log still ends at offset 0.
	time.Sleep(500 * time.Millisecond)
	partition := s1.metadata.GetPartition(stream, 0)
	require.NotNil(t, partition)
	require.Equal(t, int64(0), partition.log.NewestOffset(),
		"publish with stale expected offset changed the log")

	require.Error(t, err,
		"publish expecting offset 0 was not stored (the log ends at offset 0) but the publisher "+
			"got no error, response: %+v", resp)
}
