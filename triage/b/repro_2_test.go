// Package dir: server/commitlog (package commitlog)
//
// Repro for item 2: commitLog.AppendMessageSet -> entriesForMessageSet walks
// the raw message-set bytes received from the partition leader over NATS and
// trusts every 28-byte header (in particular the int32 size field) without
// checking it against the remaining data. Truncated or garbage replication
// data therefore panics (slice bounds / index out of range) instead of
// returning an error.
//
// Run: go test -vet=off -count=1 -run 'TestTriageAppendMessageSet' ./server/commitlog/
package commitlog

import (
	"testing"

	"github.com/stretchr/testify/require"
)

func triageExact(b []byte) []byte {
	out := make([]byte, len(b))
	copy(out, b)
	return out[:len(out):len(out)]
}

func TestTriageAppendMessageSetMalformedNoPanic(t *testing.T) {
	// A well-formed message set holding two messages.
	good, entries, err := newMessageSetFromProto(0, 0, []*Message{
		{Value: []byte("hello"), Timestamp: 1, LeaderEpoch: 1},
		{Value: []byte("world"), Timestamp: 2, LeaderEpoch: 1},
	}, false)
	require.NoError(t, err)
	require.Len(t, entries, 2)
	firstLen := int(entries[0].Size) // header + payload of first message

	negSize := triageExact(good)
	copy(negSize[sizePos:], []byte{0xFF, 0xFF, 0xFF, 0xFF}) // size = -1

	hugeSize := triageExact(good)
	copy(hugeSize[sizePos:], []byte{0x7F, 0xFF, 0xFF, 0xFF}) // size = MaxInt32

	garbage := make([]byte, 64)
	for i := range garbage {
		garbage[i] = 0xAB
	}

	cases := []struct {
		name string
		data []byte
	}{
		// Last byte of the last message lost: size field > remaining bytes.
		{"truncated-last-payload-byte", triageExact(good[:len(good)-1])},
		// Cut in the middle of the second message's 28-byte header.
		{"truncated-in-second-header", triageExact(good[:firstLen+10])},
		// Cut right after the second header (payload entirely missing).
		{"truncated-after-second-header", triageExact(good[:firstLen+msgSetHeaderLen])},
		// First message's payload truncated.
		{"truncated-first-payload", triageExact(good[:msgSetHeaderLen+1])},
		// Negative size field.
		{"negative-size", negSize},
		// Size field far beyond the data.
		{"huge-size", hugeSize},
		// Pure garbage of plausible length.
		{"garbage", triageExact(garbage)},
		// Not even one full header (partition.go guards this for the follower
		// path, but AppendMessageSet itself must not panic either).
		{"short-header", triageExact(good[:msgSetHeaderLen])},
		{"one-byte", []byte{0x00}},
	}

	for _, tc := range cases {
		tc := tc
		t.Run(tc.name, func(t *testing.T) {
			l, cleanup := setupWithOptions(t, Options{Path: tempDir(t)})
			defer cleanup()

			var (
				appendErr error
				panicked  interface{}
			)
			func() {
				defer func() { panicked = recover() }()
				_, appendErr = l.AppendMessageSet(tc.data)
			}()
			if panicked != nil {
				t.Fatalf("AppendMessageSet(%d bytes) panicked: %v", len(tc.data), panicked)
			}
			require.Error(t, appendErr, "malformed message set must be rejected")
			// Nothing may have been written to the log.
			require.Equal(t, int64(-1), l.NewestOffset())
		})
	}

	// Sanity: the well-formed set is still accepted.
	l, cleanup := setupWithOptions(t, Options{Path: tempDir(t)})
	defer cleanup()
	offsets, err := l.AppendMessageSet(good)
	require.NoError(t, err)
	require.Equal(t, []int64{0, 1}, offsets)
}
