// Package dir: server/encryption (package encryption)
//
// Repro for item 4: LocalEncryptionHandler.Read / decryptData index and slice
// the stored (attacker- or corruption-controlled) bytes without any length
// check: encryptedData[0], encryptedData[1:keySize+1] and
// encryptedData[:nonceSize]. Empty, truncated or tampered stored values make
// the reader panic instead of returning an error.
//
// Run: go test -vet=off -count=1 -run 'TestTriageRead' ./server/encryption/
package encryption

import (
	"os"
	"testing"

	"github.com/stretchr/testify/require"
)

// exact returns a copy with cap == len so that reslicing past len cannot be
// silently satisfied by spare capacity.
func triageExact(b []byte) []byte {
	out := make([]byte, len(b))
	copy(out, b)
	return out[:len(out):len(out)]
}

func TestTriageReadTamperedNoPanic(t *testing.T) {
	os.Setenv("LIFTBRIDGE_ENCRYPTION_KEY", "+KbPeShVmYq3t6w9")
	h, err := NewLocalEncryptionHandler()
	require.NoError(t, err)

	sealed, err := h.Seal([]byte("hello world"))
	require.NoError(t, err)
	keyEnd := int(sealed[0]) + 1

	// Sanity: the untampered value decrypts.
	plain, err := h.Read(triageExact(sealed))
	require.NoError(t, err)
	require.Equal(t, []byte("hello world"), plain)

	bigKeySize := triageExact(sealed)
	bigKeySize[0] = 0xFF // key size byte larger than the remaining data

	cases := []struct {
		name string
		data []byte
	}{
		// encryptedData[0] on empty input.
		{"empty", []byte{}},
		{"nil", nil},
		// key size says 40, nothing follows.
		{"only-size-byte", []byte{40}},
		// key size byte tampered to exceed the value length.
		{"key-size-beyond-data", bigKeySize},
		// truncated inside the wrapped key.
		{"truncated-in-wrapped-key", triageExact(sealed[:keyEnd-3])},
		// wrapped key intact, ciphertext missing entirely (no nonce).
		{"no-ciphertext", triageExact(sealed[:keyEnd])},
		// wrapped key intact, ciphertext shorter than the GCM nonce.
		{"ciphertext-shorter-than-nonce", triageExact(sealed[:keyEnd+5])},
	}
	for _, tc := range cases {
		tc := tc
		t.Run(tc.name, func(t *testing.T) {
			var (
				out      []byte
				readErr  error
				panicked interface{}
			)
			func() {
				defer func() { panicked = recover() }()
				out, readErr = h.Read(tc.data)
			}()
			if panicked != nil {
				t.Fatalf("Read(% X) panicked: %v", tc.data, panicked)
			}
			require.Error(t, readErr, "tampered value must yield an error")
			require.Nil(t, out)
		})
	}
}
