// Package dir: server/protocol (package protocol)
//
// Repro for item 1: checkEnvelope trusts the attacker-chosen header length
// byte (data[5]) and slices data with it without validating it against
// len(data) or the minimum header size. Any NATS payload that starts with the
// envelope magic number can therefore crash the server with a slice-bounds
// panic instead of yielding an error.
//
// Run: go test -vet=off -count=1 -run 'TestTriageEnvelope' ./server/protocol/
package protocol

import (
	"fmt"
	"testing"
)

// triageCall invokes fn and converts a panic into a returned value so that
// every case can be reported.
func triageCall(fn func() error) (err error, panicked interface{}) {
	defer func() {
		if r := recover(); r != nil {
			panicked = r
		}
	}()
	return fn(), nil
}

func TestTriageEnvelopeHeaderLenNoPanic(t *testing.T) {
	// exact cap == len so that reslicing beyond len is not silently allowed
	// by spare capacity.
	mk := func(b ...byte) []byte {
		out := make([]byte, len(b))
		copy(out, b)
		return out[:len(out):len(out)]
	}
	cases := []struct {
		name string
		data []byte
	}{
		// headerLen (0xFF) > len(data) (8): data[headerLen:] out of range.
		{"headerLen-beyond-data", mk(0xB9, 0x0E, 0x43, 0xB4, 0x00, 0xFF, 0x00, 0x00)},
		// headerLen 9 > len(data) 8 (off by one).
		{"headerLen-off-by-one", mk(0xB9, 0x0E, 0x43, 0xB4, 0x00, 0x09, 0x00, 0x00)},
		// CRC flag set, headerLen == 12 as required, but only 8 bytes of data.
		{"crc-flag-truncated", mk(0xB9, 0x0E, 0x43, 0xB4, 0x00, 0x0C, 0x01, 0x00)},
		// CRC flag set, headerLen == 12, 11 bytes of data.
		{"crc-flag-truncated-11", mk(0xB9, 0x0E, 0x43, 0xB4, 0x00, 0x0C, 0x01, 0x00, 0x01, 0x02, 0x03)},
		// headerLen smaller than the fixed header (0): header bytes would be
		// interpreted as payload. Must be an error, never a panic.
		{"headerLen-zero", mk(0xB9, 0x0E, 0x43, 0xB4, 0x00, 0x00, 0x00, 0x00)},
		// CRC flag set and headerLen < 12.
		{"crc-flag-headerLen-8", mk(0xB9, 0x0E, 0x43, 0xB4, 0x00, 0x08, 0x01, 0x00, 0, 0, 0, 0)},
		{"crc-flag-headerLen-4", mk(0xB9, 0x0E, 0x43, 0xB4, 0x00, 0x04, 0x01, 0x00, 0, 0, 0, 0)},
	}
	for _, tc := range cases {
		tc := tc
		t.Run(tc.name, func(t *testing.T) {
			err, p := triageCall(func() error {
				_, err := UnmarshalPublish(tc.data)
				return err
			})
			if p != nil {
				t.Fatalf("UnmarshalPublish(% X) panicked: %v", tc.data, p)
			}
			if err == nil {
				t.Fatalf("UnmarshalPublish(% X): expected an error, got nil", tc.data)
			}
		})
	}
}

// Exhaustively walk every header-length / flag combination over a few data
// lengths for every exported decoder that goes through checkEnvelope. None may
// panic.
func TestTriageEnvelopeSweepNoPanic(t *testing.T) {
	decoders := map[string]func([]byte) error{
		"Publish":             func(b []byte) error { _, err := UnmarshalPublish(b); return err },
		"Ack":                 func(b []byte) error { _, err := UnmarshalAck(b); return err },
		"PropagatedRequest":   func(b []byte) error { _, err := UnmarshalPropagatedRequest(b); return err },
		"ReplicationRequest":  func(b []byte) error { _, err := UnmarshalReplicationRequest(b); return err },
		"ReplicationResponse": func(b []byte) error { _, _, _, err := UnmarshalReplicationResponse(b); return err },
	}
	types := map[string]byte{
		"Publish":             byte(msgTypePublish),
		"Ack":                 byte(msgTypeAck),
		"PropagatedRequest":   byte(msgTypePropagatedRequest),
		"ReplicationRequest":  byte(msgTypeReplicationRequest),
		"ReplicationResponse": byte(msgTypeReplicationResponse),
	}
	var failures []string
	for name, dec := range decoders {
		for _, n := range []int{8, 9, 11, 12, 13, 40} {
			for hl := 0; hl < 256; hl++ {
				for _, flags := range []byte{0, 1} {
					data := make([]byte, n)
					copy(data, envelopeMagicNumber)
					data[4] = envelopeProtoV0
					data[5] = byte(hl)
					data[6] = flags
					data[7] = types[name]
					data = data[:n:n]
					if _, p := triageCall(func() error { return dec(data) }); p != nil {
						failures = append(failures,
							fmt.Sprintf("%s len=%d headerLen=%d flags=%d: %v", name, n, hl, flags, p))
					}
				}
			}
		}
	}
	if len(failures) > 0 {
		t.Errorf("%d inputs panicked; first few:", len(failures))
		for i, f := range failures {
			if i >= 8 {
				break
			}
			t.Errorf("  %s", f)
		}
	}
}
