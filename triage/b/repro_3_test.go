// Package dir: server (package server)
//
// Repro for item 3: Server.handlePropagatedRequest (the NATS handler on
// "<namespace>.raft.metadata.propagate", active on the metadata leader)
// dispatches on req.Op and hands the matching sub-message (req.CreateStreamOp,
// req.ShrinkISROp, ...) to the metadata API without checking that it is
// present. A PropagatedRequest carrying only an Op therefore makes the
// metadata leader dereference a nil pointer. The handler runs on a NATS
// subscription goroutine, so in production the panic is not recovered and the
// whole process dies. Any NATS client that can publish on the propagate
// subject can do this.
//
// The test starts a real single-node server (embedded NATS on the default
// port), waits for it to become metadata leader and then feeds the exact wire
// bytes to the handler on the test goroutine so that each panic can be
// recovered and reported per operation.
//
//	flock /tmp/lb-server-tests.lock go test -vet=off -count=1 -timeout 120s \
//	    -run 'TestTriagePropagatedRequest' ./server/
package server

import (
	"fmt"
	"testing"
	"time"

	"github.com/nats-io/nats.go"
	"github.com/stretchr/testify/require"

	proto "github.com/liftbridge-io/liftbridge/server/protocol"
)

func TestTriagePropagatedRequestMissingOpPayloadNoPanic(t *testing.T) {
	defer cleanupStorage(t)

	s1 := runServerWithConfig(t, getTestConfig("a", true, 0))
	defer s1.Stop()
	getMetadataLeader(t, 10*time.Second, s1)

	cases := []struct {
		name string
		req  *proto.PropagatedRequest
	}{
		{"CREATE_STREAM", &proto.PropagatedRequest{Op: proto.Op_CREATE_STREAM}},
		// Sub-message present but its required nested Stream is missing.
		{"CREATE_STREAM-nil-Stream", &proto.PropagatedRequest{
			Op: proto.Op_CREATE_STREAM, CreateStreamOp: &proto.CreateStreamOp{}}},
		{"SHRINK_ISR", &proto.PropagatedRequest{Op: proto.Op_SHRINK_ISR}},
		{"EXPAND_ISR", &proto.PropagatedRequest{Op: proto.Op_EXPAND_ISR}},
		{"REPORT_LEADER", &proto.PropagatedRequest{Op: proto.Op_REPORT_LEADER}},
		{"DELETE_STREAM", &proto.PropagatedRequest{Op: proto.Op_DELETE_STREAM}},
		{"PAUSE_STREAM", &proto.PropagatedRequest{Op: proto.Op_PAUSE_STREAM}},
		{"RESUME_STREAM", &proto.PropagatedRequest{Op: proto.Op_RESUME_STREAM}},
		{"SET_STREAM_READONLY", &proto.PropagatedRequest{Op: proto.Op_SET_STREAM_READONLY}},
		{"LEAVE_CONSUMER_GROUP", &proto.PropagatedRequest{Op: proto.Op_LEAVE_CONSUMER_GROUP}},
		{"REPORT_CONSUMER_GROUP_COORDINATOR", &proto.PropagatedRequest{
			Op: proto.Op_REPORT_CONSUMER_GROUP_COORDINATOR}},
		// Keep this one last: on the unfixed code it panics while holding
		// consumerGroupsMu.RLock (no defer), leaving the lock held.
		{"JOIN_CONSUMER_GROUP", &proto.PropagatedRequest{Op: proto.Op_JOIN_CONSUMER_GROUP}},
	}

	panics := 0
	for _, tc := range cases {
		tc := tc
		t.Run(tc.name, func(t *testing.T) {
			// Go through the real wire format: marshal to the envelope a
			// NATS client would publish.
			data, err := proto.MarshalPropagatedRequest(tc.req)
			require.NoError(t, err)
			// The handler must accept it as a syntactically valid request.
			_, err = proto.UnmarshalPropagatedRequest(data)
			require.NoError(t, err)

			var panicked interface{}
			func() {
				defer func() { panicked = recover() }()
				s1.handlePropagatedRequest(&nats.Msg{
					Subject: s1.getPropagateInbox(),
					Data:    data,
				})
			}()
			if panicked != nil {
				panics++
				if tc.req.Op == proto.Op_JOIN_CONSUMER_GROUP {
					// Test hygiene only: the unfixed JoinConsumerGroup
					// panics between consumerGroupsMu.RLock() and RUnlock()
					// (no defer), so the recovered panic leaks a read lock
					// and Server.Stop() below would deadlock. Release it.
					s1.metadata.consumerGroupsMu.RUnlock()
				}
				t.Fatalf("handlePropagatedRequest panicked for % X (Op=%s, payload missing): %v",
					data, tc.req.Op, panicked)
			}
		})
	}
	if panics > 0 {
		return
	}

	// With the handler hardened, prove it over real NATS too: publish every
	// payload-less request on the propagate subject, then check the server is
	// still alive and still serves a well-formed propagated request.
	nc, err := nats.GetDefaultOptions().Connect()
	require.NoError(t, err)
	defer nc.Close()
	for _, tc := range cases {
		data, err := proto.MarshalPropagatedRequest(tc.req)
		require.NoError(t, err)
		require.NoError(t, nc.Publish(s1.getPropagateInbox(), data))
	}
	require.NoError(t, nc.Flush())

	good, err := proto.MarshalPropagatedRequest(&proto.PropagatedRequest{
		Op: proto.Op_CREATE_STREAM,
		CreateStreamOp: &proto.CreateStreamOp{Stream: &proto.Stream{
			Name:    "foo",
			Subject: "foo",
			Partitions: []*proto.Partition{{
				Stream: "foo", Subject: "foo", ReplicationFactor: 1,
			}},
		}},
	})
	require.NoError(t, err)
	msg, err := nc.Request(s1.getPropagateInbox(), good, 10*time.Second)
	require.NoError(t, err, "server no longer answers propagated requests")
	resp, err := proto.UnmarshalPropagatedResponse(msg.Data)
	require.NoError(t, err)
	require.Nil(t, resp.Error, fmt.Sprintf("%+v", resp.Error))
	require.True(t, s1.IsRunning())
	require.NotNil(t, s1.metadata.GetStream("foo"))
}
