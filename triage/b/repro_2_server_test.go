// Package dir: server (package server)
//
// Repro for item 2 at the follower level: partition.handleReplicationResponse
// hands the raw message-set bytes of a replication response received over
// NATS to commitlog.AppendMessageSet. A truncated / malformed message set
// crashes the follower. Any NATS client can deliver such a response: the
// follower publishes its replication request on the well-known subject
// "<namespace>.<stream>.<partition>.replicate" with a reply inbox, and
// whoever answers first on that inbox is processed.
//
// No live server / no network ports are used, but per the triage rules run it
// under the lock anyway:
//
//	flock /tmp/lb-server-tests.lock go test -vet=off -count=1 \
//	    -run 'TestTriageReplicationResponse' ./server/
package server

import (
	"bytes"
	"encoding/binary"
	"testing"

	"github.com/nats-io/nats.go"
	"github.com/stretchr/testify/require"

	proto "github.com/liftbridge-io/liftbridge/server/protocol"
)

// triageReplicationResponse builds a replication response envelope the same
// way the leader's protocolWriter does: envelope header | leader epoch | HW |
// message set bytes.
func triageReplicationResponse(epoch uint64, hw int64, messageSet []byte) []byte {
	buf := new(bytes.Buffer)
	proto.WriteReplicationResponseHeader(buf)
	binary.Write(buf, proto.Encoding, epoch)
	binary.Write(buf, proto.Encoding, hw)
	buf.Write(messageSet)
	out := buf.Bytes()
	return out[:len(out):len(out)]
}

// triageMessageSetEntry builds one message-set entry: offset | timestamp |
// leader epoch | size | payload. declaredSize is what goes in the size field;
// payload is what is actually appended.
func triageMessageSetEntry(offset int64, declaredSize int32, payload []byte) []byte {
	buf := new(bytes.Buffer)
	binary.Write(buf, proto.Encoding, offset)
	binary.Write(buf, proto.Encoding, int64(1))  // timestamp
	binary.Write(buf, proto.Encoding, uint64(0)) // leader epoch
	binary.Write(buf, proto.Encoding, declaredSize)
	buf.Write(payload)
	return buf.Bytes()
}

func triageSetFollowing(p *partition, following bool) {
	p.mu.Lock()
	p.isFollowing = following
	p.mu.Unlock()
}

func TestTriageReplicationResponseMalformedNoPanic(t *testing.T) {
	payload := bytes.Repeat([]byte{0x42}, 40)

	full := triageMessageSetEntry(0, int32(len(payload)), payload)
	two := append(append([]byte{}, full...), triageMessageSetEntry(1, int32(len(payload)), payload)...)

	cases := []struct {
		name string
		set  []byte
	}{
		// Size field says 40 bytes, only 39 follow (lost last byte).
		{"truncated-payload", full[:len(full)-1]},
		// Second entry cut in the middle of its 28-byte header.
		{"truncated-second-header", two[:len(full)+10]},
		// Size field larger than what follows.
		{"size-too-big", triageMessageSetEntry(0, 1000, payload)},
		// Negative size field.
		{"negative-size", triageMessageSetEntry(0, -1, payload)},
	}

	for _, tc := range cases {
		tc := tc
		t.Run(tc.name, func(t *testing.T) {
			defer cleanupStorage(t)
			server := createServer()
			p, err := server.newPartition(&proto.Partition{
				Subject:  "foo",
				Stream:   "foo",
				Replicas: []string{"a", "b"},
				Leader:   "b",
				Isr:      []string{"a", "b"},
			}, false, nil)
			require.NoError(t, err)
			defer p.Close()

			// Put the partition in the follower state without starting the
			// replication loop (and undo it before Close, which would
			// otherwise try to stop a loop that was never started).
			triageSetFollowing(p, true)
			defer triageSetFollowing(p, false)

			msg := &nats.Msg{Data: triageReplicationResponse(p.LeaderEpoch, 0, tc.set)}

			var (
				panicked interface{}
				n        int
			)
			func() {
				defer func() { panicked = recover() }()
				n = p.handleReplicationResponse(msg)
			}()
			if panicked != nil {
				t.Fatalf("handleReplicationResponse panicked on a malformed replication response: %v", panicked)
			}
			require.Equal(t, 0, n, "nothing should have been replicated")
			require.Equal(t, int64(-1), p.log.NewestOffset(), "nothing should have been written")
		})
	}

	// Sanity: a well-formed response is still replicated.
	t.Run("well-formed", func(t *testing.T) {
		defer cleanupStorage(t)
		server := createServer()
		p, err := server.newPartition(&proto.Partition{
			Subject:  "foo",
			Stream:   "foo",
			Replicas: []string{"a", "b"},
			Leader:   "b",
			Isr:      []string{"a", "b"},
		}, false, nil)
		require.NoError(t, err)
		defer p.Close()
		triageSetFollowing(p, true)
		defer triageSetFollowing(p, false)
		n := p.handleReplicationResponse(&nats.Msg{Data: triageReplicationResponse(p.LeaderEpoch, 0, two)})
		require.Equal(t, 2, n)
		require.Equal(t, int64(1), p.log.NewestOffset())
	})
}
