package server

// Triage reproductions for the property:
//   "with ACLs (TLSClientAuthz) on, an unauthorised API call is refused and
//    changes nothing".
//
// Each test FAILS on the unfixed code because of the suspected defect and
// passes with fix.patch applied.

import (
	"context"
	"crypto/tls"
	"crypto/x509"
	"os"
	"path/filepath"
	"strings"
	"testing"
	"time"

	lift "github.com/liftbridge-io/go-liftbridge/v2"
	proto "github.com/liftbridge-io/liftbridge-api/v2/go"
	"github.com/stretchr/testify/assert"
	"github.com/stretchr/testify/require"
	"google.golang.org/grpc"
	"google.golang.org/grpc/credentials"
)

const triageDenied = "The client is not authorized to call"

// triageWritePolicy writes a casbin policy file granting client1 (the CN of
// ./configs/certs/client/client-cert.pem) the given "stream, action" rules.
func triageWritePolicy(t *testing.T, path string, rules ...string) {
	t.Helper()
	content := "p, client1, *, FetchMetadata\n"
	for _, r := range rules {
		content += "p, client1, " + r + "\n"
	}
	require.NoError(t, os.WriteFile(path, []byte(content), 0600))
}

// triageReloadPolicy does exactly what the SIGHUP handler in signal.go does.
func triageReloadPolicy(t *testing.T, s *Server) {
	t.Helper()
	s.authzEnforcer.authzLock.Lock()
	defer s.authzEnforcer.authzLock.Unlock()
	require.NoError(t, s.authzEnforcer.enforcer.LoadPolicy())
}

func triageTLSConfig(t *testing.T) *tls.Config {
	t.Helper()
	certPool := x509.NewCertPool()
	ca, err := os.ReadFile("./configs/certs/ca-cert.pem")
	require.NoError(t, err)
	certPool.AppendCertsFromPEM(ca)
	certificate, err := tls.LoadX509KeyPair("./configs/certs/client/client-cert.pem",
		"./configs/certs/client/client-key.pem")
	require.NoError(t, err)
	return &tls.Config{
		ServerName:   "localhost",
		Certificates: []tls.Certificate{certificate},
		RootCAs:      certPool,
	}
}

// triageCloseClient closes the client without risking a hang: go-liftbridge
// v2.4.0 client.Close() holds client.mu while waiting for the ack dispatcher
// goroutine, which itself takes client.mu for every received response, so an
// (unexpected) ack arriving during Close deadlocks the client.
func triageCloseClient(c lift.Client) {
	done := make(chan struct{})
	go func() {
		c.Close()
		close(done)
	}()
	select {
	case <-done:
	case <-time.After(2 * time.Second):
	}
}

// triageAuthzServer starts a TLS+authz server (same way as
// TestAuthzWithDeniedResource) but with the policy file at policyPath.
func triageAuthzServer(t *testing.T, policyPath string) *Server {
	t.Helper()
	cfg, err := NewConfig("./configs/tls-authz.yaml")
	require.NoError(t, err)
	// Do not depend on defect #3 (config key mix-up) here.
	cfg.TLSClientAuth = true
	cfg.TLSClientAuthz = true
	cfg.TLSClientAuthzPolicy = policyPath
	cfg.DataDir = getTestConfig("a", true, 5050).DataDir
	s := runServerWithConfig(t, cfg)
	getMetadataLeader(t, 10*time.Second, s)
	return s
}

// Defect 1: PublishAsync reports PERMISSION_DENIED but still publishes the
// message (and resumes a paused partition on the way).
func TestTriageAuthzPublishAsyncDeniedHasNoEffect(t *testing.T) {
	defer cleanupStorage(t)

	policy := filepath.Join(t.TempDir(), "policy.csv")
	// bar: may create and pause, may NOT publish.
	triageWritePolicy(t, policy, "bar, CreateStream", "bar, PauseStream")

	s1 := triageAuthzServer(t, policy)
	defer s1.Stop()

	client, err := lift.Connect([]string{"localhost:5050"}, lift.TLSConfig(triageTLSConfig(t)))
	require.NoError(t, err)
	defer triageCloseClient(client)

	stream := "bar"
	require.NoError(t, client.CreateStream(context.Background(), stream, stream))
	require.NoError(t, client.PauseStream(context.Background(), stream))
	require.True(t, s1.metadata.GetPartition(stream, 0).IsPaused())

	errorC := make(chan error, 1)
	err = client.PublishAsync(context.Background(), stream, []byte("async"),
		func(ack *lift.Ack, err error) { errorC <- err },
		lift.AckPolicyLeader())
	require.NoError(t, err)

	select {
	case err := <-errorC:
		require.Error(t, err)
		require.Contains(t, err.Error(), triageDenied)
	case <-time.After(5 * time.Second):
		t.Fatal("Did not receive expected PERMISSION_DENIED async error")
	}

	// The refused call must have changed nothing. Give the (buggy) publish
	// path time to go NATS -> partition -> commit log.
	deadline := time.Now().Add(2 * time.Second)
	for time.Now().Before(deadline) {
		p := s1.metadata.GetPartition(stream, 0)
		if !p.IsPaused() && p.log.NewestOffset() >= 0 {
			break
		}
		time.Sleep(20 * time.Millisecond)
	}
	p := s1.metadata.GetPartition(stream, 0)
	assert.True(t, p.IsPaused(),
		"unauthorised PublishAsync resumed the paused partition")
	assert.Equal(t, int64(-1), p.log.NewestOffset(),
		"unauthorised PublishAsync wrote a message to the log")
}

// Defect 1 (variant): the Go client implements the "synchronous"
// client.Publish on top of the PublishAsync RPC, so the very call that
// TestAuthzWithDeniedResource believes is refused ("UnPause stream by
// publishing a message failed") does resume the stream and store the message.
func TestTriageAuthzClientPublishDeniedHasNoEffect(t *testing.T) {
	defer cleanupStorage(t)

	policy := filepath.Join(t.TempDir(), "policy.csv")
	triageWritePolicy(t, policy, "bar, CreateStream", "bar, PauseStream")

	s1 := triageAuthzServer(t, policy)
	defer s1.Stop()

	client, err := lift.Connect([]string{"localhost:5050"}, lift.TLSConfig(triageTLSConfig(t)))
	require.NoError(t, err)
	defer triageCloseClient(client)

	stream := "bar"
	require.NoError(t, client.CreateStream(context.Background(), stream, stream))
	require.NoError(t, client.PauseStream(context.Background(), stream))

	_, err = client.Publish(context.Background(), stream, []byte("hello"))
	require.Error(t, err)
	require.Contains(t, err.Error(), triageDenied)

	deadline := time.Now().Add(2 * time.Second)
	for time.Now().Before(deadline) {
		p := s1.metadata.GetPartition(stream, 0)
		if !p.IsPaused() && p.log.NewestOffset() >= 0 {
			break
		}
		time.Sleep(20 * time.Millisecond)
	}
	p := s1.metadata.GetPartition(stream, 0)
	assert.True(t, p.IsPaused(),
		"unauthorised client.Publish resumed the paused partition")
	assert.Equal(t, int64(-1), p.log.NewestOffset(),
		"unauthorised client.Publish wrote a message to the log")
}

// Defect 2a: an unauthorised Subscribe with Resume=true resumes a paused
// partition before the authorisation check runs.
func TestTriageAuthzSubscribeDeniedDoesNotResume(t *testing.T) {
	defer cleanupStorage(t)

	policy := filepath.Join(t.TempDir(), "policy.csv")
	// bar: may create and pause, may NOT subscribe.
	triageWritePolicy(t, policy, "bar, CreateStream", "bar, PauseStream")

	s1 := triageAuthzServer(t, policy)
	defer s1.Stop()

	client, err := lift.Connect([]string{"localhost:5050"}, lift.TLSConfig(triageTLSConfig(t)))
	require.NoError(t, err)
	defer client.Close()

	stream := "bar"
	require.NoError(t, client.CreateStream(context.Background(), stream, stream))
	require.NoError(t, client.PauseStream(context.Background(), stream))
	require.True(t, s1.metadata.GetPartition(stream, 0).IsPaused())

	err = client.Subscribe(context.Background(), stream,
		func(msg *lift.Message, err error) {}, lift.Resume())
	require.Error(t, err)
	require.Contains(t, err.Error(), triageDenied)

	require.True(t, s1.metadata.GetPartition(stream, 0).IsPaused(),
		"unauthorised Subscribe(Resume) resumed the paused partition")
}

// Defect 2b: an unauthorised consumer-group Subscribe kicks out the existing
// (authorised) member of the group before the authorisation check runs.
func TestTriageAuthzSubscribeDeniedDoesNotReplaceGroupMember(t *testing.T) {
	defer cleanupStorage(t)

	policy := filepath.Join(t.TempDir(), "policy.csv")
	triageWritePolicy(t, policy, "bar, CreateStream", "bar, Publish", "bar, Subscribe")

	s1 := triageAuthzServer(t, policy)
	defer s1.Stop()

	conn, err := grpc.Dial("localhost:5050",
		grpc.WithTransportCredentials(credentials.NewTLS(triageTLSConfig(t))))
	require.NoError(t, err)
	defer conn.Close()
	api := proto.NewAPIClient(conn)

	stream := "bar"
	_, err = api.CreateStream(context.Background(), &proto.CreateStreamRequest{
		Name: stream, Subject: stream, Partitions: 1})
	require.NoError(t, err)

	// Authorised group member subscribes.
	ctx1, cancel1 := context.WithCancel(context.Background())
	defer cancel1()
	sub1, err := api.Subscribe(ctx1, &proto.SubscribeRequest{
		Stream:        stream,
		StartPosition: proto.StartPosition_NEW_ONLY,
		Consumer:      &proto.Consumer{GroupId: "grp", ConsumerId: "legit", GroupEpoch: 1},
	})
	require.NoError(t, err)
	_, err = sub1.Recv() // empty message == subscription established
	require.NoError(t, err)

	// Revoke the Subscribe permission (same effect as editing the policy file
	// and sending SIGHUP; only one client certificate ships with the repo).
	triageWritePolicy(t, policy, "bar, CreateStream", "bar, Publish")
	triageReloadPolicy(t, s1)

	// Unauthorised attempt to join the same group with a newer epoch.
	ctx2, cancel2 := context.WithCancel(context.Background())
	defer cancel2()
	sub2, err := api.Subscribe(ctx2, &proto.SubscribeRequest{
		Stream:        stream,
		StartPosition: proto.StartPosition_NEW_ONLY,
		Consumer:      &proto.Consumer{GroupId: "grp", ConsumerId: "intruder", GroupEpoch: 2},
	})
	if err == nil {
		_, err = sub2.Recv()
	}
	require.Error(t, err)
	require.Contains(t, err.Error(), triageDenied)

	// The authorised member must still be subscribed and receiving.
	ctx, cancel := context.WithTimeout(context.Background(), 5*time.Second)
	defer cancel()
	_, err = api.Publish(ctx, &proto.PublishRequest{
		Stream: stream, Value: []byte("hello"), AckPolicy: proto.AckPolicy_LEADER})
	require.NoError(t, err)

	type recv struct {
		msg *proto.Message
		err error
	}
	recvC := make(chan recv, 1)
	go func() {
		m, err := sub1.Recv()
		recvC <- recv{m, err}
	}()
	select {
	case r := <-recvC:
		require.NoError(t, r.err,
			"authorised group member was disconnected by an unauthorised Subscribe")
		require.Equal(t, []byte("hello"), r.msg.Value)
	case <-time.After(5 * time.Second):
		t.Fatal("authorised group member did not receive the message")
	}
}

// Defect 3: tls.client.authz.enabled is parsed using the value of
// tls.client.auth.enabled.
func TestTriageConfigAuthzEnabledKey(t *testing.T) {
	dir := t.TempDir()

	// authz on, auth not mentioned -> authorisation must be ON.
	path := filepath.Join(dir, "authz-only.yaml")
	require.NoError(t, os.WriteFile(path, []byte(`
tls:
  client.authz.enabled: true
  client.authz.model: ./configs/authz/model.conf
  client.authz.policy: ./configs/authz/policy.csv
`), 0600))
	config, err := NewConfig(path)
	require.NoError(t, err)
	require.True(t, config.TLSClientAuthz,
		"tls.client.authz.enabled: true was ignored (auth.enabled unset)")

	// authz on, auth explicitly off -> authorisation must still be ON.
	path = filepath.Join(dir, "authz-on-auth-off.yaml")
	require.NoError(t, os.WriteFile(path, []byte(`
tls:
  client.auth.enabled: false
  client.authz.enabled: true
`), 0600))
	config, err = NewConfig(path)
	require.NoError(t, err)
	require.False(t, config.TLSClientAuth)
	require.True(t, config.TLSClientAuthz,
		"tls.client.authz.enabled: true was ignored (auth.enabled false)")

	// authz explicitly off, auth on -> authorisation must be OFF.
	path = filepath.Join(dir, "authz-off-auth-on.yaml")
	require.NoError(t, os.WriteFile(path, []byte(`
tls:
  client.auth.enabled: true
  client.authz.enabled: false
`), 0600))
	config, err = NewConfig(path)
	require.NoError(t, err)
	require.True(t, config.TLSClientAuth)
	require.False(t, config.TLSClientAuthz,
		"tls.client.authz.enabled: false was ignored (auth.enabled true)")
}

// Defect 4: the four consumer-group endpoints (JoinConsumerGroup,
// LeaveConsumerGroup, FetchConsumerGroupAssignments,
// ReportConsumerGroupCoordinator) never call ensureAuthorizationPermission, so
// a client whose policy grants nothing for them can still create/alter group
// metadata (through Raft), heartbeat, and report coordinators.
func TestTriageAuthzGroupEndpointsUnchecked(t *testing.T) {
	defer cleanupStorage(t)

	policy := filepath.Join(t.TempDir(), "policy.csv")
	// bar: may create (so that the stream exists) and NOTHING else. No
	// Subscribe, no group action of any kind. (triageWritePolicy also grants
	// FetchMetadata, which is irrelevant here.)
	triageWritePolicy(t, policy, "bar, CreateStream")

	s1 := triageAuthzServer(t, policy)
	defer s1.Stop()

	conn, err := grpc.Dial("localhost:5050",
		grpc.WithTransportCredentials(credentials.NewTLS(triageTLSConfig(t))))
	require.NoError(t, err)
	defer conn.Close()
	api := proto.NewAPIClient(conn)

	ctx, cancel := context.WithTimeout(context.Background(), 30*time.Second)
	defer cancel()

	stream := "bar"
	_, err = api.CreateStream(ctx, &proto.CreateStreamRequest{
		Name: stream, Subject: stream, Partitions: 1})
	require.NoError(t, err)

	// Sanity: authorisation really is enforced for this client on this
	// stream (Publish on bar is not in the policy).
	_, err = api.Publish(ctx, &proto.PublishRequest{
		Stream: stream, Value: []byte("x"), AckPolicy: proto.AckPolicy_LEADER})
	require.Error(t, err)
	require.Contains(t, err.Error(), "not authorized")

	const (
		group    = "grp"
		consumer = "intruder"
	)
	checkRefused := func(method string, err error) {
		t.Helper()
		if err == nil {
			t.Errorf("%s by a client with no matching policy entry SUCCEEDED; want refusal containing %q",
				method, "not authorized")
			return
		}
		if !strings.Contains(err.Error(), "not authorized") {
			t.Errorf("%s by a client with no matching policy entry was not refused by authorisation; got error %q, want one containing %q",
				method, err.Error(), "not authorized")
		}
	}

	// 1. JoinConsumerGroup.
	joinResp, err := api.JoinConsumerGroup(ctx, &proto.JoinConsumerGroupRequest{
		GroupId: group, ConsumerId: consumer, Streams: []string{stream}})
	checkRefused("JoinConsumerGroup", err)

	// The refused call must have had no effect.
	if g := s1.metadata.GetConsumerGroup(group); g != nil {
		t.Errorf("after unauthorised JoinConsumerGroup, group %q exists in cluster metadata: %s members=%v",
			group, g.String(), g.GetMembers())
	}

	coordinator := s1.config.Clustering.ServerID
	epoch := uint64(0)
	if joinResp != nil {
		coordinator, epoch = joinResp.Coordinator, joinResp.Epoch
		t.Logf("JoinConsumerGroup response: coordinator=%s epoch=%d", coordinator, epoch)
	}

	// 2. FetchConsumerGroupAssignments (also a heartbeat for the consumer).
	fetchResp, err := api.FetchConsumerGroupAssignments(ctx, &proto.FetchConsumerGroupAssignmentsRequest{
		GroupId: group, ConsumerId: consumer, Epoch: epoch})
	checkRefused("FetchConsumerGroupAssignments", err)
	if fetchResp != nil {
		t.Logf("FetchConsumerGroupAssignments response: epoch=%d assignments=%v",
			fetchResp.Epoch, fetchResp.Assignments)
	}

	// 3. ReportConsumerGroupCoordinator.
	_, err = api.ReportConsumerGroupCoordinator(ctx, &proto.ReportConsumerGroupCoordinatorRequest{
		GroupId: group, ConsumerId: consumer, Coordinator: coordinator, Epoch: epoch})
	checkRefused("ReportConsumerGroupCoordinator", err)
	if g := s1.metadata.GetConsumerGroup(group); g != nil {
		c, e := g.GetCoordinator()
		t.Logf("after ReportConsumerGroupCoordinator: coordinator=%s epoch=%d (was epoch %d)", c, e, epoch)
	}

	// 4. LeaveConsumerGroup.
	_, err = api.LeaveConsumerGroup(ctx, &proto.LeaveConsumerGroupRequest{
		GroupId: group, ConsumerId: consumer})
	checkRefused("LeaveConsumerGroup", err)

	// Afterwards no group "grp" may exist. (NB: when the unauthorised Leave
	// succeeds it removes the last member and with it the group, so this
	// particular check can pass on the defective code; the check directly
	// after Join above is the one that shows the metadata side effect.)
	if g := s1.metadata.GetConsumerGroup(group); g != nil {
		t.Errorf("at end of test, group %q exists in cluster metadata: %s members=%v",
			group, g.String(), g.GetMembers())
	}
}
