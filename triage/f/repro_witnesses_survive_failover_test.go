// Package directory: server/ (package server)
//
// Candidate defect (C07): failoverStatus.report keeps the witness set after it triggered a failover, and the entry stays
// in metadataAPI.partitionFailovers (its timer is stopped, so it never expires). After a completed failover a -> X, a
// single report against the new, healthy leader X by one of the old witnesses finds the old witness set, counts
// len(witnesses) > quorum at once and deposes X: a leader change without "more than half of the in-sync followers
// reporting the current leader within the timeout window".
package server

import (
	"context"
	"testing"
	"time"

	lift "github.com/liftbridge-io/go-liftbridge/v2"
	"github.com/stretchr/testify/require"

	proto "github.com/liftbridge-io/liftbridge/server/protocol"
)

func TestTriageWitnessesSurviveFailover(t *testing.T) {
	defer cleanupStorage(t)
	timeout := time.Second
	var servers []*Server
	for i, id := range []string{"a", "b", "c"} {
		cfg := getTestConfig(id, i == 0, 5050+i)
		cfg.Clustering.ReplicaMaxLeaderTimeout = timeout
		s := runServerWithConfig(t, cfg)
		defer s.Stop()
		servers = append(servers, s)
	}
	controller := getMetadataLeader(t, 10*time.Second, servers...)
	client, err := lift.Connect([]string{"localhost:5050"})
	require.NoError(t, err)
	defer client.Close()
	name := "foo"
	require.NoError(t, client.CreateStream(context.Background(), "foo", name, lift.ReplicationFactor(3)))
	waitForISR(t, 10*time.Second, name, 0, 3, servers...)

	partition := controller.metadata.GetPartition(name, 0)
	require.NotNil(t, partition)
	report := func(replica, leader string, epoch uint64) {
		ctx, cancel := context.WithTimeout(context.Background(), 5*time.Second)
		defer cancel()
		st := controller.metadata.ReportLeader(ctx, &proto.ReportLeaderOp{
			Stream: name, Partition: 0, Replica: replica, Leader: leader, LeaderEpoch: epoch})
		if st != nil {
			t.Fatalf("unexpected status from ReportLeader(%s): %v", replica, st.Err())
		}
	}
	leader1, epoch1 := partition.GetLeader()
	var followers []string
	for _, s := range servers {
		if id := s.config.Clustering.ServerID; id != leader1 {
			followers = append(followers, id)
		}
	}
	// Both followers report leader1 within the window: a legitimate failover.
	report(followers[0], leader1, epoch1)
	report(followers[1], leader1, epoch1)
	leader2, epoch2 := partition.GetLeader()
	require.NotEqual(t, leader1, leader2)
	require.Greater(t, epoch2, epoch1)

	// Much later, ONE in-sync follower of the new leader reports it.
	time.Sleep(3 * timeout)
	require.True(t, partition.inISR(leader2))
	var witness string
	for _, id := range partition.GetISR() {
		if id != leader2 {
			witness = id
			break
		}
	}
	require.NotEmpty(t, witness)
	require.Equal(t, 3, partition.ISRSize())
	report(witness, leader2, epoch2)
	time.Sleep(500 * time.Millisecond)
	l, e := partition.GetLeader()
	if l != leader2 || e != epoch2 {
		t.Fatalf("a single report by %s deposed the healthy leader %s (epoch %d): leader is now %s (epoch %d); "+
			"the witnesses of the previous failover were still counted", witness, leader2, epoch2, l, e)
	}
}
