package server

import (
	"bytes"
	"io"
	"testing"

	"github.com/stretchr/testify/require"

	proto "github.com/liftbridge-io/liftbridge/server/protocol"
)

// triage1Sink is an in-memory raft.SnapshotSink.
type triage1Sink struct {
	bytes.Buffer
}

func (s *triage1Sink) ID() string    { return "triage1" }
func (s *triage1Sink) Cancel() error { return nil }
func (s *triage1Sink) Close() error  { return nil }

// Item 1: create-stream -> pause -> resume, then Snapshot + Restore. The
// partition must come back NOT paused, since the last applied operation on it
// was a resume. On the unfixed code the protobuf Paused flag set by
// partition.Pause is never cleared on resume, so the snapshot records
// Paused=true and Restore re-pauses the partition.
func TestTriage1ResumeClearsPausedFlagInSnapshot(t *testing.T) {
	defer cleanupStorage(t)

	// Server "a" is never started. The partition's replicas are {b, c} so "a"
	// neither leads nor follows and no NATS connection is required.
	s := New(getTestConfig("a", true, 0))
	defer s.metadata.Reset()

	apply := func(index uint64, log *proto.RaftLog) {
		_, err := s.apply(log, index, false)
		require.NoError(t, err)
	}

	apply(1, &proto.RaftLog{
		Op: proto.Op_CREATE_STREAM,
		CreateStreamOp: &proto.CreateStreamOp{
			Stream: &proto.Stream{
				Name:    "foo",
				Subject: "foo",
				Partitions: []*proto.Partition{{
					Stream:   "foo",
					Subject:  "foo",
					Id:       0,
					Replicas: []string{"b", "c"},
					Isr:      []string{"b", "c"},
					Leader:   "b",
				}},
			},
		},
	})
	apply(2, &proto.RaftLog{
		Op:            proto.Op_PAUSE_STREAM,
		PauseStreamOp: &proto.PauseStreamOp{Stream: "foo", Partitions: []int32{0}},
	})
	require.True(t, s.metadata.GetPartition("foo", 0).IsPaused())

	apply(3, &proto.RaftLog{
		Op:             proto.Op_RESUME_STREAM,
		ResumeStreamOp: &proto.ResumeStreamOp{Stream: "foo", Partitions: []int32{0}},
	})
	p := s.metadata.GetPartition("foo", 0)
	require.False(t, p.IsPaused(), "partition should be resumed in memory")

	// Snapshot and persist.
	snap, err := s.Snapshot()
	require.NoError(t, err)
	sink := &triage1Sink{}
	require.NoError(t, snap.Persist(sink))

	// What did the snapshot record?
	decoded := &proto.MetadataSnapshot{}
	require.NoError(t, decoded.Unmarshal(sink.Bytes()[4:]))
	require.Len(t, decoded.Streams, 1)
	require.Len(t, decoded.Streams[0].Partitions, 1)
	if decoded.Streams[0].Partitions[0].Paused {
		t.Errorf("snapshot records a resumed partition as Paused=true")
	}

	// Restore (as a restart would) and check the partition's state.
	require.NoError(t, s.Restore(io.NopCloser(bytes.NewReader(sink.Bytes()))))
	restored := s.metadata.GetPartition("foo", 0)
	require.NotNil(t, restored)
	require.False(t, restored.IsPaused(),
		"partition was resumed before the snapshot but is paused after Restore")
}
