package server

import (
	"fmt"
	"runtime"
	"sort"
	"testing"
	"time"

	"github.com/stretchr/testify/require"

	proto "github.com/liftbridge-io/liftbridge/server/protocol"
)

func triage6Apply(t *testing.T, s *Server, index uint64, log *proto.RaftLog) {
	t.Helper()
	_, err := s.apply(log, index, false)
	require.NoError(t, err)
}

func triage6CreateStream(name string, partitions int) *proto.RaftLog {
	protoPartitions := make([]*proto.Partition, partitions)
	for i := range protoPartitions {
		protoPartitions[i] = &proto.Partition{
			Stream: name, Subject: name, Id: int32(i),
			Replicas: []string{"x"}, Isr: []string{"x"}, Leader: "x",
		}
	}
	return &proto.RaftLog{
		Op: proto.Op_CREATE_STREAM,
		CreateStreamOp: &proto.CreateStreamOp{
			Stream: &proto.Stream{Name: name, Subject: name, Partitions: protoPartitions},
		},
	}
}

// triage6Log is the committed Raft log that both replicas apply, in order.
func triage6Log() []*proto.RaftLog {
	return []*proto.RaftLog{
		1: triage6CreateStream("s1", 2),
		2: triage6CreateStream("s2", 2),
		3: {
			Op: proto.Op_CREATE_CONSUMER_GROUP,
			CreateConsumerGroupOp: &proto.CreateConsumerGroupOp{
				ConsumerGroup: &proto.ConsumerGroup{
					Id:          "grp",
					Coordinator: "x",
					Members:     []*proto.Consumer{{Id: "A", Streams: []string{"s1", "s2"}}},
				},
			},
		},
		4: {
			Op:             proto.Op_DELETE_STREAM,
			DeleteStreamOp: &proto.DeleteStreamOp{Stream: "s1"},
		},
		5: {
			Op: proto.Op_JOIN_CONSUMER_GROUP,
			JoinConsumerGroupOp: &proto.JoinConsumerGroupOp{
				GroupId: "grp", ConsumerId: "B", Streams: []string{"s2"},
			},
		},
		// s1 is created again and a third consumer subscribes to it.
		6: triage6CreateStream("s1", 2),
		7: {
			Op: proto.Op_JOIN_CONSUMER_GROUP,
			JoinConsumerGroupOp: &proto.JoinConsumerGroupOp{
				GroupId: "grp", ConsumerId: "C", Streams: []string{"s1"},
			},
		},
	}
}

// triage6GroupState renders the replicated state of the group.
func triage6GroupState(g *consumerGroup) string {
	g.mu.RLock()
	defer g.mu.RUnlock()
	ids := make([]string, 0, len(g.members))
	for id := range g.members {
		ids = append(ids, id)
	}
	sort.Strings(ids)
	out := fmt.Sprintf("epoch=%d", g.epoch)
	for _, id := range ids {
		member := g.members[id]
		streams := make([]string, 0, len(member.streams))
		for stream := range member.streams {
			streams = append(streams, stream)
		}
		sort.Strings(streams)
		out += fmt.Sprintf(" | %s subscribed=%v assigned=", id, streams)
		for _, stream := range streams {
			partitions := append([]int32(nil), member.assignments[stream]...)
			sort.Slice(partitions, func(i, j int) bool { return partitions[i] < partitions[j] })
			out += fmt.Sprintf("%s%v", stream, partitions)
		}
	}
	return out
}

// triage6Replay applies the log on a fresh (never started) server. If settle
// is true the replica is idle for a moment after every entry (a lightly
// loaded follower); otherwise entries are applied back to back (log replay on
// restart, or a follower catching up).
func triage6Replay(t *testing.T, id string, settle bool) string {
	s := New(getTestConfig(id, true, 0))
	defer s.metadata.Reset()
	for index, entry := range triage6Log() {
		if entry == nil {
			continue
		}
		triage6Apply(t, s, uint64(index), entry)
		if settle {
			time.Sleep(50 * time.Millisecond)
		}
	}
	// Let every goroutine spawned by the applies finish.
	time.Sleep(200 * time.Millisecond)
	return triage6GroupState(s.metadata.GetConsumerGroup("grp"))
}

// Item 6: removeStream is on the apply path but notifies the consumer groups
// (consumerGroup.StreamDeleted) from a goroutine. Whether that goroutine runs
// before or after the NEXT log entry is applied is up to the scheduler. If it
// runs after a later group operation, StreamDeleted(epoch=4) is rejected with
// "proposed group epoch 4 is less than current epoch 5" -- the error is
// dropped -- and the group keeps the subscription to the deleted stream. Two
// replicas applying the same log end up with different group state (and
// different partition assignments once the stream name is reused).
func TestTriage6StreamDeletedAsyncOnApplyPath(t *testing.T) {
	defer cleanupStorage(t)
	// A single P makes the "back to back" schedule deterministic: the spawned
	// goroutine cannot run until the applying goroutine blocks.
	defer runtime.GOMAXPROCS(runtime.GOMAXPROCS(1))

	idle := triage6Replay(t, "a", true)
	busy := triage6Replay(t, "b", false)
	t.Logf("replica applying with idle gaps : %s", idle)
	t.Logf("replica applying back to back   : %s", busy)
	require.Equal(t, idle, busy,
		"two replicas applied the same Raft log but disagree on consumer group state")
}
