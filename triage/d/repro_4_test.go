package server

import (
	"context"
	"testing"
	"time"

	"github.com/stretchr/testify/require"

	client "github.com/liftbridge-io/liftbridge-api/v2/go"
	proto "github.com/liftbridge-io/liftbridge/server/protocol"
)

func triage4SubscriberCount(p *partition) int64 {
	p.mu.RLock()
	defer p.mu.RUnlock()
	return p.subscriberCount
}

func triage4WaitSubscriberCount(t *testing.T, p *partition, want int64) {
	t.Helper()
	deadline := time.Now().Add(5 * time.Second)
	for time.Now().Before(deadline) {
		if triage4SubscriberCount(p) == want {
			return
		}
		time.Sleep(time.Millisecond)
	}
	t.Fatalf("subscriber count did not reach %d (is %d)", want, triage4SubscriberCount(p))
}

func triage4Req(consumerID string, groupEpoch uint64) *client.SubscribeRequest {
	return &client.SubscribeRequest{
		Stream:        "foo",
		Partition:     0,
		StartPosition: client.StartPosition_NEW_ONLY,
		Consumer: &client.Consumer{
			GroupId:    "grp",
			ConsumerId: consumerID,
			GroupEpoch: groupEpoch,
		},
	}
}

// Item 4: consumer A of group grp subscribes, then subscribes again (e.g. a
// reconnect whose old gRPC stream has not been torn down yet). The second
// Subscribe replaces the first one. When the FIRST subscribe loop finally
// exits, its deferred removeGroupSubscriber("grp", "A") compares consumer ids
// only, so it deletes the group entry that now belongs to the SECOND (live)
// subscription. From then on the partition no longer knows that group grp has
// an active consumer: a different member B -- even one presenting a stale
// group epoch -- subscribes without replacing/being rejected, and two members
// of the group consume the partition at the same time.
func TestTriage4ReplacedLoopRemovesSuccessorGroupEntry(t *testing.T) {
	defer cleanupStorage(t)

	// Never-started server; partition replicas are {b} so no loops/NATS.
	s := New(getTestConfig("a", true, 0))
	defer s.metadata.Reset()
	_, err := s.metadata.AddStream(&proto.Stream{
		Name:    "foo",
		Subject: "foo",
		Partitions: []*proto.Partition{{
			Stream: "foo", Subject: "foo", Id: 0,
			Replicas: []string{"b"}, Isr: []string{"b"}, Leader: "b",
		}},
	}, false, 1)
	require.NoError(t, err)
	p := s.metadata.GetPartition("foo", 0)

	// 1. A subscribes (group epoch 5).
	ctx1, cancel1 := context.WithCancel(context.Background())
	defer cancel1()
	sub1, st := p.Subscribe(ctx1, triage4Req("A", 5))
	require.Nil(t, st)
	triage4WaitSubscriberCount(t, p, 1)

	// 2. A subscribes again; this replaces (closes) sub1 but loop 1 is still
	//    parked in ReadMessage until its context ends or a message arrives.
	ctx2, cancel2 := context.WithCancel(context.Background())
	defer cancel2()
	sub2, st := p.Subscribe(ctx2, triage4Req("A", 5))
	require.Nil(t, st)
	select {
	case <-sub1.Closed():
	default:
		t.Fatal("first subscription should have been closed by the replacement")
	}
	triage4WaitSubscriberCount(t, p, 2)
	member := p.GetGroupConsumer("grp")
	require.NotNil(t, member)
	require.True(t, member.sub == sub2)

	// 3. The old loop exits now (its stream context is finally cancelled).
	cancel1()
	triage4WaitSubscriberCount(t, p, 1)

	// The live subscription sub2 must still be registered for the group.
	member = p.GetGroupConsumer("grp")
	if member == nil || member.sub != sub2 {
		t.Errorf("exit of the replaced subscribe loop removed the group entry of the "+
			"live subscription (entry now: %+v)", member)
	}

	// 4. Member B with a STALE group epoch (4 < 5) subscribes. It must be
	//    rejected because A holds the partition with a newer epoch.
	ctx3, cancel3 := context.WithCancel(context.Background())
	defer cancel3()
	sub3, st := p.Subscribe(ctx3, triage4Req("B", 4))
	if st == nil {
		select {
		case <-sub2.Closed():
			t.Errorf("stale consumer B was admitted and replaced A")
		default:
			t.Errorf("stale consumer B was admitted while A's subscription is still " +
				"active: two members of group grp consume partition foo/0 concurrently")
		}
	}
	// Tear down (nobody reads the error channels in this test, so close the
	// subscriptions to release the loops).
	sub2.Close()
	if sub3 != nil {
		sub3.Close()
	}
	cancel2()
	cancel3()
	triage4WaitSubscriberCount(t, p, 0)
}
