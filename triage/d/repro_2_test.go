package server

import (
	"bytes"
	"fmt"
	"io"
	"sort"
	"strings"
	"sync"
	"testing"

	"github.com/stretchr/testify/require"

	proto "github.com/liftbridge-io/liftbridge/server/protocol"
)

// triage2Sink is an in-memory raft.SnapshotSink.
type triage2Sink struct {
	bytes.Buffer
}

func (s *triage2Sink) ID() string    { return "triage2" }
func (s *triage2Sink) Cancel() error { return nil }
func (s *triage2Sink) Close() error  { return nil }

func triage2Apply(t *testing.T, s *Server, index uint64, log *proto.RaftLog) {
	t.Helper()
	_, err := s.apply(log, index, false)
	require.NoError(t, err)
}

// triage2Replicas are long ids so that an ISR change moves the encoded size of
// a partition by a lot (makes torn encodings obvious).
var triage2Replicas = []string{
	"b-" + strings.Repeat("x", 60),
	"c-" + strings.Repeat("y", 60),
	"d-" + strings.Repeat("z", 60),
}

func triage2CreateStream(t *testing.T, s *Server, index uint64, name string, partitions int) {
	t.Helper()
	protoPartitions := make([]*proto.Partition, partitions)
	for i := range protoPartitions {
		protoPartitions[i] = &proto.Partition{
			Stream:   name,
			Subject:  name,
			Id:       int32(i),
			Replicas: append([]string(nil), triage2Replicas...),
			Isr:      append([]string(nil), triage2Replicas...),
			Leader:   triage2Replicas[0],
		}
	}
	triage2Apply(t, s, index, &proto.RaftLog{
		Op: proto.Op_CREATE_STREAM,
		CreateStreamOp: &proto.CreateStreamOp{
			Stream: &proto.Stream{Name: name, Subject: name, Partitions: protoPartitions},
		},
	})
}

func triage2Decode(t *testing.T, sink *triage2Sink) *proto.MetadataSnapshot {
	t.Helper()
	decoded := &proto.MetadataSnapshot{}
	require.NoError(t, decoded.Unmarshal(sink.Bytes()[4:]))
	return decoded
}

// Item 2a (deterministic, no -race needed): the object returned by Snapshot
// must be a point-in-time copy. raft calls Persist on another goroutine while
// it keeps calling Apply, so anything applied after Snapshot() returned must
// not show up in (or tear) what Persist writes. On the unfixed code the
// snapshot holds the live *proto.Partition, so a later ShrinkISR is visible.
func TestTriage2SnapshotIsPointInTime(t *testing.T) {
	defer cleanupStorage(t)
	s := New(getTestConfig("a", true, 0))
	defer s.metadata.Reset()

	triage2CreateStream(t, s, 1, "foo", 1)

	snap, err := s.Snapshot()
	require.NoError(t, err)

	// Applied AFTER the snapshot was taken (raft index 2 > snapshot index 1).
	triage2Apply(t, s, 2, &proto.RaftLog{
		Op: proto.Op_SHRINK_ISR,
		ShrinkISROp: &proto.ShrinkISROp{
			Stream: "foo", Partition: 0, ReplicaToRemove: triage2Replicas[2],
		},
	})

	sink := &triage2Sink{}
	require.NoError(t, snap.Persist(sink))
	p := triage2Decode(t, sink).Streams[0].Partitions[0]
	sort.Strings(p.Isr)
	require.Equal(t, triage2Replicas, p.Isr,
		"snapshot taken at index 1 contains the ISR change applied at index 2")
	require.Equal(t, uint64(1), p.Epoch,
		"snapshot taken at index 1 contains the epoch of index 2")
}

// Item 2b (run with -race): Persist runs concurrently with Apply. This is
// exactly the schedule raft produces (runSnapshots goroutine vs runFSM
// goroutine). The race detector reports Persist reading Partition.Isr /
// Partition.Epoch while applyShrinkISR/applyExpandISR write them.
func TestTriage2PersistConcurrentWithApply(t *testing.T) {
	defer cleanupStorage(t)
	s := New(getTestConfig("a", true, 0))
	defer s.metadata.Reset()

	triage2CreateStream(t, s, 1, "foo", 1)

	snap, err := s.Snapshot()
	require.NoError(t, err)

	var wg sync.WaitGroup
	wg.Add(1)
	go func() {
		defer wg.Done()
		_ = snap.Persist(&triage2Sink{})
	}()
	triage2Apply(t, s, 2, &proto.RaftLog{
		Op: proto.Op_SHRINK_ISR,
		ShrinkISROp: &proto.ShrinkISROp{
			Stream: "foo", Partition: 0, ReplicaToRemove: triage2Replicas[2],
		},
	})
	wg.Wait()
}

// Item 2c (stress, no -race needed): same schedule as 2b, many partitions and
// many rounds, and look at the *consequence* of the race: generated gogo
// Marshal() computes Size() first and then fills the buffer back to front, so
// if a partition changes size in between, Persist either panics (slice bounds
// out of range -> the process dies, Persist runs on a raft goroutine) or
// writes bytes that do not decode / decode to a different number of streams
// and partitions (corrupt snapshot on disk).
func TestTriage2PersistTornSnapshotStress(t *testing.T) {
	defer cleanupStorage(t)
	s := New(getTestConfig("a", true, 0))
	defer s.metadata.Reset()

	const partitions = 100
	triage2CreateStream(t, s, 1, "foo", partitions)

	var (
		index  = uint64(1)
		rounds = 300
	)
	for round := 0; round < rounds; round++ {
		snap, err := s.Snapshot()
		require.NoError(t, err)

		var (
			sink       = &triage2Sink{}
			persistErr error
			done       = make(chan struct{})
		)
		go func() {
			defer close(done)
			defer func() {
				if r := recover(); r != nil {
					persistErr = fmt.Errorf("Persist panicked: %v", r)
				}
			}()
			persistErr = snap.Persist(sink)
		}()

		// Concurrent applies: shrink (even rounds) or expand (odd rounds) the
		// ISR of every partition.
		for id := int32(0); id < partitions; id++ {
			index++
			if round%2 == 0 {
				triage2Apply(t, s, index, &proto.RaftLog{
					Op: proto.Op_SHRINK_ISR,
					ShrinkISROp: &proto.ShrinkISROp{
						Stream: "foo", Partition: id, ReplicaToRemove: triage2Replicas[2],
					},
				})
			} else {
				triage2Apply(t, s, index, &proto.RaftLog{
					Op: proto.Op_EXPAND_ISR,
					ExpandISROp: &proto.ExpandISROp{
						Stream: "foo", Partition: id, ReplicaToAdd: triage2Replicas[2],
					},
				})
			}
		}
		<-done

		if persistErr != nil {
			t.Fatalf("round %d: %v", round, persistErr)
		}
		decoded := &proto.MetadataSnapshot{}
		if err := decoded.Unmarshal(sink.Bytes()[4:]); err != nil {
			t.Fatalf("round %d: persisted snapshot does not decode: %v", round, err)
		}
		if len(decoded.Streams) != 1 || len(decoded.Streams[0].Partitions) != partitions {
			t.Fatalf("round %d: persisted snapshot is corrupt: %d streams", round, len(decoded.Streams))
		}
		for _, p := range decoded.Streams[0].Partitions {
			if p.Stream != "foo" || len(p.Replicas) != 3 || len(p.Isr) < 2 || len(p.Isr) > 3 {
				t.Fatalf("round %d: persisted snapshot has a corrupt partition: %+v", round, p)
			}
		}
	}
}

// triage2Assignments returns consumer -> stream -> partitions for the group.
func triage2Assignments(g *consumerGroup) map[string]map[string][]int32 {
	g.mu.RLock()
	defer g.mu.RUnlock()
	out := make(map[string]map[string][]int32)
	for id, member := range g.members {
		out[id] = make(map[string][]int32)
		for stream, partitions := range member.assignments {
			out[id][stream] = append([]int32(nil), partitions...)
		}
	}
	return out
}

// Item 2d (secondary): the member list of a consumer group is written to the
// snapshot in map iteration order and newConsumerGroup re-adds members in
// that order, but the balancing in addMember depends on the order in which
// members are added. So restoring snapshots of the SAME state gives different
// partition assignments from one snapshot to the next (and from one broker
// to the next) while the group epoch stays the same.
func TestTriage2SnapshotGroupMemberOrder(t *testing.T) {
	defer cleanupStorage(t)
	s := New(getTestConfig("a", true, 0))
	defer s.metadata.Reset()

	triage2CreateStream(t, s, 1, "s1", 1)
	triage2CreateStream(t, s, 2, "s2", 1)
	triage2Apply(t, s, 3, &proto.RaftLog{
		Op: proto.Op_CREATE_CONSUMER_GROUP,
		CreateConsumerGroupOp: &proto.CreateConsumerGroupOp{
			ConsumerGroup: &proto.ConsumerGroup{
				Id:          "grp",
				Coordinator: "b",
				Members:     []*proto.Consumer{{Id: "A", Streams: []string{"s1", "s2"}}},
			},
		},
	})
	triage2Apply(t, s, 4, &proto.RaftLog{
		Op: proto.Op_JOIN_CONSUMER_GROUP,
		JoinConsumerGroupOp: &proto.JoinConsumerGroupOp{
			GroupId: "grp", ConsumerId: "B", Streams: []string{"s1", "s2"},
		},
	})

	seen := make(map[string]struct{})
	for i := 0; i < 40; i++ {
		snap, err := s.Snapshot()
		require.NoError(t, err)
		sink := &triage2Sink{}
		require.NoError(t, snap.Persist(sink))
		require.NoError(t, s.Restore(io.NopCloser(bytes.NewReader(sink.Bytes()))))
		group := s.metadata.GetConsumerGroup("grp")
		require.NotNil(t, group)
		seen[fmt.Sprintf("%v", triage2Assignments(group))] = struct{}{}
	}
	if len(seen) != 1 {
		t.Fatalf("restoring snapshots of the same group state produced %d different assignments: %v",
			len(seen), seen)
	}
}
