package server

import (
	"context"
	"sync"
	"testing"
	"time"

	"github.com/stretchr/testify/require"

	"github.com/liftbridge-io/liftbridge/server/commitlog"
)

// triage5Log decorates the cursors partition's commit log so that the test
// can run code at one precise point of GetCursor's log scan: after the scan
// has picked its start offset ("latest") but before it starts reading. This is
// a plain preemption point (GetCursor holds no lock there).
type triage5Log struct {
	commitlog.CommitLog
	mu        sync.Mutex
	onReverse func()
}

func (l *triage5Log) NewReverseReader(offset int64, uncommitted bool) (*commitlog.ReverseReader, error) {
	l.mu.Lock()
	hook := l.onReverse
	l.onReverse = nil
	l.mu.Unlock()
	if hook != nil {
		hook()
	}
	return l.CommitLog.NewReverseReader(offset, uncommitted)
}

// Item 5: schedule
//
//	T1: GetCursor(abc)  cache miss -> starts scanning the cursors log, sees
//	                    the latest entry is offset=5
//	T2: SetCursor(abc, 10) publishes, is committed, caches 10, returns OK
//	T1:                 scan returns 5 -> cache.Add(abc, 5)   <-- overwrites 10
//	T3: GetCursor(abc)  (strictly after T2 returned) -> 5 from the cache
//
// T3 must return 10: SetCursor(10) had been acknowledged before T3 started.
// The stale value then sticks until the next SetCursor or a cache eviction.
func TestTriage5GetCursorStaleCacheFill(t *testing.T) {
	defer cleanupStorage(t)

	config := getTestConfig("a", true, 5050)
	config.CursorsStream.Partitions = 1
	s := runServerWithConfig(t, config)
	defer s.Stop()
	getMetadataLeader(t, 10*time.Second, s)
	waitForPartition(t, 10*time.Second, cursorsStream, 0, s)

	// Wait until this server leads the cursors partition.
	cursors := s.metadata.GetPartition(cursorsStream, 0)
	deadline := time.Now().Add(10 * time.Second)
	for !cursors.IsLeader() {
		require.True(t, time.Now().Before(deadline), "not leader of cursors partition")
		time.Sleep(5 * time.Millisecond)
	}

	var (
		ctx      = context.Background()
		stream   = "foo"
		cursorID = "abc"
	)

	// Committed cursor = 5.
	require.Nil(t, s.cursors.SetCursor(ctx, stream, cursorID, 0, 5))
	offset, st := s.cursors.GetCursor(ctx, stream, cursorID, 0)
	require.Nil(t, st)
	require.Equal(t, int64(5), offset)

	// The entry leaves the cache (LRU eviction after 512 other cursors, or
	// the Purge done by BecomePartitionLeader).
	s.cursors.cache.Remove(string(s.cursors.getCursorKey(cursorID, stream, 0)))

	// T2 runs to completion in the middle of T1's scan.
	setDone := false
	wrapped := &triage5Log{CommitLog: cursors.log}
	wrapped.onReverse = func() {
		require.Nil(t, s.cursors.SetCursor(ctx, stream, cursorID, 0, 10))
		setDone = true
	}
	cursors.mu.Lock()
	cursors.log = wrapped
	cursors.mu.Unlock()

	// T1.
	offset, st = s.cursors.GetCursor(ctx, stream, cursorID, 0)
	require.Nil(t, st)
	require.True(t, setDone, "interleaving was not injected")
	t.Logf("T1 GetCursor (overlapping SetCursor(10)) returned %d", offset)

	// T3: strictly after SetCursor(10) was acknowledged.
	offset, st = s.cursors.GetCursor(ctx, stream, cursorID, 0)
	require.Nil(t, st)
	require.Equal(t, int64(10), offset,
		"GetCursor returned a stale cursor after SetCursor(10) had been acknowledged")
}
