package server

import (
	"context"
	"io"
	"testing"
	"time"

	"github.com/hashicorp/raft"
	"github.com/stretchr/testify/require"

	proto "github.com/liftbridge-io/liftbridge/server/protocol"
)

// triage3StartRaft wires the (never started) server up as the FSM of a
// single-node, fully in-memory Raft group and makes it the metadata leader.
// No NATS, no gRPC, no ports.
func triage3StartRaft(t *testing.T, s *Server) *raft.Raft {
	t.Helper()
	conf := raft.DefaultConfig()
	conf.LocalID = raft.ServerID(s.config.Clustering.ServerID)
	conf.LogOutput = io.Discard
	conf.HeartbeatTimeout = 50 * time.Millisecond
	conf.ElectionTimeout = 50 * time.Millisecond
	conf.LeaderLeaseTimeout = 50 * time.Millisecond
	conf.CommitTimeout = 5 * time.Millisecond

	var (
		store       = raft.NewInmemStore()
		snaps       = raft.NewInmemSnapshotStore()
		addr, trans = raft.NewInmemTransport("")
	)
	require.NoError(t, raft.BootstrapCluster(conf, store, store, snaps, trans, raft.Configuration{
		Servers: []raft.Server{{ID: conf.LocalID, Address: addr}},
	}))

	// Server.Apply would otherwise consult the (Bolt) log store of a real
	// raftNode to find the recovery high watermark.
	s.recoveryStarted = true

	r, err := raft.NewRaft(conf, s, store, store, snaps, trans)
	require.NoError(t, err)

	deadline := time.Now().Add(10 * time.Second)
	for r.State() != raft.Leader {
		if time.Now().After(deadline) {
			t.Fatal("in-memory raft node did not become leader")
		}
		time.Sleep(5 * time.Millisecond)
	}
	node := &raftNode{Raft: r}
	node.setLeader(true)
	s.setRaft(node)
	return r
}

func triage3Setup(t *testing.T) (*Server, func()) {
	s := New(getTestConfig("a", true, 0))
	r := triage3StartRaft(t, s)

	// Partition foo/0: replicas {b,c,d,e,f}, leader b, ISR {b,c,d}. Replicas
	// e and f are NOT in sync. This server ("a") is not a replica, so no
	// leader/follower loop (and no NATS) is needed.
	op := &proto.RaftLog{
		Op: proto.Op_CREATE_STREAM,
		CreateStreamOp: &proto.CreateStreamOp{
			Stream: &proto.Stream{
				Name:    "foo",
				Subject: "foo",
				Partitions: []*proto.Partition{{
					Stream:   "foo",
					Subject:  "foo",
					Id:       0,
					Replicas: []string{"b", "c", "d", "e", "f"},
					Isr:      []string{"b", "c", "d"},
					Leader:   "b",
				}},
			},
		},
	}
	future, err := s.getRaft().applyOperation(context.Background(), op, nil)
	require.NoError(t, err)
	require.NoError(t, future.Error())

	return s, func() {
		r.Shutdown().Error()
		s.metadata.Reset()
		cleanupStorage(t)
	}
}

func triage3Report(s *Server, witness string) error {
	p := s.metadata.GetPartition("foo", 0)
	leader, epoch := p.GetLeader()
	st := s.metadata.ReportLeader(context.Background(), &proto.ReportLeaderOp{
		Stream:      "foo",
		Partition:   0,
		Replica:     witness,
		Leader:      leader,
		LeaderEpoch: epoch,
	})
	if st != nil {
		return st.Err()
	}
	return nil
}

// Item 3a: ISR is {b(leader), c, d}, so there are two in-sync followers and
// the documented rule is that a majority of the ISR must report the leader.
// Here NEITHER in-sync follower reports. The only reports come from e and f,
// which are replicas that have fallen out of the ISR. The leader must not be
// failed over, but on the unfixed code it is.
func TestTriage3ReportLeaderFromNonISRReplicas(t *testing.T) {
	s, cleanup := triage3Setup(t)
	defer cleanup()

	p := s.metadata.GetPartition("foo", 0)
	leaderBefore, epochBefore := p.GetLeader()
	require.Equal(t, "b", leaderBefore)

	errE := triage3Report(s, "e")
	errF := triage3Report(s, "f")
	t.Logf("ReportLeader(e) -> %v, ReportLeader(f) -> %v", errE, errF)

	leaderAfter, epochAfter := p.GetLeader()
	require.Equal(t, leaderBefore, leaderAfter,
		"partition leader was failed over (epoch %d -> %d) by reports from replicas "+
			"that are not in the ISR %v", epochBefore, epochAfter, p.GetISR())
	require.Error(t, errE, "report from non-ISR replica e should be rejected")
	require.Error(t, errF, "report from non-ISR replica f should be rejected")
}

// Item 3b: witness ids are not validated at all: the leader "reporting"
// itself plus an id that is not even a replica of the partition are enough.
func TestTriage3ReportLeaderFromLeaderAndUnknownID(t *testing.T) {
	s, cleanup := triage3Setup(t)
	defer cleanup()

	p := s.metadata.GetPartition("foo", 0)
	leaderBefore, _ := p.GetLeader()

	errLeader := triage3Report(s, "b")
	errBogus := triage3Report(s, "no-such-broker")
	t.Logf("ReportLeader(b) -> %v, ReportLeader(no-such-broker) -> %v", errLeader, errBogus)

	leaderAfter, _ := p.GetLeader()
	require.Equal(t, leaderBefore, leaderAfter,
		"partition leader was failed over by reports from the leader itself and an unknown id")
	require.Error(t, errLeader, "the leader cannot be a witness against itself")
	require.Error(t, errBogus, "an id that is not in the ISR cannot be a witness")
}

// Item 3c (control, must pass before and after the fix): reports from the two
// in-sync followers c and d do fail the leader over to one of them.
func TestTriage3ReportLeaderFromISRFollowers(t *testing.T) {
	s, cleanup := triage3Setup(t)
	defer cleanup()

	require.NoError(t, triage3Report(s, "c"))
	p := s.metadata.GetPartition("foo", 0)
	leader, _ := p.GetLeader()
	require.Equal(t, "b", leader, "one report out of two in-sync followers is not a majority")

	// Repeating the same witness does not count twice.
	require.NoError(t, triage3Report(s, "c"))
	leader, _ = p.GetLeader()
	require.Equal(t, "b", leader)

	require.NoError(t, triage3Report(s, "d"))
	leader, _ = p.GetLeader()
	require.Contains(t, []string{"c", "d"}, leader)
}
