// Package dir: server/   (copy to server/repro_1_test.go)
//
// Reproducer for: startGoroutineWG / startGoroutineWithArgsWG take the
// sync.WaitGroup BY VALUE, so partition.shutdown.Wait() (used by
// stopLeading: "Wait for loops to shutdown") never waits for the leader loops.
//
// The test goes through the real call site (partition.startReplicating ->
// srv.startGoroutineWG(commitLoop, p.shutdown)) so it compiles both before and
// after the fix. The first two tests need no NATS / network / ports; the third
// one (TestRepro1StopLeadingReturnsWhileAppendInFlight) starts a real
// single-node server (embedded NATS on 4222) like the other partition tests.
//
// Run: go test -vet=off -count=1 -run 'TestRepro1' ./server/
package server

import (
	"testing"
	"time"

	"github.com/stretchr/testify/require"

	"github.com/liftbridge-io/liftbridge/server/commitlog"
	proto "github.com/liftbridge-io/liftbridge/server/protocol"
)

func waitReturns(wait func(), d time.Duration) bool {
	done := make(chan struct{})
	go func() {
		wait()
		close(done)
	}()
	select {
	case <-done:
		return true
	case <-time.After(d):
		return false
	}
}

// commitLoop is started through startGoroutineWG with p.shutdown. While it is
// still running, p.shutdown.Wait() must block.
func TestRepro1PartitionShutdownWaitGroupDoesNotWait(t *testing.T) {
	s := New(getTestConfig("a", true, 0)) // not started, no ports used
	p := &partition{
		srv:         s,
		replicas:    map[string]struct{}{"a": {}},
		commitCheck: make(chan struct{}, 1),
		Partition: &proto.Partition{
			Stream:            "foo",
			Subject:           "foo",
			ReplicationFactor: 1,
			Replicas:          []string{"a"},
			Isr:               []string{"a"},
			Leader:            "a",
		},
	}

	stop := make(chan struct{})
	p.startReplicating(1, stop) // starts commitLoop(stop) via startGoroutineWG(..., p.shutdown)

	// Sanity check: the commitLoop goroutine really is running. The server-wide
	// WaitGroup (s.goroutineWait, used through a pointer receiver, so correct)
	// must not be released yet.
	if waitReturns(s.goroutineWait.Wait, 200*time.Millisecond) {
		t.Fatal("test bug: commitLoop goroutine is not running")
	}

	// This is exactly what stopLeading() relies on ("Wait for loops to
	// shutdown"). The loop has NOT been told to stop, so Wait() must block.
	returnedEarly := waitReturns(p.shutdown.Wait, 500*time.Millisecond)

	// Let the loop exit and make sure everything drains so we don't leak.
	close(stop)
	if !waitReturns(s.goroutineWait.Wait, 5*time.Second) {
		t.Fatal("commitLoop did not exit after stop was closed")
	}
	if !waitReturns(p.shutdown.Wait, 5*time.Second) {
		t.Fatal("p.shutdown.Wait() did not return after commitLoop exited")
	}

	if returnedEarly {
		t.Fatal("DEFECT: p.shutdown.Wait() returned while commitLoop (started via " +
			"startGoroutineWG(..., p.shutdown)) was still running: the WaitGroup is " +
			"passed by value so Add/Done act on a copy")
	}
}

// Same for startGoroutineWithArgsWG (used for messageProcessingLoop and the
// replicators): with RF=2 a replicator.start loop is started for replica "b".
func TestRepro1ReplicatorNotTrackedByShutdownWaitGroup(t *testing.T) {
	s := New(getTestConfig("a", true, 0))
	// startReplicating uses p.srv.api.startGoroutineWithArgsWG; api embeds
	// *Server.
	s.api = &apiServer{Server: s}
	p := &partition{
		srv:         s,
		replicas:    map[string]struct{}{"a": {}, "b": {}},
		commitCheck: make(chan struct{}, 1),
		Partition: &proto.Partition{
			Stream:            "foo",
			Subject:           "foo",
			ReplicationFactor: 2,
			Replicas:          []string{"a", "b"},
			Isr:               []string{"a", "b"},
			Leader:            "a",
		},
	}

	stop := make(chan struct{})
	p.startReplicating(1, stop)
	time.Sleep(100 * time.Millisecond)

	returnedEarly := waitReturns(p.shutdown.Wait, 500*time.Millisecond)

	close(stop)
	if !waitReturns(s.goroutineWait.Wait, 5*time.Second) {
		t.Fatal("loops did not exit after stop was closed")
	}
	if !waitReturns(p.shutdown.Wait, 5*time.Second) {
		t.Fatal("p.shutdown.Wait() did not return after loops exited")
	}
	if returnedEarly {
		t.Fatal("DEFECT: p.shutdown.Wait() returned while commitLoop and replicator.start " +
			"(started via startGoroutine[WithArgs]WG(..., p.shutdown)) were still running")
	}
}

// blockingAppendLog wraps a CommitLog and blocks inside Append until released.
type blockingAppendLog struct {
	commitlog.CommitLog
	entered chan struct{}
	release chan struct{}
}

func (b *blockingAppendLog) Append(msgs []*commitlog.Message) ([]int64, error) {
	select {
	case b.entered <- struct{}{}:
	default:
	}
	<-b.release
	return b.CommitLog.Append(msgs)
}

// End-to-end consequence: stopLeading() (the step-down path used by
// becomeFollower/Close/Pause/Delete) returns while the old leader's
// messageProcessingLoop is still inside log.Append. After stopLeading returns,
// becomeFollower goes on to truncate the log and start replicating into it, so
// the stale leader loop and the follower are concurrent writers.
func TestRepro1StopLeadingReturnsWhileAppendInFlight(t *testing.T) {
	defer cleanupStorage(t)

	server := createServer()
	require.NoError(t, server.Start())
	defer server.Stop()

	p, err := server.newPartition(&proto.Partition{
		Subject:           "foo",
		Stream:            "foo",
		ReplicationFactor: 1,
		Replicas:          []string{"a"},
		Leader:            "a",
		Isr:               []string{"a"},
	}, false, nil)
	require.NoError(t, err)
	defer p.Close()

	bl := &blockingAppendLog{
		CommitLog: p.log,
		entered:   make(chan struct{}, 1),
		release:   make(chan struct{}),
	}
	p.log = bl

	p.mu.Lock()
	err = p.becomeLeader(1)
	p.mu.Unlock()
	require.NoError(t, err)

	// Publish a message; the leader loop picks it up and blocks in Append.
	require.NoError(t, server.nc.Publish(p.getSubject(), []byte("hello")))
	require.NoError(t, server.nc.Flush())
	select {
	case <-bl.entered:
	case <-time.After(5 * time.Second):
		t.Fatal("messageProcessingLoop never reached log.Append")
	}

	// Step down. stopLeading must not return before the leader loop is done.
	done := make(chan error, 1)
	go func() {
		p.mu.Lock()
		defer p.mu.Unlock()
		done <- p.stopLeading()
	}()

	returnedEarly := false
	select {
	case err := <-done:
		require.NoError(t, err)
		returnedEarly = true
	case <-time.After(500 * time.Millisecond):
	}

	close(bl.release)
	if !returnedEarly {
		select {
		case err := <-done:
			require.NoError(t, err)
		case <-time.After(5 * time.Second):
			t.Fatal("stopLeading did not return after the leader loop was released")
		}
	}

	if returnedEarly {
		t.Fatal("DEFECT: stopLeading() returned while messageProcessingLoop was still " +
			"blocked inside log.Append (p.shutdown.Wait() is a no-op)")
	}
}
