// Package dir: server/   (copy to server/repro_2_test.go)
//
// Reproducer for: environment overrides in NewConfig.
//
// CHANGELOG.md (Anonymous Telemetry) documents opting out with
//     export LIFTBRIDGE_TELEMETRY_ENABLED=false
// and documentation/configuration.md documents
//     env LIFTBRIDGE_HOST=... LIFTBRIDGE_LOGGING_LEVEL=error liftbridge --config config.yaml
//
// But NewConfig configures viper with SetEnvPrefix("LIFTBRIDGE") +
// AutomaticEnv() and NO SetEnvKeyReplacer, so a nested key such as
// "telemetry.enabled" / "logging.level" is looked up as
// LIFTBRIDGE_TELEMETRY.ENABLED / LIFTBRIDGE_LOGGING.LEVEL, and NewConfig("")
// returns before the environment is consulted at all.
//
// Run: go test -vet=off -count=1 -run 'TestRepro2' ./server/
package server

import (
	"os"
	"path/filepath"
	"testing"

	log "github.com/sirupsen/logrus"
	"github.com/stretchr/testify/require"
)

func writeTempConfig(t *testing.T, content string) string {
	t.Helper()
	path := filepath.Join(t.TempDir(), "liftbridge.yaml")
	require.NoError(t, os.WriteFile(path, []byte(content), 0o600))
	return path
}

// Sanity: the env override mechanism itself works for top-level keys that are
// present in the config file (documented behaviour). Passes before and after.
func TestRepro2EnvOverrideTopLevelKeyWorks(t *testing.T) {
	t.Setenv("LIFTBRIDGE_HOST", "liftbridge.example.com")
	config, err := NewConfig(writeTempConfig(t, "host: localhost\n"))
	require.NoError(t, err)
	require.Equal(t, "liftbridge.example.com", config.Host)
}

// Documented in documentation/configuration.md: LIFTBRIDGE_LOGGING_LEVEL
// overrides logging.level from the config file. FAILS on current code.
func TestRepro2EnvOverrideNestedKeyInFile(t *testing.T) {
	t.Setenv("LIFTBRIDGE_LOGGING_LEVEL", "error")
	config, err := NewConfig(writeTempConfig(t, "logging:\n  level: debug\n"))
	require.NoError(t, err)
	require.Equal(t, uint32(log.ErrorLevel), config.LogLevel,
		"LIFTBRIDGE_LOGGING_LEVEL=error did not override logging.level")
}

// Telemetry opt-out, key present in config file. FAILS on current code.
func TestRepro2TelemetryEnvKeyInFile(t *testing.T) {
	t.Setenv("LIFTBRIDGE_TELEMETRY_ENABLED", "false")
	config, err := NewConfig(writeTempConfig(t, "telemetry:\n  enabled: true\n"))
	require.NoError(t, err)
	require.False(t, config.Telemetry.Enabled,
		"LIFTBRIDGE_TELEMETRY_ENABLED=false did not disable telemetry (key in file)")
}

// Telemetry opt-out, minimal config file that does not mention telemetry.
// FAILS on current code.
func TestRepro2TelemetryEnvKeyNotInFile(t *testing.T) {
	t.Setenv("LIFTBRIDGE_TELEMETRY_ENABLED", "false")
	config, err := NewConfig(writeTempConfig(t, "port: 9292\n"))
	require.NoError(t, err)
	require.False(t, config.Telemetry.Enabled,
		"LIFTBRIDGE_TELEMETRY_ENABLED=false did not disable telemetry (key not in file)")
}

// Telemetry opt-out, no config file at all (the default way to run the
// binary). FAILS on current code.
func TestRepro2TelemetryEnvNoConfigFile(t *testing.T) {
	t.Setenv("LIFTBRIDGE_TELEMETRY_ENABLED", "false")
	config, err := NewConfig("")
	require.NoError(t, err)
	require.False(t, config.Telemetry.Enabled,
		"LIFTBRIDGE_TELEMETRY_ENABLED=false did not disable telemetry (no config file)")
}

// Guard: defaults must be unchanged when no env var is set, with and without
// file. Passes before and after.
func TestRepro2DefaultsUnchanged(t *testing.T) {
	def := NewDefaultConfig()

	config, err := NewConfig("")
	require.NoError(t, err)
	require.True(t, config.Telemetry.Enabled)
	require.Equal(t, def.Telemetry.IntervalSeconds, config.Telemetry.IntervalSeconds)
	require.Equal(t, def.Streams.SegmentMaxAge, config.Streams.SegmentMaxAge)
	require.Equal(t, def.Streams.RetentionMaxAge, config.Streams.RetentionMaxAge)
	require.Equal(t, def.Port, config.Port)
	require.Equal(t, def.LogLevel, config.LogLevel)
	require.Equal(t, def.EmbeddedNATS, config.EmbeddedNATS)
	def.Clustering.ServerID = config.Clustering.ServerID // random per call
	require.Equal(t, def.Clustering, config.Clustering)
	require.Equal(t, def.Streams, config.Streams)
	require.Equal(t, def.ActivityStream, config.ActivityStream)
	require.Equal(t, def.CursorsStream, config.CursorsStream)
	require.Equal(t, def.Groups, config.Groups)
	require.Equal(t, def.Telemetry, config.Telemetry)
	require.Equal(t, def.NATS.Servers, config.NATS.Servers)
	require.Equal(t, def.Listen, config.Listen)
	require.Equal(t, def.Host, config.Host)
	require.Equal(t, def.DataDir, config.DataDir)
	require.Equal(t, def.BatchMaxMessages, config.BatchMaxMessages)
	require.Equal(t, def.BatchMaxTime, config.BatchMaxTime)
	require.Equal(t, def.MetadataCacheMaxAge, config.MetadataCacheMaxAge)

	config, err = NewConfig(writeTempConfig(t, "port: 9292\n"))
	require.NoError(t, err)
	require.True(t, config.Telemetry.Enabled)
	require.Equal(t, def.Streams.SegmentMaxAge, config.Streams.SegmentMaxAge)
}
