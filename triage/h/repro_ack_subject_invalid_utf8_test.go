package server

import (
	"context"
	"testing"
	"time"

	lift "github.com/liftbridge-io/go-liftbridge/v2"
	"github.com/nats-io/nats.go"
	"github.com/stretchr/testify/require"
)

// A plain NATS message published to a stream's subject with a reply subject that is not valid UTF-8 is stored (raw
// passthrough) and then acknowledged to that reply subject: MarshalAck refuses the string and sendAck panics.
func TestReproAckInboxInvalidUTF8(t *testing.T) {
	defer cleanupStorage(t)
	s1Config := getTestConfig("a", true, 5050)
	s1 := runServerWithConfig(t, s1Config)
	defer s1.Stop()
	getMetadataLeader(t, 10*time.Second, s1)

	client, err := lift.Connect([]string{"localhost:5050"})
	require.NoError(t, err)
	defer client.Close()
	require.NoError(t, client.CreateStream(context.Background(), "foo.*", "foo"))

	nc, err := nats.Connect(nats.DefaultURL)
	require.NoError(t, err)
	defer nc.Close()
	require.NoError(t, nc.Publish("foo.\xff", lift.NewMessage([]byte("hello"), lift.AckInbox("acks"), lift.AckPolicyLeader())))
	require.NoError(t, nc.Flush())

	// The message is stored; the server must survive acknowledging it.
	p := s1.metadata.GetPartition("foo", 0)
	deadline := time.Now().Add(5 * time.Second)
	for p.log.NewestOffset() < 0 && time.Now().Before(deadline) {
		time.Sleep(20 * time.Millisecond)
	}
	require.Equal(t, int64(0), p.log.NewestOffset())
	time.Sleep(500 * time.Millisecond)
	// still serving
	_, err = client.Publish(context.Background(), "foo", []byte("again"), lift.AckPolicyLeader())
	require.NoError(t, err)
}
