package server

import (
	"context"
	"crypto/tls"
	"crypto/x509"
	"os"
	"testing"
	"time"

	lift "github.com/liftbridge-io/go-liftbridge/v2"
	"github.com/stretchr/testify/require"
)

// With client authorisation AND the activity stream enabled, the server's own publishes to the activity stream go through
// apiServer.Publish with a bare context, are refused by ensureAuthorizationPermission ("Failed to retrieve client ID") and
// retried for ever: no committed operation ever appears in the activity stream.
func TestReproActivityStreamWithAuthz(t *testing.T) {
	defer cleanupStorage(t)

	s1Config, err := NewConfig("./configs/tls-authz.yaml")
	require.NoError(t, err)
	testConfig := getTestConfig("a", true, 5050)
	testConfig.TLSCert = s1Config.TLSCert
	testConfig.TLSKey = s1Config.TLSKey
	testConfig.TLSClientAuth = s1Config.TLSClientAuth
	testConfig.TLSClientAuthCA = s1Config.TLSClientAuthCA
	testConfig.TLSClientAuthz = s1Config.TLSClientAuthz
	testConfig.TLSClientAuthzModel = s1Config.TLSClientAuthzModel
	testConfig.TLSClientAuthzPolicy = s1Config.TLSClientAuthzPolicy
	testConfig.ActivityStream.Enabled = true
	testConfig.ActivityStream.PublishTimeout = time.Second

	s1 := runServerWithConfig(t, testConfig)
	defer s1.Stop()
	getMetadataLeader(t, 10*time.Second, s1)

	certPool := x509.NewCertPool()
	ca, err := os.ReadFile("./configs/certs/ca-cert.pem")
	require.NoError(t, err)
	certPool.AppendCertsFromPEM(ca)
	certificate, err := tls.LoadX509KeyPair("./configs/certs/client/client-cert.pem", "./configs/certs/client/client-key.pem")
	require.NoError(t, err)
	client, err := lift.Connect([]string{"localhost:5050"}, lift.TLSConfig(&tls.Config{
		ServerName:   "localhost",
		Certificates: []tls.Certificate{certificate},
		RootCAs:      certPool,
	}))
	require.NoError(t, err)
	defer client.Close()

	require.NoError(t, client.CreateStream(context.Background(), "foo", "foo"))

	// Two operations were committed (activity stream creation, foo creation): both must show up.
	deadline := time.Now().Add(10 * time.Second)
	for {
		p := s1.metadata.GetPartition(activityStream, 0)
		if p != nil && p.log.NewestOffset() >= 1 {
			return
		}
		if time.Now().After(deadline) {
			newest := int64(-2)
			if p != nil {
				newest = p.log.NewestOffset()
			}
			t.Fatalf("activity stream holds no event for the committed operations (newest offset %d)", newest)
		}
		time.Sleep(100 * time.Millisecond)
	}
}
