package server

import (
	"context"
	"testing"
	"time"

	lift "github.com/liftbridge-io/go-liftbridge/v2"
	"github.com/nats-io/nats.go"
	"github.com/stretchr/testify/require"

	proto "github.com/liftbridge-io/liftbridge/server/protocol"
)

// A well-formed replication request that names the leader itself as the replica passes the "is a replica" test (the
// leader is in p.replicas) but has no replicator (the leader keeps none for itself): handleReplicationRequest panics and
// one NATS message stops the process.
func TestReproReplicationRequestFromLeaderID(t *testing.T) {
	defer cleanupStorage(t)
	s1Config := getTestConfig("a", true, 5050)
	s1 := runServerWithConfig(t, s1Config)
	defer s1.Stop()
	getMetadataLeader(t, 10*time.Second, s1)

	client, err := lift.Connect([]string{"localhost:5050"})
	require.NoError(t, err)
	defer client.Close()
	require.NoError(t, client.CreateStream(context.Background(), "foo", "foo"))
	p := s1.metadata.GetPartition("foo", 0)
	require.NotNil(t, p)

	data, err := proto.MarshalReplicationRequest(&proto.ReplicationRequest{ReplicaID: "a", Offset: -1})
	require.NoError(t, err)

	nc, err := nats.Connect(nats.DefaultURL)
	require.NoError(t, err)
	defer nc.Close()
	require.NoError(t, nc.Publish(p.getReplicationRequestInbox(), data))
	require.NoError(t, nc.Flush())
	time.Sleep(500 * time.Millisecond)

	// still serving
	_, err = client.Publish(context.Background(), "foo", []byte("hello"), lift.AckPolicyLeader())
	require.NoError(t, err)
}
