package server

import (
	"context"
	"testing"
	"time"

	lift "github.com/liftbridge-io/go-liftbridge/v2"
	client "github.com/liftbridge-io/liftbridge-api/v2/go"
	"github.com/stretchr/testify/require"
	"google.golang.org/grpc/codes"
)

// A reverse subscription with an explicit stop offset delivers start, start-1, …, stop and ends; when the stop offset itself
// is no longer in the log it ends at the first message below it, which is not delivered.
func TestReproReverseSubscriptionStopOffset(t *testing.T) {
	defer cleanupStorage(t)
	s1Config := getTestConfig("a", true, 5050)
	s1 := runServerWithConfig(t, s1Config)
	defer s1.Stop()
	getMetadataLeader(t, 10*time.Second, s1)

	c, err := lift.Connect([]string{"localhost:5050"})
	require.NoError(t, err)
	defer c.Close()
	ctx := context.Background()
	require.NoError(t, c.CreateStream(ctx, "foo", "foo"))
	for i := 0; i < 5; i++ {
		_, err := c.Publish(ctx, "foo", []byte("x"), lift.AckPolicyLeader())
		require.NoError(t, err)
	}

	read := func(start, stop int64) ([]int64, codes.Code, error) {
		ctx, cancel := context.WithTimeout(context.Background(), 10*time.Second)
		defer cancel()
		sub, err := s1.api.SubscribeInternal(ctx, &client.SubscribeRequest{
			Stream:        "foo",
			StartPosition: client.StartPosition_OFFSET,
			StartOffset:   start,
			StopPosition:  client.StopPosition_STOP_OFFSET,
			StopOffset:    stop,
			Reverse:       true,
		})
		if err != nil {
			return nil, 0, err
		}
		defer sub.Close()
		var got []int64
		for {
			select {
			case m := <-sub.Messages():
				got = append(got, m.Offset)
			case st := <-sub.Errors():
				return got, st.Code(), nil
			case <-ctx.Done():
				t.Fatalf("neither delivered nor ended; got %v", got)
			}
		}
	}

	got, code, err := read(3, 1)
	require.NoError(t, err, "reverse range [3..1]")
	require.Equal(t, []int64{3, 2, 1}, got)
	require.Equal(t, codes.ResourceExhausted, code)

	// A stop offset on the far side of the start is an empty request.
	_, _, err = read(1, 3)
	require.Error(t, err)
}
