package server

import (
	"context"
	"testing"
	"time"

	lift "github.com/liftbridge-io/go-liftbridge/v2"
	client "github.com/liftbridge-io/liftbridge-api/v2/go"
	"github.com/stretchr/testify/require"
	"google.golang.org/grpc/codes"
)

// reverseRead subscribes in reverse from the latest message and returns the delivered offsets and the final status code.
func reverseRead(t *testing.T, s *Server, stream string) ([]int64, codes.Code) {
	ctx, cancel := context.WithTimeout(context.Background(), 10*time.Second)
	defer cancel()
	sub, err := s.api.SubscribeInternal(ctx, &client.SubscribeRequest{
		Stream:        stream,
		StartPosition: client.StartPosition_LATEST,
		Reverse:       true,
	})
	require.NoError(t, err)
	defer sub.Close()
	var got []int64
	for {
		select {
		case m := <-sub.Messages():
			got = append(got, m.Offset)
		case st := <-sub.Errors():
			return got, st.Code()
		case <-ctx.Done():
			t.Fatalf("reverse subscription neither delivered nor ended; got %v", got)
		}
	}
}

// A reverse subscription delivers newest → oldest and then ends. (1) At the beginning of the log it must end with a
// status a client can tell apart from a failure (the cursor manager expects ResourceExhausted there). (2) On a read-only
// partition it must still deliver the whole log, not only the newest message.
func TestReproReverseSubscriptionEnd(t *testing.T) {
	defer cleanupStorage(t)
	s1Config := getTestConfig("a", true, 5050)
	s1 := runServerWithConfig(t, s1Config)
	defer s1.Stop()
	getMetadataLeader(t, 10*time.Second, s1)

	c, err := lift.Connect([]string{"localhost:5050"})
	require.NoError(t, err)
	defer c.Close()
	ctx := context.Background()
	require.NoError(t, c.CreateStream(ctx, "foo", "foo"))
	for i := 0; i < 5; i++ {
		_, err := c.Publish(ctx, "foo", []byte("x"), lift.AckPolicyLeader())
		require.NoError(t, err)
	}

	got, code := reverseRead(t, s1, "foo")
	require.Equal(t, []int64{4, 3, 2, 1, 0}, got)
	require.Equal(t, codes.ResourceExhausted, code, "end of a reverse subscription on a writable partition")

	require.NoError(t, c.SetStreamReadonly(ctx, "foo"))
	got, code = reverseRead(t, s1, "foo")
	require.Equal(t, []int64{4, 3, 2, 1, 0}, got, "reverse subscription on a read-only partition")
	require.Equal(t, codes.ResourceExhausted, code)
}
