// package dir: server
package server

import (
	"context"
	"testing"
	"time"

	"github.com/hashicorp/raft"
	lift "github.com/liftbridge-io/go-liftbridge/v2"
	natsdTest "github.com/nats-io/nats-server/v2/test"
	"github.com/stretchr/testify/require"
	"google.golang.org/grpc/status"

	proto "github.com/liftbridge-io/liftbridge/server/protocol"
)

// groupFailoverCluster starts a three node cluster with a consumer group of
// three members (c1, c2, c3) and returns the metadata leader, the group as the
// leader sees it and a cleanup function.
func groupFailoverCluster(t *testing.T, groupID string) (*Server, *consumerGroup, func()) {
	ns := natsdTest.RunDefaultServer()

	configs := []*Config{
		getTestConfig("a", true, 5050),
		getTestConfig("b", false, 5051),
		getTestConfig("c", false, 5052),
	}
	servers := make([]*Server, len(configs))
	for i, config := range configs {
		config.EmbeddedNATS = false
		config.CursorsStream.Partitions = 1
		// Nothing in the tests depends on these elapsing.
		config.Groups.CoordinatorTimeout = time.Minute
		config.Groups.ConsumerTimeout = time.Minute
		servers[i] = runServerWithConfig(t, config)
	}
	cleanup := func() {
		for _, s := range servers {
			s.Stop()
		}
		ns.Shutdown()
		cleanupStorage(t)
	}

	leader := getMetadataLeader(t, 10*time.Second, servers...)

	client, err := lift.Connect([]string{"localhost:5050", "localhost:5051", "localhost:5052"})
	require.NoError(t, err)
	defer client.Close()
	require.NoError(t, client.CreateStream(context.Background(), "foo", "foo"))

	for _, member := range []string{"c1", "c2", "c3"} {
		ctx, cancel := context.WithTimeout(context.Background(), 10*time.Second)
		_, _, st := leader.metadata.JoinConsumerGroup(ctx, &proto.JoinConsumerGroupOp{
			GroupId:    groupID,
			ConsumerId: member,
			Streams:    []string{"foo"},
		})
		cancel()
		require.Nil(t, st, "join of %s failed: %v", member, st)
	}
	waitForGroupMembers(t, 10*time.Second, groupID, 3, servers...)

	group := leader.metadata.GetConsumerGroup(groupID)
	require.NotNil(t, group)
	return leader, group, cleanup
}

func reportGroupCoordinator(leader *Server, groupID, member, coordinator string, epoch uint64) *status.Status {
	ctx, cancel := context.WithTimeout(context.Background(), 20*time.Second)
	defer cancel()
	return leader.metadata.ReportGroupCoordinator(ctx, &proto.ReportConsumerGroupCoordinatorOp{
		GroupId:     groupID,
		ConsumerId:  member,
		Coordinator: coordinator,
		Epoch:       epoch,
	})
}

func groupWitnesses(f *failoverStatus) int {
	f.mu.Lock()
	defer f.mu.Unlock()
	return len(f.witnesses)
}

// A group of three members needs two of them to report the coordinator before
// it is replaced. Members c1 and c2 report coordinator X, which starts the
// change to a new coordinator Y. While that change is still being applied
// through Raft, c3 reports X as well (it is still the coordinator as far as
// the metadata leader knows, so the report is accepted). Once Y is installed,
// a single report of Y must not be enough to replace it: c3's report was made
// against X, not against Y.
func TestGroupCoordinatorStaleReportDeposesNewCoordinator(t *testing.T) {
	const groupID = "my-group"
	leader, group, cleanup := groupFailoverCluster(t, groupID)
	defer cleanup()

	x, epochX := group.GetCoordinator()

	// c1 reports X. One report is not a quorum.
	require.Nil(t, reportGroupCoordinator(leader, groupID, "c1", x, epochX))
	c, e := group.GetCoordinator()
	require.Equal(t, x, c)
	require.Equal(t, epochX, e)

	leader.metadata.consumerGroupsMu.Lock()
	failover := leader.metadata.groupFailovers[group]
	leader.metadata.consumerGroupsMu.Unlock()
	require.NotNil(t, failover)
	require.Equal(t, 1, groupWitnesses(failover))

	// Keep the coordinator change in flight: applyOperation serializes Raft
	// operations with this mutex, so the election below stalls right before
	// proposing the change.
	raftNode := leader.getRaft()
	raftNode.Lock()
	locked := true
	defer func() {
		if locked {
			raftNode.Unlock()
		}
	}()

	// c2 reports X. This is the quorum and starts the election, which blocks.
	firstElection := make(chan *status.Status, 1)
	go func() {
		firstElection <- reportGroupCoordinator(leader, groupID, "c2", x, epochX)
	}()
	// The witnesses are forgotten once they triggered the failover, which
	// tells us c2's report has been counted and the election is under way.
	deadline := time.Now().Add(10 * time.Second)
	for groupWitnesses(failover) != 0 {
		require.True(t, time.Now().Before(deadline), "c2's report did not trigger a failover")
		time.Sleep(5 * time.Millisecond)
	}

	// c3 reports X while the change is in flight. The report is accepted
	// because X at epochX is still current on the metadata leader.
	require.Nil(t, reportGroupCoordinator(leader, groupID, "c3", x, epochX))

	// Let the change go through.
	raftNode.Unlock()
	locked = false
	select {
	case st := <-firstElection:
		require.Nil(t, st, "first election failed: %v", st)
	case <-time.After(20 * time.Second):
		t.Fatal("first election did not complete")
	}
	y, epochY := group.GetCoordinator()
	require.NotEqual(t, x, y)
	require.Greater(t, epochY, epochX)

	// A report against X is now refused...
	require.NotNil(t, reportGroupCoordinator(leader, groupID, "c1", x, epochX))

	// ...and a single member reporting Y is not a quorum (2 of 3 needed).
	// Nobody else has reported Y, so Y must stay the coordinator.
	st := reportGroupCoordinator(leader, groupID, "c2", y, epochY)
	require.Nil(t, st, "report failed: %v", st)

	c, e = group.GetCoordinator()
	require.Equal(t, y, c,
		"coordinator %s (epoch %d) was replaced by %s (epoch %d) after a single report; "+
			"c3's report of the previous coordinator %s was counted against it", y, epochY, c, e, x)
	require.Equal(t, epochY, e)
}

// Members c1 and c2 report coordinator X, which starts the change to Y. While
// that change is in flight, c3 and c1 (retrying) report X too, forming a second
// quorum for the same failed coordinator and a second election. Only one
// coordinator change must result from the failure of X.
func TestGroupCoordinatorSecondElectionForSameFailure(t *testing.T) {
	const groupID = "my-group"
	leader, group, cleanup := groupFailoverCluster(t, groupID)
	defer cleanup()

	x, epochX := group.GetCoordinator()

	require.Nil(t, reportGroupCoordinator(leader, groupID, "c1", x, epochX))
	leader.metadata.consumerGroupsMu.Lock()
	failover := leader.metadata.groupFailovers[group]
	leader.metadata.consumerGroupsMu.Unlock()
	require.NotNil(t, failover)

	raftNode := leader.getRaft()
	raftNode.Lock()
	locked := true
	defer func() {
		if locked {
			raftNode.Unlock()
		}
	}()

	elections := make(chan *status.Status, 2)
	go func() {
		elections <- reportGroupCoordinator(leader, groupID, "c2", x, epochX)
	}()
	deadline := time.Now().Add(10 * time.Second)
	for groupWitnesses(failover) != 0 {
		require.True(t, time.Now().Before(deadline), "c2's report did not trigger a failover")
		time.Sleep(5 * time.Millisecond)
	}

	// Second quorum against X while the first change is in flight.
	require.Nil(t, reportGroupCoordinator(leader, groupID, "c3", x, epochX))
	require.Equal(t, 1, groupWitnesses(failover))
	go func() {
		elections <- reportGroupCoordinator(leader, groupID, "c1", x, epochX)
	}()
	deadline = time.Now().Add(10 * time.Second)
	for groupWitnesses(failover) != 0 {
		require.True(t, time.Now().Before(deadline), "c1's report did not trigger a failover")
		time.Sleep(5 * time.Millisecond)
	}

	raftNode.Unlock()
	locked = false

	// Both calls return. Whatever the second one answers, the group must
	// have gone through exactly one coordinator change.
	for i := 0; i < 2; i++ {
		select {
		case <-elections:
		case <-time.After(20 * time.Second):
			t.Fatal("election did not complete")
		}
	}

	y, epochY := group.GetCoordinator()
	require.NotEqual(t, x, y)
	require.Greater(t, epochY, epochX)

	// Count the coordinator changes in the leader's Raft log.
	var (
		last    = raftNode.LastIndex()
		changes []string
	)
	for idx := epochX + 1; idx <= last; idx++ {
		var entry raft.Log
		if err := raftNode.store.GetLog(idx, &entry); err != nil || entry.Type != raft.LogCommand {
			continue
		}
		op := &proto.RaftLog{}
		if err := op.Unmarshal(entry.Data); err != nil {
			continue
		}
		if op.Op == proto.Op_CHANGE_CONSUMER_GROUP_COORDINATOR {
			changes = append(changes, op.ChangeConsumerGroupCoordinatorOp.Coordinator)
		}
	}
	require.Len(t, changes, 1,
		"the failure of coordinator %s led to %d coordinator changes (%v), group is now at %s epoch %d",
		x, len(changes), changes, y, epochY)
}
