// package dir: server/commitlog
package commitlog

import (
	"context"
	"testing"

	"github.com/stretchr/testify/require"
)

// reproReplicate copies every message of src from offset from on into dst the
// way a follower does: it reads the leader's log (uncommitted reader) and
// writes the serialized messages with AppendMessageSet.
func reproReplicate(t *testing.T, src, dst *commitLog, from int64) {
	t.Helper()
	r, err := src.NewReader(from, true)
	require.NoError(t, err)
	headers := make([]byte, 28)
	for offset := from; offset <= src.NewestOffset(); offset++ {
		msg, off, _, _, err := r.ReadMessage(context.Background(), headers)
		require.NoError(t, err)
		require.Equal(t, offset, off)
		buf := append(append([]byte{}, headers...), msg...)
		_, err = dst.AppendMessageSet(buf)
		require.NoError(t, err)
	}
}

func reproValueAt(t *testing.T, l *commitLog, offset int64) string {
	t.Helper()
	r, err := l.NewReader(offset, true)
	require.NoError(t, err)
	headers := make([]byte, 28)
	msg, off, _, _, err := r.ReadMessage(context.Background(), headers)
	require.NoError(t, err)
	require.Equal(t, offset, off)
	return string(msg.Value())
}

func reproLog(t *testing.T) (*commitLog, func()) {
	return setupWithOptions(t, Options{Path: tempDir(t), MaxSegmentBytes: 1024 * 1024})
}

// Three replicas A, B, C of one partition.
//
//	epoch 1: A leads, publishes 0..3 which B and C replicate (committed),
//	         then 4 and 5 which nobody replicates (uncommitted). A is cut off.
//	epoch 2: B is elected (learns the boundary by ELECTION), publishes "b4" at
//	         offset 4, C replicates it (learns the boundary by REPLICATION), it
//	         is committed (ISR = B, C). B dies.
//	epoch 3: C is elected. A comes back as a follower and truncates its log to
//	         what the leader says is the last offset of A's last epoch (1), as
//	         partition.truncateUncommitted does:
//	             Truncate(leader.LastOffsetForLeaderEpoch(LastLeaderEpoch()) + 1)
//
// B and C hold the same history, so they must give A the same answer (3), and
// A must drop its unreplicated messages 4 and 5.
func TestReproLeaderEpochBoundaryElectionVsReplication(t *testing.T) {
	a, cleanupA := reproLog(t)
	defer cleanupA()
	b, cleanupB := reproLog(t)
	defer cleanupB()
	c, cleanupC := reproLog(t)
	defer cleanupC()

	// Epoch 1: A leads.
	require.NoError(t, a.NewLeaderEpoch(1))
	for _, v := range []string{"a0", "a1", "a2", "a3"} {
		_, err := a.Append([]*Message{{Value: []byte(v), LeaderEpoch: 1}})
		require.NoError(t, err)
	}
	reproReplicate(t, a, b, 0)
	reproReplicate(t, a, c, 0)
	for _, l := range []*commitLog{a, b, c} {
		l.SetHighWatermark(3)
	}
	// Unreplicated tail on A.
	for _, v := range []string{"a4", "a5"} {
		_, err := a.Append([]*Message{{Value: []byte(v), LeaderEpoch: 1}})
		require.NoError(t, err)
	}

	// Epoch 2: B is elected and publishes one message which C replicates.
	require.NoError(t, b.NewLeaderEpoch(2))
	_, err := b.Append([]*Message{{Value: []byte("b4"), LeaderEpoch: 2}})
	require.NoError(t, err)
	reproReplicate(t, b, c, 4)
	b.SetHighWatermark(4)
	c.SetHighWatermark(4)

	// Epoch 3: C is elected.
	require.NoError(t, c.NewLeaderEpoch(3))

	// Same history on B and C: epoch 1 is offsets 0..3, epoch 2 is offset 4.
	require.Equal(t, b.NewestOffset(), c.NewestOffset())
	require.Equal(t, uint64(1), a.LastLeaderEpoch())
	fromElection := b.LastOffsetForLeaderEpoch(1)
	fromReplication := c.LastOffsetForLeaderEpoch(1)
	t.Logf("last offset of epoch 1: boundary learned by election=%d, by replication=%d",
		fromElection, fromReplication)

	// A becomes a follower of C (partition.truncateUncommitted).
	lastOffset := c.LastOffsetForLeaderEpoch(a.LastLeaderEpoch())
	require.NoError(t, a.Truncate(lastOffset+1))

	// A then fetches from its log end. Whatever it kept must be what the
	// leader has at that offset.
	if a.NewestOffset() >= 4 {
		t.Errorf("A kept its unreplicated message %q at offset 4 (below the HW %d of the leader, "+
			"which holds %q there); A's log end is %d so it never fetches offset 4 again",
			reproValueAt(t, a, 4), c.HighWatermark(), reproValueAt(t, c, 4), a.NewestOffset())
	}
	require.Equal(t, int64(3), fromElection)
	require.Equal(t, fromElection, fromReplication,
		"replicas with the same history disagree on the last offset of epoch 1")
}

// A leader which is elected and replaced before it publishes anything leaves no
// message carrying its epoch, so only it knows that epoch. The next leader must
// still tell a returning previous leader to drop its unreplicated tail, and the
// leader which never published has nothing to truncate: both truncations are
// right on the unchanged code too. What fails there is the final comparison: B
// learned epoch 2 by election (start 3) and epoch 3 by replication (start 4),
// C learned epoch 3 by election (start 3), so they disagree on where epoch 2
// ends although their logs are identical.
func TestReproLeaderEpochBoundaryElectedTwiceNoPublish(t *testing.T) {
	a, cleanupA := reproLog(t)
	defer cleanupA()
	b, cleanupB := reproLog(t)
	defer cleanupB()
	c, cleanupC := reproLog(t)
	defer cleanupC()

	require.NoError(t, a.NewLeaderEpoch(1))
	for _, v := range []string{"a0", "a1", "a2", "a3"} {
		_, err := a.Append([]*Message{{Value: []byte(v), LeaderEpoch: 1}})
		require.NoError(t, err)
	}
	reproReplicate(t, a, b, 0)
	reproReplicate(t, a, c, 0)
	for _, v := range []string{"a4", "a5"} {
		_, err := a.Append([]*Message{{Value: []byte(v), LeaderEpoch: 1}})
		require.NoError(t, err)
	}

	// B is elected for epoch 2 and replaced by C (epoch 3) before publishing.
	require.NoError(t, b.NewLeaderEpoch(2))
	require.NoError(t, c.NewLeaderEpoch(3))

	// A and B become followers of C.
	require.NoError(t, a.Truncate(c.LastOffsetForLeaderEpoch(a.LastLeaderEpoch())+1))
	require.Equal(t, int64(3), a.NewestOffset())
	require.NoError(t, b.Truncate(c.LastOffsetForLeaderEpoch(b.LastLeaderEpoch())+1))
	require.Equal(t, int64(3), b.NewestOffset())

	// C publishes; B replicates the message and records epoch 3 where C did.
	_, err := c.Append([]*Message{{Value: []byte("c4"), LeaderEpoch: 3}})
	require.NoError(t, err)
	reproReplicate(t, c, b, 4)
	require.Equal(t, uint64(3), b.LastLeaderEpoch())
	for epoch := uint64(0); epoch <= 3; epoch++ {
		require.Equal(t, c.LastOffsetForLeaderEpoch(epoch), b.LastOffsetForLeaderEpoch(epoch),
			"epoch %d", epoch)
	}
}
