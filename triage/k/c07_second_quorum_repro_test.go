// package dir: server
package server

import (
	"context"
	"fmt"
	"reflect"
	"sync/atomic"
	"testing"
	"time"

	"github.com/stretchr/testify/require"
	"google.golang.org/grpc/status"

	lift "github.com/liftbridge-io/go-liftbridge/v2"
	proto "github.com/liftbridge-io/liftbridge/server/protocol"
)

// Ensure a quorum of reports made against one partition leader can only ever
// replace that leader. A partition with an ISR of four (leader plus three
// followers) needs two reports for a failover. Two followers report the
// leader, which starts the first leader change. While that change is still
// going through Raft the leader and its epoch are unchanged, so the follower
// whose report did not trigger the election and the third follower can report
// the same leader again and form a second quorum. If the first leader change
// is applied between the second quorum being decided (failoverStatus.report)
// and the second election reading the partition leader
// (electNewPartitionLeader), the second election must be rejected since the
// leader the witnesses reported is gone. It must not depose the new leader,
// which nobody has reported.
//
// The interleaving is forced by pausing the two elections at the only point
// where no lock is held: after report() decided the leader has failed and
// before the failover handler runs. Everything else is the real code path
// (ReportLeader on the metadata leader, Raft, FSM).
func TestReportLeaderSecondQuorumDoesNotDeposeNewLeader(t *testing.T) {
	defer cleanupStorage(t)

	// Configure the servers.
	var (
		ids     = []string{"a", "b", "c", "d"}
		servers = make([]*Server, len(ids))
		addrs   = make([]string, len(ids))
	)
	for i, id := range ids {
		config := getTestConfig(id, i == 0, 5050+i)
		servers[i] = runServerWithConfig(t, config)
		defer servers[i].Stop()
		addrs[i] = fmt.Sprintf("localhost:%d", config.Port)
	}

	controller := getMetadataLeader(t, 10*time.Second, servers...)
	waitForClusterSize(t, 10*time.Second, controller, len(ids))

	client, err := lift.Connect(addrs)
	require.NoError(t, err)
	defer client.Close()

	name := "foo"
	ctx, cancel := context.WithTimeout(context.Background(), 10*time.Second)
	defer cancel()
	require.NoError(t, client.CreateStream(ctx, "foo", name, lift.ReplicationFactor(4)))
	waitForPartition(t, 10*time.Second, name, 0, servers...)
	waitForISR(t, 10*time.Second, name, 0, 4, servers...)

	var (
		m                = controller.metadata
		p                = m.GetPartition(name, 0)
		oldLeader, epoch = p.GetLeader()
		followers        []string
	)
	for _, id := range ids {
		if id != oldLeader {
			followers = append(followers, id)
		}
	}
	require.Len(t, followers, 3)

	// Install the partition's failover status the way ReportLeader does, with
	// the failover handler paused as described above. The handler is wrapped
	// with reflection so that this does not depend on its signature.
	var (
		firstDecided  = make(chan struct{})
		secondDecided = make(chan struct{})
		firstDone     = make(chan struct{})
		decisions     int32
	)
	fs := newPartitionFailoverStatus(p, m.config.Clustering.ReplicaMaxLeaderTimeout,
		m.newPartitionFailoverExpiredHandler(p), m.newPartitionFailoverHandler(p))
	pf := fs.failover.(*partitionFailover)
	handler := reflect.ValueOf(pf.onFailover)
	pf.onFailover = reflect.MakeFunc(handler.Type(), func(args []reflect.Value) []reflect.Value {
		switch atomic.AddInt32(&decisions, 1) {
		case 1:
			// First election: wait until the second quorum has been decided.
			close(firstDecided)
			<-secondDecided
		case 2:
			// Second election: wait until the first leader change has been
			// applied.
			close(secondDecided)
			<-firstDone
		}
		return handler.Call(args)
	}).Interface().(failoverHandler)
	m.mu.Lock()
	m.partitionFailovers[p] = fs
	m.mu.Unlock()

	report := func(replica string) *status.Status {
		ctx, cancel := context.WithTimeout(context.Background(), 10*time.Second)
		defer cancel()
		return m.ReportLeader(ctx, &proto.ReportLeaderOp{
			Stream:      name,
			Partition:   0,
			Replica:     replica,
			Leader:      oldLeader,
			LeaderEpoch: epoch,
		})
	}

	type result struct {
		st     *status.Status
		leader string
		epoch  uint64
	}
	var (
		first  = make(chan result, 1)
		second = make(chan result, 1)
	)

	// First quorum: followers 0 and 1 report the leader. The second report
	// starts the first election.
	require.Nil(t, report(followers[0]))
	go func() {
		st := report(followers[1])
		leader, epoch := p.GetLeader()
		first <- result{st, leader, epoch}
		close(firstDone)
	}()
	select {
	case <-firstDecided:
	case <-time.After(10 * time.Second):
		t.Fatal("First quorum did not start an election")
	}

	// Second quorum while the first leader change is in flight: the leader and
	// its epoch are unchanged, so these reports are accepted. Follower 0 is not
	// blocked since its first report did not start the election.
	require.Nil(t, report(followers[0]))
	go func() {
		st := report(followers[2])
		leader, epoch := p.GetLeader()
		second <- result{st, leader, epoch}
	}()

	var r1, r2 result
	select {
	case r1 = <-first:
	case <-time.After(20 * time.Second):
		t.Fatal("First election did not finish")
	}
	select {
	case r2 = <-second:
	case <-time.After(20 * time.Second):
		t.Fatal("Second election did not finish")
	}
	require.Equal(t, int32(2), atomic.LoadInt32(&decisions))

	// The first election replaced the reported leader.
	require.Nil(t, r1.st)
	require.NotEqual(t, oldLeader, r1.leader)
	require.True(t, r1.epoch > epoch)

	// The second election was decided by reports of the old leader. Nobody
	// has reported the new one, so it must still be leading.
	require.Equal(t, r1.leader, r2.leader,
		"leader %s (epoch %d) was deposed by reports made against leader %s (epoch %d): now %s (epoch %d)",
		r1.leader, r1.epoch, oldLeader, epoch, r2.leader, r2.epoch)
	require.Equal(t, r1.epoch, r2.epoch)
	require.NotNil(t, r2.st, "election for a replaced leader should have been rejected")
}
