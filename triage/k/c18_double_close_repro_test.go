// package dir: server
package server

import (
	"fmt"
	"testing"
	"time"

	"github.com/hashicorp/raft"
	liftApi "github.com/liftbridge-io/liftbridge-api/v2/go"
	"github.com/stretchr/testify/require"
)

// newPartitionedLeader builds a private two-voter in-memory Raft group, waits
// for a leader and then cuts the network between the two. The returned node
// still believes it is leader, so a Barrier issued on it is accepted, cannot
// commit, and is answered with raft.ErrLeadershipLost once the leader lease
// runs out. That is exactly "leadership was lost during the barrier in
// leadershipAcquired", produced on demand.
func newPartitionedLeader(t *testing.T, s *Server) (leader *raft.Raft, cleanup func()) {
	var (
		nodes  [2]*raft.Raft
		trans  [2]*raft.InmemTransport
		addrs  [2]raft.ServerAddress
		voters []raft.Server
	)
	for i := range nodes {
		addrs[i], trans[i] = raft.NewInmemTransport("")
		voters = append(voters, raft.Server{
			ID:      raft.ServerID(fmt.Sprintf("n%d", i)),
			Address: addrs[i],
		})
	}
	trans[0].Connect(addrs[1], trans[1])
	trans[1].Connect(addrs[0], trans[0])
	for i := range nodes {
		conf := raft.DefaultConfig()
		conf.LocalID = voters[i].ID
		conf.LogOutput = &raftLogger{s}
		conf.HeartbeatTimeout = 300 * time.Millisecond
		conf.ElectionTimeout = 300 * time.Millisecond
		conf.LeaderLeaseTimeout = 300 * time.Millisecond
		conf.CommitTimeout = 20 * time.Millisecond
		store := raft.NewInmemStore()
		r, err := raft.NewRaft(conf, &raft.MockFSM{}, store, store,
			raft.NewInmemSnapshotStore(), trans[i])
		require.NoError(t, err)
		require.NoError(t, r.BootstrapCluster(raft.Configuration{Servers: voters}).Error())
		nodes[i] = r
	}
	cleanup = func() {
		for _, r := range nodes {
			r.Shutdown()
		}
	}

	deadline := time.Now().Add(20 * time.Second)
	for leader == nil && time.Now().Before(deadline) {
		for _, r := range nodes {
			// A successful barrier proves the node is an established
			// leader (its no-op entry is committed).
			if r.State() == raft.Leader && r.Barrier(time.Second).Error() == nil {
				leader = r
			}
		}
		time.Sleep(10 * time.Millisecond)
	}
	if leader == nil {
		cleanup()
		t.Fatal("helper Raft group did not elect a leader")
	}
	trans[0].DisconnectAll()
	trans[1].DisconnectAll()
	return leader, cleanup
}

// The leadership loop in startRaftLeadershipLoop calls leadershipAcquired for
// every `true` and leadershipLost for every `false` it reads from Raft's
// notify channel. If leadershipAcquired fails with ErrLeadershipLost at the
// barrier (before activity.BecomeLeader has replaced leadershipLostCh) the
// loop just continues, and the `false` that follows runs leadershipLost. The
// server had been leader before, so the channel BecomeFollower closes is the
// one it already closed.
//
// Callbacks, invoked here directly in the order the loop invokes them:
// acquired (ok; done by the real loop) -> lost -> acquired (fails at the
// barrier with ErrLeadershipLost) -> lost.
func TestActivityLeadershipLostAfterFailedAcquire(t *testing.T) {
	defer cleanupStorage(t)

	s1Config := getTestConfig("a", true, 0)
	s1Config.ActivityStream.Enabled = true
	s1Config.ActivityStream.PublishTimeout = time.Second
	s1Config.ActivityStream.PublishAckPolicy = liftApi.AckPolicy_LEADER
	s1 := runServerWithConfig(t, s1Config)
	defer s1.Stop()

	// The real leadership loop runs leadershipAcquired, which succeeds and
	// creates leadershipLostCh. IsLeader is set at the very end of
	// leadershipAcquired; after that the loop goroutine is parked on the
	// notify channel and stays there for the rest of the test (single-node
	// cluster, leadership never changes).
	getMetadataLeader(t, 10*time.Second, s1)
	node := s1.getRaft()

	// `false`: first loss of leadership. Closes leadershipLostCh.
	require.NoError(t, s1.leadershipLost(node))

	// `true`: notified of leadership again, but it is lost during the
	// barrier, so activity.BecomeLeader is never reached.
	lostLeader, cleanup := newPartitionedLeader(t, s1)
	defer cleanup()
	err := s1.leadershipAcquired(&raftNode{Raft: lostLeader})
	require.Equal(t, raft.ErrLeadershipLost, err)

	// `false`: the matching loss notification. Must be harmless.
	func() {
		defer func() {
			if r := recover(); r != nil {
				t.Fatalf("leadershipLost after a failed leadershipAcquired panicked: %v", r)
			}
		}()
		require.NoError(t, s1.leadershipLost(node))
	}()

	// The server must still be able to take leadership afterwards.
	require.NoError(t, s1.leadershipAcquired(node))
	require.True(t, s1.IsLeader())
}

// Secondary finding; only fails under `go test -race`. The dispatcher of the
// first leadership term reads the leadershipLostCh FIELD each time it selects,
// while BecomeLeader of the next term overwrites that field without any
// synchronisation with the old dispatcher. Besides being a data race, an old
// dispatcher that is busy in handleRaftLog while lost+acquired happen picks up
// the new (open) channel and keeps running next to the new dispatcher.
func TestActivityDispatchFieldRace(t *testing.T) {
	defer cleanupStorage(t)
	s1Config := getTestConfig("a", true, 0)
	s1Config.ActivityStream.Enabled = true
	s1Config.ActivityStream.PublishTimeout = time.Second
	s1Config.ActivityStream.PublishAckPolicy = liftApi.AckPolicy_LEADER
	s1 := runServerWithConfig(t, s1Config)
	defer s1.Stop()
	getMetadataLeader(t, 10*time.Second, s1)
	node := s1.getRaft()
	require.NoError(t, s1.leadershipLost(node))
	require.NoError(t, s1.leadershipAcquired(node))
	time.Sleep(200 * time.Millisecond)
}
