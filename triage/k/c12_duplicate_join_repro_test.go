// package dir: server
package server

import (
	"sort"
	"testing"
	"time"

	"github.com/stretchr/testify/require"

	proto "github.com/liftbridge-io/liftbridge/server/protocol"
)

// A join for a consumer id that is already a member of the group must be
// rejected with ErrConsumerAlreadyMember and must leave the group untouched
// (AddConsumerToGroup and applyJoinConsumerGroup document exactly that, and
// RemoveMember is the mirror image with ErrConsumerNotMember). Instead
// AddMember builds a second consumer object for the id, overwrites the entry
// in members and pushes the second object onto the subscriber heaps next to
// the first one.
func TestReproConsumerGroupAddMemberTwice(t *testing.T) {
	expired := make(chan string, 4)
	handler := func(groupID, consumerID string) error {
		expired <- consumerID
		return nil
	}
	getPartitions := func(stream string) int32 { return 2 }

	// This server ("a") is the coordinator so members get liveness timers.
	group := newConsumerGroup("a", 300*time.Millisecond, &proto.ConsumerGroup{
		Id:          "my-group",
		Coordinator: "a",
	}, false, noopLogger(), handler, getPartitions)
	defer group.Close()

	require.NoError(t, group.AddMember("cons", []string{"foo"}, 1))
	assignments, _, err := group.GetAssignments("cons", 1)
	require.NoError(t, err)
	require.ElementsMatch(t, []int32{0, 1}, assignments["foo"])

	// Second apply of a join for the same consumer id.
	err = group.AddMember("cons", []string{"foo"}, 2)
	if err != ErrConsumerAlreadyMember {
		t.Errorf("second AddMember for the same consumer id returned %v, want %v",
			err, ErrConsumerAlreadyMember)
	}

	// Whatever was returned, the group must still be consistent: one heap
	// entry per member and every partition held by a reachable member.
	group.mu.RLock()
	epoch := group.epoch
	subs := len(*group.subscribers["foo"])
	var owned []int32
	for _, member := range group.members {
		owned = append(owned, member.assignments["foo"]...)
	}
	group.mu.RUnlock()
	sort.Slice(owned, func(i, j int) bool { return owned[i] < owned[j] })
	if subs != 1 {
		t.Errorf("stream foo has %d subscriber heap entries for 1 member", subs)
	}
	if len(owned) != 2 {
		t.Errorf("members hold partitions %v of foo, want [0 1]: "+
			"the rest is assigned to a consumer object that is not a member", owned)
	}

	// The member keeps heartbeating well within its timeout, so it must not
	// be expired. The overwritten object's timer is no longer reachable
	// (GetAssignments resets the new one only) and expires the live consumer.
	deadline := time.Now().Add(900 * time.Millisecond)
	for time.Now().Before(deadline) {
		_, _, err := group.GetAssignments("cons", epoch)
		require.NoError(t, err)
		select {
		case id := <-expired:
			t.Fatalf("consumer %s was expired although it fetched its "+
				"assignments every 50ms (timeout 300ms)", id)
		case <-time.After(50 * time.Millisecond):
		}
	}
}

// Same thing one level up, through the FSM apply function for a
// JoinConsumerGroup entry: applying the entry a second time must fail as
// documented on applyJoinConsumerGroup.
func TestReproApplyJoinConsumerGroupTwice(t *testing.T) {
	defer cleanupStorage(t)

	s := New(getTestConfig("a", true, 0))
	defer s.metadata.Reset()

	require.NoError(t, s.applyCreateConsumerGroup(&proto.ConsumerGroup{
		Id:          "my-group",
		Coordinator: "b",
		Members:     []*proto.Consumer{{Id: "first", Streams: []string{"foo"}}},
	}, false))

	require.NoError(t, s.applyJoinConsumerGroup("my-group", "cons", []string{"foo"}, 5))
	err := s.applyJoinConsumerGroup("my-group", "cons", []string{"foo"}, 6)
	require.Error(t, err, "second join for the same consumer id was applied")

	group := s.metadata.GetConsumerGroup("my-group")
	group.mu.RLock()
	defer group.mu.RUnlock()
	require.Len(t, group.members, 2)
	require.Len(t, *group.subscribers["foo"], 2)
}
