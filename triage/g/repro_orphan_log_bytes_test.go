// Package directory: server/commitlog
//
// Candidate defect (C05): a crash between the log write and the index write of an append leaves a complete message set in the
// .log that no index entry describes. Recovery takes the write position from the file size (so later appends land after the
// orphan) and the next offset from the index (so the next append re-uses the orphan's offset). A reader that walks the
// segment sequentially then delivers the never-completed message AND the acknowledged one under the same offset.
package commitlog

import (
	"context"
	"fmt"
	"os"
	"path/filepath"
	"testing"
	"time"

	"github.com/stretchr/testify/require"
)

func TestTriageOrphanLogBytesAfterCrash(t *testing.T) {
	live, crashed := t.TempDir(), t.TempDir()
	l, err := New(Options{Path: live, MaxSegmentBytes: 1 << 20})
	require.NoError(t, err)
	defer l.Close()
	for i, v := range []string{"a0", "b1", "c2"} {
		offs, err := l.Append([]*Message{{Value: []byte(v), Timestamp: int64(i + 1), LeaderEpoch: 1}})
		require.NoError(t, err)
		require.Equal(t, []int64{int64(i)}, offs)
	}
	indexName := fmt.Sprintf(fileFormat, 0, indexSuffix)
	indexBefore, err := os.ReadFile(filepath.Join(live, indexName))
	require.NoError(t, err)
	// The append that was in flight when the process died: log written, index not.
	_, err = l.Append([]*Message{{Value: []byte("never-acknowledged"), Timestamp: 4, LeaderEpoch: 1}})
	require.NoError(t, err)
	files, err := os.ReadDir(live)
	require.NoError(t, err)
	for _, f := range files {
		b, err := os.ReadFile(filepath.Join(live, f.Name()))
		require.NoError(t, err)
		require.NoError(t, os.WriteFile(filepath.Join(crashed, f.Name()), b, 0644))
	}
	require.NoError(t, os.WriteFile(filepath.Join(crashed, indexName), indexBefore, 0644))

	r, err := New(Options{Path: crashed, MaxSegmentBytes: 1 << 20})
	require.NoError(t, err)
	defer r.Close()
	// The in-flight append may be lost (rolled back) or kept (completed by recovery); either way every offset is
	// handed out once and a reader sees exactly what the log says it holds.
	want := []string{"0:a0", "1:b1", "2:c2"}
	switch r.NewestOffset() {
	case 2:
	case 3:
		want = append(want, "3:never-acknowledged")
	default:
		t.Fatalf("newest offset after recovery is %d, want 2 or 3", r.NewestOffset())
	}
	next := r.NewestOffset() + 1
	offs, err := r.Append([]*Message{{Value: []byte("next"), Timestamp: 5, LeaderEpoch: 1}})
	require.NoError(t, err)
	require.Equal(t, []int64{next}, offs)
	want = append(want, fmt.Sprintf("%d:next", next))

	// Read everything from the beginning, the way a subscriber or a replicating follower does.
	rd, err := r.NewReader(0, true)
	require.NoError(t, err)
	var got []string
	for len(got) < len(want) {
		ctx, cancel := context.WithTimeout(context.Background(), 2*time.Second)
		msg, off, _, _, err := rd.ReadMessage(ctx, make([]byte, 28))
		cancel()
		require.NoError(t, err)
		got = append(got, fmt.Sprintf("%d:%s", off, msg.Value()))
	}
	require.Equal(t, want, got)
	// and through the index, from every offset
	for i, w := range want {
		ctx, cancel := context.WithTimeout(context.Background(), 2*time.Second)
		ri, err := r.NewReader(int64(i), true)
		require.NoError(t, err)
		msg, off, _, _, err := ri.ReadMessage(ctx, make([]byte, 28))
		cancel()
		require.NoError(t, err)
		require.Equal(t, w, fmt.Sprintf("%d:%s", off, msg.Value()))
	}
}

// The process can also die in the middle of the log write itself: the tail of the log is then a fragment of a message set.
func TestTriagePartialMessageSetAfterCrash(t *testing.T) {
	live, crashed := t.TempDir(), t.TempDir()
	l, err := New(Options{Path: live, MaxSegmentBytes: 1 << 20})
	require.NoError(t, err)
	defer l.Close()
	for i, v := range []string{"a0", "b1", "c2"} {
		_, err := l.Append([]*Message{{Value: []byte(v), Timestamp: int64(i + 1), LeaderEpoch: 1}})
		require.NoError(t, err)
	}
	logName := fmt.Sprintf(fileFormat, 0, logSuffix)
	files, err := os.ReadDir(live)
	require.NoError(t, err)
	for _, f := range files {
		b, err := os.ReadFile(filepath.Join(live, f.Name()))
		require.NoError(t, err)
		if f.Name() == logName {
			// 20 bytes of a 28-byte message set header: offset 3, timestamp 4, half of the epoch
			frag := make([]byte, 20)
			frag[7], frag[15] = 3, 4
			b = append(b, frag...)
		}
		require.NoError(t, os.WriteFile(filepath.Join(crashed, f.Name()), b, 0644))
	}
	r, err := New(Options{Path: crashed, MaxSegmentBytes: 1 << 20})
	require.NoError(t, err)
	defer r.Close()
	require.Equal(t, int64(2), r.NewestOffset())
	offs, err := r.Append([]*Message{{Value: []byte("d3"), Timestamp: 5, LeaderEpoch: 1}})
	require.NoError(t, err)
	require.Equal(t, []int64{3}, offs)
	rd, err := r.NewReader(0, true)
	require.NoError(t, err)
	var got []string
	for len(got) < 4 {
		ctx, cancel := context.WithTimeout(context.Background(), 2*time.Second)
		msg, off, _, _, err := rd.ReadMessage(ctx, make([]byte, 28))
		cancel()
		require.NoError(t, err)
		got = append(got, fmt.Sprintf("%d:%s", off, msg.Value()))
	}
	require.Equal(t, []string{"0:a0", "1:b1", "2:c2", "3:d3"}, got)
}
