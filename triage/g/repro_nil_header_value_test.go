// Package directory: server/commitlog
//
// Candidate defect (C01): a header whose value is nil is encoded with size -1 (byteEncoder.PutBytes), like a nil key or
// value, but SerializedMessage.Headers() reads the size as unsigned and slices m[n : n-1]: reading the message back panics.
package commitlog

import (
	"testing"

	"github.com/stretchr/testify/require"
)

func TestTriageNilHeaderValueRoundTrip(t *testing.T) {
	l, cleanup := setupWithOptions(t, Options{Path: tempDir(t)})
	defer cleanup()
	_, err := l.Append([]*Message{{Value: []byte("v"), Headers: map[string][]byte{"nil": nil, "empty": {}, "x": []byte("y")}}})
	require.NoError(t, err)
	r, err := l.NewReader(0, true)
	require.NoError(t, err)
	msg, offset, _, _, err := r.ReadMessage(nil, make([]byte, 28))
	require.NoError(t, err)
	require.Equal(t, int64(0), offset)
	var headers map[string][]byte
	require.NotPanics(t, func() { headers = msg.Headers() })
	require.Len(t, headers, 3)
	require.Nil(t, headers["nil"])
	require.Equal(t, []byte{}, headers["empty"])
	require.Equal(t, []byte("y"), headers["x"])
}
