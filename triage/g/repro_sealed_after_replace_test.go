// Package directory: server/commitlog
//
// Candidate defect (C01/C03): segment.close() seals the segment, and Replace() re-opens the replacement without clearing
// `sealed`. After a tail truncation inside the active segment, the (re-opened) active segment is therefore already
// "sealed": when it is later rolled by age, Seal() is a no-op, the readers parked at its end are not woken, and they never
// move on to the next segment — an uncommitted reader (what replication uses) hangs although new messages exist.
package commitlog

import (
	"context"
	"testing"
	"time"

	"github.com/stretchr/testify/require"
)

func TestTriageReaderAcrossRollAfterTruncate(t *testing.T) {
	l, cleanup := setupWithOptions(t, Options{Path: tempDir(t), MaxSegmentBytes: 1 << 20, MaxSegmentAge: 200 * time.Millisecond})
	defer cleanup()
	for i := 0; i < 3; i++ {
		_, err := l.Append([]*Message{{Value: []byte{byte('a' + i)}, Timestamp: time.Now().UnixNano()}})
		require.NoError(t, err)
	}
	// Tail truncation inside the (only, active) segment: keeps offsets 0 and 1.
	require.NoError(t, l.Truncate(2))
	require.Equal(t, int64(1), l.NewestOffset())

	r, err := l.NewReader(0, true)
	require.NoError(t, err)
	got := make(chan int64, 16)
	ctx, cancel := context.WithCancel(context.Background())
	defer cancel()
	go func() {
		buf := make([]byte, 28)
		for {
			_, off, _, _, err := r.ReadMessage(ctx, buf)
			if err != nil {
				return
			}
			got <- off
		}
	}()
	expect := func(want int64) {
		select {
		case off := <-got:
			require.Equal(t, want, off)
		case <-time.After(3 * time.Second):
			t.Fatalf("reader did not deliver offset %d within 3s (parked at the end of a segment that was rolled)", want)
		}
	}
	expect(0)
	expect(1)
	// The reader is now parked at the end of the truncated active segment. Let the segment age and get rolled (this is
	// what the cleaner loop / the next append does), then append to the new segment.
	time.Sleep(300 * time.Millisecond)
	_, err = l.Append([]*Message{{Value: []byte("after-roll"), Timestamp: time.Now().UnixNano()}})
	require.NoError(t, err)
	require.True(t, len(l.Segments()) >= 2, "the append should have rolled the aged segment")
	expect(2)
}
