// Package directory: server
//
// Candidate defect (C11, C18): the server's own publishes (cursors: SetCursor; activity stream: publishActivityEvent) build a
// PublishRequest without ExpectedOffset, i.e. 0 — not -1, the value that waives the optimistic-concurrency check and that the
// client library sends by default. With `streams.concurrency.control: true` (documented: "for all streams") the internal
// streams are controlled too, so every internal publish after the first claims "expected offset 0" and is refused: a cursor can
// be stored once per cursors partition and never again.
package server

import (
	"context"
	"testing"
	"time"

	lift "github.com/liftbridge-io/go-liftbridge/v2"
	"github.com/stretchr/testify/require"
)

func TestTriageCursorsWithServerWideConcurrencyControl(t *testing.T) {
	defer cleanupStorage(t)
	cfg := getTestConfig("a", true, 5050)
	cfg.CursorsStream.Partitions = 1
	cfg.Streams.ConcurrencyControl = true
	s := runServerWithConfig(t, cfg)
	defer s.Stop()
	getMetadataLeader(t, 10*time.Second, s)
	client, err := lift.Connect([]string{"localhost:5050"})
	require.NoError(t, err)
	defer client.Close()
	require.NoError(t, client.CreateStream(context.Background(), "foo", "foo"))

	require.NoError(t, client.SetCursor(context.Background(), "abc", "foo", 0, 5))
	if err := client.SetCursor(context.Background(), "abc", "foo", 0, 10); err != nil {
		t.Fatalf("the second SetCursor was refused: %v", err)
	}
	offset, err := client.FetchCursor(context.Background(), "abc", "foo", 0)
	require.NoError(t, err)
	require.Equal(t, int64(10), offset)
}
