// Package directory: server/commitlog
//
// Candidate defect (C10): EarliestOffsetAfterTimestamp returns the next assignable offset instead of the first entry of
// the LAST segment when the timestamp lies between the last entry of the second-to-last segment and the first entry of
// the last segment (guard `idx < len(l.segments)-1` excludes the last segment although it exists). A subscription that
// starts at such a timestamp skips every message of the last segment. A model answer (linear scan over all messages) is
// compared for every timestamp.
package commitlog

import (
	"strconv"
	"testing"

	"github.com/stretchr/testify/require"
)

func TestTriageEarliestOffsetAfterTimestampEveryTimestamp(t *testing.T) {
	for _, segBytes := range []int64{60, 100, 150, 1 << 20} {
		l, cleanup := setupWithOptions(t, Options{Path: tempDir(t), MaxSegmentBytes: segBytes})
		numMsgs := 10
		for i := 0; i < numMsgs; i++ {
			_, err := l.Append([]*Message{{Value: []byte(strconv.Itoa(i)), Timestamp: int64(i * 10)}})
			require.NoError(t, err)
		}
		for ts := int64(-5); ts <= int64(numMsgs*10); ts++ {
			want := int64(numMsgs) // next assignable offset when nothing is at or after ts
			for i := 0; i < numMsgs; i++ {
				if int64(i*10) >= ts {
					want = int64(i)
					break
				}
			}
			got, err := l.EarliestOffsetAfterTimestamp(ts)
			require.NoError(t, err)
			if got != want {
				t.Errorf("segment bytes %d (%d segments): EarliestOffsetAfterTimestamp(%d) = %d, want %d",
					segBytes, len(l.Segments()), ts, got, want)
			}
		}
		cleanup()
	}
}
