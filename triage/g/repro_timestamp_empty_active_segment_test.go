// Package directory: server/commitlog
//
// Candidate defect (C10): findSegmentIndexByTimestamp probes the first index entry of a segment; for an EMPTY active
// segment (the state after every age-based roll by the cleaner loop, until the next append) the probe fails with io.EOF,
// the error is sticky, and EarliestOffsetAfterTimestamp answers "next assignable offset" although earlier segments hold
// messages at or after the timestamp. LatestOffsetBeforeTimestamp fails with an error in the same state.
package commitlog

import (
	"strconv"
	"testing"
	"time"

	"github.com/stretchr/testify/require"
)

func TestTriageTimestampLookupWithEmptyActiveSegment(t *testing.T) {
	l, cleanup := setupWithOptions(t, Options{Path: tempDir(t), MaxSegmentBytes: 1 << 20, MaxSegmentAge: time.Nanosecond})
	defer cleanup()
	for i := 0; i < 3; i++ {
		_, err := l.Append([]*Message{{Value: []byte(strconv.Itoa(i)), Timestamp: int64(i * 10)}})
		require.NoError(t, err)
	}
	time.Sleep(2 * time.Millisecond)
	// What commitLog.cleanerLoop does on every tick: the aged segment is rolled, the new active segment is empty.
	split, err := l.checkAndPerformSplit()
	require.NoError(t, err)
	require.True(t, split)
	segs := l.Segments()
	require.True(t, len(segs) >= 2)
	require.True(t, segs[len(segs)-1].IsEmpty())

	for ts, want := range map[int64]int64{-1: 0, 0: 0, 5: 1, 10: 1, 15: 2, 20: 2, 25: 3} {
		got, err := l.EarliestOffsetAfterTimestamp(ts)
		require.NoError(t, err)
		if got != want {
			t.Errorf("EarliestOffsetAfterTimestamp(%d) = %d, want %d (segments: %d, active segment empty)", ts, got, want, len(segs))
		}
	}
	for ts, want := range map[int64]int64{0: 0, 5: 0, 10: 1, 15: 1, 20: 2, 25: 2} {
		got, err := l.LatestOffsetBeforeTimestamp(ts)
		if err != nil {
			t.Errorf("LatestOffsetBeforeTimestamp(%d) failed: %v", ts, err)
			continue
		}
		if got != want {
			t.Errorf("LatestOffsetBeforeTimestamp(%d) = %d, want %d", ts, got, want)
		}
	}
}
