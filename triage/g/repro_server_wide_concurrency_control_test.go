// Package directory: server
//
// Candidate defect (C16): Server.newPartition builds the per-partition StreamsConfig from the server configuration field
// by field but leaves ConcurrencyControl out, so `streams.concurrency.control: true` never reaches the commit log: streams
// created without a per-stream override run without optimistic concurrency control and a conditional publish with a
// wrong expected offset is stored.
package server

import (
	"context"
	"testing"
	"time"

	lift "github.com/liftbridge-io/go-liftbridge/v2"
	"github.com/stretchr/testify/require"
	"google.golang.org/grpc/status"
)

func TestTriageServerWideConcurrencyControl(t *testing.T) {
	defer cleanupStorage(t)
	cfg := getTestConfig("a", true, 5050)
	cfg.Streams.ConcurrencyControl = true // what `streams.concurrency.control: true` sets
	s := runServerWithConfig(t, cfg)
	defer s.Stop()
	getMetadataLeader(t, 10*time.Second, s)

	client, err := lift.Connect([]string{"localhost:5050"})
	require.NoError(t, err)
	defer client.Close()
	// No per-stream override: the server-wide setting applies.
	require.NoError(t, client.CreateStream(context.Background(), "foo", "foo"))

	errC := make(chan error, 1)
	require.NoError(t, client.PublishAsync(context.Background(), "foo", []byte("hello"),
		func(ack *lift.Ack, err error) { errC <- err },
		lift.AckPolicyLeader(), lift.ExpectedOffset(100)))
	select {
	case err := <-errC:
		if err == nil {
			t.Fatal("a publish expecting offset 100 on an empty stream was stored although the server is configured with streams.concurrency.control = true")
		}
		require.Equal(t, "incorrect expected offset", status.Convert(err).Message())
	case <-time.After(3 * time.Second):
		t.Fatal("no answer to the conditional publish")
	}
	p := s.metadata.GetPartition("foo", 0)
	require.NotNil(t, p)
	require.Equal(t, int64(-1), p.log.NewestOffset(), "the log must be unchanged")
}
