// Package directory: server
//
// Candidate defect (C06): the read-only state of a partition lives in two places — the protobuf flag (snapshotted) and the
// commit log's readonly flag (what IsReadonly() reports and what rejects appends). Only partition.SetReadonly, i.e. the
// apply of SET_STREAM_READONLY, sets the log's flag; newPartition never initialises it from the protobuf. A server rebuilt
// from a snapshot (or a partition replaced by pause/resume) therefore has Readonly=true in its metadata and a writable log:
// the restart does not reach the state the server had before.
package server

import (
	"bytes"
	"path/filepath"
	"testing"

	"github.com/hashicorp/raft"
	"github.com/stretchr/testify/require"

	proto "github.com/liftbridge-io/liftbridge/server/protocol"
)

type triageSink struct{ bytes.Buffer }

func (s *triageSink) ID() string    { return "triage" }
func (s *triageSink) Cancel() error { return nil }
func (s *triageSink) Close() error  { return nil }

type triageReader struct{ *bytes.Reader }

func (s triageReader) Close() error { return nil }

func TestTriageReadonlySurvivesSnapshotRestore(t *testing.T) {
	dir := t.TempDir()
	newFSM := func(id string) *Server {
		config := getTestConfig(id, true, 0)
		config.DataDir = filepath.Join(dir, id)
		s := New(config)
		s.recoveryStarted = true // nothing to replay
		return s
	}
	apply := func(s *Server, index uint64, op *proto.RaftLog) {
		data, err := op.Marshal()
		require.NoError(t, err)
		s.Apply(&raft.Log{Index: index, Type: raft.LogCommand, Data: data})
	}
	before := newFSM("before")
	defer before.metadata.Reset()
	apply(before, 3, &proto.RaftLog{Op: proto.Op_CREATE_STREAM, CreateStreamOp: &proto.CreateStreamOp{Stream: &proto.Stream{
		Name: "foo", Subject: "foo",
		Partitions: []*proto.Partition{{Stream: "foo", Subject: "foo", Id: 0, Replicas: []string{"b", "c"}, Isr: []string{"b", "c"}, Leader: "b"}},
	}}})
	apply(before, 4, &proto.RaftLog{Op: proto.Op_SET_STREAM_READONLY, SetStreamReadonlyOp: &proto.SetStreamReadonlyOp{Stream: "foo", Readonly: true}})
	p := before.metadata.GetPartition("foo", 0)
	require.NotNil(t, p)
	require.True(t, p.IsReadonly(), "sanity: read-only after the operation was applied")

	snap, err := before.Snapshot()
	require.NoError(t, err)
	sink := &triageSink{}
	require.NoError(t, snap.Persist(sink))

	after := newFSM("after")
	defer after.metadata.Reset()
	require.NoError(t, after.Restore(triageReader{bytes.NewReader(sink.Bytes())}))
	q := after.metadata.GetPartition("foo", 0)
	require.NotNil(t, q)
	require.True(t, q.Readonly, "the snapshot carries the flag")
	if !q.IsReadonly() {
		t.Fatal("after Restore the metadata says the partition is read-only but partition.IsReadonly() is false: the commit log accepts appends, which it refused before the restart")
	}
}
