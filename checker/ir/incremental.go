package ir

import (
	"fmt"
	"go/ast"
	"go/parser"
	"go/token"
	"go/types"
	"path/filepath"
	"sort"
	"strings"

	"golang.org/x/tools/go/packages"
	"golang.org/x/tools/go/ssa"
)

type mapImporter struct {
	m map[string]*types.Package
}

func (mi mapImporter) Import(path string) (*types.Package, error) {
	if p, ok := mi.m[path]; ok {
		return p, nil
	}
	return nil, fmt.Errorf("package %q not loaded", path)
}

// Mutate returns a new Program in which the given source files are replaced by the given contents. Only the module
// packages that contain a replaced file, and the module packages that import them, are type-checked again (from the
// syntax already loaded); everything else — in particular all dependencies — is reused, so no `go list` run is needed.
func (p *Program) Mutate(repl map[string][]byte) (*Program, error) {
	if p.Whole {
		return nil, fmt.Errorf("Mutate needs a module-only program")
	}
	// all known type packages by path
	all := map[string]*types.Package{}
	var visit func(pk *packages.Package)
	seen := map[*packages.Package]bool{}
	visit = func(pk *packages.Package) {
		if seen[pk] {
			return
		}
		seen[pk] = true
		if pk.Types != nil {
			all[pk.PkgPath] = pk.Types
		}
		for _, im := range pk.Imports {
			visit(im)
		}
	}
	for _, pk := range p.Pkgs {
		visit(pk)
	}
	// transitive imports inside export data that go/packages did not surface
	var addImports func(tp *types.Package)
	addImports = func(tp *types.Package) {
		for _, im := range tp.Imports() {
			if _, ok := all[im.Path()]; !ok {
				all[im.Path()] = im
				addImports(im)
			}
		}
	}
	for _, tp := range all {
		addImports(tp)
	}
	// topological order of module packages
	order := append([]*packages.Package(nil), p.Pkgs...)
	depth := map[string]int{}
	var dep func(pk *packages.Package) int
	dep = func(pk *packages.Package) int {
		if d, ok := depth[pk.PkgPath]; ok {
			return d
		}
		depth[pk.PkgPath] = 0
		d := 0
		for _, im := range pk.Imports {
			if InModule(im.PkgPath) {
				if x := dep(im) + 1; x > d {
					d = x
				}
			}
		}
		depth[pk.PkgPath] = d
		return d
	}
	for _, pk := range order {
		dep(pk)
	}
	sort.SliceStable(order, func(i, j int) bool { return depth[order[i].PkgPath] < depth[order[j].PkgPath] })

	np := &Program{Dir: p.Dir, Fset: p.Fset, ByPath: map[string]*packages.Package{}, SSAPkg: map[string]*ssa.Package{}, byName: map[string]*ssa.Function{}, Overlay: repl}
	dirty := map[string]bool{}
	newPk := map[string]*packages.Package{}
	for _, pk := range order {
		files := append([]*ast.File(nil), pk.Syntax...)
		changed := false
		for i, name := range pk.CompiledGoFiles {
			if c, ok := repl[name]; ok {
				f, err := parser.ParseFile(p.Fset, name, c, parser.ParseComments|parser.SkipObjectResolution)
				if err != nil {
					return nil, fmt.Errorf("parse %s: %v", name, err)
				}
				if i < len(files) {
					files[i] = f
				}
				changed = true
			}
		}
		// a file the change adds to this package's directory (functions moved into a new file)
		if len(pk.CompiledGoFiles) > 0 {
			dir := filepath.Dir(pk.CompiledGoFiles[0])
			known := map[string]bool{}
			for _, name := range pk.CompiledGoFiles {
				known[name] = true
			}
			var added []string
			for name := range repl {
				if filepath.Dir(name) == dir && !known[name] && strings.HasSuffix(name, ".go") && !strings.HasSuffix(name, "_test.go") {
					added = append(added, name)
				}
			}
			sort.Strings(added)
			for _, name := range added {
				f, err := parser.ParseFile(p.Fset, name, repl[name], parser.ParseComments|parser.SkipObjectResolution)
				if err != nil {
					return nil, fmt.Errorf("parse %s: %v", name, err)
				}
				files = append(files, f)
				changed = true
			}
		}
		for _, im := range pk.Imports {
			if dirty[im.PkgPath] {
				changed = true
			}
		}
		if !changed {
			newPk[pk.PkgPath] = pk
			continue
		}
		dirty[pk.PkgPath] = true
		info := &types.Info{
			Types: map[ast.Expr]types.TypeAndValue{}, Defs: map[*ast.Ident]types.Object{}, Uses: map[*ast.Ident]types.Object{},
			Implicits: map[ast.Node]types.Object{}, Selections: map[*ast.SelectorExpr]*types.Selection{}, Scopes: map[ast.Node]*types.Scope{},
			Instances: map[*ast.Ident]types.Instance{}, FileVersions: map[*ast.File]string{},
		}
		var errs []string
		conf := types.Config{Importer: mapImporter{all}, Sizes: pk.TypesSizes, Error: func(err error) { errs = append(errs, err.Error()) }}
		if pk.Module != nil && pk.Module.GoVersion != "" {
			conf.GoVersion = "go" + pk.Module.GoVersion
		}
		tp, _ := conf.Check(pk.PkgPath, p.Fset, files, info)
		if len(errs) > 0 {
			if len(errs) > 3 {
				errs = errs[:3]
			}
			return nil, fmt.Errorf("type errors: %s", strings.Join(errs, "; "))
		}
		all[pk.PkgPath] = tp
		c := *pk
		c.Syntax, c.Types, c.TypesInfo = files, tp, info
		newPk[pk.PkgPath] = &c
	}
	for _, pk := range order {
		np.Pkgs = append(np.Pkgs, newPk[pk.PkgPath])
		np.ByPath[Short(pk.PkgPath)] = newPk[pk.PkgPath]
	}
	sort.Slice(np.Pkgs, func(i, j int) bool { return np.Pkgs[i].PkgPath < np.Pkgs[j].PkgPath })

	prog := ssa.NewProgram(p.Fset, ssa.InstantiateGenerics)
	isMod := map[string]bool{}
	for _, pk := range np.Pkgs {
		isMod[pk.PkgPath] = true
	}
	var paths []string
	for path := range all {
		paths = append(paths, path)
	}
	sort.Strings(paths)
	for _, path := range paths {
		if !isMod[path] {
			prog.CreatePackage(all[path], nil, nil, true)
		}
	}
	for _, pk := range order {
		n := newPk[pk.PkgPath]
		prog.CreatePackage(n.Types, n.Syntax, n.TypesInfo, true)
	}
	np.SSA = prog
	for _, pk := range np.Pkgs {
		sp := prog.Package(pk.Types)
		if sp == nil {
			return nil, fmt.Errorf("no SSA package for %s", pk.PkgPath)
		}
		sp.Build()
		np.SSAPkg[Short(pk.PkgPath)] = sp
	}
	np.collectFuncs()
	return np, nil
}

var _ = token.NoPos
