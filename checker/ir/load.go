// Package ir loads /repo's current working tree into type-checked syntax and SSA form.
package ir

import (
	"fmt"
	"go/ast"
	"go/token"
	"go/types"
	"os"
	"path/filepath"
	"sort"
	"strings"

	"golang.org/x/tools/go/callgraph"
	"golang.org/x/tools/go/callgraph/cha"
	"golang.org/x/tools/go/callgraph/vta"
	"golang.org/x/tools/go/packages"
	"golang.org/x/tools/go/ssa"
	"golang.org/x/tools/go/ssa/ssautil"
)

// ModulePath is the Go module under analysis.
const ModulePath = "github.com/liftbridge-io/liftbridge"

// Program is the loaded module.
type Program struct {
	Dir     string
	Whole   bool
	Fset    *token.FileSet
	Pkgs    []*packages.Package          // module packages (roots)
	ByPath  map[string]*packages.Package // short path ("server", "server/commitlog", "" for main) -> package
	SSA     *ssa.Program
	SSAPkg  map[string]*ssa.Package
	Funcs   []*ssa.Function // every module function with a body, including anonymous ones
	byName  map[string]*ssa.Function
	cg      *callgraph.Graph
	Overlay map[string][]byte

	rehomedDecl map[string]bool // declared keys of functions that stand for a reference function of another receiver form
}

// Options for Load.
type Options struct {
	Dir     string
	Whole   bool              // whole-program SSA (dependencies from source) instead of module-only
	Overlay map[string][]byte // file path -> replacement contents (sensitivity audit)
	Env     []string
	Only    []string // restrict root patterns (overlay audit loads a single package)
}

// InModule reports whether an import path belongs to the module under analysis.
func InModule(path string) bool {
	return path == ModulePath || strings.HasPrefix(path, ModulePath+"/")
}

// Short maps a full import path to the module-relative path.
func Short(path string) string {
	if path == ModulePath {
		return ""
	}
	return strings.TrimPrefix(path, ModulePath+"/")
}

// Load loads the module rooted at opt.Dir.
func Load(opt Options) (*Program, error) {
	mode := packages.NeedName | packages.NeedFiles | packages.NeedCompiledGoFiles | packages.NeedImports |
		packages.NeedTypes | packages.NeedTypesSizes | packages.NeedSyntax | packages.NeedTypesInfo | packages.NeedModule
	if opt.Whole {
		mode |= packages.NeedDeps
	}
	env := append(os.Environ(), "GOFLAGS=-mod=mod", "GOPROXY=off", "GOWORK=off")
	env = append(env, opt.Env...)
	cfg := &packages.Config{Mode: mode, Dir: opt.Dir, Tests: false, Env: env, Overlay: opt.Overlay}
	pats := opt.Only
	if len(pats) == 0 {
		pats = []string{"./..."}
	}
	roots, err := packages.Load(cfg, pats...)
	if err != nil {
		return nil, fmt.Errorf("packages.Load: %w", err)
	}
	if len(roots) == 0 {
		return nil, fmt.Errorf("no packages loaded from %s", opt.Dir)
	}
	var errs []string
	packages.Visit(roots, nil, func(p *packages.Package) {
		if !InModule(p.PkgPath) {
			return
		}
		for _, e := range p.Errors {
			errs = append(errs, e.Error())
		}
	})
	if len(errs) > 0 {
		sort.Strings(errs)
		if len(errs) > 10 {
			errs = errs[:10]
		}
		return nil, fmt.Errorf("load/type errors: %s", strings.Join(errs, "; "))
	}
	p := &Program{Dir: opt.Dir, Whole: opt.Whole, ByPath: map[string]*packages.Package{}, SSAPkg: map[string]*ssa.Package{}, byName: map[string]*ssa.Function{}, Overlay: opt.Overlay}
	// Module packages: all packages in the import closure that belong to the module.
	seen := map[string]bool{}
	packages.Visit(roots, nil, func(pk *packages.Package) {
		if InModule(pk.PkgPath) && !seen[pk.PkgPath] {
			seen[pk.PkgPath] = true
			p.Pkgs = append(p.Pkgs, pk)
			p.ByPath[Short(pk.PkgPath)] = pk
		}
	})
	sort.Slice(p.Pkgs, func(i, j int) bool { return p.Pkgs[i].PkgPath < p.Pkgs[j].PkgPath })
	p.Fset = roots[0].Fset

	bmode := ssa.InstantiateGenerics
	var prog *ssa.Program
	if opt.Whole {
		prog, _ = ssautil.AllPackages(roots, bmode)
	} else {
		prog, _ = ssautil.Packages(roots, bmode)
	}
	p.SSA = prog
	// Build only what we need: module packages always; everything when Whole.
	if opt.Whole {
		prog.Build()
	}
	for _, pk := range p.Pkgs {
		sp := prog.Package(pk.Types)
		if sp == nil {
			return nil, fmt.Errorf("no SSA package for %s", pk.PkgPath)
		}
		sp.Build()
		p.SSAPkg[Short(pk.PkgPath)] = sp
	}
	p.collectFuncs()
	return p, nil
}

func (p *Program) collectFuncs() {
	var add func(f *ssa.Function)
	seen := map[*ssa.Function]bool{}
	add = func(f *ssa.Function) {
		if f == nil || seen[f] || f.Blocks == nil {
			return
		}
		seen[f] = true
		p.Funcs = append(p.Funcs, f)
		for _, a := range f.AnonFuncs {
			add(a)
		}
	}
	for _, sp := range p.SSAPkg {
		for _, m := range sp.Members {
			switch m := m.(type) {
			case *ssa.Function:
				add(m)
			case *ssa.Type:
				for _, t := range []types.Type{m.Type(), types.NewPointer(m.Type())} {
					ms := p.SSA.MethodSets.MethodSet(t)
					for i := 0; i < ms.Len(); i++ {
						fn := p.SSA.MethodValue(ms.At(i))
						if fn != nil && fn.Synthetic == "" && fn.Pkg == sp {
							add(fn)
						}
					}
				}
			}
		}
	}
	p.rehome()
	sort.Slice(p.Funcs, func(i, j int) bool { return FuncKey(p.Funcs[i]) < FuncKey(p.Funcs[j]) })
	for _, f := range p.Funcs {
		p.byName[FuncKey(f)] = f
	}
}

// ReferenceKeys is the set of function keys of the reference tree (set once by the command from package norm; nil disables
// re-homing).
// ReferenceArity: number of parameters (receiver included) each reference function had.
var ReferenceArity map[string]int

var ReferenceKeys map[string]bool

var (
	rehomedKey = map[*ssa.Function]string{} // function -> the key it had on the reference tree
	rehomedRef = map[*types.Func]string{}   // function object -> "<pkg>.<Recv>.<Name>" it had there
)

// RehomedRef returns the reference form "<pkg>.<Recv>.<Name>" of a function that was a method on the reference tree and is a
// plain function now (or the reverse), "" otherwise.
func RehomedRef(f *types.Func) string { return rehomedRef[f] }

// IsRehomed reports whether a declared function stands for a reference function under another receiver form.
func (p *Program) IsRehomed(declKey string) bool { return p.rehomedDecl[declKey] }

// rehome recognises a method that became a plain function (or a function that became a method, or changed between value
// and pointer receiver): a function whose own key is not on the reference tree, in a package where exactly one reference
// function of the same name is missing, stands for that function. It keeps the reference key, so anchors resolve and
// reports name it as before.
func (p *Program) rehome() {
	p.rehomedDecl = map[string]bool{}
	if ReferenceKeys == nil {
		return
	}
	declared := map[string]bool{}
	for _, f := range p.Funcs {
		if f.Parent() == nil {
			declared[rawFuncKey(f)] = true
		}
	}
	base := func(key string) (pkg, name string) {
		i := strings.LastIndex(key, ".")
		name = key[i+1:]
		rest := key[:i]
		if j := strings.Index(rest, ".("); j >= 0 {
			rest = rest[:j]
		}
		return rest, name
	}
	used := map[string]bool{}
	missing := map[string][]string{} // pkg\x00name -> reference keys not declared now
	for k := range ReferenceKeys {
		if !declared[k] {
			pk, n := base(k)
			missing[pk+"\x00"+n] = append(missing[pk+"\x00"+n], k)
		}
	}
	for _, f := range p.Funcs {
		if f.Parent() != nil {
			continue
		}
		k := rawFuncKey(f)
		if ReferenceKeys[k] {
			continue
		}
		pk, n := base(k)
		cands := missing[pk+"\x00"+n]
		if len(cands) != 1 {
			continue
		}
		rehomedKey[f] = cands[0]
		p.rehomedDecl[k] = true
		used[cands[0]] = true
		if obj, ok := f.Object().(*types.Func); ok {
			ref := strings.NewReplacer("(*", "", "(", "", ")", "").Replace(cands[0])
			rehomedRef[obj] = ref
		}
	}
	// A private helper that was renamed while it was converted (cleanupEmptySegment(new, old) became
	// (*segment).deleteAlongWith(old)): in its package exactly one reference function is gone and exactly one function is new,
	// and both take the same number of values (receiver included). The new one answers to the old key.
	if ReferenceArity == nil {
		return
	}
	gone := map[string][]string{}
	for k := range ReferenceKeys {
		if !declared[k] && !used[k] {
			pk, _ := base(k)
			gone[pk] = append(gone[pk], k)
		}
	}
	fresh := map[string][]*ssa.Function{}
	for _, f := range p.Funcs {
		if f.Parent() != nil || f.Synthetic != "" {
			continue
		}
		k := rawFuncKey(f)
		if ReferenceKeys[k] || p.rehomedDecl[k] {
			continue
		}
		pk, _ := base(k)
		fresh[pk] = append(fresh[pk], f)
	}
	for pk, gs := range gone {
		fs := fresh[pk]
		if len(gs) != 1 || len(fs) != 1 {
			continue
		}
		ar, ok := ReferenceArity[gs[0]]
		if !ok || ar != len(fs[0].Params) {
			continue
		}
		_, gname := base(gs[0])
		if !(gname[0] >= 'a' && gname[0] <= 'z') {
			continue // exported functions are API, not helpers
		}
		f := fs[0]
		rehomedKey[f] = gs[0]
		p.rehomedDecl[rawFuncKey(f)] = true
		if obj, ok := f.Object().(*types.Func); ok {
			rehomedRef[obj] = strings.NewReplacer("(*", "", "(", "", ")", "").Replace(gs[0])
		}
	}
}

// FuncKey is the stable name of a module function: "<short pkg>.<Name>", "<short pkg>.(*T).M",
// anonymous functions as "<parent>$N".
func FuncKey(f *ssa.Function) string {
	if f.Parent() != nil {
		return FuncKey(f.Parent()) + strings.TrimPrefix(f.Name(), f.Parent().Name())
	}
	if k, ok := rehomedKey[f]; ok {
		return k
	}
	return rawFuncKey(f)
}

// rawFuncKey is FuncKey without re-homing.
func rawFuncKey(f *ssa.Function) string {
	pkg := ""
	if f.Pkg != nil {
		pkg = Short(f.Pkg.Pkg.Path())
	} else if f.Object() != nil && f.Object().Pkg() != nil {
		pkg = Short(f.Object().Pkg().Path())
	}
	if recv := f.Signature.Recv(); recv != nil {
		t := recv.Type()
		ptr := ""
		if pt, ok := t.(*types.Pointer); ok {
			t = pt.Elem()
			ptr = "*"
		}
		name := t.String()
		if n, ok := t.(*types.Named); ok {
			name = n.Obj().Name()
		}
		if ptr != "" {
			return fmt.Sprintf("%s.(*%s).%s", pkg, name, f.Name())
		}
		return fmt.Sprintf("%s.(%s).%s", pkg, name, f.Name())
	}
	return pkg + "." + f.Name()
}

// Outermost returns the outermost enclosing named function.
func Outermost(f *ssa.Function) *ssa.Function {
	for f.Parent() != nil {
		f = f.Parent()
	}
	return f
}

// Func resolves a function by its key (see FuncKey); nil when absent.
func (p *Program) Func(key string) *ssa.Function { return p.byName[key] }

// IsModuleFunc reports whether f is a function of the module with a body.
func (p *Program) IsModuleFunc(f *ssa.Function) bool {
	if f == nil {
		return false
	}
	_, ok := p.byName[FuncKey(f)]
	return ok && p.byName[FuncKey(f)] == f
}

// NamedType resolves "<short pkg>.<Type>".
func (p *Program) NamedType(pkg, name string) *types.Named {
	pk := p.ByPath[pkg]
	if pk == nil {
		return nil
	}
	o := pk.Types.Scope().Lookup(name)
	if o == nil {
		return nil
	}
	n, _ := o.Type().(*types.Named)
	return n
}

// Field resolves a struct field object "<pkg>.<Type>.<field>".
func (p *Program) Field(pkg, typ, field string) *types.Var {
	n := p.NamedType(pkg, typ)
	if n == nil {
		return nil
	}
	st, ok := n.Underlying().(*types.Struct)
	if !ok {
		return nil
	}
	for i := 0; i < st.NumFields(); i++ {
		if st.Field(i).Name() == field {
			return st.Field(i)
		}
	}
	return nil
}

// Object resolves a package-level object.
func (p *Program) Object(pkg, name string) types.Object {
	pk := p.ByPath[pkg]
	if pk == nil {
		return nil
	}
	return pk.Types.Scope().Lookup(name)
}

// DepObject resolves an object in a dependency package by full import path.
func (p *Program) DepObject(path, name string) types.Object {
	for _, sp := range p.SSA.AllPackages() {
		if sp.Pkg.Path() == path {
			return sp.Pkg.Scope().Lookup(name)
		}
	}
	return nil
}

// DepNamed resolves a named type in a dependency.
func (p *Program) DepNamed(path, name string) *types.Named {
	o := p.DepObject(path, name)
	if o == nil {
		return nil
	}
	n, _ := o.Type().(*types.Named)
	return n
}

// Pos renders a position relative to the repository root.
func (p *Program) Pos(pos token.Pos) string {
	if !pos.IsValid() {
		return "-"
	}
	ps := p.Fset.Position(pos)
	f := strings.TrimPrefix(ps.Filename, p.Dir+"/")
	return fmt.Sprintf("%s:%d", f, ps.Line)
}

// InstrPos finds a usable position for an instruction (rotated loops carry NoPos).
func (p *Program) InstrPos(in ssa.Instruction) string {
	if in == nil {
		return "-"
	}
	if in.Pos().IsValid() {
		return p.Pos(in.Pos())
	}
	if v, ok := in.(ssa.Value); ok {
		_ = v
	}
	// operands
	var ops []*ssa.Value
	for _, op := range in.Operands(ops) {
		if *op != nil && (*op).Pos().IsValid() {
			return p.Pos((*op).Pos())
		}
	}
	if b := in.Block(); b != nil {
		for _, o := range b.Instrs {
			if o.Pos().IsValid() {
				return p.Pos(o.Pos())
			}
		}
		return p.Pos(b.Parent().Pos())
	}
	return "-"
}

// CallGraph returns the call graph: VTA for whole-program loads, CHA otherwise. Cached.
func (p *Program) CallGraph() *callgraph.Graph {
	if p.cg != nil {
		return p.cg
	}
	if p.Whole {
		p.cg = vta.CallGraph(ssautil.AllFunctions(p.SSA), cha.CallGraph(p.SSA))
	} else {
		p.cg = cha.CallGraph(p.SSA)
	}
	return p.cg
}

// FileOf returns the syntax file containing pos.
func (p *Program) FileOf(pos token.Pos) (*packages.Package, *ast.File) {
	for _, pk := range p.Pkgs {
		for _, f := range pk.Syntax {
			if f.FileStart <= pos && pos < f.FileEnd {
				return pk, f
			}
		}
	}
	return nil, nil
}

// Stats summarises what was loaded.
type Stats struct {
	Packages  int
	Files     int
	Functions int
	Blocks    int
	Instrs    int
}

// Stats counts what was loaded.
func (p *Program) Stats() Stats {
	s := Stats{Packages: len(p.Pkgs), Functions: len(p.Funcs)}
	for _, pk := range p.Pkgs {
		s.Files += len(pk.Syntax)
	}
	for _, f := range p.Funcs {
		s.Blocks += len(f.Blocks)
		for _, b := range f.Blocks {
			s.Instrs += len(b.Instrs)
		}
	}
	return s
}

// DepFieldOrModule resolves a field of a named struct type in a module package.
func (p *Program) DepFieldOrModule(pkg, typ, field string) *types.Var {
	return p.Field(pkg, typ, field)
}

// UnanalysedFiles lists the non-test Go source files under the module root that are not part of any loaded module
// package (excluded by a build constraint, an ignored file, or a directory that go list did not return). A static
// check only sees what was parsed, so callers fail the check when this is not empty.
func (p *Program) UnanalysedFiles() ([]string, int) {
	loaded := map[string]bool{}
	for _, pk := range p.Pkgs {
		for _, f := range pk.CompiledGoFiles {
			loaded[filepath.Clean(f)] = true
		}
		for _, f := range pk.GoFiles {
			loaded[filepath.Clean(f)] = true
		}
	}
	var missing []string
	n := 0
	filepath.Walk(p.Dir, func(path string, info os.FileInfo, err error) error {
		if err != nil {
			return nil
		}
		base := filepath.Base(path)
		if info.IsDir() {
			if path != p.Dir && (strings.HasPrefix(base, ".") || strings.HasPrefix(base, "_") || base == "vendor" || base == "testdata") {
				return filepath.SkipDir
			}
			if path != p.Dir {
				if _, e := os.Stat(filepath.Join(path, "go.mod")); e == nil {
					return filepath.SkipDir // nested module
				}
			}
			return nil
		}
		if !strings.HasSuffix(base, ".go") || strings.HasSuffix(base, "_test.go") {
			return nil
		}
		n++
		if !loaded[filepath.Clean(path)] {
			rel, _ := filepath.Rel(p.Dir, path)
			missing = append(missing, rel)
		}
		return nil
	})
	sort.Strings(missing)
	return missing, n
}
