package eng

import (
	"go/token"

	"golang.org/x/tools/go/ssa"
)

// Reach conditions. For an instruction T of a function, its reach condition is the boolean function of the function's
// branch conditions under which control gets to T (loops opened: back edges are dropped, so a condition inside a loop is
// looked at once). Conditions are decomposed down to atoms — comparisons and opaque boolean values — through negations
// and through boolean phis (`x := a || b`, a flag set on several branches), so the answer is the same whether a decision
// is written as nested ifs, as one expression, or through a flag variable.
//
// A rule names the atoms it cares about (AtomSpec) and asks for the truth table of T's reach condition over them, the
// remaining atoms being quantified away existentially ("for this combination of the named atoms, can T be reached at all").
// Nothing is executed and no solver is involved: the table is computed by evaluating the acyclic condition DAG for every
// assignment of the (few) atoms.

// AtomSpec names an atom: the comparison "A Rel B" (either operand order, either polarity), or, when B is nil, "A is true".
type AtomSpec struct {
	A, B VM
	Rel  Rel
}

type rcAtom struct {
	spec int // index into specs, or -1
	id   int // index among all atoms
}

type reachCond struct {
	fn     *ssa.Function
	specs  []AtomSpec
	atoms  map[ssa.Value]int // free atom value -> id (specs take ids 0..len(specs)-1)
	nAtoms int
	back   map[Edge]bool
	idom   func(a, b *ssa.BasicBlock) bool
}

// literal: the atom a condition value denotes and its polarity; ok=false when v is not atomic (negation / phi / const).
func (rc *reachCond) literal(v ssa.Value) (id int, pos bool, ok bool) {
	if bo, isBo := v.(*ssa.BinOp); isBo {
		if r, isRel := relOfOp(bo.Op); isRel {
			for i, s := range rc.specs {
				if s.B == nil {
					continue
				}
				if s.A(bo.X) && s.B(bo.Y) {
					if r == s.Rel {
						return i, true, true
					}
					if r == s.Rel.neg() {
						return i, false, true
					}
				}
				if s.A(bo.Y) && s.B(bo.X) {
					if r.swap() == s.Rel {
						return i, true, true
					}
					if r.swap().neg() == s.Rel {
						return i, false, true
					}
				}
			}
		}
	}
	for i, s := range rc.specs {
		if s.B == nil && s.A(v) {
			return i, true, true
		}
	}
	if id, seen := rc.atoms[v]; seen {
		return id, true, true
	}
	id = rc.nAtoms
	rc.nAtoms++
	rc.atoms[v] = id
	return id, true, true
}

// evalValue evaluates a boolean SSA value under an assignment of the atoms.
func (rc *reachCond) evalValue(v ssa.Value, asg uint64, blockMemo map[*ssa.BasicBlock]int8, depth int) bool {
	if depth > 40 {
		id, pos, _ := rc.literal(v)
		return (asg>>uint(id))&1 == 1 == pos
	}
	switch x := v.(type) {
	case *ssa.Const:
		if x.Value != nil {
			return x.Value.String() == "true"
		}
		return false
	case *ssa.UnOp:
		if x.Op == token.NOT {
			return !rc.evalValue(x.X, asg, blockMemo, depth+1)
		}
	case *ssa.Phi:
		if x.Type().String() == "bool" {
			// the value on whichever incoming edge is taken under this assignment
			for i, e := range x.Edges {
				pred := x.Block().Preds[i]
				if rc.edgeTaken(pred, x.Block(), asg, blockMemo, depth+1) {
					return rc.evalValue(e, asg, blockMemo, depth+1)
				}
			}
			return false
		}
	}
	id, pos, _ := rc.literal(v)
	return ((asg>>uint(id))&1 == 1) == pos
}

// edgeTaken: under asg, is pred reached and does control go from pred to succ (any of the edges pred→succ)?
func (rc *reachCond) edgeTaken(pred, succ *ssa.BasicBlock, asg uint64, memo map[*ssa.BasicBlock]int8, depth int) bool {
	if !rc.blockReached(pred, asg, memo, depth+1) {
		return false
	}
	for si, s := range pred.Succs {
		if s != succ || rc.back[Edge{pred, si}] {
			continue
		}
		if rc.succTaken(pred, si, asg, memo, depth+1) {
			return true
		}
	}
	return false
}

func (rc *reachCond) succTaken(b *ssa.BasicBlock, si int, asg uint64, memo map[*ssa.BasicBlock]int8, depth int) bool {
	iff, ok := lastIf(b)
	if !ok {
		return true
	}
	c := rc.evalValue(iff.Cond, asg, memo, depth+1)
	return c == (si == 0)
}

func (rc *reachCond) blockReached(b *ssa.BasicBlock, asg uint64, memo map[*ssa.BasicBlock]int8, depth int) bool {
	if m, ok := memo[b]; ok {
		return m == 1
	}
	memo[b] = 0 // cycle guard (back edges are dropped, so this only bites on irreducible flow)
	res := false
	if b == rc.fn.Blocks[0] {
		res = true
	} else {
		for _, p := range b.Preds {
			for si, s := range p.Succs {
				if s != b || rc.back[Edge{p, si}] {
					continue
				}
				if rc.blockReached(p, asg, memo, depth+1) && rc.succTaken(p, si, asg, memo, depth+1) {
					res = true
				}
			}
		}
	}
	if res {
		memo[b] = 1
	} else {
		memo[b] = 0
	}
	return res
}

// ReachTable returns, for every assignment m of the spec atoms (bit i of m = atom i), whether target can be reached for
// some assignment of the other branch conditions of fn. ok is false when the function has too many conditions to enumerate.
func ReachTable(fn *ssa.Function, target ssa.Instruction, specs []AtomSpec) (table []bool, ok bool) {
	rc := &reachCond{fn: fn, specs: specs, atoms: map[ssa.Value]int{}, nAtoms: len(specs), back: map[Edge]bool{}}
	// back edges: u→v with v dominating u
	for _, b := range fn.Blocks {
		for si, s := range b.Succs {
			if s.Dominates(b) {
				rc.back[Edge{b, si}] = true
			}
		}
	}
	// discover the atoms: evaluate once with a scratch assignment so that literal() has seen every condition on the way
	for _, b := range fn.Blocks {
		if iff, isIf := lastIf(b); isIf {
			rc.collect(iff.Cond, 0)
		}
	}
	if rc.nAtoms > 22 {
		return nil, false
	}
	k := len(specs)
	table = make([]bool, 1<<uint(k))
	free := rc.nAtoms - k
	tb := target.Block()
	for m := 0; m < 1<<uint(k); m++ {
		for f := 0; f < 1<<uint(free); f++ {
			asg := uint64(m) | uint64(f)<<uint(k)
			memo := map[*ssa.BasicBlock]int8{}
			if rc.blockReached(tb, asg, memo, 0) {
				table[m] = true
				break
			}
		}
	}
	return table, true
}

func (rc *reachCond) collect(v ssa.Value, depth int) {
	if depth > 40 {
		return
	}
	switch x := v.(type) {
	case *ssa.Const:
		return
	case *ssa.UnOp:
		if x.Op == token.NOT {
			rc.collect(x.X, depth+1)
			return
		}
	case *ssa.Phi:
		if x.Type().String() == "bool" {
			for _, e := range x.Edges {
				rc.collect(e, depth+1)
			}
			return
		}
	}
	rc.literal(v)
}

// TableIs reports whether table is true exactly on the assignments for which want returns true.
func TableIs(table []bool, want func(bits func(i int) bool) bool) bool {
	for m, got := range table {
		mm := m
		if got != want(func(i int) bool { return (mm>>uint(i))&1 == 1 }) {
			return false
		}
	}
	return true
}

// ValueTable is ReachTable for a boolean VALUE: table[m] reports whether, with the spec atoms set as in m, some assignment
// of the other conditions makes v true at its definition (v's block reached and v evaluating to true).
func ValueTable(fn *ssa.Function, v ssa.Value, at *ssa.BasicBlock, specs []AtomSpec) (table []bool, ok bool) {
	rc := &reachCond{fn: fn, specs: specs, atoms: map[ssa.Value]int{}, nAtoms: len(specs), back: map[Edge]bool{}}
	for _, b := range fn.Blocks {
		for si, s := range b.Succs {
			if s.Dominates(b) {
				rc.back[Edge{b, si}] = true
			}
		}
	}
	for _, b := range fn.Blocks {
		if iff, isIf := lastIf(b); isIf {
			rc.collect(iff.Cond, 0)
		}
	}
	rc.collect(v, 0)
	if rc.nAtoms > 22 {
		return nil, false
	}
	k := len(specs)
	table = make([]bool, 1<<uint(k))
	free := rc.nAtoms - k
	for m := 0; m < 1<<uint(k); m++ {
		for f := 0; f < 1<<uint(free); f++ {
			asg := uint64(m) | uint64(f)<<uint(k)
			memo := map[*ssa.BasicBlock]int8{}
			if rc.blockReached(at, asg, memo, 0) && rc.evalValue(v, asg, memo, 0) {
				table[m] = true
				break
			}
		}
	}
	return table, true
}
