package eng

import (
	"go/types"
	"sort"
	"strings"

	"golang.org/x/tools/go/callgraph"
	"golang.org/x/tools/go/ssa"

	"lbcheck/ir"
)

// Site is one call site (or function-value reference) in module code.
type Site struct {
	Fn     *ssa.Function // enclosing function (possibly anonymous)
	Instr  ssa.Instruction
	Callee string // callee ref
	Mode   string // "call", "go", "defer", "value" (function used as a value)
}

// Outer returns the key of the outermost named function enclosing the site.
func (s Site) Outer() string { return ir.FuncKey(ir.Outermost(s.Fn)) }

// CallIndex maps callee refs to their sites in non-test module code.
type CallIndex struct {
	By map[string][]Site
	N  int
}

var indexCache = map[*ir.Program]*CallIndex{}

// Index builds (once) the call-site index of the program.
func Index(p *ir.Program) *CallIndex {
	if ix, ok := indexCache[p]; ok {
		return ix
	}
	ix := &CallIndex{By: map[string][]Site{}}
	for _, fn := range p.Funcs {
		for _, b := range fn.Blocks {
			for _, in := range b.Instrs {
				if ci, ok := in.(ssa.CallInstruction); ok {
					ref := CalleeRef(ci.Common())
					mode := "call"
					switch in.(type) {
					case *ssa.Go:
						mode = "go"
					case *ssa.Defer:
						mode = "defer"
					}
					if ref != "" {
						ix.By[ref] = append(ix.By[ref], Site{fn, in, ref, mode})
						ix.N++
					}
				}
				// function values: operands that are *ssa.Function but not in call position
				var ops []*ssa.Value
				for _, op := range in.Operands(ops) {
					if *op == nil {
						continue
					}
					f, ok := (*op).(*ssa.Function)
					if !ok {
						continue
					}
					if ci, ok := in.(ssa.CallInstruction); ok && ci.Common().Value == f && !ci.Common().IsInvoke() {
						continue
					}
					if _, ok := in.(*ssa.MakeClosure); ok {
						continue // closures are attributed through their parent
					}
					ref := ""
					if fo, ok := f.Object().(*types.Func); ok {
						ref = FuncRef(fo)
					} else if f.Synthetic != "" && strings.Contains(f.Synthetic, "bound method") || strings.HasSuffix(f.Name(), "$bound") {
						ref = boundRef(f)
					}
					if ref != "" {
						ix.By[ref] = append(ix.By[ref], Site{fn, in, ref, "value"})
					}
				}
				if mc, ok := in.(*ssa.MakeClosure); ok {
					// bound method values: x.M used as a value
					f := mc.Fn.(*ssa.Function)
					if strings.HasSuffix(f.Name(), "$bound") {
						if ref := boundRef(f); ref != "" {
							ix.By[ref] = append(ix.By[ref], Site{fn, in, ref, "value"})
						}
					}
				}
			}
		}
	}
	indexCache[p] = ix
	return ix
}

func boundRef(f *ssa.Function) string {
	// a $bound wrapper calls exactly one method
	if f.Object() != nil {
		if fo, ok := f.Object().(*types.Func); ok {
			return FuncRef(fo)
		}
	}
	for _, b := range f.Blocks {
		for _, in := range b.Instrs {
			if c, ok := in.(*ssa.Call); ok {
				return CalleeRef(&c.Call)
			}
		}
	}
	return ""
}

// Sites returns all sites whose callee is any of refs.
func (ix *CallIndex) Sites(refs ...string) []Site {
	var out []Site
	for _, r := range refs {
		out = append(out, ix.By[r]...)
	}
	return out
}

// OuterCallers returns the sorted set of outermost enclosing functions of the sites of refs.
func (ix *CallIndex) OuterCallers(refs ...string) []string {
	set := map[string]bool{}
	for _, s := range ix.Sites(refs...) {
		set[s.Outer()] = true
	}
	var out []string
	for k := range set {
		out = append(out, k)
	}
	sort.Strings(out)
	return out
}

// WhoMayCall checks that the outer callers of targets (static refs and interface-method refs) are exactly
// within allowed; expected callers that are missing are anchor failures. One obligation per caller.
func (c *Ctx) WhoMayCall(what string, targets []string, allowed []string, required []string) {
	ix := Index(c.P)
	sites := ix.Sites(targets...)
	byOuter := map[string][]Site{}
	for _, s := range sites {
		byOuter[s.Outer()] = append(byOuter[s.Outer()], s)
	}
	var outers []string
	for k := range byOuter {
		outers = append(outers, k)
	}
	sort.Strings(outers)
	for _, o := range outers {
		s := byOuter[o][0]
		if !RefIn(o, allowed...) {
			if via := c.privateHelperOf(ix, o, allowed, 0); via != "" {
				c.OK(what+" called from "+o, c.Pos(s.Instr), "private helper called only, and synchronously, from "+via+" (allowed caller)")
				continue
			}
		}
		c.Check(RefIn(o, allowed...), what+" called from "+o, c.Pos(s.Instr),
			"caller is in the allowed set {"+strings.Join(allowed, ", ")+"}",
			"caller "+o+" ("+s.Mode+" in "+ir.FuncKey(s.Fn)+") is not in the allowed set {"+strings.Join(allowed, ", ")+"}")
	}
	for _, r := range required {
		if _, ok := byOuter[r]; !ok {
			c.Unresolved("expected caller " + r + " of " + what)
		}
	}
	// thorough tier: the whole-program VTA call graph also sees calls through function values, method values and
	// interfaces that the syntactic index cannot attribute; any additional module caller must be allowed too.
	if c.P.Whole {
		var keys []string
		for _, fn := range c.P.Funcs {
			if fo, ok := fn.Object().(*types.Func); ok && RefIn(FuncRef(fo), targets...) {
				keys = append(keys, ir.FuncKey(fn))
			}
		}
		for k, callers := range c.GraphCallers(keys...) {
			for _, caller := range callers {
				if _, seen := byOuter[caller]; seen {
					continue
				}
				c.Check(RefIn(caller, allowed...), what+" reached from "+caller+" (call graph)", "-",
					"VTA call-graph caller is in the allowed set", "the whole-program call graph (VTA) shows "+caller+" reaching "+k+" through a function value or interface: not in the allowed set {"+strings.Join(allowed, ", ")+"}")
			}
		}
	}
}

// privateHelperOf: the function with key o is an unexported module function that is never used as a value and whose every
// call site is a plain (not go, not inside a closure) call in an allowed function — or in another such helper, two levels at
// most. Moving code of an allowed caller into such a helper does not change who performs the call. Returns the allowed
// caller(s) it belongs to, or "".
func (c *Ctx) privateHelperOf(ix *CallIndex, o string, allowed []string, depth int) string {
	f := c.P.Func(o)
	if f == nil || depth > 1 {
		return ""
	}
	fo, ok := f.Object().(*types.Func)
	if !ok || fo.Exported() {
		return ""
	}
	sites := ix.Sites(FuncRef(fo))
	if len(sites) == 0 {
		return ""
	}
	via := map[string]bool{}
	for _, s := range sites {
		if s.Mode != "call" || s.Fn.Parent() != nil {
			return "" // started as a goroutine, deferred, used as a value, or called from inside a closure
		}
		caller := s.Outer()
		if RefIn(caller, allowed...) {
			via[caller] = true
			continue
		}
		if v := c.privateHelperOf(ix, caller, allowed, depth+1); v != "" {
			via[v] = true
			continue
		}
		return ""
	}
	var names []string
	for k := range via {
		names = append(names, k)
	}
	sort.Strings(names)
	return strings.Join(names, ", ")
}

// VTAExtraCallers uses the whole-program call graph (thorough tier) to find module callers of the
// functions with the given keys that the syntactic index does not attribute (dynamic calls through
// function values and interfaces). Returns outermost caller keys.
func (c *Ctx) GraphCallers(fnKeys ...string) map[string][]string {
	out := map[string][]string{}
	cg := c.P.CallGraph()
	for _, k := range fnKeys {
		f := c.P.Func(k)
		if f == nil {
			continue
		}
		n := cg.Nodes[f]
		if n == nil {
			continue
		}
		set := map[string]bool{}
		for _, e := range n.In {
			if e.Caller == nil || e.Caller.Func == nil {
				continue
			}
			cf := e.Caller.Func
			if c.P.IsModuleFunc(cf) {
				set[ir.FuncKey(ir.Outermost(cf))] = true
			} else if cf.Pkg != nil && ir.InModule(cf.Pkg.Pkg.Path()) {
				// synthetic wrapper: walk one more level
				if wn := cg.Nodes[cf]; wn != nil {
					for _, e2 := range wn.In {
						if e2.Caller != nil && c.P.IsModuleFunc(e2.Caller.Func) {
							set[ir.FuncKey(ir.Outermost(e2.Caller.Func))] = true
						}
					}
				}
			}
		}
		for s := range set {
			out[k] = append(out[k], s)
		}
		sort.Strings(out[k])
	}
	return out
}

// Reachable returns the set of module functions reachable from roots following static calls, interface
// invokes resolved by CHA within the module, closures created (MakeClosure) and function values, stopping at
// functions in the boundary set. go statements are followed unless noGo.
func (c *Ctx) Reachable(roots []*ssa.Function, boundary map[string]bool, followGo bool) map[*ssa.Function]bool {
	seen := map[*ssa.Function]bool{}
	var cg *callgraph.Graph
	var walk func(f *ssa.Function)
	walk = func(f *ssa.Function) {
		if f == nil || seen[f] || !c.P.IsModuleFunc(f) {
			return
		}
		if boundary[ir.FuncKey(f)] {
			return
		}
		seen[f] = true
		for _, b := range f.Blocks {
			for _, in := range b.Instrs {
				if _, isGo := in.(*ssa.Go); isGo && !followGo {
					continue
				}
				if ci, ok := in.(ssa.CallInstruction); ok {
					cc := ci.Common()
					if sc := cc.StaticCallee(); sc != nil {
						walk(sc)
					} else if cc.IsInvoke() {
						if cg == nil {
							cg = c.P.CallGraph()
						}
						if n := cg.Nodes[f]; n != nil {
							for _, e := range n.Out {
								if e.Site == ci {
									walk(e.Callee.Func)
								}
							}
						}
					}
				}
				if mc, ok := in.(*ssa.MakeClosure); ok {
					walk(mc.Fn.(*ssa.Function))
				}
			}
		}
	}
	for _, r := range roots {
		walk(r)
	}
	return seen
}
