package eng

import (
	"fmt"
	"go/types"

	"golang.org/x/tools/go/ssa"

	"lbcheck/ir"
)

// Leaf is a terminal of a backward slice.
type Leaf struct {
	V    ssa.Value
	Fn   *ssa.Function
	Kind string // "const", "param", "call", "field", "global", "alloc", "other", "depth"
	Ref  string // callee ref / "Type.field" / param name
	Path []string
}

// Slicer walks values backwards through arithmetic, conversions, phis, single-store cells, and parameters (to the
// arguments at every module call site, up to MaxDepth call levels).
type Slicer struct {
	P        *ir.Program
	MaxDepth int
	// Stop decides whether a value is a leaf before the default decomposition (e.g. calls that are sources).
	Stop func(v ssa.Value) bool
}

// Leaves returns the leaves of v.
func (s *Slicer) Leaves(v ssa.Value) []Leaf {
	var out []Leaf
	seen := map[ssa.Value]bool{}
	var walk func(v ssa.Value, depth int, path []string)
	emit := func(v ssa.Value, kind, ref string, path []string) {
		var fn *ssa.Function
		switch x := v.(type) {
		case ssa.Instruction:
			fn = x.Parent()
		case *ssa.Parameter:
			fn = x.Parent()
		case *ssa.FreeVar:
			fn = x.Parent()
		}
		out = append(out, Leaf{v, fn, kind, ref, append([]string(nil), path...)})
	}
	walk = func(v ssa.Value, depth int, path []string) {
		if v == nil || seen[v] {
			return
		}
		seen[v] = true
		v0 := v
		v = Strip(v)
		if v != v0 {
			if seen[v] {
				return
			}
			seen[v] = true
		}
		if s.Stop != nil && s.Stop(v) {
			emit(v, leafKind(v), leafRef(v), path)
			return
		}
		switch x := v.(type) {
		case *ssa.Const:
			emit(v, "const", x.String(), path)
		case *ssa.BinOp:
			walk(x.X, depth, path)
			walk(x.Y, depth, path)
		case *ssa.UnOp:
			if f, b := FieldRead(x); f != nil {
				emit(v, "field", ownerOf(b)+"."+f.Name(), path)
				return
			}
			if g, ok := x.X.(*ssa.Global); ok {
				emit(v, "global", globalRef(g), path)
				return
			}
			if a, ok := x.X.(*ssa.Alloc); ok {
				// multi-store cell: all stored values
				for _, r := range *a.Referrers() {
					if st, ok := r.(*ssa.Store); ok && st.Addr == a {
						walk(st.Val, depth, path)
					}
				}
				return
			}
			if fv, ok := x.X.(*ssa.FreeVar); ok {
				if b := freeVarBinding(fv); b != nil {
					if a, ok := b.(*ssa.Alloc); ok {
						for _, r := range *a.Referrers() {
							if st, ok := r.(*ssa.Store); ok && st.Addr == a {
								walk(st.Val, depth, path)
							}
						}
						return
					}
				}
			}
			walk(x.X, depth, path)
		case *ssa.Phi:
			for _, e := range x.Edges {
				walk(e, depth, path)
			}
		case *ssa.Extract:
			if c, ok := x.Tuple.(*ssa.Call); ok {
				emit(v, "call", CalleeRef(&c.Call), path)
				return
			}
			emit(v, "other", x.String(), path)
		case *ssa.Call:
			emit(v, "call", CalleeRef(&x.Call), path)
		case *ssa.Field:
			if f := fieldOfField(x); f != nil {
				emit(v, "field", ownerOf(x.X)+"."+f.Name(), path)
			}
		case *ssa.Parameter:
			fn := x.Parent()
			idx := -1
			for i, q := range fn.Params {
				if q == x {
					idx = i
				}
			}
			if fn.Parent() != nil {
				// parameter of a closure: a leaf (callers decide, e.g. sort.Search's index)
				emit(v, "closure-param", ir.FuncKey(fn)+":"+x.Name(), path)
				return
			}
			obj, _ := fn.Object().(*types.Func)
			if depth >= s.MaxDepth || obj == nil || idx < 0 {
				emit(v, "param", ir.FuncKey(fn)+":"+x.Name(), path)
				return
			}
			sites := Index(s.P).Sites(FuncRef(obj))
			if len(sites) == 0 {
				emit(v, "param", ir.FuncKey(fn)+":"+x.Name(), path)
				return
			}
			for _, site := range sites {
				ci, ok := site.Instr.(ssa.CallInstruction)
				if !ok || site.Mode == "value" {
					emit(v, "param", ir.FuncKey(fn)+":"+x.Name(), path)
					continue
				}
				args := ci.Common().Args
				ai := idx
				if ci.Common().IsInvoke() {
					ai = idx - 1
				}
				if ai < 0 || ai >= len(args) {
					continue
				}
				np := append(append([]string(nil), path...), fmt.Sprintf("%s:%s ← %s", fn.Name(), x.Name(), site.Outer()))
				walk(args[ai], depth+1, np)
			}
		case *ssa.FreeVar:
			emit(v, "other", "free variable "+x.Name(), path)
		default:
			emit(v, "other", fmt.Sprintf("%T %s", v, v.Name()), path)
		}
	}
	walk(v, 0, nil)
	return out
}

func leafKind(v ssa.Value) string {
	switch v.(type) {
	case *ssa.Call, *ssa.Extract:
		return "call"
	case *ssa.Parameter:
		return "param"
	}
	if f, _ := FieldRead(v); f != nil {
		return "field"
	}
	return "other"
}

func leafRef(v ssa.Value) string {
	if c := AsCall(v); c != nil {
		return CalleeRef(&c.Call)
	}
	if f, b := FieldRead(v); f != nil {
		return ownerOf(b) + "." + f.Name()
	}
	if p, ok := v.(*ssa.Parameter); ok {
		return p.Name()
	}
	return v.Name()
}

// ownerOf names the struct type a base value points to.
func ownerOf(b ssa.Value) string {
	if b == nil {
		return "?"
	}
	t := b.Type()
	if p, ok := t.Underlying().(*types.Pointer); ok {
		t = p.Elem()
	}
	if n, ok := t.(*types.Named); ok {
		return n.Obj().Name()
	}
	return t.String()
}

// NewSlicerLeavesCall returns the leaves of v (intra-procedural slice) that are results of a call to ref.
func NewSlicerLeavesCall(p *ir.Program, v ssa.Value, ref string) []Leaf {
	s := &Slicer{P: p, MaxDepth: 0}
	var out []Leaf
	for _, l := range s.Leaves(v) {
		if l.Kind == "call" && l.Ref == ref {
			out = append(out, l)
		}
	}
	return out
}
