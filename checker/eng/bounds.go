package eng

import (
	"fmt"
	"go/token"
	"go/types"

	"golang.org/x/tools/go/ssa"

	"lbcheck/ir"
)

// Bounds is a small difference-constraint prover for index and slice expressions inside one function.
// Nodes are integer SSA values, "len(X)" of slice/string values, and the constant zero. A constraint
// a - b <= c is an edge b -> a with weight c; a query a - b <= c holds when the shortest path b -> a is <= c.
type Bounds struct {
	P    *ir.Program
	Fn   *ssa.Function
	glob func(g *ssa.Global) (int64, bool)
}

type node struct {
	v   ssa.Value // int value, or slice value when isLen
	len bool
}

var zeroNode = node{}

type cons struct {
	a, b node // a - b <= c
	c    int64
}

// NewBounds creates a prover for fn.
func NewBounds(p *ir.Program, fn *ssa.Function) *Bounds {
	return &Bounds{P: p, Fn: fn, glob: func(g *ssa.Global) (int64, bool) { return FoldGlobalInt(p, g) }}
}

// canon maps an integer value to its node, folding len() calls, conversions and constants.
func (b *Bounds) canon(v ssa.Value) (node, int64, bool) {
	// returns node n and offset k with v = n + k; ok=false when v is not understood (opaque node is still returned)
	for i := 0; i < 16; i++ {
		switch x := v.(type) {
		case *ssa.Const:
			if k, ok := ConstVal(x); ok {
				return zeroNode, k, true
			}
			return node{v: v}, 0, true
		case *ssa.Call:
			if bi, ok := x.Call.Value.(*ssa.Builtin); ok && bi.Name() == "len" && len(x.Call.Args) == 1 {
				return b.lenNode(x.Call.Args[0])
			}
			return node{v: v}, 0, true
		case *ssa.Convert:
			// integer widening / same-size signed conversions preserve the value for the ranges we care about
			ft, ok1 := x.X.Type().Underlying().(*types.Basic)
			tt, ok2 := x.Type().Underlying().(*types.Basic)
			if ok1 && ok2 && ft.Info()&types.IsInteger != 0 && tt.Info()&types.IsInteger != 0 && widthOf(tt) >= widthOf(ft) {
				// unsigned -> wider or equal signed keeps value when strictly wider, or when source is known small
				if ft.Info()&types.IsUnsigned != 0 && tt.Info()&types.IsUnsigned == 0 && widthOf(tt) == widthOf(ft) {
					return node{v: v}, 0, true
				}
				if ft.Info()&types.IsUnsigned == 0 && tt.Info()&types.IsUnsigned != 0 {
					return node{v: v}, 0, true // signed -> unsigned may wrap
				}
				v = x.X
				continue
			}
			return node{v: v}, 0, true
		case *ssa.ChangeType:
			v = x.X
			continue
		case *ssa.BinOp:
			if x.Op == token.ADD || x.Op == token.SUB {
				if k, ok := b.constOf(x.Y); ok {
					n, off, _ := b.canon(x.X)
					if x.Op == token.SUB {
						k = -k
					}
					return n, off + k, true
				}
				if k, ok := b.constOf(x.X); ok && x.Op == token.ADD {
					n, off, _ := b.canon(x.Y)
					return n, off + k, true
				}
			}
			return node{v: v}, 0, true
		case *ssa.UnOp:
			if x.Op == token.MUL {
				if g, ok := x.X.(*ssa.Global); ok {
					if k, ok := b.glob(g); ok {
						return zeroNode, k, true
					}
				}
				if a, ok := x.X.(*ssa.Alloc); ok {
					if s := cellStore(a); s != nil {
						v = s
						continue
					}
				}
			}
			return node{v: v}, 0, true
		default:
			return node{v: v}, 0, true
		}
	}
	return node{v: v}, 0, true
}

func widthOf(t *types.Basic) int {
	switch t.Kind() {
	case types.Int8, types.Uint8:
		return 8
	case types.Int16, types.Uint16:
		return 16
	case types.Int32, types.Uint32:
		return 32
	default:
		return 64
	}
}

func (b *Bounds) constOf(v ssa.Value) (int64, bool) {
	n, k, _ := b.canon(v)
	if n == zeroNode {
		return k, true
	}
	return 0, false
}

// lenNode returns the node for len(X), resolving slices of known shape: len(X[lo:hi]) = hi - lo.
func (b *Bounds) lenNode(x ssa.Value) (node, int64, bool) {
	switch s := x.(type) {
	case *ssa.Slice:
		if s.High != nil {
			hn, hk, _ := b.canon(s.High)
			if s.Low == nil {
				return hn, hk, true
			}
			if lk, ok := b.constOf(s.Low); ok {
				return hn, hk - lk, true
			}
		} else {
			bn, bk, _ := b.baseLen(s.X)
			if s.Low == nil {
				return bn, bk, true
			}
			if lk, ok := b.constOf(s.Low); ok {
				return bn, bk - lk, true
			}
		}
	case *ssa.ChangeType:
		return b.lenNode(s.X)
	case *ssa.Convert:
		// string(b) / []byte(s) keep the length
		return b.lenNode(s.X)
	case *ssa.UnOp:
		if s.Op == token.MUL {
			if a, ok := s.X.(*ssa.Alloc); ok {
				if st := cellStore(a); st != nil {
					return b.lenNode(st)
				}
			}
			if g, ok := s.X.(*ssa.Global); ok {
				if k, ok := FoldGlobalLen(b.P, g); ok {
					return zeroNode, k, true
				}
			}
		}
	case *ssa.Const:
		if s.Value != nil && s.Value.Kind().String() == "String" {
			return zeroNode, int64(len(constantString(s))), true
		}
	}
	return node{v: x, len: true}, 0, true
}

// baseLen: length of the operand of a slice expression (array pointer, slice or string).
func (b *Bounds) baseLen(x ssa.Value) (node, int64, bool) {
	t := x.Type().Underlying()
	if p, ok := t.(*types.Pointer); ok {
		if a, ok := p.Elem().Underlying().(*types.Array); ok {
			return zeroNode, a.Len(), true
		}
	}
	if a, ok := t.(*types.Array); ok {
		return zeroNode, a.Len(), true
	}
	return b.lenNode(x)
}

// facts collects constraints that hold at instruction at: structural ones plus those of dominating branch edges.
func (b *Bounds) facts(at ssa.Instruction) []cons {
	var fs []cons
	add := func(an node, ak int64, bn node, bk int64, c int64) {
		// (an+ak) - (bn+bk) <= c  =>  an - bn <= c - ak + bk
		fs = append(fs, cons{an, bn, c - ak + bk})
	}
	for _, blk := range b.Fn.Blocks {
		iff, ok := lastIf(blk)
		if !ok {
			continue
		}
		for succ := 0; succ < 2; succ++ {
			e := Edge{blk, succ}
			if !edgeDominates(b.Fn, e, at) {
				continue
			}
			// what is certain on this edge: the comparison itself, or — for a condition bound to a named boolean
			// (`inRange := lo <= n && n <= len(data); if !inRange { return }`) — every comparison all ways of the flag share
			for _, a := range impliedAtoms(iff.Cond, succ == 0, 0) {
				bo, ok := a.v.(*ssa.BinOp)
				if !ok || !isIntegral(bo.X.Type()) {
					continue
				}
				rel, ok := relOfOp(bo.Op)
				if !ok {
					continue
				}
				if !a.pol {
					rel = rel.neg()
				}
				xn, xk, _ := b.canon(bo.X)
				yn, yk, _ := b.canon(bo.Y)
				switch rel {
				case LT: // x < y  => x - y <= -1
					add(xn, xk, yn, yk, -1)
				case LE:
					add(xn, xk, yn, yk, 0)
				case GT:
					add(yn, yk, xn, xk, -1)
				case GE:
					add(yn, yk, xn, xk, 0)
				case EQ:
					add(xn, xk, yn, yk, 0)
					add(yn, yk, xn, xk, 0)
				case NE:
					// x != c where x is a length (>= 0) and c == 0: x >= 1 (and symmetrically)
					if yn == zeroNode && yk == 0 && xn.len {
						add(yn, yk, xn, xk, -1)
					}
					if xn == zeroNode && xk == 0 && yn.len {
						add(xn, xk, yn, yk, -1)
					}
				}
			}
		}
	}
	return fs
}

func isIntegral(t types.Type) bool {
	bt, ok := t.Underlying().(*types.Basic)
	return ok && bt.Info()&types.IsInteger != 0
}

// edgeDominates: every path from entry to at crosses e.
func edgeDominates(fn *ssa.Function, e Edge, at ssa.Instruction) bool {
	g, _ := GuardedBy(fn, at, []Edge{e})
	return g
}

// nonNeg reports whether v is known non-negative from its shape.
func (b *Bounds) nonNeg(v ssa.Value, depth int) bool {
	if depth > 8 {
		return false
	}
	switch x := v.(type) {
	case *ssa.Const:
		k, ok := ConstVal(x)
		return ok && k >= 0
	case *ssa.Convert:
		ft, ok := x.X.Type().Underlying().(*types.Basic)
		tt, ok2 := x.Type().Underlying().(*types.Basic)
		if ok && ok2 && ft.Info()&types.IsUnsigned != 0 && widthOf(tt) > widthOf(ft) {
			return true
		}
		if ok && ok2 && widthOf(tt) >= widthOf(ft) {
			return b.nonNeg(x.X, depth+1)
		}
	case *ssa.Call:
		if bi, ok := x.Call.Value.(*ssa.Builtin); ok && (bi.Name() == "len" || bi.Name() == "cap") {
			return true
		}
		// sizes reported by the standard library are non-negative by contract
		switch CalleeRef(&x.Call) {
		case "crypto/cipher.AEAD.NonceSize", "crypto/cipher.AEAD.Overhead", "crypto/cipher.Block.BlockSize", "bytes.Buffer.Len", "hash.Hash.Size":
			return true
		}
	case *ssa.BinOp:
		switch x.Op {
		case token.ADD, token.MUL:
			return b.nonNeg(x.X, depth+1) && b.nonNeg(x.Y, depth+1)
		case token.REM, token.AND, token.SHR, token.QUO:
			return b.nonNeg(x.X, depth+1) && (x.Op == token.SHR || b.nonNeg(x.Y, depth+1))
		}
	case *ssa.Phi:
		// loop counters: all incoming edges non-negative, treating the phi itself (back edge through +const) as non-negative
		for _, e := range x.Edges {
			if bo, ok := e.(*ssa.BinOp); ok && bo.Op == token.ADD && (bo.X == x || bo.Y == x) {
				other := bo.Y
				if bo.Y == x {
					other = bo.X
				}
				if b.nonNeg(other, depth+1) {
					continue
				}
				return false
			}
			if !b.nonNeg(e, depth+1) {
				return false
			}
		}
		return true
	case *ssa.UnOp:
		if x.Op == token.MUL {
			if g, ok := x.X.(*ssa.Global); ok {
				if k, ok := b.glob(g); ok {
					return k >= 0
				}
			}
			if a, ok := x.X.(*ssa.Alloc); ok {
				if s := cellStore(a); s != nil {
					return b.nonNeg(s, depth+1)
				}
			}
		}
		if bt, ok := x.Type().Underlying().(*types.Basic); ok && bt.Info()&types.IsUnsigned != 0 {
			return true
		}
	case *ssa.Extract, *ssa.Parameter, *ssa.Field:
	}
	if bt, ok := v.Type().Underlying().(*types.Basic); ok && bt.Info()&types.IsUnsigned != 0 {
		return true
	}
	return false
}

// prove a - b <= c at instruction at.
func (b *Bounds) prove(an node, ak int64, bn node, bk int64, c int64, at ssa.Instruction) bool {
	// (an+ak) - (bn+bk) <= c  <=>  an - bn <= c - ak + bk
	want := c - ak + bk
	if an == bn {
		return 0 <= want
	}
	fs := b.facts(at)
	// implicit: len nodes are >= 0: zero - len <= 0
	nodes := map[node]bool{an: true, bn: true, zeroNode: true}
	for _, f := range fs {
		nodes[f.a] = true
		nodes[f.b] = true
	}
	for n := range nodes {
		if n.len {
			fs = append(fs, cons{zeroNode, n, 0})
		} else if n.v != nil && b.nonNeg(n.v, 0) {
			fs = append(fs, cons{zeroNode, n, 0})
		}
		if n.v != nil && !n.len {
			// byte-sized values are <= 255
			if cv, ok := n.v.(*ssa.Convert); ok {
				if ft, ok := cv.X.Type().Underlying().(*types.Basic); ok && ft.Kind() == types.Uint8 {
					fs = append(fs, cons{n, zeroNode, 255})
				}
			}
		}
	}
	// Bellman-Ford from bn: dist[x] = min c such that x - bn <= c
	const inf = int64(1) << 60
	dist := map[node]int64{}
	for n := range nodes {
		dist[n] = inf
	}
	dist[bn] = 0
	for i := 0; i < len(nodes)+1; i++ {
		changed := false
		for _, f := range fs {
			// f.a - f.b <= f.c ; if dist[f.b] known then dist[f.a] <= dist[f.b] + f.c
			if dist[f.b] < inf && dist[f.b]+f.c < dist[f.a] {
				dist[f.a] = dist[f.b] + f.c
				changed = true
			}
		}
		if !changed {
			break
		}
	}
	return dist[an] <= want
}

// AccessKind describes a checked expression.
type Access struct {
	Instr ssa.Instruction
	Base  ssa.Value
	What  string
	OK    bool
	Why   string
}

// CheckAccess decides whether the index/slice instruction in is within bounds on all paths.
// Returns (isAccess, ok, description).
func (b *Bounds) CheckAccess(in ssa.Instruction) (bool, bool, string) {
	switch x := in.(type) {
	case *ssa.IndexAddr:
		return true, b.indexOK(x.X, x.Index, in), fmt.Sprintf("%s[%s]", shortVal(x.X), Describe(x.Index))
	case *ssa.Index:
		return true, b.indexOK(x.X, x.Index, in), fmt.Sprintf("%s[%s]", shortVal(x.X), Describe(x.Index))
	case *ssa.Lookup:
		if _, ok := x.X.Type().Underlying().(*types.Map); ok {
			return false, true, ""
		}
		return true, b.indexOK(x.X, x.Index, in), fmt.Sprintf("%s[%s]", shortVal(x.X), Describe(x.Index))
	case *ssa.Slice:
		lo, hi := "", ""
		if x.Low != nil {
			lo = Describe(x.Low)
		}
		if x.High != nil {
			hi = Describe(x.High)
		}
		return true, b.sliceOK(x, in), fmt.Sprintf("%s[%s:%s]", shortVal(x.X), lo, hi)
	}
	return false, true, ""
}

func (b *Bounds) indexOK(base, idx ssa.Value, at ssa.Instruction) bool {
	ln, lk, _ := b.baseLen(base)
	in, ik, _ := b.canon(idx)
	// idx + 1 <= len  and idx >= 0
	upper := b.prove(in, ik+1, ln, lk, 0, at)
	lower := b.prove(zeroNode, 0, in, ik, 0, at)
	return upper && lower
}

func (b *Bounds) sliceOK(s *ssa.Slice, at ssa.Instruction) bool {
	ln, lk, _ := b.baseLen(s.X) // capacity would be the true bound for slices; len is the conservative one
	ok := true
	if s.High != nil {
		hn, hk, _ := b.canon(s.High)
		ok = ok && b.prove(hn, hk, ln, lk, 0, at) // hi <= len
		if s.Low != nil {
			on, ok2, _ := b.canon(s.Low)
			ok = ok && b.prove(on, ok2, hn, hk, 0, at) // lo <= hi
			ok = ok && b.prove(zeroNode, 0, on, ok2, 0, at)
		} else {
			ok = ok && b.prove(zeroNode, 0, hn, hk, 0, at)
		}
	} else if s.Low != nil {
		on, ok2, _ := b.canon(s.Low)
		ok = ok && b.prove(on, ok2, ln, lk, 0, at) // lo <= len
		ok = ok && b.prove(zeroNode, 0, on, ok2, 0, at)
	}
	return ok
}

// MinLen proves len(x) >= k at instruction at.
func (b *Bounds) MinLen(x ssa.Value, k int64, at ssa.Instruction) bool {
	ln, lk, _ := b.lenNode(x)
	// k <= len  <=> zero + k - (ln+lk) <= 0
	return b.prove(zeroNode, k, ln, lk, 0, at)
}

func constantString(c *ssa.Const) string {
	s := c.Value.ExactString()
	if len(s) >= 2 {
		// ExactString is quoted
		var out string
		if _, err := fmt.Sscanf(s, "%q", &out); err == nil {
			return out
		}
	}
	return s
}

// FoldGlobalInt folds a package-level integer variable that is assigned exactly once, in the package initialiser,
// from a constant or from len() of a package-level slice literal that is itself assigned once; and never stored to elsewhere.
func FoldGlobalInt(p *ir.Program, g *ssa.Global) (int64, bool) {
	st := singleInitStore(p, g)
	if st == nil {
		return 0, false
	}
	if k, ok := ConstVal(st.Val); ok {
		return k, true
	}
	if c, ok := st.Val.(*ssa.Call); ok {
		if bi, ok := c.Call.Value.(*ssa.Builtin); ok && bi.Name() == "len" {
			if u, ok := c.Call.Args[0].(*ssa.UnOp); ok && u.Op == token.MUL {
				if g2, ok := u.X.(*ssa.Global); ok {
					return FoldGlobalLen(p, g2)
				}
			}
		}
	}
	return 0, false
}

// FoldGlobalLen folds the length of a package-level slice variable assigned once from an array literal.
func FoldGlobalLen(p *ir.Program, g *ssa.Global) (int64, bool) {
	st := singleInitStore(p, g)
	if st == nil {
		return 0, false
	}
	if sl, ok := st.Val.(*ssa.Slice); ok && sl.Low == nil && sl.High == nil {
		if pt, ok := sl.X.Type().Underlying().(*types.Pointer); ok {
			if a, ok := pt.Elem().Underlying().(*types.Array); ok {
				return a.Len(), true
			}
		}
	}
	return 0, false
}

func singleInitStore(p *ir.Program, g *ssa.Global) *ssa.Store {
	var found *ssa.Store
	n := 0
	check := func(fn *ssa.Function) {
		for _, b := range fn.Blocks {
			for _, in := range b.Instrs {
				if st, ok := in.(*ssa.Store); ok && st.Addr == g {
					n++
					if fn.Name() == "init" && fn.Parent() == nil {
						found = st
					} else {
						n += 100
					}
				}
				// address taken elsewhere (passed to a call) -> give up
				if c, ok := in.(ssa.CallInstruction); ok {
					for _, a := range c.Common().Args {
						if a == g {
							n += 100
						}
					}
				}
			}
		}
	}
	for _, fn := range p.Funcs {
		check(fn)
	}
	if n == 1 {
		return found
	}
	return nil
}

// ConstOf folds v to an integer constant using the prover's canonicalisation (constants, folded globals, +/- chains).
func (b *Bounds) ConstOf(v ssa.Value) (int64, bool) { return b.constOf(v) }
