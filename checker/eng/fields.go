package eng

import (
	"fmt"
	"go/token"
	"go/types"
	"sort"
	"strings"

	"golang.org/x/tools/go/ssa"

	"lbcheck/ir"
)

// FieldAccess is one read or write of a struct field in module code.
type FieldAccess struct {
	Fn    *ssa.Function
	Instr ssa.Instruction // the FieldAddr / Field instruction
	Use   ssa.Instruction // the load, store, map update ... that performs the access
	Base  ssa.Value
	Write bool
	Field *types.Var
}

// FieldAccesses enumerates all accesses to field in module functions.
func FieldAccesses(p *ir.Program, field *types.Var) []FieldAccess {
	var out []FieldAccess
	if field == nil {
		return nil
	}
	for _, fn := range p.Funcs {
		for _, b := range fn.Blocks {
			for _, in := range b.Instrs {
				switch x := in.(type) {
				case *ssa.FieldAddr:
					if fieldOfAddr(x) != field {
						continue
					}
					refs := x.Referrers()
					if refs == nil {
						continue
					}
					for _, r := range *refs {
						switch u := r.(type) {
						case *ssa.Store:
							if u.Addr == x {
								out = append(out, FieldAccess{fn, x, u, x.X, true, field})
							}
						case *ssa.UnOp:
							if u.Op != token.MUL {
								continue
							}
							w := false
							var use ssa.Instruction = u
							// a loaded map/slice that is then updated is a write to the protected structure
							if ur := u.Referrers(); ur != nil {
								for _, rr := range *ur {
									switch y := rr.(type) {
									case *ssa.MapUpdate:
										if y.Map == u {
											w, use = true, y
										}
									case *ssa.Call:
										if b, ok := y.Call.Value.(*ssa.Builtin); ok && b.Name() == "delete" && y.Call.Args[0] == u {
											w, use = true, y
										}
									case *ssa.IndexAddr:
										if irs := y.Referrers(); irs != nil {
											for _, z := range *irs {
												if st, ok := z.(*ssa.Store); ok && st.Addr == y {
													w, use = true, st
												}
											}
										}
									}
								}
							}
							out = append(out, FieldAccess{fn, x, use, x.X, w, field})
						case *ssa.Call, *ssa.Go, *ssa.Defer:
							// address passed to a call (e.g. atomic.StoreInt32(&l.readonly, v)): counted as write
							out = append(out, FieldAccess{fn, x, r, x.X, true, field})
						case *ssa.FieldAddr, *ssa.IndexAddr:
							// nested struct / array field: conservatively a read here
							out = append(out, FieldAccess{fn, x, r, x.X, false, field})
						}
					}
				case *ssa.Field:
					if fieldOfField(x) == field {
						out = append(out, FieldAccess{fn, x, x, x.X, false, field})
					}
				}
			}
		}
	}
	return out
}

// freshBase reports whether the base object of an access was allocated in the same function and not yet published
// (composite literal under construction).
func freshBase(v ssa.Value) bool {
	for i := 0; i < 8; i++ {
		switch x := v.(type) {
		case *ssa.Alloc:
			return true
		case *ssa.UnOp:
			if a, ok := x.X.(*ssa.Alloc); ok {
				if s := cellStore(a); s != nil {
					v = s
					continue
				}
			}
			return false
		default:
			return false
		}
	}
	return false
}

// LockRule is one row of the field -> mutex table.
type LockRule struct {
	Field    *types.Var
	Lock     string            // name of the mutex field in the same struct ("mu"; "RWMutex" for an embedded one)
	Exempt   map[string]string // function key -> reason (constructors that fill the object before publishing it, ...)
	ReadFree bool              // reads are allowed without the lock (documented racy reads); writes still need it
}

// CheckFieldLocks emits one obligation per access of the field: the mutex of the same object is held (write-held for writes).
func (c *Ctx) CheckFieldLocks(r LockRule, owner string) int {
	if r.Field == nil {
		c.Unresolved("field " + owner)
		return 0
	}
	accs := FieldAccesses(c.P, r.Field)
	sort.SliceStable(accs, func(i, j int) bool { return ir.FuncKey(accs[i].Fn) < ir.FuncKey(accs[j].Fn) })
	n := 0
	for _, a := range accs {
		key := ir.FuncKey(a.Fn)
		outer := ir.FuncKey(ir.Outermost(a.Fn))
		kind := "read"
		if a.Write {
			kind = "write"
		}
		construct := fmt.Sprintf("%s of %s in %s", kind, owner, key)
		if freshBase(a.Base) {
			continue // object under construction in this function
		}
		if why, ok := r.Exempt[key]; ok {
			c.OK(construct, c.Pos(a.Use), "exempt: "+why)
			n++
			continue
		}
		if why, ok := r.Exempt[outer]; ok && outer != key {
			c.OK(construct, c.Pos(a.Use), "exempt (enclosing function): "+why)
			n++
			continue
		}
		if r.ReadFree && !a.Write {
			continue
		}
		la := LocksOf(c.P, a.Fn, 0)
		st := la.At(a.Use)
		want := Path(a.Base) + "." + r.Lock
		mode, held := st[want]
		ok := held && (!a.Write || mode == 2)
		n++
		c.Check(ok, construct, c.Pos(a.Use),
			fmt.Sprintf("%s held (%s) at the access", shortLock(want), map[int]string{1: "read", 2: "write"}[mode]),
			fmt.Sprintf("%s of %s without %s %sheld; locks held here: %s", kind, owner, shortLock(want), map[bool]string{true: "write-", false: ""}[a.Write], HeldString(shortState(st))))
	}
	return n
}

func shortLock(p string) string {
	if i := strings.LastIndex(p, ":"); i >= 0 {
		p = p[i+1:]
	}
	// drop run-specific addresses of anonymous values
	for {
		i := strings.Index(p, "@0x")
		if i < 0 {
			break
		}
		j := i + 3
		for j < len(p) && strings.ContainsRune("0123456789abcdef", rune(p[j])) {
			j++
		}
		p = p[:i] + p[j:]
	}
	return p
}

func shortState(st LockState) LockState {
	o := LockState{}
	for k, v := range st {
		o[shortLock(k)] = v
	}
	return o
}

// StoresToField returns every store to the field in module code (excluding fresh objects when skipFresh).
func StoresToField(p *ir.Program, field *types.Var, skipFresh bool) []FieldAccess {
	var out []FieldAccess
	for _, a := range FieldAccesses(p, field) {
		if _, ok := a.Use.(*ssa.Store); ok && a.Write {
			if skipFresh && freshBase(a.Base) {
				continue
			}
			out = append(out, a)
		}
	}
	return out
}
