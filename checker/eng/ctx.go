// Package eng holds the rule engines (K1..K10 of DESIGN.md) and the obligation bookkeeping.
package eng

import (
	"encoding/json"
	"fmt"
	"os"
	"sort"
	"strings"

	"golang.org/x/tools/go/ssa"

	"lbcheck/ir"
)

// Status of an obligation.
type Status string

const (
	Discharged Status = "discharged"
	Violated   Status = "violated"
	Undecided  Status = "undecided"
	Unresolved Status = "anchor-unresolved"
)

// Obligation is one decided (or undecided) instance of a rule.
type Obligation struct {
	Rule      string `json:"rule"`
	Kind      string `json:"kind"`
	Construct string `json:"construct"`
	Pos       string `json:"pos"`
	Status    Status `json:"status"`
	Detail    string `json:"detail"`
	Known     string `json:"known_finding,omitempty"`
}

// Key identifies an obligation independent of positions.
func (o *Obligation) Key() string { return o.Rule + " | " + o.Construct }

// Ctx is the evaluation context for one property.
type Ctx struct {
	P        *ir.Program
	Prop     string
	Tier     string
	Obs      []*Obligation
	rule     string
	kind     string
	Sites    map[string]int // rule -> matched site count
	Floors   map[string]int // rule -> floor
	Notes    []string
	seenKeys map[string]bool
}

// NewCtx creates a context.
func NewCtx(p *ir.Program, prop, tier string) *Ctx {
	return &Ctx{P: p, Prop: prop, Tier: tier, Sites: map[string]int{}, Floors: map[string]int{}, seenKeys: map[string]bool{}}
}

// Rule sets the current rule id and kind for subsequent obligations.
func (c *Ctx) Rule(id, kind string) { c.rule, c.kind = id, kind }

// CurrentRule returns the rule id and kind obligations are currently filed under.
func (c *Ctx) CurrentRule() (string, string) { return c.rule, c.kind }

func (c *Ctx) add(construct, pos string, st Status, detail string) *Obligation {
	o := &Obligation{Rule: c.rule, Kind: c.kind, Construct: construct, Pos: pos, Status: st, Detail: detail}
	k := o.Key()
	if c.seenKeys[k] {
		// keep keys unique: same construct reported twice gets an ordinal
		for i := 2; ; i++ {
			k2 := fmt.Sprintf("%s #%d", construct, i)
			if !c.seenKeys[c.rule+" | "+k2] {
				o.Construct = k2
				k = o.Key()
				break
			}
		}
	}
	c.seenKeys[k] = true
	c.Obs = append(c.Obs, o)
	c.Sites[c.rule]++
	return o
}

// Check records an obligation that is discharged when ok, violated otherwise.
func (c *Ctx) Check(ok bool, construct, pos, okDetail, badDetail string) bool {
	if ok {
		c.add(construct, pos, Discharged, okDetail)
	} else {
		c.add(construct, pos, Violated, badDetail)
	}
	return ok
}

// Violate records a violated obligation.
func (c *Ctx) Violate(construct, pos, detail string) { c.add(construct, pos, Violated, detail) }

// OK records a discharged obligation.
func (c *Ctx) OK(construct, pos, detail string) { c.add(construct, pos, Discharged, detail) }

// Undecided records an obligation the analysis could not decide (fails the check).
func (c *Ctx) Undecided(construct, pos, detail string) { c.add(construct, pos, Undecided, detail) }

// Unresolved records an anchor that could not be resolved in the current tree (fails the check).
func (c *Ctx) Unresolved(what string) {
	c.add("anchor "+what, "-", Unresolved, "ANCHOR-UNRESOLVED: "+what+" not found in the current tree; the rule instance cannot be evaluated")
}

// Note records an informational remark carried into the evidence.
func (c *Ctx) Note(format string, a ...any) { c.Notes = append(c.Notes, fmt.Sprintf(format, a...)) }

// Floor asserts that the current rule produced at least n obligations.
func (c *Ctx) Floor(n int) {
	c.Floors[c.rule] = n
	if c.Sites[c.rule] < n {
		got := c.Sites[c.rule]
		c.add("site-floor", "-", Unresolved, fmt.Sprintf("rule matched %d sites, fewer than the %d confirmed by hand: the rule would pass vacuously", got, n))
	}
}

// Fn resolves a module function by key or records an unresolved anchor.
func (c *Ctx) Fn(key string) *ssa.Function {
	f := c.P.Func(key)
	if f == nil {
		c.Unresolved("function " + key)
	}
	return f
}

// FnQuiet resolves without recording.
func (c *Ctx) FnQuiet(key string) *ssa.Function { return c.P.Func(key) }

// Pos of an instruction.
func (c *Ctx) Pos(in ssa.Instruction) string { return c.P.InstrPos(in) }

// ---- known findings ----

// Finding is an entry of known_findings.json.
type Finding struct {
	Property  string   `json:"property"`
	Also      []string `json:"also_properties,omitempty"`
	Rule      string   `json:"rule"`
	Construct string   `json:"construct"`
	What      string   `json:"what"`
	Status    string   `json:"status"` // "known" or "fixed"
	Commit    string   `json:"commit,omitempty"`
}

// LoadFindings reads the committed known-findings file.
func LoadFindings(path string) ([]Finding, error) {
	b, err := os.ReadFile(path)
	if err != nil {
		if os.IsNotExist(err) {
			return nil, nil
		}
		return nil, err
	}
	var f struct {
		Findings []Finding `json:"findings"`
	}
	if err := json.Unmarshal(b, &f); err != nil {
		return nil, err
	}
	return f.Findings, nil
}

// ApplyFindings marks violated obligations that match a "known" finding.
func (c *Ctx) ApplyFindings(fs []Finding) {
	for _, o := range c.Obs {
		if o.Status != Violated {
			continue
		}
		for _, f := range fs {
			if f.Status != "known" || f.Rule != o.Rule || f.Construct != o.Construct {
				continue
			}
			if f.Property == c.Prop || contains(f.Also, c.Prop) {
				o.Known = f.What
			}
		}
	}
}

func contains(xs []string, s string) bool {
	for _, x := range xs {
		if x == s {
			return true
		}
	}
	return false
}

// Failing returns obligations that fail the check (violated and not known, undecided, unresolved).
func (c *Ctx) Failing() []*Obligation {
	var out []*Obligation
	for _, o := range c.Obs {
		if o.Status == Discharged || (o.Status == Violated && o.Known != "") {
			continue
		}
		out = append(out, o)
	}
	return out
}

// KnownHits returns violated obligations matched by a known finding.
func (c *Ctx) KnownHits() []*Obligation {
	var out []*Obligation
	for _, o := range c.Obs {
		if o.Status == Violated && o.Known != "" {
			out = append(out, o)
		}
	}
	return out
}

// Counts returns (#obligations, #discharged).
func (c *Ctx) Counts() (int, int) {
	d := 0
	for _, o := range c.Obs {
		if o.Status == Discharged {
			d++
		}
	}
	return len(c.Obs), d
}

// SortObs orders obligations by rule then construct.
func (c *Ctx) SortObs() {
	sort.SliceStable(c.Obs, func(i, j int) bool {
		if c.Obs[i].Rule != c.Obs[j].Rule {
			return ruleLess(c.Obs[i].Rule, c.Obs[j].Rule)
		}
		return c.Obs[i].Construct < c.Obs[j].Construct
	})
}

func ruleLess(a, b string) bool {
	pa, pb := strings.SplitN(a, ".", 2), strings.SplitN(b, ".", 2)
	if pa[0] != pb[0] {
		return pa[0] < pb[0]
	}
	if len(pa) == 2 && len(pb) == 2 {
		var x, y int
		fmt.Sscanf(pa[1], "%d", &x)
		fmt.Sscanf(pb[1], "%d", &y)
		if x != y {
			return x < y
		}
	}
	return a < b
}
