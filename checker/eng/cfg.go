package eng

import (
	"fmt"
	"go/token"
	"strings"

	"golang.org/x/tools/go/ssa"
)

// Edge is a CFG edge; for an If terminator Succ 0 is the true edge.
type Edge struct {
	From *ssa.BasicBlock
	Succ int
}

// To returns the destination block.
func (e Edge) To() *ssa.BasicBlock { return e.From.Succs[e.Succ] }

func (e Edge) String() string {
	pol := "true"
	if e.Succ == 1 {
		pol = "false"
	}
	return fmt.Sprintf("b%d-%s->b%d", e.From.Index, pol, e.To().Index)
}

// Rel is a binary relation between two matched values A and B.
type Rel int

const (
	LT Rel = 1 << iota
	EQ
	GT
)

// Derived relation sets.
const (
	LE = LT | EQ
	GE = GT | EQ
	NE = LT | GT
)

func relOfOp(op token.Token) (Rel, bool) {
	switch op {
	case token.LSS:
		return LT, true
	case token.LEQ:
		return LE, true
	case token.GTR:
		return GT, true
	case token.GEQ:
		return GE, true
	case token.EQL:
		return EQ, true
	case token.NEQ:
		return NE, true
	}
	return 0, false
}

func (r Rel) neg() Rel { return (LT | EQ | GT) &^ r }
func (r Rel) swap() Rel {
	var o Rel
	if r&LT != 0 {
		o |= GT
	}
	if r&GT != 0 {
		o |= LT
	}
	if r&EQ != 0 {
		o |= EQ
	}
	return o
}

// String renders a relation set.
func (r Rel) String() string {
	switch r {
	case LT:
		return "<"
	case LE:
		return "<="
	case GT:
		return ">"
	case GE:
		return ">="
	case EQ:
		return "=="
	case NE:
		return "!="
	}
	return fmt.Sprintf("rel(%d)", int(r))
}

// CondPolarity peels boolean negations: returns the inner condition and whether it is negated.
func CondPolarity(v ssa.Value) (ssa.Value, bool) {
	neg := false
	for {
		u, ok := v.(*ssa.UnOp)
		if !ok || u.Op != token.NOT {
			return v, neg
		}
		v = u.X
		neg = !neg
	}
}

// CmpEdges returns the edges of fn on which "A rel B" holds for some rel ⊆ want
// (i.e. the edge's relation implies the wanted one), over all If terminators whose condition
// compares a value matching a with one matching b (either operand order, negations peeled).
func CmpEdges(fn *ssa.Function, a, b VM, want Rel) []Edge {
	var out []Edge
	for _, blk := range fn.Blocks {
		iff, ok := lastIf(blk)
		if !ok {
			continue
		}
		cond, neg := CondPolarity(iff.Cond)
		bo, ok := cond.(*ssa.BinOp)
		if !ok {
			continue
		}
		r, ok := relOfOp(bo.Op)
		if !ok {
			continue
		}
		var rels []Rel
		if a(bo.X) && b(bo.Y) {
			rels = append(rels, r)
		}
		if a(bo.Y) && b(bo.X) {
			rels = append(rels, r.swap())
		}
		for _, r := range rels {
			if neg {
				r = r.neg()
			}
			if r&^want == 0 && r != 0 { // relation on the true edge implies want
				out = append(out, Edge{blk, 0})
			}
			if nr := r.neg(); nr&^want == 0 && nr != 0 {
				out = append(out, Edge{blk, 1})
			}
		}
	}
	return out
}

// CmpRels returns, for every If in fn whose condition compares a value matching a with one matching b, the exact relation
// "a rel b" that holds on the true edge.
func CmpRels(fn *ssa.Function, a, b VM) []Rel {
	var out []Rel
	for _, blk := range fn.Blocks {
		iff, ok := lastIf(blk)
		if !ok {
			continue
		}
		cond, neg := CondPolarity(iff.Cond)
		bo, ok := cond.(*ssa.BinOp)
		if !ok {
			continue
		}
		r, ok := relOfOp(bo.Op)
		if !ok {
			continue
		}
		if a(bo.X) && b(bo.Y) {
			if neg {
				out = append(out, r.neg())
			} else {
				out = append(out, r)
			}
		} else if a(bo.Y) && b(bo.X) {
			if neg {
				out = append(out, r.swap().neg())
			} else {
				out = append(out, r.swap())
			}
		}
	}
	return out
}

// Neg returns the complementary relation.
func (r Rel) Neg() Rel { return r.neg() }

// BoolEdges returns the edges on which a boolean condition matching m has value pol.
func BoolEdges(fn *ssa.Function, m VM, pol bool) []Edge {
	var out []Edge
	for _, blk := range fn.Blocks {
		iff, ok := lastIf(blk)
		if !ok {
			continue
		}
		cond, neg := CondPolarity(iff.Cond)
		if !m(cond) {
			continue
		}
		// true edge means cond==!neg
		if pol != neg {
			out = append(out, Edge{blk, 0})
		} else {
			out = append(out, Edge{blk, 1})
		}
	}
	return out
}

func lastIf(b *ssa.BasicBlock) (*ssa.If, bool) {
	if len(b.Instrs) == 0 {
		return nil, false
	}
	i, ok := b.Instrs[len(b.Instrs)-1].(*ssa.If)
	return i, ok
}

// PathQuery searches for a CFG path inside one function.
type PathQuery struct {
	Fn *ssa.Function
	// Start points: entry of the function, and/or just after given instructions, and/or the heads of given edges.
	FromEntry  bool
	FromAfter  []ssa.Instruction
	FromEdges  []Edge
	Target     func(ssa.Instruction) bool // reaching such an instruction = path found
	TargetEdge func(Edge) bool            // or crossing such an edge
	CutInstr   func(ssa.Instruction) bool // paths stop at (do not pass) such instructions
	CutEdges   []Edge                     // paths do not cross these edges
	CutEdgeFn  func(Edge) bool
}

// Witness describes a found path.
type Witness struct {
	Blocks []int
	At     ssa.Instruction
	AtEdge *Edge
}

func (w *Witness) String() string {
	if w == nil {
		return "no path"
	}
	var s []string
	for _, b := range w.Blocks {
		s = append(s, fmt.Sprintf("b%d", b))
	}
	return strings.Join(s, "→")
}

// Find returns a witness path or nil when no path exists.
func (q *PathQuery) Find() *Witness {
	cut := map[Edge]bool{}
	for _, e := range q.CutEdges {
		cut[e] = true
	}
	type state struct {
		b   *ssa.BasicBlock
		idx int
	}
	prev := map[*ssa.BasicBlock]*ssa.BasicBlock{}
	visitedStart := map[*ssa.BasicBlock]bool{} // block entered at index 0
	var queue []state
	var startBlocks []*ssa.BasicBlock
	push := func(b *ssa.BasicBlock, from *ssa.BasicBlock) {
		if visitedStart[b] {
			return
		}
		visitedStart[b] = true
		prev[b] = from
		queue = append(queue, state{b, 0})
	}
	// scan processes instructions of b from idx; returns a witness if found.
	mkWitness := func(b *ssa.BasicBlock, at ssa.Instruction, ed *Edge) *Witness {
		var chain []int
		seen := map[*ssa.BasicBlock]bool{}
		for x := b; x != nil && !seen[x]; x = prev[x] {
			seen[x] = true
			chain = append([]int{x.Index}, chain...)
		}
		return &Witness{Blocks: chain, At: at, AtEdge: ed}
	}
	scan := func(st state, partial bool) *Witness {
		b := st.b
		for i := st.idx; i < len(b.Instrs); i++ {
			in := b.Instrs[i]
			if q.Target != nil && q.Target(in) {
				return mkWitness(b, in, nil)
			}
			if q.CutInstr != nil && q.CutInstr(in) {
				return nil
			}
		}
		for si := range b.Succs {
			e := Edge{b, si}
			if cut[e] || (q.CutEdgeFn != nil && q.CutEdgeFn(e)) {
				continue
			}
			if q.TargetEdge != nil && q.TargetEdge(e) {
				return mkWitness(b, nil, &e)
			}
			push(e.To(), b)
		}
		return nil
	}
	if q.FromEntry && len(q.Fn.Blocks) > 0 {
		startBlocks = append(startBlocks, q.Fn.Blocks[0])
		push(q.Fn.Blocks[0], nil)
	}
	for _, e := range q.FromEdges {
		push(e.To(), e.From)
	}
	for _, in := range q.FromAfter {
		b := in.Block()
		for i, x := range b.Instrs {
			if x == in {
				if w := scan(state{b, i + 1}, true); w != nil {
					return w
				}
			}
		}
	}
	for len(queue) > 0 {
		st := queue[0]
		queue = queue[1:]
		if w := scan(st, false); w != nil {
			return w
		}
	}
	return nil
}

// GuardedBy reports whether every path from the function entry to target crosses at least one of edges.
// Returns a witness of an unguarded path otherwise.
func GuardedBy(fn *ssa.Function, target ssa.Instruction, edges []Edge) (bool, *Witness) {
	q := &PathQuery{Fn: fn, FromEntry: true, Target: func(in ssa.Instruction) bool { return in == target }, CutEdges: edges}
	w := q.Find()
	return w == nil, w
}

// PrecededBy reports whether every path from entry to target passes an instruction satisfying pred.
func PrecededBy(fn *ssa.Function, target ssa.Instruction, pred func(ssa.Instruction) bool) (bool, *Witness) {
	q := &PathQuery{Fn: fn, FromEntry: true, Target: func(in ssa.Instruction) bool { return in == target }, CutInstr: func(in ssa.Instruction) bool { return in != target && pred(in) }}
	w := q.Find()
	return w == nil, w
}

// Instrs iterates over the instructions of fn.
func Instrs(fn *ssa.Function, f func(ssa.Instruction)) {
	for _, b := range fn.Blocks {
		for _, in := range b.Instrs {
			f(in)
		}
	}
}

// InstrsDeep iterates fn and all nested anonymous functions.
func InstrsDeep(fn *ssa.Function, f func(*ssa.Function, ssa.Instruction)) {
	for _, b := range fn.Blocks {
		for _, in := range b.Instrs {
			f(fn, in)
		}
	}
	for _, a := range fn.AnonFuncs {
		InstrsDeep(a, f)
	}
}

// CallsIn returns the call instructions (call, go, defer) in fn whose callee ref is in refs.
func CallsIn(fn *ssa.Function, refs ...string) []ssa.CallInstruction {
	var out []ssa.CallInstruction
	Instrs(fn, func(in ssa.Instruction) {
		if ci, ok := in.(ssa.CallInstruction); ok {
			if RefIn(CalleeRef(ci.Common()), refs...) {
				out = append(out, ci)
			}
		}
	})
	return out
}

// IsCallTo builds an instruction predicate.
func IsCallTo(refs ...string) func(ssa.Instruction) bool {
	return func(in ssa.Instruction) bool {
		ci, ok := in.(ssa.CallInstruction)
		return ok && RefIn(CalleeRef(ci.Common()), refs...)
	}
}

// Returns lists the Return instructions of fn.
func Returns(fn *ssa.Function) []*ssa.Return {
	var out []*ssa.Return
	Instrs(fn, func(in ssa.Instruction) {
		if r, ok := in.(*ssa.Return); ok {
			// the synthetic block that returns the named results after a recovered panic is not a return statement of the source
			if fn.Recover != nil && r.Block() == fn.Recover {
				return
			}
			out = append(out, r)
		}
	})
	return out
}

// StoresTo lists the stores in fn whose address is a FieldAddr of the given field name on a type named typ.
func FieldStores(fn *ssa.Function, match func(fa *ssa.FieldAddr) bool) []*ssa.Store {
	var out []*ssa.Store
	Instrs(fn, func(in ssa.Instruction) {
		if st, ok := in.(*ssa.Store); ok {
			if fa, ok := st.Addr.(*ssa.FieldAddr); ok && match(fa) {
				out = append(out, st)
			}
		}
	})
	return out
}

// RetVals resolves the operands of a return through the spill that go/ssa inserts for functions with deferred calls
// (results are stored to result cells, defers run, the cells are loaded again).
func RetVals(r *ssa.Return) []ssa.Value {
	out := make([]ssa.Value, len(r.Results))
	for i, v := range r.Results {
		out[i] = v
		u, ok := v.(*ssa.UnOp)
		if !ok || u.Op != token.MUL {
			continue
		}
		a, ok := u.X.(*ssa.Alloc)
		if !ok {
			continue
		}
		// last store to the cell in the returning block before the load
		b := r.Block()
		var last ssa.Value
		for _, in := range b.Instrs {
			if in == ssa.Instruction(u) {
				break
			}
			if st, ok := in.(*ssa.Store); ok && st.Addr == a {
				last = st.Val
			}
		}
		if last != nil {
			out[i] = last
		}
	}
	return out
}

// ExactCmp reports whether fn has an If whose condition, after normalisation, is exactly "a rel b" (on either edge:
// the edge on which rel holds exactly and its complement on the other).
func ExactCmp(fn *ssa.Function, a, b VM, rel Rel) bool {
	for _, blk := range fn.Blocks {
		iff, ok := lastIf(blk)
		if !ok {
			continue
		}
		cond, neg := CondPolarity(iff.Cond)
		bo, ok := cond.(*ssa.BinOp)
		if !ok {
			continue
		}
		r, ok := relOfOp(bo.Op)
		if !ok {
			continue
		}
		if neg {
			r = r.neg()
		}
		if a(bo.X) && b(bo.Y) && (r == rel || r.neg() == rel) {
			return true
		}
		if a(bo.Y) && b(bo.X) && (r.swap() == rel || r.swap().neg() == rel) {
			return true
		}
	}
	return false
}

// RelVal matches a boolean VALUE that states "a rel b": the comparison written either way round (a op b / b op' a) and any
// number of negations around the complementary comparison. Rules that look at a returned or stored comparison use it so that
// `x >= y`, `y <= x` and `!(x < y)` are the same thing to them.
func RelVal(a, b VM, want Rel) VM {
	return func(v ssa.Value) bool {
		neg := false
		for {
			u, ok := v.(*ssa.UnOp)
			if !ok || u.Op != token.NOT {
				break
			}
			neg = !neg
			v = u.X
		}
		bo, ok := v.(*ssa.BinOp)
		if !ok {
			return false
		}
		r, ok := relOfOp(bo.Op)
		if !ok {
			return false
		}
		if neg {
			r = r.neg()
		}
		if a(bo.X) && b(bo.Y) && r == want {
			return true
		}
		if a(bo.Y) && b(bo.X) && r.swap() == want {
			return true
		}
		return false
	}
}

// EdgeFact is what holds on one outgoing edge of an If: either "X rel Y" (Cmp) or "X is Pol" for a plain boolean.
type EdgeFact struct {
	X, Y ssa.Value
	Rel  Rel
	Cmp  bool
	Pol  bool
}

// FactOn returns the fact established by taking edge e (negations peeled, polarity folded into the relation).
func FactOn(e Edge) (EdgeFact, bool) {
	iff, ok := lastIf(e.From)
	if !ok {
		return EdgeFact{}, false
	}
	c, neg := CondPolarity(iff.Cond)
	holds := (e.Succ == 0) != neg
	if bo, ok := c.(*ssa.BinOp); ok {
		if r, ok := relOfOp(bo.Op); ok {
			if !holds {
				r = r.neg()
			}
			return EdgeFact{X: bo.X, Y: bo.Y, Rel: r, Cmp: true}, true
		}
	}
	return EdgeFact{X: c, Pol: holds}, true
}

// SameFact reports whether two edge facts state the same thing over the same operands (either operand order),
// with operands compared by eq.
func SameFact(a, b EdgeFact, eq func(x, y ssa.Value) bool) bool {
	if a.Cmp != b.Cmp {
		return false
	}
	if !a.Cmp {
		return a.Pol == b.Pol && eq(a.X, b.X)
	}
	if a.Rel == b.Rel && eq(a.X, b.X) && eq(a.Y, b.Y) {
		return true
	}
	return a.Rel == b.Rel.swap() && eq(a.X, b.Y) && eq(a.Y, b.X)
}
