package eng

import (
	"fmt"
	"go/token"
	"strings"

	"golang.org/x/tools/go/ssa"
)

// Edge is a CFG edge; for an If terminator Succ 0 is the true edge.
type Edge struct {
	From *ssa.BasicBlock
	Succ int
}

// To returns the destination block.
func (e Edge) To() *ssa.BasicBlock { return e.From.Succs[e.Succ] }

func (e Edge) String() string {
	pol := "true"
	if e.Succ == 1 {
		pol = "false"
	}
	return fmt.Sprintf("b%d-%s->b%d", e.From.Index, pol, e.To().Index)
}

// Rel is a binary relation between two matched values A and B.
type Rel int

const (
	LT Rel = 1 << iota
	EQ
	GT
)

// Derived relation sets.
const (
	LE = LT | EQ
	GE = GT | EQ
	NE = LT | GT
)

func relOfOp(op token.Token) (Rel, bool) {
	switch op {
	case token.LSS:
		return LT, true
	case token.LEQ:
		return LE, true
	case token.GTR:
		return GT, true
	case token.GEQ:
		return GE, true
	case token.EQL:
		return EQ, true
	case token.NEQ:
		return NE, true
	}
	return 0, false
}

func (r Rel) neg() Rel { return (LT | EQ | GT) &^ r }
func (r Rel) swap() Rel {
	var o Rel
	if r&LT != 0 {
		o |= GT
	}
	if r&GT != 0 {
		o |= LT
	}
	if r&EQ != 0 {
		o |= EQ
	}
	return o
}

// String renders a relation set.
func (r Rel) String() string {
	switch r {
	case LT:
		return "<"
	case LE:
		return "<="
	case GT:
		return ">"
	case GE:
		return ">="
	case EQ:
		return "=="
	case NE:
		return "!="
	}
	return fmt.Sprintf("rel(%d)", int(r))
}

// CondPolarity peels boolean negations: returns the inner condition and whether it is negated.
func CondPolarity(v ssa.Value) (ssa.Value, bool) {
	neg := false
	for {
		u, ok := v.(*ssa.UnOp)
		if !ok || u.Op != token.NOT {
			return v, neg
		}
		v = u.X
		neg = !neg
	}
}

// atom is one atomic branch condition with the polarity it is known to have. A comparison with nil is kept in normal form as
// well (nilOf is / is not nil) so that facts about the same value found in different instructions can be compared.
type atom struct {
	v     ssa.Value // the condition value (a comparison or an opaque boolean); nil for a derived nil-fact
	pol   bool      // v has this value
	nilOf ssa.Value // non-nil: "nilOf == nil" has the value isNil
	isNil bool
}

func mkAtom(c ssa.Value, pol bool) atom {
	a := atom{v: c, pol: pol}
	if bo, ok := c.(*ssa.BinOp); ok && (bo.Op == token.EQL || bo.Op == token.NEQ) {
		var x ssa.Value
		if NilConst(bo.Y) {
			x = bo.X
		} else if NilConst(bo.X) {
			x = bo.Y
		}
		if x != nil {
			a.nilOf, a.isNil = justStored(x), (bo.Op == token.EQL) == pol
		}
	}
	return a
}

// justStored: a load from a local cell (a named result that a defer makes go/ssa spill, a captured variable) that directly
// follows, in its block, a store into that cell stands for the stored value: `err = f(); if err != nil` tests f's answer.
func justStored(v ssa.Value) ssa.Value {
	u, ok := v.(*ssa.UnOp)
	if !ok || u.Op != token.MUL {
		return v
	}
	al, ok := u.X.(*ssa.Alloc)
	if !ok {
		return v
	}
	b := u.Block()
	if b == nil {
		return v
	}
	at := -1
	for i, in := range b.Instrs {
		if in == ssa.Instruction(u) {
			at = i
		}
	}
	for i := at - 1; i >= 0; i-- {
		switch x := b.Instrs[i].(type) {
		case *ssa.Store:
			if x.Addr == ssa.Value(al) {
				return x.Val
			}
		case *ssa.Call, *ssa.Go, *ssa.Defer:
			return v // something ran in between that may have written the cell through a closure
		}
	}
	return v
}

// consistent: no value is stated to be both nil and not nil, no condition both true and false.
func consistent(w []atom) bool {
	for i, a := range w {
		for _, b := range w[i+1:] {
			if a.nilOf != nil && a.nilOf == b.nilOf && a.isNil != b.isNil {
				return false
			}
			if a.v != nil && a.v == b.v && a.pol != b.pol {
				return false
			}
		}
	}
	return true
}

// nilLike maps an error value to a value that is nil exactly when it is: errors.Wrap(err, …) and its siblings return nil
// for a nil error and a non-nil error otherwise.
func nilLike(v ssa.Value) ssa.Value {
	for i := 0; i < 4; i++ {
		call, ok := v.(*ssa.Call)
		if !ok || len(call.Call.Args) == 0 {
			return v
		}
		switch CalleeRef(&call.Call) {
		case "github.com/pkg/errors.Wrap", "github.com/pkg/errors.Wrapf", "github.com/pkg/errors.WithStack", "github.com/pkg/errors.WithMessage", "github.com/pkg/errors.WithMessagef":
			v = call.Call.Args[0]
		default:
			return v
		}
	}
	return v
}

// definitelyNotNil: values that cannot be nil (fresh allocations, boxed concrete values, addresses, constructed errors).
func definitelyNotNil(v ssa.Value) bool {
	if call, ok := v.(*ssa.Call); ok {
		switch CalleeRef(&call.Call) {
		case "fmt.Errorf", "errors.New", "github.com/pkg/errors.New", "github.com/pkg/errors.Errorf",
			"google.golang.org/grpc/status.New", "google.golang.org/grpc/status.Newf",
			"google.golang.org/grpc/status.Error", "google.golang.org/grpc/status.Errorf":
			// (status.Error with codes.OK answers nil; the module never builds an OK status as an error)
			return true
		}
	}
	// a package-level error sentinel (var ErrX = errors.New(…)), read where it is returned
	if u, ok := v.(*ssa.UnOp); ok && u.Op == token.MUL {
		if g, isG := u.X.(*ssa.Global); isG && (strings.HasPrefix(g.Name(), "Err") || strings.HasPrefix(g.Name(), "err")) && u.Type().String() == "error" {
			return true
		}
	}
	switch x := v.(type) {
	case *ssa.Alloc, *ssa.MakeInterface, *ssa.FieldAddr, *ssa.IndexAddr, *ssa.MakeClosure, *ssa.MakeMap, *ssa.MakeChan, *ssa.MakeSlice, *ssa.Function, *ssa.Global:
		return true
	case *ssa.Const:
		return x.Value != nil
	case *ssa.Phi:
		// `if err != nil { if err == ErrTimeout { err = status.Error(…) }; return nil, err }`: the merge of an error that is
		// known to be non-nil on the edge it arrives over with a freshly built one is non-nil
		return phiNotNil(x, 0)
	}
	return false
}

func phiNotNil(ph *ssa.Phi, depth int) bool {
	if depth > 3 || len(ph.Edges) == 0 {
		return false
	}
	for i, e := range ph.Edges {
		if inner, isPhi := e.(*ssa.Phi); isPhi {
			if inner == ph || !phiNotNil(inner, depth+1) {
				return false
			}
			continue
		}
		if definitelyNotNil(e) {
			continue
		}
		known := false
		for _, a := range chainAtoms(ph.Block().Preds[i], ph.Block(), 0) {
			if a.nilOf == e && !a.isNil {
				known = true
			}
		}
		if !known {
			return false
		}
	}
	return true
}

// impliedWays explains how the boolean value c can have the value pol: a list of alternatives ("ways"), each a conjunction of
// atomic conditions. Negations are peeled; a boolean phi (what go/ssa makes of `x := a || b`, `flag := !(p && q)`, a flag
// assigned in branches) is opened: an incoming edge whose operand is the opposite constant is impossible; every other edge
// contributes the ways its operand can have the value, each extended by the branch conditions on the single-predecessor
// chain leading to that edge. A comparison of a phi with nil (`err != nil` where err was assigned on several paths) is
// opened the same way. Ways that contradict themselves (a value nil and not nil) are dropped. Something holds when
// c == pol if it holds in EVERY remaining way.
func impliedWays(c ssa.Value, pol bool, depth int) [][]atom {
	c, neg := CondPolarity(c)
	if neg {
		pol = !pol
	}
	self := mkAtom(c, pol)
	if depth > 6 {
		return [][]atom{{self}}
	}
	var out [][]atom
	add := func(phi *ssa.Phi, i int, sub [][]atom) bool {
		chain := chainAtoms(phi.Block().Preds[i], phi.Block(), depth+1)
		for _, w := range sub {
			way := append(append([]atom{self}, w...), chain...)
			if consistent(way) {
				out = append(out, way)
			}
		}
		return len(out) <= 64
	}
	if phi, ok := c.(*ssa.Phi); ok {
		for i, op := range phi.Edges {
			sub := [][]atom{nil}
			if k, isC := op.(*ssa.Const); isC && k.Value != nil {
				if (k.Value.String() == "true") != pol {
					continue // this edge cannot have produced the value
				}
			} else {
				sub = impliedWays(op, pol, depth+1)
			}
			if !add(phi, i, sub) {
				return [][]atom{{self}}
			}
		}
		if len(out) == 0 {
			return [][]atom{{self}}
		}
		return out
	}
	if phi, ok := self.nilOf.(*ssa.Phi); ok && self.nilOf != nil {
		for i, op := range phi.Edges {
			op = nilLike(op)
			sub := [][]atom{nil}
			switch {
			case NilConst(op):
				if !self.isNil {
					continue
				}
			case definitelyNotNil(op):
				if self.isNil {
					continue
				}
			default:
				sub = [][]atom{{{nilOf: op, isNil: self.isNil}}}
			}
			if !add(phi, i, sub) {
				return [][]atom{{self}}
			}
		}
		if len(out) == 0 {
			return [][]atom{{self}}
		}
		return out
	}
	return [][]atom{{self}}
}

// impliedAtoms: the atoms common to every way (a conjunction that certainly holds).
func impliedAtoms(c ssa.Value, pol bool, depth int) []atom {
	ways := impliedWays(c, pol, depth)
	var inter []atom
	for i, w := range ways {
		if i == 0 {
			inter = w
			continue
		}
		var keep []atom
		for _, a := range inter {
			for _, b := range w {
				if a == b {
					keep = append(keep, a)
					break
				}
			}
		}
		inter = keep
	}
	return inter
}

// edgeHolds reports whether on edge k of the If every way of explaining the branch contains an atom accepted by match:
// match may accept several different atoms (a disjunction such as `err == A || err == B` is then recognised as "err is one
// of the sentinels").
func edgeHolds(iff *ssa.If, k int, match func(a atom) bool) bool {
	for _, w := range impliedWays(iff.Cond, k == 0, 0) {
		hit := false
		for _, a := range w {
			if match(a) {
				hit = true
				break
			}
		}
		if !hit {
			return false
		}
	}
	return true
}

// chainAtoms: the branch conditions known when control goes from block p to its successor b, following p's
// single-predecessor chain upwards.
func chainAtoms(p, b *ssa.BasicBlock, depth int) []atom {
	var out []atom
	for n := 0; n < 8 && p != nil; n++ {
		if iff, ok := lastIf(p); ok && p.Succs[0] != p.Succs[1] {
			if p.Succs[0] == b {
				out = append(out, impliedAtoms(iff.Cond, true, depth+1)...)
			} else if p.Succs[1] == b {
				out = append(out, impliedAtoms(iff.Cond, false, depth+1)...)
			}
		}
		if len(p.Preds) != 1 {
			break
		}
		p, b = p.Preds[0], p
	}
	return out
}

// CmpEdges returns the edges of fn on which "A rel B" holds for some rel ⊆ want
// (i.e. the edge's relation implies the wanted one), over all If terminators whose condition
// compares a value matching a with one matching b (either operand order, negations peeled).
func CmpEdges(fn *ssa.Function, a, b VM, want Rel) []Edge {
	var out []Edge
	match := func(at atom) bool {
		if at.nilOf != nil {
			// "nilOf == nil" is isNil: a relation between nilOf and the nil constant
			nc := ssa.Value(ssa.NewConst(nil, at.nilOf.Type()))
			r := NE
			if at.isNil {
				r = EQ
			}
			if (a(at.nilOf) && b(nc)) || (a(nc) && b(at.nilOf)) {
				if r&^want == 0 {
					return true
				}
			}
			if at.v == nil {
				return false
			}
		}
		bo, ok := at.v.(*ssa.BinOp)
		if !ok {
			return false
		}
		r, ok := relOfOp(bo.Op)
		if !ok {
			return false
		}
		var rels []Rel
		if a(bo.X) && b(bo.Y) {
			rels = append(rels, r)
		}
		if a(bo.Y) && b(bo.X) {
			rels = append(rels, r.swap())
		}
		for _, r := range rels {
			if !at.pol {
				r = r.neg()
			}
			if r&^want == 0 && r != 0 { // the relation known on this edge implies want
				return true
			}
		}
		return false
	}
	for _, blk := range fn.Blocks {
		iff, ok := lastIf(blk)
		if !ok {
			continue
		}
		for k := 0; k < 2; k++ {
			if want == LT|EQ|GT {
				// "any relation": the caller asks for the edges OF such comparisons, not for what is known on an edge —
				// only the branch's own condition counts
				c, neg := CondPolarity(iff.Cond)
				if match(mkAtom(c, (k == 0) != neg)) {
					out = append(out, Edge{blk, k})
				}
				continue
			}
			if edgeHolds(iff, k, match) {
				out = append(out, Edge{blk, k})
			}
		}
	}
	return out
}

// CmpRels returns, for every If in fn whose condition compares a value matching a with one matching b, the exact relation
// "a rel b" that holds on the true edge.
func CmpRels(fn *ssa.Function, a, b VM) []Rel {
	var out []Rel
	for _, blk := range fn.Blocks {
		iff, ok := lastIf(blk)
		if !ok {
			continue
		}
		cond, neg := CondPolarity(iff.Cond)
		bo, ok := cond.(*ssa.BinOp)
		if !ok {
			continue
		}
		r, ok := relOfOp(bo.Op)
		if !ok {
			continue
		}
		if a(bo.X) && b(bo.Y) {
			if neg {
				out = append(out, r.neg())
			} else {
				out = append(out, r)
			}
		} else if a(bo.Y) && b(bo.X) {
			if neg {
				out = append(out, r.swap().neg())
			} else {
				out = append(out, r.swap())
			}
		}
	}
	return out
}

// Neg returns the complementary relation.
func (r Rel) Neg() Rel { return r.neg() }

// BoolEdges returns the edges on which a boolean condition matching m has value pol.
func BoolEdges(fn *ssa.Function, m VM, pol bool) []Edge {
	var out []Edge
	for _, blk := range fn.Blocks {
		iff, ok := lastIf(blk)
		if !ok {
			continue
		}
		for k := 0; k < 2; k++ {
			if edgeHolds(iff, k, func(at atom) bool { return at.v != nil && at.pol == pol && m(at.v) }) {
				out = append(out, Edge{blk, k})
			}
		}
	}
	return out
}

func lastIf(b *ssa.BasicBlock) (*ssa.If, bool) {
	if len(b.Instrs) == 0 {
		return nil, false
	}
	i, ok := b.Instrs[len(b.Instrs)-1].(*ssa.If)
	return i, ok
}

// PathQuery searches for a CFG path inside one function.
type PathQuery struct {
	Fn *ssa.Function
	// Start points: entry of the function, and/or just after given instructions, and/or the heads of given edges.
	FromEntry  bool
	FromAfter  []ssa.Instruction
	FromEdges  []Edge
	Target     func(ssa.Instruction) bool // reaching such an instruction = path found
	TargetEdge func(Edge) bool            // or crossing such an edge
	CutInstr   func(ssa.Instruction) bool // paths stop at (do not pass) such instructions
	CutEdges   []Edge                     // paths do not cross these edges
	CutEdgeFn  func(Edge) bool
}

// Witness describes a found path.
type Witness struct {
	Blocks []int
	At     ssa.Instruction
	AtEdge *Edge
}

func (w *Witness) String() string {
	if w == nil {
		return "no path"
	}
	var s []string
	for _, b := range w.Blocks {
		s = append(s, fmt.Sprintf("b%d", b))
	}
	return strings.Join(s, "→")
}

// Find returns a witness path or nil when no path exists.
// selector describes an If edge whose condition is (a comparison with nil of) a phi: crossing the edge is possible only
// when the phi's block was last entered through one of the allowed predecessors. `x, err := r0, r1; if err != nil` after an
// inlined helper, or a flag assigned in branches and tested later, are of this kind; without it a path could leave the
// helper through its error exit and continue over the caller's err == nil edge.
type selector struct {
	blk     *ssa.BasicBlock
	allowed map[int]bool
}

var selectorMemo = map[*ssa.Function]map[Edge]selector{}

func selectorsOf(fn *ssa.Function) map[Edge]selector {
	if m, ok := selectorMemo[fn]; ok {
		return m
	}
	m := map[Edge]selector{}
	for _, b := range fn.Blocks {
		iff, ok := lastIf(b)
		if !ok {
			continue
		}
		for k := 0; k < 2; k++ {
			c, neg := CondPolarity(iff.Cond)
			pol := (k == 0) != neg
			self := mkAtom(c, pol)
			var phi *ssa.Phi
			isBool := false
			if ph, ok := c.(*ssa.Phi); ok {
				phi, isBool = ph, true
			} else if ph, ok := self.nilOf.(*ssa.Phi); ok && self.nilOf != nil {
				phi = ph
			}
			if phi == nil {
				// a plain condition that is tested twice (`flag := ok && a > b; if flag { return }; if ok { … }`): the second
				// test cannot come out differently from what the way into the merge block behind the first one established.
				// Take the nearest block with several predecessors that dominates this test and whose ways in say something
				// about the same condition; the edge can be crossed only after entering that block a way that agrees.
				var def *ssa.BasicBlock
				if ci, isI := c.(ssa.Instruction); isI {
					def = ci.Block()
				}
				for d := b.Idom(); d != nil; d = d.Idom() {
					if len(d.Preds) < 2 || (def != nil && !def.Dominates(d)) {
						continue
					}
					allowed := map[int]bool{}
					says := false
					for i, pr := range d.Preds {
						chain := chainAtoms(pr, d, 1)
						mentions := false
						for _, a := range chain {
							if (a.v != nil && a.v == self.v) || (a.nilOf != nil && a.nilOf == self.nilOf) {
								mentions = true
							}
						}
						if mentions {
							says = true
						}
						if consistent(append(append([]atom{}, chain...), self)) {
							allowed[i] = true
						}
					}
					if says && len(allowed) < len(d.Preds) {
						m[Edge{b, k}] = selector{d, allowed}
						break
					}
					if says {
						break
					}
				}
				continue
			}
			allowed := map[int]bool{}
			for i, op := range phi.Edges {
				var sub [][]atom
				if isBool {
					if kc, isC := op.(*ssa.Const); isC && kc.Value != nil {
						if (kc.Value.String() == "true") != pol {
							continue
						}
						sub = [][]atom{nil}
					} else {
						sub = impliedWays(op, pol, 1)
					}
				} else {
					op = nilLike(op)
					switch {
					case NilConst(op):
						if !self.isNil {
							continue
						}
						sub = [][]atom{nil}
					case definitelyNotNil(op):
						if self.isNil {
							continue
						}
						sub = [][]atom{nil}
					default:
						sub = [][]atom{{{nilOf: op, isNil: self.isNil}}}
					}
				}
				chain := chainAtoms(phi.Block().Preds[i], phi.Block(), 1)
				for _, w := range sub {
					if consistent(append(append([]atom{}, w...), chain...)) {
						allowed[i] = true
						break
					}
				}
			}
			if len(allowed) < len(phi.Edges) {
				m[Edge{b, k}] = selector{phi.Block(), allowed}
			}
		}
	}
	selectorMemo[fn] = m
	return m
}

// ResetPathCaches forgets per-function summaries (a new program was loaded).
func ResetPathCaches() {
	selectorMemo = map[*ssa.Function]map[Edge]selector{}
}

func (q *PathQuery) Find() *Witness {
	cut := map[Edge]bool{}
	for _, e := range q.CutEdges {
		cut[e] = true
	}
	sels := selectorsOf(q.Fn)
	tracked := map[*ssa.BasicBlock]int{} // phi blocks that selectors refer to -> slot
	for _, s := range sels {
		if _, ok := tracked[s.blk]; !ok {
			tracked[s.blk] = len(tracked)
		}
	}
	// a search state is a block plus, for every tracked phi block, the predecessor index through which it was last
	// entered on this path (-1: not entered since the start of the path)
	type skey struct {
		b   *ssa.BasicBlock
		sig string
	}
	type state struct {
		b     *ssa.BasicBlock
		idx   int
		entry []int8
	}
	sigOf := func(e []int8) string {
		return string(func() []byte {
			o := make([]byte, len(e))
			for i, x := range e {
				o[i] = byte(x + 1)
			}
			return o
		}())
	}
	prev := map[skey]skey{}
	hasPrev := map[skey]bool{}
	visited := map[skey]bool{}
	var queue []state
	fresh := func() []int8 {
		e := make([]int8, len(tracked))
		for i := range e {
			e[i] = -1
		}
		return e
	}
	push := func(b *ssa.BasicBlock, from *skey, entry []int8) {
		k := skey{b, sigOf(entry)}
		if visited[k] {
			return
		}
		visited[k] = true
		if from != nil {
			prev[k], hasPrev[k] = *from, true
		}
		queue = append(queue, state{b, 0, entry})
	}
	mkWitness := func(k skey, at ssa.Instruction, ed *Edge) *Witness {
		var chain []int
		seen := map[skey]bool{}
		for x := k; !seen[x]; {
			seen[x] = true
			chain = append([]int{x.b.Index}, chain...)
			if !hasPrev[x] {
				break
			}
			x = prev[x]
		}
		return &Witness{Blocks: chain, At: at, AtEdge: ed}
	}
	scan := func(st state) *Witness {
		b := st.b
		k := skey{b, sigOf(st.entry)}
		for i := st.idx; i < len(b.Instrs); i++ {
			in := b.Instrs[i]
			if q.Target != nil && q.Target(in) {
				return mkWitness(k, in, nil)
			}
			if q.CutInstr != nil && q.CutInstr(in) {
				return nil
			}
		}
		for si := range b.Succs {
			e := Edge{b, si}
			if cut[e] || (q.CutEdgeFn != nil && q.CutEdgeFn(e)) {
				continue
			}
			if s, ok := sels[e]; ok {
				if got := st.entry[tracked[s.blk]]; got >= 0 && !s.allowed[int(got)] {
					continue // this path entered the phi's block over an edge that gives the condition the other value
				}
			}
			if q.TargetEdge != nil && q.TargetEdge(e) {
				return mkWitness(k, nil, &e)
			}
			to := e.To()
			entry := st.entry
			if slot, ok := tracked[to]; ok {
				entry = append([]int8(nil), st.entry...)
				pi := -1
				for i, p := range to.Preds {
					if p == b {
						pi = i
						// a block can be a predecessor twice (both branches of an If); the phi operands are then equal
						break
					}
				}
				entry[slot] = int8(pi)
			}
			push(to, &k, entry)
		}
		return nil
	}
	if q.FromEntry && len(q.Fn.Blocks) > 0 {
		push(q.Fn.Blocks[0], nil, fresh())
	}
	for _, e := range q.FromEdges {
		// a path may not cross a cut edge, so it cannot start by crossing one either (an edge on which the start fact is
		// known only because it was established further up the chain, and which the rule excuses)
		if cut[e] || (q.CutEdgeFn != nil && q.CutEdgeFn(e)) {
			continue
		}
		entry := fresh()
		if slot, ok := tracked[e.To()]; ok {
			for i, p := range e.To().Preds {
				if p == e.From {
					entry[slot] = int8(i)
					break
				}
			}
		}
		from := skey{e.From, sigOf(fresh())}
		push(e.To(), &from, entry)
	}
	for _, in := range q.FromAfter {
		b := in.Block()
		for i, x := range b.Instrs {
			if x == in {
				st := state{b, i + 1, fresh()}
				visited[skey{b, "after" + sigOf(st.entry)}] = true
				if w := scan(st); w != nil {
					return w
				}
			}
		}
	}
	for len(queue) > 0 {
		st := queue[0]
		queue = queue[1:]
		if w := scan(st); w != nil {
			return w
		}
	}
	return nil
}

// GuardedBy reports whether every path from the function entry to target crosses at least one of edges.
// Returns a witness of an unguarded path otherwise.
func GuardedBy(fn *ssa.Function, target ssa.Instruction, edges []Edge) (bool, *Witness) {
	q := &PathQuery{Fn: fn, FromEntry: true, Target: func(in ssa.Instruction) bool { return in == target }, CutEdges: edges}
	w := q.Find()
	return w == nil, w
}

// PrecededBy reports whether every path from entry to target passes an instruction satisfying pred.
func PrecededBy(fn *ssa.Function, target ssa.Instruction, pred func(ssa.Instruction) bool) (bool, *Witness) {
	q := &PathQuery{Fn: fn, FromEntry: true, Target: func(in ssa.Instruction) bool { return in == target }, CutInstr: func(in ssa.Instruction) bool { return in != target && pred(in) }}
	w := q.Find()
	return w == nil, w
}

// Instrs iterates over the instructions of fn.
func Instrs(fn *ssa.Function, f func(ssa.Instruction)) {
	for _, b := range fn.Blocks {
		for _, in := range b.Instrs {
			f(in)
		}
	}
}

// InstrsDeep iterates fn and all nested anonymous functions.
func InstrsDeep(fn *ssa.Function, f func(*ssa.Function, ssa.Instruction)) {
	for _, b := range fn.Blocks {
		for _, in := range b.Instrs {
			f(fn, in)
		}
	}
	for _, a := range fn.AnonFuncs {
		InstrsDeep(a, f)
	}
}

// CallsIn returns the call instructions (call, go, defer) in fn whose callee ref is in refs.
func CallsIn(fn *ssa.Function, refs ...string) []ssa.CallInstruction {
	var out []ssa.CallInstruction
	Instrs(fn, func(in ssa.Instruction) {
		if ci, ok := in.(ssa.CallInstruction); ok {
			if RefIn(CalleeRef(ci.Common()), refs...) {
				out = append(out, ci)
			}
		}
	})
	return out
}

// IsCallTo builds an instruction predicate.
func IsCallTo(refs ...string) func(ssa.Instruction) bool {
	return func(in ssa.Instruction) bool {
		ci, ok := in.(ssa.CallInstruction)
		return ok && RefIn(CalleeRef(ci.Common()), refs...)
	}
}

// Returns lists the Return instructions of fn.
func Returns(fn *ssa.Function) []*ssa.Return {
	var out []*ssa.Return
	Instrs(fn, func(in ssa.Instruction) {
		if r, ok := in.(*ssa.Return); ok {
			// the synthetic block that returns the named results after a recovered panic is not a return statement of the source
			if fn.Recover != nil && r.Block() == fn.Recover {
				return
			}
			out = append(out, r)
		}
	})
	return out
}

// StoresTo lists the stores in fn whose address is a FieldAddr of the given field name on a type named typ.
func FieldStores(fn *ssa.Function, match func(fa *ssa.FieldAddr) bool) []*ssa.Store {
	var out []*ssa.Store
	Instrs(fn, func(in ssa.Instruction) {
		if st, ok := in.(*ssa.Store); ok {
			if fa, ok := st.Addr.(*ssa.FieldAddr); ok && match(fa) {
				out = append(out, st)
			}
		}
	})
	return out
}

// RetVals resolves the operands of a return through the spill that go/ssa inserts for functions with deferred calls
// (results are stored to result cells, defers run, the cells are loaded again).
func RetVals(r *ssa.Return) []ssa.Value {
	out := make([]ssa.Value, len(r.Results))
	for i, v := range r.Results {
		out[i] = v
		u, ok := v.(*ssa.UnOp)
		if !ok || u.Op != token.MUL {
			continue
		}
		a, ok := u.X.(*ssa.Alloc)
		if !ok {
			continue
		}
		// last store to the cell in the returning block before the load
		b := r.Block()
		var last ssa.Value
		for _, in := range b.Instrs {
			if in == ssa.Instruction(u) {
				break
			}
			if st, ok := in.(*ssa.Store); ok && st.Addr == a {
				last = st.Val
			}
		}
		if last != nil {
			out[i] = last
		}
	}
	return out
}

// ExactCmp reports whether fn has an If whose condition, after normalisation, is exactly "a rel b" (on either edge:
// the edge on which rel holds exactly and its complement on the other).
func ExactCmp(fn *ssa.Function, a, b VM, rel Rel) bool {
	for _, blk := range fn.Blocks {
		iff, ok := lastIf(blk)
		if !ok {
			continue
		}
		cond, neg := CondPolarity(iff.Cond)
		bo, ok := cond.(*ssa.BinOp)
		if !ok {
			continue
		}
		r, ok := relOfOp(bo.Op)
		if !ok {
			continue
		}
		if neg {
			r = r.neg()
		}
		if a(bo.X) && b(bo.Y) && (r == rel || r.neg() == rel) {
			return true
		}
		if a(bo.Y) && b(bo.X) && (r.swap() == rel || r.swap().neg() == rel) {
			return true
		}
	}
	return false
}

// RelVal matches a boolean VALUE that states "a rel b": the comparison written either way round (a op b / b op' a) and any
// number of negations around the complementary comparison. Rules that look at a returned or stored comparison use it so that
// `x >= y`, `y <= x` and `!(x < y)` are the same thing to them.
func RelVal(a, b VM, want Rel) VM {
	return func(v ssa.Value) bool {
		neg := false
		for {
			u, ok := v.(*ssa.UnOp)
			if !ok || u.Op != token.NOT {
				break
			}
			neg = !neg
			v = u.X
		}
		bo, ok := v.(*ssa.BinOp)
		if !ok {
			return false
		}
		r, ok := relOfOp(bo.Op)
		if !ok {
			return false
		}
		if neg {
			r = r.neg()
		}
		if a(bo.X) && b(bo.Y) && r == want {
			return true
		}
		if a(bo.Y) && b(bo.X) && r.swap() == want {
			return true
		}
		return false
	}
}

// EdgeFact is what holds on one outgoing edge of an If: either "X rel Y" (Cmp) or "X is Pol" for a plain boolean.
type EdgeFact struct {
	X, Y ssa.Value
	Rel  Rel
	Cmp  bool
	Pol  bool
}

// FactOn returns the fact established by taking edge e (negations peeled, polarity folded into the relation).
func FactOn(e Edge) (EdgeFact, bool) {
	iff, ok := lastIf(e.From)
	if !ok {
		return EdgeFact{}, false
	}
	c, neg := CondPolarity(iff.Cond)
	holds := (e.Succ == 0) != neg
	if bo, ok := c.(*ssa.BinOp); ok {
		if r, ok := relOfOp(bo.Op); ok {
			if !holds {
				r = r.neg()
			}
			return EdgeFact{X: bo.X, Y: bo.Y, Rel: r, Cmp: true}, true
		}
	}
	return EdgeFact{X: c, Pol: holds}, true
}

// SameFact reports whether two edge facts state the same thing over the same operands (either operand order),
// with operands compared by eq.
func SameFact(a, b EdgeFact, eq func(x, y ssa.Value) bool) bool {
	if a.Cmp != b.Cmp {
		return false
	}
	if !a.Cmp {
		return a.Pol == b.Pol && eq(a.X, b.X)
	}
	if a.Rel == b.Rel && eq(a.X, b.X) && eq(a.Y, b.Y) {
		return true
	}
	return a.Rel == b.Rel.swap() && eq(a.X, b.Y) && eq(a.Y, b.X)
}

// CmpExists reports whether fn compares a value matching a with one matching b anywhere (as a branch condition or as a
// value computed into a flag).
func CmpExists(fn *ssa.Function, a, b VM) bool {
	found := false
	Instrs(fn, func(in ssa.Instruction) {
		bo, ok := in.(*ssa.BinOp)
		if !ok {
			return
		}
		if _, isRel := relOfOp(bo.Op); !isRel {
			return
		}
		if (a(bo.X) && b(bo.Y)) || (a(bo.Y) && b(bo.X)) {
			found = true
		}
	})
	return found
}

// AtomView is what a rule sees of one atomic condition known on an edge.
type AtomView struct {
	Cmp  bool      // X Rel Y
	X, Y ssa.Value // operands of the comparison (Y is a nil constant for nil-facts)
	Rel  Rel
	Val  ssa.Value // opaque boolean (Cmp false)
	Pol  bool
}

func viewOf(at atom) (AtomView, bool) {
	if at.nilOf != nil {
		r := NE
		if at.isNil {
			r = EQ
		}
		return AtomView{Cmp: true, X: at.nilOf, Y: ssa.NewConst(nil, at.nilOf.Type()), Rel: r}, true
	}
	if at.v == nil {
		return AtomView{}, false
	}
	if bo, ok := at.v.(*ssa.BinOp); ok {
		if r, ok := relOfOp(bo.Op); ok {
			if !at.pol {
				r = r.neg()
			}
			return AtomView{Cmp: true, X: bo.X, Y: bo.Y, Rel: r}, true
		}
	}
	return AtomView{Val: at.v, Pol: at.pol}, true
}

// EdgesWhere returns the edges on which, whichever way the branch condition came to have its value, some atomic condition
// accepted by ok is known: ok may accept several different conditions (`i == 0 || x < m` satisfies "first element, or
// smaller than the minimum so far").
func EdgesWhere(fn *ssa.Function, ok func(AtomView) bool) []Edge {
	var out []Edge
	for _, blk := range fn.Blocks {
		iff, isIf := lastIf(blk)
		if !isIf {
			continue
		}
		for k := 0; k < 2; k++ {
			if edgeHolds(iff, k, func(at atom) bool {
				v, has := viewOf(at)
				return has && ok(v)
			}) {
				out = append(out, Edge{blk, k})
			}
		}
	}
	return out
}

// RelHolds reports whether the view states "a rel b" for some rel within want (either operand order).
func (v AtomView) RelHolds(a, b VM, want Rel) bool {
	if !v.Cmp {
		return false
	}
	if a(v.X) && b(v.Y) && v.Rel&^want == 0 && v.Rel != 0 {
		return true
	}
	if a(v.Y) && b(v.X) {
		r := v.Rel.swap()
		return r&^want == 0 && r != 0
	}
	return false
}
