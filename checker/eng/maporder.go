package eng

import (
	"fmt"
	"go/token"
	"go/types"
	"strings"

	"golang.org/x/tools/go/ssa"

	"lbcheck/ir"
)

// MapLoop describes one `for k, v := range m` over a map.
type MapLoop struct {
	Fn     *ssa.Function
	Range  *ssa.Range
	Header *ssa.BasicBlock
	Body   map[*ssa.BasicBlock]bool
	Exit   *ssa.BasicBlock
}

// MapLoops finds the map range loops of fn.
func MapLoops(fn *ssa.Function) []*MapLoop {
	var out []*MapLoop
	Instrs(fn, func(in ssa.Instruction) {
		r, ok := in.(*ssa.Range)
		if !ok {
			return
		}
		if _, ok := r.X.Type().Underlying().(*types.Map); !ok {
			return
		}
		refs := r.Referrers()
		if refs == nil {
			return
		}
		for _, x := range *refs {
			n, ok := x.(*ssa.Next)
			if !ok {
				continue
			}
			h := n.Block()
			if len(h.Succs) != 2 {
				continue
			}
			ml := &MapLoop{Fn: fn, Range: r, Header: h, Exit: h.Succs[1], Body: map[*ssa.BasicBlock]bool{}}
			// the natural loop of the header: for every back edge t → h (h dominates t), the blocks that reach t without
			// passing h. (Reachability alone is not enough: a body that leaves the loop by a jump — a labeled break — reaches
			// the blocks of an ENCLOSING loop, and those reach the header again through the enclosing loop's back edge.)
			var back func(b *ssa.BasicBlock)
			back = func(b *ssa.BasicBlock) {
				if b == h || ml.Body[b] {
					return
				}
				ml.Body[b] = true
				for _, pr := range b.Preds {
					back(pr)
				}
			}
			for _, t := range h.Preds {
				if h.Dominates(t) && t != h {
					back(t)
				}
			}
			out = append(out, ml)
		}
	})
	return out
}

func reaches(from, to *ssa.BasicBlock, seen map[*ssa.BasicBlock]bool) bool {
	if from == to {
		return true
	}
	if seen[from] {
		return false
	}
	seen[from] = true
	for _, s := range from.Succs {
		if reaches(s, to, seen) {
			return true
		}
	}
	return false
}

// OrderFinding is one reason why the iteration order of a map loop can be observed.
type OrderFinding struct {
	Kind   string // "collect", "early-exit", "last-writer", "ordered-call"
	Instr  ssa.Instruction
	Detail string
	Slice  ssa.Value // for collect: the collected slice (phi / cell)
}

// OrderConfig parametrises the classification.
type OrderConfig struct {
	OrderedCalls map[string]string // callee ref -> reason why calling it in map order matters
	SetFields    map[string]string // "<Type>.<field>" with set semantics -> reason
}

// Classify lists the ways in which the loop's iteration order can leak.
func (ml *MapLoop) Classify(p *ir.Program, cfg OrderConfig) []OrderFinding {
	var out []OrderFinding
	fn := ml.Fn
	inBody := func(in ssa.Instruction) bool { return ml.Body[in.Block()] }
	// (1) collection into a slice that outlives the loop
	for b := range ml.Body {
		for _, in := range b.Instrs {
			switch x := in.(type) {
			case *ssa.Call:
				if bi, ok := x.Call.Value.(*ssa.Builtin); ok && bi.Name() == "append" {
					if outlives(x, ml) {
						if !sortedAfter(fn, ml, x) {
							dest := collectDest(x, ml)
							if _, ok := cfg.SetFields[dest]; ok && dest != "" {
								continue
							}
							out = append(out, OrderFinding{"collect", in, "elements are appended in map order to a slice that outlives the loop" + destSuffix(dest), x})
						}
					}
				}
				if why, ok := cfg.OrderedCalls[CalleeRef(&x.Call)]; ok {
					out = append(out, OrderFinding{"ordered-call", in, "calls " + CalleeRef(&x.Call) + " once per element in map order: " + why, nil})
				}
			case *ssa.Store:
				if ia, ok := x.Addr.(*ssa.IndexAddr); ok {
					if _, isConst := ia.Index.(*ssa.Const); !isConst && !dependsOnKey(ia.Index, ml) {
						// arr[i] = v with a running counter
						if definedOutside(ia.X, ml) && !sortedAfter(fn, ml, ia.X) {
							out = append(out, OrderFinding{"collect", in, "elements are stored at a running index in map order", ia.X})
						}
					}
				}
			}
		}
	}
	// (2) early exit on a non-error condition
	for b := range ml.Body {
		for si, s := range b.Succs {
			if ml.Body[s] || s == ml.Header {
				continue
			}
			e := Edge{b, si}
			if isErrorEdge(e) || entersOverErrorEdge(b) {
				continue
			}
			out = append(out, OrderFinding{"early-exit", b.Instrs[len(b.Instrs)-1], fmt.Sprintf("the loop is left early over edge %s on a non-error condition: the first matching element in map order wins", e), nil})
		}
		for _, in := range b.Instrs {
			if r, ok := in.(*ssa.Return); ok && !returnsError(r) {
				out = append(out, OrderFinding{"early-exit", r, "returns from inside the loop on a non-error condition", nil})
			}
		}
	}
	// (3) scalar overwritten per iteration and live after the loop
	for _, in := range ml.Header.Instrs {
		ph, ok := in.(*ssa.Phi)
		if !ok {
			continue
		}
		if _, isSlice := ph.Type().Underlying().(*types.Slice); isSlice {
			continue
		}
		for i, e := range ph.Edges {
			pred := ml.Header.Preds[i]
			if !ml.Body[pred] {
				continue
			}
			if e == ph || isAccumulation(e, ph) {
				continue
			}
			if _, ok := ph.Type().Underlying().(*types.Basic); ok && usedAfter(ph, ml) && !isErrType(ph.Type()) {
				out = append(out, OrderFinding{"last-writer", ph, "a variable is overwritten per element and read after the loop: the last element in map order wins", nil})
			}
		}
	}
	_ = inBody
	return out
}

func destSuffix(d string) string {
	if d == "" {
		return ""
	}
	return " (stored into " + d + ")"
}

func isErrType(t types.Type) bool {
	n, ok := t.(*types.Named)
	return ok && n.Obj().Name() == "error"
}

func outlives(call *ssa.Call, ml *MapLoop) bool {
	refs := call.Referrers()
	if refs == nil {
		return false
	}
	for _, r := range *refs {
		switch x := r.(type) {
		case *ssa.Phi:
			if x.Block() == ml.Header || !ml.Body[x.Block()] {
				return true
			}
			// inner phi feeding the header phi
			if rr := x.Referrers(); rr != nil {
				for _, y := range *rr {
					if ph, ok := y.(*ssa.Phi); ok && ph.Block() == ml.Header {
						return true
					}
				}
			}
		case *ssa.Store:
			return true
		}
	}
	return false
}

// collectDest: where the appended slice is stored ("Type.field"), "" when it is a local.
func collectDest(call *ssa.Call, ml *MapLoop) string {
	refs := call.Referrers()
	if refs == nil {
		return ""
	}
	for _, r := range *refs {
		if st, ok := r.(*ssa.Store); ok {
			if fa, ok := st.Addr.(*ssa.FieldAddr); ok {
				return typeFieldName(fa)
			}
		}
	}
	return ""
}

func typeFieldName(fa *ssa.FieldAddr) string {
	t := fa.X.Type()
	if p, ok := t.Underlying().(*types.Pointer); ok {
		t = p.Elem()
	}
	name := t.String()
	if n, ok := t.(*types.Named); ok {
		name = n.Obj().Name()
	}
	f := fieldOfAddr(fa)
	if f == nil {
		return name + ".?"
	}
	// embedded promoted field: name the declaring struct
	return name + "." + f.Name()
}

// sortedAfter: a sort.* call on the same slice object is reachable after the loop.
func sortedAfter(fn *ssa.Function, ml *MapLoop, slice ssa.Value) bool {
	root := sliceRoot(slice)
	found := false
	Instrs(fn, func(in ssa.Instruction) {
		c, ok := in.(*ssa.Call)
		if !ok {
			return
		}
		ref := CalleeRef(&c.Call)
		if !strings.HasPrefix(ref, "sort.") || len(c.Call.Args) == 0 {
			return
		}
		arg := c.Call.Args[0]
		if mi, ok := arg.(*ssa.MakeInterface); ok {
			arg = mi.X
		}
		if sliceRoot(arg) == root && root != nil {
			if ml.Body[c.Block()] {
				return
			}
			found = true
		}
	})
	return found
}

// sliceRoot follows append/phi/slice chains to the allocation (make) or cell the slice lives in.
func sliceRoot(v ssa.Value) ssa.Value {
	seen := map[ssa.Value]bool{}
	for i := 0; i < 32 && v != nil && !seen[v]; i++ {
		seen[v] = true
		switch x := v.(type) {
		case *ssa.Call:
			if b, ok := x.Call.Value.(*ssa.Builtin); ok && b.Name() == "append" {
				v = x.Call.Args[0]
				continue
			}
			return v
		case *ssa.Phi:
			// choose the edge that is not derived from this phi (the initial value)
			var next ssa.Value
			for _, e := range x.Edges {
				if r := sliceRootNoPhi(e, x); r != nil {
					next = r
					break
				}
			}
			if next == nil {
				return v
			}
			v = next
		case *ssa.Slice:
			v = x.X
		case *ssa.UnOp:
			if x.Op == token.MUL {
				return x.X // the cell / field address identifies the slice variable
			}
			return v
		default:
			return v
		}
	}
	return v
}

func sliceRootNoPhi(e ssa.Value, ph *ssa.Phi) ssa.Value {
	switch x := e.(type) {
	case *ssa.MakeSlice:
		return x
	case *ssa.Const:
		return nil
	case *ssa.Call:
		if b, ok := x.Call.Value.(*ssa.Builtin); ok && b.Name() == "append" {
			if x.Call.Args[0] == ph {
				return nil
			}
			return sliceRootNoPhi(x.Call.Args[0], ph)
		}
		return x
	case *ssa.Phi:
		if x == ph {
			return nil
		}
		for _, e2 := range x.Edges {
			if e2 == ph || e2 == x {
				continue
			}
			if r := sliceRootNoPhi(e2, ph); r != nil {
				return r
			}
		}
		return nil
	}
	return e
}

func dependsOnKey(v ssa.Value, ml *MapLoop) bool {
	// index derived from the map key/value (e.g. arr[key]) is order-independent
	seen := map[ssa.Value]bool{}
	var dep func(v ssa.Value) bool
	dep = func(v ssa.Value) bool {
		if v == nil || seen[v] {
			return false
		}
		seen[v] = true
		switch x := v.(type) {
		case *ssa.Extract:
			if n, ok := x.Tuple.(*ssa.Next); ok && n.Iter == ml.Range {
				return true
			}
		case *ssa.Convert:
			return dep(x.X)
		case *ssa.BinOp:
			return dep(x.X) || dep(x.Y)
		case *ssa.UnOp:
			return dep(x.X)
		case *ssa.FieldAddr:
			return dep(x.X)
		case *ssa.Field:
			return dep(x.X)
		}
		return false
	}
	return dep(v)
}

func definedOutside(v ssa.Value, ml *MapLoop) bool {
	in, ok := v.(ssa.Instruction)
	if !ok {
		return true
	}
	return !ml.Body[in.Block()]
}

func isErrorEdge(e Edge) bool {
	iff, ok := lastIf(e.From)
	if !ok {
		return false
	}
	cond, neg := CondPolarity(iff.Cond)
	bo, ok := cond.(*ssa.BinOp)
	if !ok {
		return false
	}
	x, y := bo.X, bo.Y
	if NilConst(x) && !NilConst(y) {
		x, y = y, x // nil != err
	}
	if !isErrType(x.Type()) && !strings.HasSuffix(x.Type().String(), "status.Status") {
		return false
	}
	if !NilConst(y) {
		return false
	}
	ne := bo.Op == token.NEQ
	if neg {
		ne = !ne
	}
	// the edge on which err != nil
	return (ne && e.Succ == 0) || (!ne && e.Succ == 1)
}

func returnsError(r *ssa.Return) bool {
	for _, v := range r.Results {
		if isErrType(v.Type()) && !NilConst(v) {
			return true
		}
		if strings.HasSuffix(v.Type().String(), "status.Status") && !NilConst(v) {
			return true
		}
	}
	return false
}

func isAccumulation(e ssa.Value, ph *ssa.Phi) bool {
	return isAccum(e, ph, map[ssa.Value]bool{})
}

// isAccum: e is ph combined (transitively, through inner loops) with commutative/concatenating operators only.
func isAccum(e ssa.Value, ph *ssa.Phi, seen map[ssa.Value]bool) bool {
	if e == ph {
		return true
	}
	if seen[e] {
		return true
	}
	seen[e] = true
	switch x := e.(type) {
	case *ssa.BinOp:
		if x.Op != token.ADD && x.Op != token.SUB && x.Op != token.OR && x.Op != token.AND && x.Op != token.LOR && x.Op != token.LAND {
			return false
		}
		return isAccum(x.X, ph, seen) || isAccum(x.Y, ph, seen)
	case *ssa.Phi:
		for _, y := range x.Edges {
			if !isAccum(y, ph, seen) {
				return false
			}
		}
		return true
	}
	return false
}

func usedAfter(ph *ssa.Phi, ml *MapLoop) bool {
	refs := ph.Referrers()
	if refs == nil {
		return false
	}
	for _, r := range *refs {
		if !ml.Body[r.Block()] && r.Block() != ml.Header {
			return true
		}
		if r.Block() == ml.Header {
			if _, ok := r.(*ssa.Phi); !ok {
				return true
			}
		}
	}
	return false
}

// entersOverErrorEdge: the block is reached only over an err != nil edge (following its single-predecessor chain): leaving
// the loop from it is leaving on an error — `if err != nil { cleanup; break }`, or the inlined form of `return …, err`.
func entersOverErrorEdge(b *ssa.BasicBlock) bool {
	for i := 0; i < 4 && b != nil && len(b.Preds) == 1; i++ {
		p := b.Preds[0]
		for si, s := range p.Succs {
			if s == b && isErrorEdge(Edge{p, si}) {
				return true
			}
		}
		b = p
	}
	return false
}
