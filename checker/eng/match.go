package eng

import (
	_ "embed"
	"fmt"
	"go/constant"
	"go/token"
	"go/types"
	"os"
	"strings"

	"golang.org/x/tools/go/ssa"

	"lbcheck/ir"
)

// VM is a value matcher.
type VM func(v ssa.Value) bool

// cellStore returns the unique stored value of a single-store Alloc cell, or nil.
// spilledParam: the local is the spill of a by-value struct parameter — stored once, from the parameter, and afterwards only
// read (whole or field by field).
func spilledParam(a *ssa.Alloc) (*ssa.Parameter, bool) {
	refs := a.Referrers()
	if refs == nil {
		return nil, false
	}
	var prm *ssa.Parameter
	n := 0
	for _, r := range *refs {
		switch x := r.(type) {
		case *ssa.Store:
			if x.Addr != a {
				return nil, false
			}
			p, ok := x.Val.(*ssa.Parameter)
			if !ok {
				return nil, false
			}
			prm = p
			n++
		case *ssa.FieldAddr:
			if fr := x.Referrers(); fr != nil {
				for _, rr := range *fr {
					if st, isSt := rr.(*ssa.Store); isSt && st.Addr == x {
						return nil, false
					}
				}
			}
		case *ssa.UnOp, *ssa.DebugRef:
		default:
			return nil, false
		}
	}
	return prm, n == 1 && prm != nil
}

func cellStore(a *ssa.Alloc) ssa.Value {
	var st ssa.Value
	n := 0
	refs := a.Referrers()
	if refs == nil {
		return nil
	}
	for _, r := range *refs {
		switch r := r.(type) {
		case *ssa.Store:
			if r.Addr == a {
				n++
				st = r.Val
			} else {
				return nil // address escapes into a store
			}
		case *ssa.UnOp, *ssa.MakeClosure, *ssa.DebugRef:
		default:
			// passed to a call, field address taken ... treat as multi-store
			if _, ok := r.(*ssa.FieldAddr); ok {
				return nil
			}
			if _, ok := r.(*ssa.IndexAddr); ok {
				return nil
			}
			if _, ok := r.(ssa.CallInstruction); ok {
				return nil
			}
		}
	}
	if n == 1 {
		// closures may also store to it
		for _, r := range *refs {
			if mc, ok := r.(*ssa.MakeClosure); ok {
				fn := mc.Fn.(*ssa.Function)
				for i, b := range mc.Bindings {
					if b == a && freeVarStored(fn, i) {
						return nil
					}
				}
			}
		}
		return st
	}
	return nil
}

func freeVarStored(fn *ssa.Function, idx int) bool {
	if idx >= len(fn.FreeVars) {
		return true
	}
	fv := fn.FreeVars[idx]
	refs := fv.Referrers()
	if refs == nil {
		return false
	}
	for _, r := range *refs {
		switch r := r.(type) {
		case *ssa.Store:
			if r.Addr == fv {
				return true
			}
		case *ssa.MakeClosure:
			inner := r.Fn.(*ssa.Function)
			for i, b := range r.Bindings {
				if b == fv && freeVarStored(inner, i) {
					return true
				}
			}
		}
	}
	return false
}

// freeVarBinding maps a FreeVar of a closure to the value bound in the (unique) MakeClosure.
func freeVarBinding(fv *ssa.FreeVar) ssa.Value {
	fn := fv.Parent()
	par := fn.Parent()
	if par == nil {
		return nil
	}
	idx := -1
	for i, x := range fn.FreeVars {
		if x == fv {
			idx = i
		}
	}
	if idx < 0 {
		return nil
	}
	var found ssa.Value
	for _, b := range par.Blocks {
		for _, in := range b.Instrs {
			if mc, ok := in.(*ssa.MakeClosure); ok && mc.Fn == fn {
				if found != nil {
					return nil
				}
				found = mc.Bindings[idx]
			}
		}
	}
	return found
}

// Strip looks through value-transparent wrappers: conversions, interface boxing, loads of
// single-store cells (captured variables) and free variables bound to such cells.
func Strip(v ssa.Value) ssa.Value {
	for i := 0; i < 32; i++ {
		switch x := v.(type) {
		case *ssa.ChangeType:
			v = x.X
		case *ssa.Convert:
			v = x.X
		case *ssa.MakeInterface:
			v = x.X
		case *ssa.ChangeInterface:
			v = x.X
		case *ssa.Phi:
			if r := resolveTempPhi(x); r != nil {
				v = r
				continue
			}
			return v
		case *ssa.UnOp:
			if x.Op != token.MUL {
				return v
			}
			addr := x.X
			if fv, ok := addr.(*ssa.FreeVar); ok {
				if b := freeVarBinding(fv); b != nil {
					addr = b
				}
			}
			if a, ok := addr.(*ssa.Alloc); ok {
				if s := cellStore(a); s != nil {
					v = s
					continue
				}
			}
			return v
		default:
			return v
		}
	}
	return v
}

// AnyV matches any value.
func AnyV(ssa.Value) bool { return true }

// Param matches a parameter (or receiver) by name, seen through captured cells.
func Param(name string) VM {
	return func(v ssa.Value) bool {
		p, ok := Strip(v).(*ssa.Parameter)
		if !ok {
			// parameters bundled into a struct: the field of that name of a parameter stands for the former parameter,
			// when the function has no parameter of that name any more
			f, base := FieldRead(v)
			if f == nil || f.Name() != name || base == nil {
				return false
			}
			bp, isP := Strip(base).(*ssa.Parameter)
			if !isP {
				// a struct handed over by value is spilled into a local before its fields are read
				if al, isAl := Strip(base).(*ssa.Alloc); isAl {
					bp, isP = spilledParam(al)
				}
			}
			if !isP || bp.Parent() == nil {
				return false
			}
			for _, q := range bp.Parent().Params {
				if paramRefName(q) == name {
					return false
				}
			}
			return true
		}
		return paramRefName(p) == name
	}
}

//go:embed reference_params.txt
var referenceParams string

var refParams map[string][]string

// paramRefName returns the name the parameter had on the reference tree (the rule tables name parameters as they were
// called there): the i-th parameter of a function that exists on the reference tree with the same number of parameters
// answers to the i-th reference name, whatever it is called now — renaming a parameter changes nothing for the rules.
// Functions that are new, or whose parameter list changed, answer with the current names.
// ReferenceArities: the number of parameters (receiver included) of every function of the reference tree.
func ReferenceArities() map[string]int {
	loadRefParams()
	out := map[string]int{}
	for k, v := range refParams {
		out[k] = len(v)
	}
	return out
}

func loadRefParams() {
	if refParams == nil {
		refParams = map[string][]string{}
		for _, l := range strings.Split(referenceParams, "\n") {
			if l == "" || strings.HasPrefix(l, "#") {
				continue
			}
			kv := strings.SplitN(l, "\t", 2)
			if len(kv) != 2 {
				continue
			}
			if kv[1] == "" {
				refParams[kv[0]] = []string{}
			} else {
				refParams[kv[0]] = strings.Split(kv[1], ",")
			}
		}
	}
}

func paramRefName(p *ssa.Parameter) string {
	loadRefParams()
	fn := p.Parent()
	if fn == nil {
		return p.Name()
	}
	names, ok := refParams[ir.FuncKey(fn)]
	if !ok {
		return p.Name()
	}
	// a parameter that still has a reference name is that parameter (parameters were reordered, a receiver came or went);
	// one with a new name, standing where a reference name that no longer exists stood, was renamed
	isRef := map[string]bool{}
	for _, n := range names {
		isRef[n] = true
	}
	if isRef[p.Name()] {
		return p.Name()
	}
	cur := map[string]bool{}
	for _, q := range fn.Params {
		cur[q.Name()] = true
	}
	if len(names) == len(fn.Params) {
		for i, q := range fn.Params {
			if q == p && !cur[names[i]] {
				return names[i]
			}
		}
	}
	return p.Name()
}

// Same matches exactly the given value (after stripping both).
func Same(w ssa.Value) VM {
	w = Strip(w)
	return func(v ssa.Value) bool { return Strip(v) == w }
}

// fieldOfAddr returns the field object addressed by a FieldAddr.
func fieldOfAddr(fa *ssa.FieldAddr) *types.Var {
	t := fa.X.Type().Underlying()
	if p, ok := t.(*types.Pointer); ok {
		t = p.Elem().Underlying()
	}
	if st, ok := t.(*types.Struct); ok && fa.Field < st.NumFields() {
		return st.Field(fa.Field)
	}
	return nil
}

func fieldOfField(f *ssa.Field) *types.Var {
	t := f.X.Type().Underlying()
	if st, ok := t.(*types.Struct); ok && f.Field < st.NumFields() {
		return st.Field(f.Field)
	}
	return nil
}

// FieldRead decomposes a value that is a load of a struct field: returns the field and the base.
func FieldRead(v ssa.Value) (*types.Var, ssa.Value) {
	v = Strip(v)
	switch x := v.(type) {
	case *ssa.UnOp:
		if x.Op == token.MUL {
			if fa, ok := x.X.(*ssa.FieldAddr); ok {
				return fieldOfAddr(fa), fa.X
			}
		}
	case *ssa.Field:
		return fieldOfField(x), x.X
	case *ssa.Call:
		// a generated protobuf getter: m.GetX() answers m.X (the zero value for a nil m)
		if f, base := pbGetter(x); f != nil {
			return f, base
		}
	}
	return nil, nil
}

// pbGetter recognises a static call of a generated getter (declared in a *.pb.go file, named Get<Field>, no parameters but
// the receiver, receiver a pointer to a struct with a field of that name and the result's type).
func pbGetter(call *ssa.Call) (*types.Var, ssa.Value) {
	callee := call.Call.StaticCallee()
	if callee == nil || call.Call.IsInvoke() || len(call.Call.Args) != 1 || !strings.HasPrefix(callee.Name(), "Get") || callee.Prog == nil {
		return nil, nil
	}
	if !strings.HasSuffix(callee.Prog.Fset.Position(callee.Pos()).Filename, ".pb.go") {
		return nil, nil
	}
	sig := callee.Signature
	if sig.Recv() == nil || sig.Results().Len() != 1 {
		return nil, nil
	}
	pt, ok := sig.Recv().Type().Underlying().(*types.Pointer)
	if !ok {
		return nil, nil
	}
	st, ok := pt.Elem().Underlying().(*types.Struct)
	if !ok {
		return nil, nil
	}
	name := strings.TrimPrefix(callee.Name(), "Get")
	for i := 0; i < st.NumFields(); i++ {
		if f := st.Field(i); f.Name() == name && types.Identical(f.Type(), sig.Results().At(0).Type()) {
			return f, call.Call.Args[0]
		}
	}
	return nil, nil
}

// Load matches a read of the given field whose base matches.
func Load(field *types.Var, base VM) VM {
	return func(v ssa.Value) bool {
		if field == nil {
			return false
		}
		f, b := FieldRead(v)
		return f == field && (base == nil || base(b))
	}
}

// LoadNamed matches a read of a field with the given name (any struct), base matching.
func LoadNamed(name string, base VM) VM {
	return func(v ssa.Value) bool {
		f, b := FieldRead(v)
		return f != nil && f.Name() == name && (base == nil || base(b))
	}
}

// FuncRef renders a stable reference for a function object:
// "<pkg>.<Name>" or "<pkg>.<Recv>.<Name>", pkg module-relative for module packages, full path otherwise.
func FuncRef(f *types.Func) string {
	if f == nil {
		return ""
	}
	if r := ir.RehomedRef(f); r != "" {
		return r
	}
	pkg := ""
	if f.Pkg() != nil {
		pkg = f.Pkg().Path()
		if ir.InModule(pkg) {
			pkg = ir.Short(pkg)
		}
	}
	sig, _ := f.Type().(*types.Signature)
	if sig != nil && sig.Recv() != nil {
		t := sig.Recv().Type()
		if p, ok := t.(*types.Pointer); ok {
			t = p.Elem()
		}
		name := t.String()
		switch n := t.(type) {
		case *types.Named:
			name = n.Obj().Name()
		case *types.Alias:
			name = n.Obj().Name()
		}
		if _, ok := t.Underlying().(*types.Interface); ok {
			if n, ok := t.(*types.Named); ok {
				name = n.Obj().Name()
				if n.Obj().Pkg() != nil {
					pkg = n.Obj().Pkg().Path()
					if ir.InModule(pkg) {
						pkg = ir.Short(pkg)
					}
				}
			}
		}
		return pkg + "." + name + "." + f.Name()
	}
	return pkg + "." + f.Name()
}

// CalleeRef returns the reference of the function a call resolves to statically, or of the
// interface method it invokes; "" for dynamic calls of function values; "builtin.<name>" for builtins.
func CalleeRef(cc *ssa.CallCommon) string {
	if cc.IsInvoke() {
		return FuncRef(cc.Method)
	}
	switch f := cc.Value.(type) {
	case *ssa.Function:
		if f.Object() != nil {
			if fo, ok := f.Object().(*types.Func); ok {
				// instantiated generics keep Origin's object
				return FuncRef(fo)
			}
		}
		if f.Origin() != nil && f.Origin().Object() != nil {
			return FuncRef(f.Origin().Object().(*types.Func))
		}
		return "closure:" + ir.FuncKey(f)
	case *ssa.MakeClosure:
		return "closure:" + ir.FuncKey(f.Fn.(*ssa.Function))
	case *ssa.Builtin:
		return "builtin." + f.Name()
	case *ssa.UnOp:
		// call through a package-level function variable (mockable hooks such as computeTTL, timestamp)
		if g, ok := f.X.(*ssa.Global); ok && f.Op == token.MUL {
			return "var:" + globalRef(g)
		}
	}
	return ""
}

// RefIn reports whether ref is one of refs.
func RefIn(ref string, refs ...string) bool {
	for _, r := range refs {
		if r == ref {
			return true
		}
	}
	return false
}

// AsCall returns the call instruction producing v (through Extract), or nil.
func AsCall(v ssa.Value) *ssa.Call {
	v = Strip(v)
	if e, ok := v.(*ssa.Extract); ok {
		v = e.Tuple
	}
	c, _ := v.(*ssa.Call)
	return c
}

// Call matches a result of a call to one of the given function refs. idx<0: any result.
func Call(idx int, refs ...string) VM {
	return func(v ssa.Value) bool {
		v = Strip(v)
		if e, ok := v.(*ssa.Extract); ok {
			if idx >= 0 && e.Index != idx {
				return false
			}
			v = e.Tuple
		}
		c, ok := v.(*ssa.Call)
		return ok && RefIn(CalleeRef(&c.Call), refs...)
	}
}

// CallArgs matches a call result with argument matchers (receiver first for static method calls; for
// interface invokes the receiver is cc.Value and is matched as argument 0 too).
func CallArgs(idx int, ref string, args ...VM) VM {
	return func(v ssa.Value) bool {
		v = Strip(v)
		if e, ok := v.(*ssa.Extract); ok {
			if idx >= 0 && e.Index != idx {
				return false
			}
			v = e.Tuple
		}
		c, ok := v.(*ssa.Call)
		if !ok || CalleeRef(&c.Call) != ref {
			return false
		}
		av := AllArgs(&c.Call)
		for i, m := range args {
			if m == nil {
				continue
			}
			if i >= len(av) || !m(av[i]) {
				return false
			}
		}
		return true
	}
}

// AllArgs returns receiver (for invokes) followed by arguments.
func AllArgs(cc *ssa.CallCommon) []ssa.Value {
	if cc.IsInvoke() {
		return append([]ssa.Value{cc.Value}, cc.Args...)
	}
	return cc.Args
}

// Len matches len(x).
func Len(x VM) VM {
	return func(v ssa.Value) bool {
		c, ok := Strip(v).(*ssa.Call)
		if !ok {
			return false
		}
		b, ok := c.Call.Value.(*ssa.Builtin)
		return ok && b.Name() == "len" && len(c.Call.Args) == 1 && (x == nil || x(c.Call.Args[0]))
	}
}

// IntConst matches an integer constant with the given value.
func IntConst(n int64) VM {
	return func(v ssa.Value) bool {
		c, ok := Strip(v).(*ssa.Const)
		if !ok || c.Value == nil || c.Value.Kind() != constant.Int {
			return false
		}
		x, ok := constant.Int64Val(c.Value)
		return ok && x == n
	}
}

// ConstVal returns the integer value of a constant.
func ConstVal(v ssa.Value) (int64, bool) {
	c, ok := Strip(v).(*ssa.Const)
	if !ok || c.Value == nil || c.Value.Kind() != constant.Int {
		return 0, false
	}
	return constant.Int64Val(c.Value)
}

// IsConst matches any constant.
func IsConst(v ssa.Value) bool {
	_, ok := Strip(v).(*ssa.Const)
	return ok
}

// StrConst matches a string constant.
func StrConst(s string) VM {
	return func(v ssa.Value) bool {
		c, ok := Strip(v).(*ssa.Const)
		return ok && c.Value != nil && c.Value.Kind() == constant.String && constant.StringVal(c.Value) == s
	}
}

// NilConst matches the nil constant.
func NilConst(v ssa.Value) bool {
	c, ok := Strip(v).(*ssa.Const)
	return ok && c.IsNil()
}

// EnumConst matches a constant whose named type has the given name and value equals the named constant object.
func ConstObj(o types.Object) VM {
	return func(v ssa.Value) bool {
		c, ok := Strip(v).(*ssa.Const)
		if !ok || o == nil {
			return false
		}
		k, ok := o.(*types.Const)
		if !ok || c.Value == nil {
			return false
		}
		return types.Identical(c.Type(), k.Type()) && constant.Compare(c.Value, token.EQL, k.Val())
	}
}

// Or matches when any matcher matches.
func Or(ms ...VM) VM {
	return func(v ssa.Value) bool {
		for _, m := range ms {
			if m(v) {
				return true
			}
		}
		return false
	}
}

// Bin matches a binary operation (not commutative-normalised).
func Bin(op token.Token, x, y VM) VM {
	return func(v ssa.Value) bool {
		b, ok := Strip(v).(*ssa.BinOp)
		return ok && b.Op == op && x(b.X) && y(b.Y)
	}
}

// BinComm matches a commutative binary operation in either operand order.
func BinComm(op token.Token, x, y VM) VM {
	return func(v ssa.Value) bool {
		b, ok := Strip(v).(*ssa.BinOp)
		return ok && b.Op == op && ((x(b.X) && y(b.Y)) || (x(b.Y) && y(b.X)))
	}
}

// Global matches a load of a package-level variable "<pkg short>.<name>".
func Global(ref string) VM {
	return func(v ssa.Value) bool {
		u, ok := Strip(v).(*ssa.UnOp)
		if !ok || u.Op != token.MUL {
			return false
		}
		g, ok := u.X.(*ssa.Global)
		return ok && globalRef(g) == ref
	}
}

func globalRef(g *ssa.Global) string {
	pkg := g.Pkg.Pkg.Path()
	if ir.InModule(pkg) {
		pkg = ir.Short(pkg)
	}
	return pkg + "." + g.Name()
}

// Describe renders a value compactly for reports.
func Describe(v ssa.Value) string {
	if v == nil {
		return "<nil>"
	}
	s := Strip(v)
	switch x := s.(type) {
	case *ssa.Parameter:
		return "param " + x.Name()
	case *ssa.Const:
		return "const " + x.String()
	case *ssa.Call:
		return "call " + CalleeRef(&x.Call)
	case *ssa.Extract:
		if c, ok := x.Tuple.(*ssa.Call); ok {
			return "result of " + CalleeRef(&c.Call)
		}
	case *ssa.BinOp:
		return "(" + Describe(x.X) + " " + x.Op.String() + " " + Describe(x.Y) + ")"
	case *ssa.Phi:
		var ps []string
		for _, e := range x.Edges {
			if len(ps) < 4 {
				if e == x {
					continue
				}
				ps = append(ps, shortVal(e))
			}
		}
		return "phi[" + strings.Join(ps, ", ") + "]"
	}
	if f, b := FieldRead(s); f != nil {
		return shortVal(b) + "." + f.Name()
	}
	return shortVal(s)
}

func shortVal(v ssa.Value) string {
	s := Strip(v)
	switch x := s.(type) {
	case *ssa.Parameter:
		return x.Name()
	case *ssa.FreeVar:
		return x.Name()
	case *ssa.Const:
		return x.String()
	case *ssa.Global:
		return x.Name()
	case *ssa.Alloc:
		if x.Comment != "" {
			return x.Comment
		}
	}
	if f, b := FieldRead(s); f != nil {
		return shortVal(b) + "." + f.Name()
	}
	n := s.Name()
	if len(n) > 24 {
		n = n[:24]
	}
	return n
}

// FieldNameOf returns the name of the field addressed by fa.
func FieldNameOf(fa *ssa.FieldAddr) string {
	if f := fieldOfAddr(fa); f != nil {
		return f.Name()
	}
	return ""
}

// EnumName returns the name of the package-level constant of k's named type that has k's value ("" when none).
func EnumName(k *ssa.Const) string {
	n, ok := k.Type().(*types.Named)
	if !ok || n.Obj().Pkg() == nil || k.Value == nil {
		return ""
	}
	sc := n.Obj().Pkg().Scope()
	for _, name := range sc.Names() {
		if kc, ok := sc.Lookup(name).(*types.Const); ok && types.Identical(kc.Type(), n) && constant.Compare(kc.Val(), token.EQL, k.Value) {
			return name
		}
	}
	return ""
}

// IsCellLoad matches a load from a local cell (an Alloc): a named result or a variable shared with a closure.
func IsCellLoad(v ssa.Value) bool {
	u, ok := v.(*ssa.UnOp)
	if !ok || u.Op != token.MUL {
		return false
	}
	_, isAlloc := u.X.(*ssa.Alloc)
	return isAlloc
}

// FieldOfAddr returns the struct field a FieldAddr selects.
func FieldOfAddr(fa *ssa.FieldAddr) *types.Var { return fieldOfAddr(fa) }

// ---- result temporaries of the normaliser (package norm)

var tempPhiMemo = map[*ssa.Phi]ssa.Value{}
var tempPhiBusy = map[*ssa.Phi]bool{}

// normTempSuffix returns the "__n<k>" suffix of a variable the normaliser introduced for a result of an inlined helper
// ("r0__n3"), or "".
func normTempSuffix(name string) string {
	i := strings.LastIndex(name, "__n")
	if i <= 0 || !strings.HasPrefix(name, "r") {
		return ""
	}
	for _, ch := range name[i+3:] {
		if ch < '0' || ch > '9' {
			return ""
		}
	}
	for _, ch := range name[1:i] {
		if ch < '0' || ch > '9' {
			return ""
		}
	}
	return name[i:]
}

func isZeroConst(v ssa.Value) bool {
	k, ok := v.(*ssa.Const)
	if !ok {
		return false
	}
	if k.Value == nil {
		return true
	}
	switch k.Value.String() {
	case "0", "false", `""`:
		return true
	}
	return false
}

// resolveTempPhi: an inlined helper's `return v, nil` / `return nil, err` exits meet in one block, where the normaliser's
// result temporaries become phis. When the value temporary carries one and the same value v on every exit whose error is the
// constant nil, a zero value on every other exit, and every use of it is dominated by the error temporary having been
// compared equal to nil, the temporary IS v wherever it is used — exactly what the caller saw before the helper was
// extracted (`x, err := step(); if err != nil { return }; use(x)`).
func resolveTempPhi(phi *ssa.Phi) ssa.Value {
	if r, ok := tempPhiMemo[phi]; ok {
		return r
	}
	if tempPhiBusy[phi] {
		return nil
	}
	tempPhiBusy[phi] = true
	defer delete(tempPhiBusy, phi)
	res := func() ssa.Value {
		sfx := normTempSuffix(phi.Comment)
		if sfx == "" {
			return nil
		}
		if os.Getenv("LBCHECK_DEBUG") != "" {
			fmt.Fprintln(os.Stderr, "tempphi enter", phi.Comment, len(phi.Edges), phi.Type())
		}
		var errPhi *ssa.Phi
		for _, in := range phi.Block().Instrs {
			p, ok := in.(*ssa.Phi)
			if !ok {
				break
			}
			if p != phi && normTempSuffix(p.Comment) == sfx && (p.Type().String() == "error" || isStatusLike(p.Type())) && errPhi == nil {
				errPhi = p
			}
		}
		if errPhi == nil {
			// a helper that answers (value, ok): the value on the exits where ok is true, the zero value elsewhere, and
			// every use behind a test of ok
			var okPhi *ssa.Phi
			for _, in := range phi.Block().Instrs {
				p, isPhi := in.(*ssa.Phi)
				if !isPhi {
					break
				}
				if p != phi && normTempSuffix(p.Comment) == sfx && p.Type().String() == "bool" && okPhi == nil {
					allConst := true
					for _, e := range p.Edges {
						if k, isK := e.(*ssa.Const); !isK || k.Value == nil {
							allConst = false
						}
					}
					if allConst {
						okPhi = p
					}
				}
			}
			if okPhi != nil && phi.Type().String() != "bool" {
				var val ssa.Value
				good := true
				for i, e := range phi.Edges {
					if okPhi.Edges[i].(*ssa.Const).Value.String() == "true" {
						if val != nil && val != e {
							good = false
						}
						val = e
					} else if !isZeroConst(e) && !NilConst(e) {
						good = false
					}
				}
				if good && val != nil && phi.Referrers() != nil {
					fn := phi.Parent()
					okEdges := BoolEdges(fn, Same(okPhi), true)
					all := len(okEdges) > 0
					for _, r := range *phi.Referrers() {
						if _, isDbg := r.(*ssa.DebugRef); isDbg {
							continue
						}
						if g, _ := GuardedBy(fn, r, okEdges); !g {
							all = false
						}
					}
					if all {
						return val
					}
				}
			}
			// a helper that answers "a value, or nil for nothing": one value on one exit, nil on the others, and every use
			// behind a test that the temporary is not nil. Not for errors and statuses: there nil is an answer of its own
			// ("fine"), and an exit that answers nil without having asked is exactly what a rule has to see (a remembered
			// authorisation, a skipped validation).
			if phi.Type().String() == "error" || isStatusLike(phi.Type()) {
				return nil
			}
			var val ssa.Value
			for _, e := range phi.Edges {
				if NilConst(e) {
					continue
				}
				if val != nil && val != e {
					return nil
				}
				val = e
			}
			if val == nil || phi.Referrers() == nil {
				return nil
			}
			fn := phi.Parent()
			nonNil := CmpEdges(fn, Same(phi), NilConst, NE)
			if len(nonNil) == 0 {
				return nil
			}
			for _, r := range *phi.Referrers() {
				if _, dbg := r.(*ssa.DebugRef); dbg {
					continue
				}
				if bo, isCmp := r.(*ssa.BinOp); isCmp && (NilConst(bo.X) || NilConst(bo.Y)) {
					continue
				}
				if g, _ := GuardedBy(fn, r, nonNil); !g {
					return nil
				}
			}
			return val
		}
		dbg := os.Getenv("LBCHECK_DEBUG") != ""
		var val ssa.Value
		for i, e := range phi.Edges {
			if NilConst(errPhi.Edges[i]) {
				if val != nil && val != e {
					if dbg {
						fmt.Fprintln(os.Stderr, "tempphi", phi.Comment, "two values", val, e)
					}
					return nil
				}
				val = e
			} else if !isZeroConst(e) {
				if dbg {
					fmt.Fprintln(os.Stderr, "tempphi", phi.Comment, "non-zero on error edge", e, errPhi.Edges[i])
				}
				return nil
			}
		}
		if val == nil || phi.Referrers() == nil {
			return nil
		}
		fn := phi.Parent()
		okEdges := CmpEdges(fn, Same(errPhi), NilConst, EQ)
		if len(okEdges) == 0 {
			if dbg {
				fmt.Fprintln(os.Stderr, "tempphi", phi.Comment, "no ok edges")
			}
			return nil
		}
		for _, r := range *phi.Referrers() {
			if _, isDbg := r.(*ssa.DebugRef); isDbg {
				continue
			}
			if mp, isPhi := r.(*ssa.Phi); isPhi {
				// merged with another definition: the value flows in over the predecessor it is the operand for
				okAll := true
				for i, e := range mp.Edges {
					if e != ssa.Value(phi) {
						continue
					}
					pred := mp.Block().Preds[i]
					if len(pred.Instrs) == 0 {
						okAll = false
						continue
					}
					if g, _ := GuardedBy(fn, pred.Instrs[len(pred.Instrs)-1], okEdges); !g {
						okAll = false
					}
				}
				if okAll {
					continue
				}
			}
			if g, _ := GuardedBy(fn, r, okEdges); !g {
				if dbg {
					fmt.Fprintln(os.Stderr, "tempphi", phi.Comment, "use not guarded", r)
				}
				return nil
			}
		}
		return val
	}()
	tempPhiMemo[phi] = res
	return res
}

// ArgOf returns the argument a static call passes for the callee parameter that was called name on the reference tree
// (receiver included), or nil: rules name arguments by parameter, so re-ordering the parameters of a helper, or turning a
// method into a function, does not disturb them.
func ArgOf(cc *ssa.CallCommon, name string) ssa.Value {
	callee := cc.StaticCallee()
	if callee == nil || len(callee.Params) != len(cc.Args) {
		return nil
	}
	for i, p := range callee.Params {
		if paramRefName(p) == name {
			return cc.Args[i]
		}
	}
	return nil
}

// isStatusLike: a result that reports failure the way an error does — a pointer to a type called Status (gRPC statuses are
// handed around as *status.Status, nil meaning success).
func isStatusLike(t types.Type) bool {
	pt, ok := t.(*types.Pointer)
	if !ok {
		return false
	}
	return strings.HasSuffix(pt.Elem().String(), "status.Status") || strings.HasSuffix(pt.Elem().String(), ".Status")
}
