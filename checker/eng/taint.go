package eng

import (
	"go/token"
	"go/types"

	"golang.org/x/tools/go/ssa"

	"lbcheck/ir"
)

// Taint is a forward, flow-insensitive, inter-procedural value taint over module SSA: it follows slices, conversions,
// phis, local cells, captured variables, arguments into module callees (static and interface implementations) and results
// back to call sites. It does not follow heap fields.
type Taint struct {
	P     *ir.Program
	Val   map[ssa.Value]bool
	cells map[ssa.Value]bool
	work  []ssa.Value
	pur   *Purity
}

// NewTaint creates an empty taint set.
func NewTaint(c *Ctx) *Taint {
	return &Taint{P: c.P, Val: map[ssa.Value]bool{}, cells: map[ssa.Value]bool{}, pur: NewPurity(c)}
}

// Add marks v as tainted.
func (t *Taint) Add(v ssa.Value) {
	if v == nil || t.Val[v] {
		return
	}
	t.Val[v] = true
	t.work = append(t.work, v)
}

// Run propagates to a fixpoint.
func (t *Taint) Run() {
	for len(t.work) > 0 {
		v := t.work[len(t.work)-1]
		t.work = t.work[:len(t.work)-1]
		refs := v.Referrers()
		if refs == nil {
			continue
		}
		for _, r := range *refs {
			t.flow(v, r)
		}
	}
}

func (t *Taint) taintCell(addr ssa.Value) {
	if t.cells[addr] {
		return
	}
	t.cells[addr] = true
	refs := addr.Referrers()
	if refs == nil {
		return
	}
	for _, r := range *refs {
		switch x := r.(type) {
		case *ssa.UnOp:
			if x.Op == token.MUL {
				t.Add(x)
			}
		case *ssa.MakeClosure:
			fn := x.Fn.(*ssa.Function)
			for i, b := range x.Bindings {
				if b == addr && i < len(fn.FreeVars) {
					t.taintCell(fn.FreeVars[i])
				}
			}
		}
	}
}

func (t *Taint) flow(v ssa.Value, r ssa.Instruction) {
	switch x := r.(type) {
	case *ssa.Slice:
		if x.X == v {
			t.Add(x)
		}
	case *ssa.Convert:
		t.Add(x)
	case *ssa.ChangeType:
		t.Add(x)
	case *ssa.Phi:
		t.Add(x)
	case *ssa.Store:
		if x.Val == v {
			switch a := x.Addr.(type) {
			case *ssa.Alloc:
				t.taintCell(a)
			case *ssa.FreeVar:
				t.taintCell(a)
			}
		}
	case *ssa.MakeClosure:
		fn := x.Fn.(*ssa.Function)
		for i, b := range x.Bindings {
			if b == v && i < len(fn.FreeVars) {
				// captured by value (rare): the free variable itself is the value
				t.Add(fn.FreeVars[i])
			}
		}
	case *ssa.Return:
		fn := x.Parent()
		for i, res := range x.Results {
			if res == v {
				t.taintResult(fn, i)
			}
		}
	case *ssa.Extract:
		// handled by taintResult
	case ssa.CallInstruction:
		cc := x.Common()
		for i, a := range cc.Args {
			if a != v {
				continue
			}
			for _, callee := range t.callees(cc) {
				pi := i
				if cc.IsInvoke() {
					pi = i + 1
				}
				if pi < len(callee.Params) {
					t.Add(callee.Params[pi])
				}
			}
			// builtins: append(dst, v...) taints the result
			if b, ok := cc.Value.(*ssa.Builtin); ok && b.Name() == "append" {
				if val, ok := x.(ssa.Value); ok {
					t.Add(val)
				}
			}
		}
	}
}

func (t *Taint) callees(cc *ssa.CallCommon) []*ssa.Function {
	if cc.IsInvoke() {
		var out []*ssa.Function
		// only interfaces declared in the module (e.g. commitlog.CommitLog): io.Writer and friends would connect unrelated code
		if n, ok := cc.Value.Type().(*types.Named); !ok || n.Obj().Pkg() == nil || !ir.InModule(n.Obj().Pkg().Path()) {
			return nil
		}
		for _, f := range t.pur.implementations(cc) {
			out = append(out, unwrap(f))
		}
		return out
	}
	switch f := cc.Value.(type) {
	case *ssa.Function:
		if f.Blocks != nil && t.P.IsModuleFunc(f) {
			return []*ssa.Function{f}
		}
	case *ssa.MakeClosure:
		return []*ssa.Function{f.Fn.(*ssa.Function)}
	}
	return nil
}

// unwrap resolves a synthetic wrapper to the declared method it forwards to.
func unwrap(f *ssa.Function) *ssa.Function {
	for i := 0; i < 3 && f.Synthetic != ""; i++ {
		var next *ssa.Function
		for _, b := range f.Blocks {
			for _, in := range b.Instrs {
				if c, ok := in.(*ssa.Call); ok {
					if sc := c.Call.StaticCallee(); sc != nil {
						next = sc
					}
				}
			}
		}
		if next == nil {
			return f
		}
		f = next
	}
	return f
}

func (t *Taint) taintResult(fn *ssa.Function, idx int) {
	// anonymous functions: find direct calls of the closure value
	if fn.Parent() != nil {
		for _, b := range fn.Parent().Blocks {
			for _, in := range b.Instrs {
				if c, ok := in.(*ssa.Call); ok {
					if mc, ok := c.Call.Value.(*ssa.MakeClosure); ok && mc.Fn == fn {
						t.resultAt(c, idx)
					}
				}
			}
		}
		return
	}
	obj, _ := fn.Object().(*types.Func)
	if obj == nil {
		return
	}
	refs := []string{FuncRef(obj)}
	// interface methods this method may implement: any invoke with the same name whose implementations include fn
	for _, s := range Index(t.P).Sites(refs...) {
		if c, ok := s.Instr.(*ssa.Call); ok {
			t.resultAt(c, idx)
		}
	}
	if fn.Signature.Recv() != nil {
		for ref, sites := range Index(t.P).By {
			_ = ref
			for _, s := range sites {
				c, ok := s.Instr.(*ssa.Call)
				if !ok || !c.Call.IsInvoke() || c.Call.Method.Name() != fn.Name() {
					continue
				}
				for _, impl := range t.pur.implementations(&c.Call) {
					if unwrap(impl) == fn {
						t.resultAt(c, idx)
					}
				}
			}
		}
	}
}

func (t *Taint) resultAt(c *ssa.Call, idx int) {
	if c.Call.Signature().Results().Len() == 1 {
		t.Add(c)
		return
	}
	refs := c.Referrers()
	if refs == nil {
		return
	}
	for _, r := range *refs {
		if e, ok := r.(*ssa.Extract); ok && e.Index == idx {
			t.Add(e)
		}
	}
}

// Funcs returns the module functions that hold at least one tainted value.
func (t *Taint) Funcs() map[*ssa.Function]bool {
	out := map[*ssa.Function]bool{}
	for v := range t.Val {
		var fn *ssa.Function
		switch x := v.(type) {
		case ssa.Instruction:
			fn = x.Parent()
		case *ssa.Parameter:
			fn = x.Parent()
		case *ssa.FreeVar:
			fn = x.Parent()
		}
		if fn != nil && (t.P.IsModuleFunc(fn)) {
			out[fn] = true
		}
	}
	return out
}
