package eng

import (
	"fmt"
	"go/token"
	"go/types"
	"sort"
	"strings"

	"golang.org/x/tools/go/ssa"

	"lbcheck/ir"
)

// Path renders a stable access path for an address or object value: "P:<fn>:recv.field.field".
func Path(v ssa.Value) string {
	return pathDepth(v, 0)
}

func pathDepth(v ssa.Value, d int) string {
	if d > 24 || v == nil {
		return fmt.Sprintf("?%p", v)
	}
	switch x := v.(type) {
	case *ssa.Parameter:
		return "P:" + ir.FuncKey(x.Parent()) + ":" + x.Name()
	case *ssa.FreeVar:
		if b := freeVarBinding(x); b != nil {
			return pathDepth(b, d+1)
		}
		return "F:" + ir.FuncKey(x.Parent()) + ":" + x.Name()
	case *ssa.FieldAddr:
		f := fieldOfAddr(x)
		n := "?"
		if f != nil {
			n = f.Name()
		}
		return pathDepth(x.X, d+1) + "." + n
	case *ssa.Field:
		f := fieldOfField(x)
		n := "?"
		if f != nil {
			n = f.Name()
		}
		return pathDepth(x.X, d+1) + "." + n
	case *ssa.UnOp:
		if x.Op == token.MUL {
			if a, ok := x.X.(*ssa.Alloc); ok {
				if s := cellStore(a); s != nil {
					return pathDepth(s, d+1)
				}
				return fmt.Sprintf("A:%s@%p", a.Comment, a)
			}
			if fv, ok := x.X.(*ssa.FreeVar); ok {
				if b := freeVarBinding(fv); b != nil {
					if a, ok := b.(*ssa.Alloc); ok {
						if s := cellStore(a); s != nil {
							return pathDepth(s, d+1)
						}
						return fmt.Sprintf("A:%s@%p", a.Comment, a)
					}
					return pathDepth(b, d+1)
				}
			}
			return pathDepth(x.X, d+1)
		}
	case *ssa.Alloc:
		if s := cellStore(x); s != nil && false {
			return pathDepth(s, d+1)
		}
		return fmt.Sprintf("A:%s@%p", x.Comment, x)
	case *ssa.ChangeType:
		return pathDepth(x.X, d+1)
	case *ssa.MakeInterface:
		return pathDepth(x.X, d+1)
	case *ssa.TypeAssert:
		return pathDepth(x.X, d+1)
	case *ssa.Global:
		return "G:" + globalRef(x)
	case *ssa.IndexAddr:
		return pathDepth(x.X, d+1) + "[]"
	case *ssa.Call:
		return fmt.Sprintf("C:%s@%p", CalleeRef(&x.Call), x)
	}
	return fmt.Sprintf("V:%s@%p", v.Name(), v)
}

// LockKey identifies a held lock.
type LockKey struct {
	Path string // access path of the mutex
}

// LockState maps mutex path to mode: 1 = read-held, 2 = write-held.
type LockState map[string]int

func (s LockState) clone() LockState {
	o := LockState{}
	for k, v := range s {
		o[k] = v
	}
	return o
}

func meet(a, b LockState) LockState {
	o := LockState{}
	for k, v := range a {
		if w, ok := b[k]; ok {
			if w < v {
				v = w
			}
			o[k] = v
		}
	}
	return o
}

func equalState(a, b LockState) bool {
	if len(a) != len(b) {
		return false
	}
	for k, v := range a {
		if b[k] != v {
			return false
		}
	}
	return true
}

// lockOp classifies a call as a mutex operation: returns the mutex address and +mode (acquire) / -mode (release).
func lockOp(cc *ssa.CallCommon) (ssa.Value, int) {
	switch CalleeRef(cc) {
	case "sync.Mutex.Lock", "sync.RWMutex.Lock":
		return cc.Args[0], 2
	case "sync.RWMutex.RLock":
		return cc.Args[0], 1
	case "sync.Mutex.Unlock", "sync.RWMutex.Unlock":
		return cc.Args[0], -2
	case "sync.RWMutex.RUnlock":
		return cc.Args[0], -1
	}
	return nil, 0
}

// LockAnalysis is a forward must-lockset analysis of one function.
type LockAnalysis struct {
	Fn    *ssa.Function
	in    map[*ssa.BasicBlock]LockState
	Entry LockState
	// correlated conditional locks: lock path -> condition under which it was taken (structural string)
	cond map[string]string
}

// AnalyzeLocks computes the locks held at every block entry.
func AnalyzeLocks(fn *ssa.Function, entry LockState) *LockAnalysis {
	la := &LockAnalysis{Fn: fn, in: map[*ssa.BasicBlock]LockState{}, Entry: entry, cond: map[string]string{}}
	if entry == nil {
		entry = LockState{}
	}
	if len(fn.Blocks) == 0 {
		return la
	}
	la.in[fn.Blocks[0]] = entry.clone()
	work := []*ssa.BasicBlock{fn.Blocks[0]}
	for len(work) > 0 {
		b := work[0]
		work = work[1:]
		st := la.in[b].clone()
		for _, in := range b.Instrs {
			la.step(st, in)
		}
		for _, s := range b.Succs {
			old, ok := la.in[s]
			var nw LockState
			if !ok {
				nw = st.clone()
			} else {
				nw = meet(old, st)
			}
			if !ok || !equalState(old, nw) {
				la.in[s] = nw
				work = append(work, s)
			}
		}
	}
	return la
}

func (la *LockAnalysis) step(st LockState, in ssa.Instruction) {
	c, ok := in.(*ssa.Call) // defers are not applied: a deferred Unlock releases at function exit
	if !ok {
		return
	}
	addr, mode := lockOp(&c.Call)
	if mode == 0 {
		return
	}
	k := Path(addr)
	if mode > 0 {
		st[k] = mode
	} else {
		delete(st, k)
	}
}

// At returns the locks held just before instruction in.
func (la *LockAnalysis) At(in ssa.Instruction) LockState {
	b := in.Block()
	st, ok := la.in[b]
	if !ok {
		return LockState{} // unreachable block
	}
	st = st.clone()
	for _, x := range b.Instrs {
		if x == in {
			break
		}
		la.step(st, x)
	}
	return st
}

// lockAnalyses caches per-function analyses with inter-procedural entry states.
var lockCache = map[*ssa.Function]*LockAnalysis{}

// LockCtx configures inter-procedural lock reasoning.
type LockCtx struct {
	P *ir.Program
	// CalleeHolds: functions (by key) whose entry lock state is the meet over all their static call sites.
	Depth int
}

var entryInProgress = map[*ssa.Function]bool{}

// EntryLocks computes the locks held on entry to fn as the meet over all static call sites in the module
// (translated to the callee's parameter names). Functions whose address is taken, that are started with go/defer,
// or that have no callers get the empty state. Synchronously invoked closures inherit the state at their creation/call site.
func EntryLocks(p *ir.Program, fn *ssa.Function, depth int) LockState {
	if depth > 4 || entryInProgress[fn] {
		return LockState{}
	}
	entryInProgress[fn] = true
	defer delete(entryInProgress, fn)
	if fn.Parent() != nil {
		return closureEntry(p, fn, depth)
	}
	obj, _ := fn.Object().(*types.Func)
	if obj == nil {
		return LockState{}
	}
	ref := FuncRef(obj)
	sites := Index(p).Sites(ref)
	if len(sites) == 0 {
		return LockState{}
	}
	var acc LockState
	for _, s := range sites {
		if s.Mode != "call" {
			return LockState{}
		}
		ci := s.Instr.(ssa.CallInstruction)
		if ci.Common().IsInvoke() {
			continue
		}
		la := LocksOf(p, s.Fn, depth+1)
		st := la.At(s.Instr)
		tr := LockState{}
		args := ci.Common().Args
		for k, m := range st {
			for i, a := range args {
				if i >= len(fn.Params) {
					break
				}
				ap := Path(a)
				if k == ap || strings.HasPrefix(k, ap+".") {
					tr["P:"+ir.FuncKey(fn)+":"+fn.Params[i].Name()+k[len(ap):]] = m
				}
			}
		}
		if acc == nil {
			acc = tr
		} else {
			acc = meet(acc, tr)
		}
	}
	if acc == nil {
		acc = LockState{}
	}
	return acc
}

// syncHigherOrder lists dependency functions that invoke their function argument synchronously before returning.
var syncHigherOrder = map[string]bool{
	"sort.Search": true, "sort.Slice": true, "sort.SliceStable": true, "sort.SearchInts": true,
	"sync.Once.Do": true,
}

func closureEntry(p *ir.Program, fn *ssa.Function, depth int) LockState {
	par := fn.Parent()
	var mc *ssa.MakeClosure
	for _, b := range par.Blocks {
		for _, in := range b.Instrs {
			if m, ok := in.(*ssa.MakeClosure); ok && m.Fn == fn {
				if mc != nil {
					return LockState{}
				}
				mc = m
			}
		}
	}
	if mc == nil {
		return LockState{}
	}
	refs := mc.Referrers()
	if refs == nil {
		return LockState{}
	}
	var acc LockState
	la := LocksOf(p, par, depth+1)
	for _, r := range *refs {
		switch x := r.(type) {
		case *ssa.Call:
			ref := CalleeRef(&x.Call)
			if x.Call.Value == mc || syncHigherOrder[ref] || moduleSyncHO(p, x, mc) {
				st := la.At(x)
				if acc == nil {
					acc = st
				} else {
					acc = meet(acc, st)
				}
				continue
			}
			return LockState{}
		case *ssa.DebugRef:
		case *ssa.Store:
			// stored into a local variable and called later: find calls through loads of that cell
			return LockState{}
		default:
			return LockState{}
		}
	}
	if acc == nil {
		acc = LockState{}
	}
	return acc
}

// moduleSyncHO: a module function that calls its function-typed parameter synchronously and does not retain it.
func moduleSyncHO(p *ir.Program, call *ssa.Call, mc *ssa.MakeClosure) bool {
	callee := call.Call.StaticCallee()
	if callee == nil || !p.IsModuleFunc(callee) {
		return false
	}
	idx := -1
	for i, a := range call.Call.Args {
		if a == mc {
			idx = i
		}
	}
	if idx < 0 || idx >= len(callee.Params) {
		return false
	}
	prm := callee.Params[idx]
	refs := prm.Referrers()
	if refs == nil {
		return false
	}
	for _, r := range *refs {
		switch x := r.(type) {
		case *ssa.Call:
			if x.Call.Value != prm {
				return false
			}
		case *ssa.DebugRef:
		default:
			return false
		}
	}
	return true
}

// LocksOf returns the (cached) lock analysis of fn with its inter-procedural entry state.
func LocksOf(p *ir.Program, fn *ssa.Function, depth int) *LockAnalysis {
	if la, ok := lockCache[fn]; ok {
		return la
	}
	entry := EntryLocks(p, fn, depth)
	la := AnalyzeLocks(fn, entry)
	if depth == 0 {
		lockCache[fn] = la
	}
	return la
}

// ResetLockCache clears caches (used between programs in the audit).
func ResetLockCache() {
	lockCache = map[*ssa.Function]*LockAnalysis{}
	indexCache = map[*ir.Program]*CallIndex{}
	ResetPathCaches()
	tempPhiMemo = map[*ssa.Phi]ssa.Value{}
}

// LockHeldAt reports whether some mutex stored in the given field is held at instr (intra-procedural + entry state is not
// used here; use HeldPath for path-specific queries).
func LockHeldAt(fn *ssa.Function, in ssa.Instruction, lockField *types.Var, write bool) bool {
	if lockField == nil {
		return false
	}
	la := AnalyzeLocks(fn, nil)
	st := la.At(in)
	for k, m := range st {
		if strings.HasSuffix(k, "."+lockField.Name()) && (!write || m == 2) {
			return true
		}
	}
	return false
}

// HeldString renders a lock state.
func HeldString(st LockState) string {
	var ks []string
	for k, m := range st {
		ks = append(ks, fmt.Sprintf("%s(%s)", k, map[int]string{1: "R", 2: "W"}[m]))
	}
	sort.Strings(ks)
	return "{" + strings.Join(ks, ", ") + "}"
}

// LockPairing checks, for every explicit Lock/RLock call in fn, that the mutex is released on every path to a return:
// either a deferred matching unlock is registered on every path from the acquisition, or every path from the acquisition
// to a return passes a matching Unlock call. Returns one finding per acquisition: (instr, ok, detail).
type PairFinding struct {
	Instr  ssa.Instruction
	Mutex  string
	OK     bool
	Detail string
}

func LockPairing(fn *ssa.Function) []PairFinding {
	var out []PairFinding
	Instrs(fn, func(in ssa.Instruction) {
		call, ok := in.(*ssa.Call)
		if !ok {
			return
		}
		addr, mode := lockOp(&call.Call)
		if mode <= 0 {
			return
		}
		path := Path(addr)
		isRelease := func(x ssa.Instruction) bool {
			var cc *ssa.CallCommon
			switch y := x.(type) {
			case *ssa.Call:
				cc = &y.Call
			case *ssa.Defer:
				cc = &y.Call
			default:
				return false
			}
			a2, m2 := lockOp(cc)
			return m2 == -mode && Path(a2) == path
		}
		q := &PathQuery{Fn: fn, FromAfter: []ssa.Instruction{in}, Target: func(x ssa.Instruction) bool { _, ok := x.(*ssa.Return); return ok }, CutInstr: isRelease}
		w := q.Find()
		f := PairFinding{Instr: in, Mutex: shortLockPath(path), OK: w == nil}
		if w != nil {
			f.Detail = "path " + w.String() + " reaches a return with the mutex still held"
		}
		out = append(out, f)
	})
	return out
}

func shortLockPath(p string) string {
	if i := strings.LastIndex(p, ":"); i >= 0 {
		return p[i+1:]
	}
	return p
}
