package eng

import (
	"go/types"
	"strings"

	"golang.org/x/tools/go/ssa"

	"lbcheck/ir"
)

// Purity decides whether a call can have an effect outside the memory the callee allocates itself.
// It is an effect analysis over the module's SSA: a function is pure when it contains no store / map update /
// channel operation / go statement on memory it did not allocate and calls only pure functions. Functions outside
// the module are pure only when their package or reference is in the allow-list below.
type Purity struct {
	c        *Ctx
	memo     map[*ssa.Function]string // "" = pure, otherwise the reason it is not
	inProg   map[*ssa.Function]bool
	PureRefs map[string]string // explicit pure callee refs -> reason
	MaxDepth int
}

// pure external packages (no effect on server state).
var purePkgs = map[string]bool{
	"fmt": true, "strings": true, "errors": true, "strconv": true, "sort": true, "bytes": true, "math": true,
	"unicode": true, "unicode/utf8": true, "sync": true, "context": true, "hash/crc32": true, "encoding/binary": true,
	"github.com/pkg/errors":                  true,
	"google.golang.org/grpc/status":          true,
	"google.golang.org/grpc/codes":           true,
	"google.golang.org/protobuf/proto":       true, // (un)marshalling
	"path/filepath":                          true,
	"google.golang.org/grpc/internal/status": true,
	"github.com/golang/protobuf/proto":       true,
	"regexp":                                 true,
	// value helpers of the standard library (they read their arguments and build new values; the in-place ones — Sort,
	// Reverse, Delete, Insert, Copy, Clear — write only memory the caller hands them, which the store rule sees at the caller)
	"slices": true, "maps": true, "cmp": true, "iter": true, "math/bits": true, "unicode/utf16": true, "container/heap": false,
}

var pureExtRefs = map[string]bool{
	"time.Now": true, "time.Since": true, "time.Time.Before": true, "time.Time.After": true, "time.Time.Add": true, "time.Time.Sub": true,
	"time.Time.UnixNano": true, "time.Time.Unix": true, "time.Duration.String": true, "time.Time.IsZero": true,
	"sync/atomic.Value.Load": true, "sync/atomic.Int32.Load": true, "sync/atomic.Int64.Load": true, "sync/atomic.Bool.Load": true,
	"sync/atomic.LoadInt32": true, "sync/atomic.LoadInt64": true, "sync/atomic.LoadPointer": true, "sync/atomic.LoadUint64": true,
	"builtin.len": true, "builtin.cap": true, "builtin.append": true, "builtin.make": true, "builtin.new": true, "builtin.min": true, "builtin.max": true,
	"builtin.copy": true, "builtin.panic": true, "builtin.print": true, "builtin.println": true, "builtin.recover": true,
	"builtin.ssa:wrapnilchk": true,
	".error.Error":           true, "fmt.Stringer.String": true,
	"github.com/nats-io/nuid.Next": true, "github.com/nats-io/nats.go.NewInbox": true,
}

// NewPurity creates the analysis.
func NewPurity(c *Ctx) *Purity {
	return &Purity{c: c, memo: map[*ssa.Function]string{}, inProg: map[*ssa.Function]bool{}, PureRefs: map[string]string{}, MaxDepth: 10}
}

func localRoot(v ssa.Value) bool {
	for i := 0; i < 16; i++ {
		switch x := v.(type) {
		case *ssa.Alloc:
			return true
		case *ssa.FieldAddr:
			v = x.X
		case *ssa.IndexAddr:
			v = x.X
		case *ssa.MakeMap, *ssa.MakeSlice, *ssa.MakeChan:
			return true
		case *ssa.Slice:
			v = x.X
		case *ssa.ChangeType:
			v = x.X
		case *ssa.Phi:
			for _, e := range x.Edges {
				if e != x && !localRoot(e) {
					return false
				}
			}
			return true
		case *ssa.Call:
			// result of append on a local slice is local; anything else is not
			if b, ok := x.Call.Value.(*ssa.Builtin); ok && b.Name() == "append" {
				v = x.Call.Args[0]
				continue
			}
			return false
		case *ssa.UnOp:
			// load of a local cell holding a locally allocated object
			if a, ok := x.X.(*ssa.Alloc); ok {
				if s := cellStore(a); s != nil {
					v = s
					continue
				}
			}
			return false
		case *ssa.Const:
			return true // nil slice/map
		default:
			return false
		}
	}
	return false
}

// ImpureReason returns "" when fn is pure.
func (p *Purity) ImpureReason(fn *ssa.Function, depth int) string {
	if r, ok := p.memo[fn]; ok {
		return r
	}
	if p.inProg[fn] {
		return "" // recursion: optimistic
	}
	if fn.Blocks == nil {
		return "no body: " + fn.String()
	}
	if depth > p.MaxDepth {
		return "depth bound exceeded at " + ir.FuncKey(fn)
	}
	p.inProg[fn] = true
	defer delete(p.inProg, fn)
	reason := ""
	set := func(r string) {
		if reason == "" {
			reason = r
		}
	}
	for _, b := range fn.Blocks {
		for _, in := range b.Instrs {
			if reason != "" {
				break
			}
			switch x := in.(type) {
			case *ssa.Store:
				if !localRoot(x.Addr) {
					set("store to non-local memory at " + p.c.Pos(in))
				}
			case *ssa.MapUpdate:
				if !localRoot(x.Map) {
					set("map update on non-local map at " + p.c.Pos(in))
				}
			case *ssa.Send:
				set("channel send at " + p.c.Pos(in))
			case *ssa.Go:
				set("go statement at " + p.c.Pos(in))
			case ssa.CallInstruction:
				if r := p.CallImpure(x.Common(), fn, depth); r != "" {
					set(r)
				}
			}
		}
	}
	p.memo[fn] = reason
	return reason
}

// CallImpure returns "" when the call is pure, else the reason.
func (p *Purity) CallImpure(cc *ssa.CallCommon, in *ssa.Function, depth int) string {
	ref := CalleeRef(cc)
	if _, ok := p.PureRefs[ref]; ok {
		return ""
	}
	if cc.IsInvoke() {
		if pureExtRefs[ref] || pureIfaceRef(ref) {
			return ""
		}
		// module implementations via CHA
		impls := p.implementations(cc)
		if len(impls) == 0 {
			return "invoke of " + ref + " (no module implementation, not in the pure list)"
		}
		for _, f := range impls {
			if r := p.ImpureReason(f, depth+1); r != "" {
				return ref + " → " + ir.FuncKey(f) + ": " + r
			}
		}
		return ""
	}
	switch f := cc.Value.(type) {
	case *ssa.Builtin:
		if pureExtRefs[ref] {
			return ""
		}
		if f.Name() == "delete" {
			if localRoot(cc.Args[0]) {
				return ""
			}
			return "delete on non-local map"
		}
		return "builtin " + f.Name()
	case *ssa.Function:
		return p.fnImpure(f, ref, depth)
	case *ssa.MakeClosure:
		return p.fnImpure(f.Fn.(*ssa.Function), ref, depth)
	}
	return "dynamic call of a function value"
}

func (p *Purity) fnImpure(f *ssa.Function, ref string, depth int) string {
	if p.c.P.IsModuleFunc(f) {
		if r := p.ImpureReason(f, depth+1); r != "" {
			return ir.FuncKey(f) + ": " + r
		}
		return ""
	}
	if pureExtRefs[ref] {
		return ""
	}
	pkg := ""
	if f.Pkg != nil {
		pkg = f.Pkg.Pkg.Path()
	} else if f.Object() != nil && f.Object().Pkg() != nil {
		pkg = f.Object().Pkg().Path()
	}
	if purePkgs[pkg] {
		return ""
	}
	// protobuf getters of the API package
	if pkg == "github.com/liftbridge-io/liftbridge-api/v2/go" {
		n := f.Name()
		if strings.HasPrefix(n, "Get") || n == "String" || n == "Enum" || n == "Reset" {
			return ""
		}
	}
	if f.Blocks != nil && p.c.P.Whole {
		// thorough tier: analyse dependency bodies too
		if r := p.ImpureReason(f, depth+1); r != "" {
			return ref + ": " + r
		}
		return ""
	}
	return "external call " + ref
}

func pureIfaceRef(ref string) bool {
	switch {
	case strings.HasPrefix(ref, "server/logger.Logger."):
		return true
	case strings.HasPrefix(ref, "context.Context."):
		return true
	case ref == "github.com/liftbridge-io/liftbridge-api/v2/go.API_SubscribeServer.Context",
		ref == "github.com/liftbridge-io/liftbridge-api/v2/go.API_PublishAsyncServer.Context",
		ref == "google.golang.org/grpc.ServerStream.Context":
		return true
	}
	return false
}

func (p *Purity) implementations(cc *ssa.CallCommon) []*ssa.Function {
	var out []*ssa.Function
	recv := cc.Value.Type()
	iface, ok := recv.Underlying().(*types.Interface)
	if !ok {
		return nil
	}
	seen := map[*ssa.Function]bool{}
	for _, pk := range p.c.P.Pkgs {
		sc := pk.Types.Scope()
		for _, n := range sc.Names() {
			tn, ok := sc.Lookup(n).(*types.TypeName)
			if !ok {
				continue
			}
			for _, t := range []types.Type{tn.Type(), types.NewPointer(tn.Type())} {
				if types.IsInterface(t) || !types.Implements(t, iface) {
					continue
				}
				sel := p.c.P.SSA.MethodSets.MethodSet(t).Lookup(cc.Method.Pkg(), cc.Method.Name())
				if sel == nil {
					continue
				}
				f := p.c.P.SSA.MethodValue(sel)
				if f != nil && !seen[f] {
					seen[f] = true
					// unwrap synthetic wrappers to the declared method
					out = append(out, f)
				}
			}
		}
	}
	return out
}
