// Package mutate derives syntactic mutants of anchored functions for the sensitivity audit of the thorough tier.
// Mutants are produced by textual edits at AST positions (line structure is preserved) and are evaluated through the
// go/packages overlay: no copy of the repository is made and nothing is executed.
package mutate

import (
	"fmt"
	"go/ast"
	"go/parser"
	"go/token"
	"os"
	"sort"
	"strings"
)

// Mutant is one edited version of a source file.
type Mutant struct {
	File    string
	Func    string
	Line    int
	Op      string
	Desc    string
	Content []byte
}

type edit struct {
	start, end int
	text       string
}

func apply(src []byte, es ...edit) []byte {
	sort.Slice(es, func(i, j int) bool { return es[i].start > es[j].start })
	out := append([]byte(nil), src...)
	for _, e := range es {
		out = append(out[:e.start], append([]byte(e.text), out[e.end:]...)...)
	}
	return out
}

func blank(src []byte, start, end int) string {
	b := make([]byte, end-start)
	for i := range b {
		if src[start+i] == '\n' {
			b[i] = '\n'
		} else {
			b[i] = ' '
		}
	}
	return string(b)
}

var ror = map[token.Token]string{token.LSS: "<=", token.LEQ: "<", token.GTR: ">=", token.GEQ: ">", token.EQL: "!=", token.NEQ: "=="}
var lcr = map[token.Token]string{token.LAND: "||", token.LOR: "&&"}

// File generates mutants for the functions of path whose line ranges intersect the given lines (nil = all functions).
func File(path string, lines map[int]bool) ([]Mutant, error) {
	src, err := os.ReadFile(path)
	if err != nil {
		return nil, err
	}
	fset := token.NewFileSet()
	f, err := parser.ParseFile(fset, path, src, parser.SkipObjectResolution)
	if err != nil {
		return nil, err
	}
	off := func(p token.Pos) int { return fset.Position(p).Offset }
	var out []Mutant
	for _, d := range f.Decls {
		fd, ok := d.(*ast.FuncDecl)
		if !ok || fd.Body == nil {
			continue
		}
		l0, l1 := fset.Position(fd.Pos()).Line, fset.Position(fd.End()).Line
		if lines != nil {
			hit := false
			for l := range lines {
				if l >= l0 && l <= l1 {
					hit = true
				}
			}
			if !hit {
				continue
			}
		}
		name := fd.Name.Name
		if fd.Recv != nil && len(fd.Recv.List) == 1 {
			name = typeName(fd.Recv.List[0].Type) + "." + name
		}
		add := func(pos token.Pos, op, desc string, es ...edit) {
			out = append(out, Mutant{File: path, Func: name, Line: fset.Position(pos).Line, Op: op, Desc: desc, Content: apply(src, es...)})
		}
		ast.Inspect(fd.Body, func(n ast.Node) bool {
			switch x := n.(type) {
			case *ast.IfStmt:
				add(x.Cond.Pos(), "NEG", "negate condition `"+snippet(src, off(x.Cond.Pos()), off(x.Cond.End()))+"`",
					edit{off(x.Cond.Pos()), off(x.Cond.Pos()), "!("}, edit{off(x.Cond.End()), off(x.Cond.End()), ")"})
			case *ast.ForStmt:
				if x.Cond != nil {
					if be, ok := x.Cond.(*ast.BinaryExpr); ok {
						if r, ok := ror[be.Op]; ok {
							add(be.OpPos, "ROR", fmt.Sprintf("loop condition %s → %s", be.Op, r), edit{off(be.OpPos), off(be.OpPos) + len(be.Op.String()), r})
						}
					}
				}
			case *ast.BinaryExpr:
				if r, ok := ror[x.Op]; ok {
					add(x.OpPos, "ROR", fmt.Sprintf("`%s` operator %s → %s", snippet(src, off(x.Pos()), off(x.End())), x.Op, r), edit{off(x.OpPos), off(x.OpPos) + len(x.Op.String()), r})
				}
				if r, ok := lcr[x.Op]; ok {
					add(x.OpPos, "LCR", fmt.Sprintf("`%s` operator %s → %s", snippet(src, off(x.Pos()), off(x.End())), x.Op, r), edit{off(x.OpPos), off(x.OpPos) + len(x.Op.String()), r})
				}
				if x.Op == token.ADD || x.Op == token.SUB {
					if bl, ok := x.Y.(*ast.BasicLit); ok && bl.Kind == token.INT && bl.Value == "1" {
						add(x.OpPos, "AOR", fmt.Sprintf("`%s`: drop the ±1", snippet(src, off(x.Pos()), off(x.End()))), edit{off(x.OpPos), off(x.End()), blank(src, off(x.OpPos), off(x.End()))})
					}
				}
			case *ast.ExprStmt:
				if _, ok := x.X.(*ast.CallExpr); ok {
					add(x.Pos(), "DEL", "delete call `"+snippet(src, off(x.Pos()), off(x.End()))+"`", edit{off(x.Pos()), off(x.End()), blank(src, off(x.Pos()), off(x.End()))})
				}
			case *ast.DeferStmt:
				add(x.Pos(), "DEL", "delete `"+snippet(src, off(x.Pos()), off(x.End()))+"`", edit{off(x.Pos()), off(x.End()), blank(src, off(x.Pos()), off(x.End()))})
			case *ast.BranchStmt:
				if x.Tok == token.CONTINUE || x.Tok == token.BREAK {
					add(x.Pos(), "DEL", "delete `"+snippet(src, off(x.Pos()), off(x.End()))+"`", edit{off(x.Pos()), off(x.End()), blank(src, off(x.Pos()), off(x.End()))})
				}
			case *ast.ReturnStmt:
				if len(x.Results) == 0 {
					add(x.Pos(), "DEL", "delete bare return", edit{off(x.Pos()), off(x.End()), blank(src, off(x.Pos()), off(x.End()))})
				}
			case *ast.AssignStmt:
				// x = y on a field / map element: delete the assignment
				if x.Tok == token.ASSIGN && len(x.Lhs) == 1 {
					switch x.Lhs[0].(type) {
					case *ast.SelectorExpr, *ast.IndexExpr:
						add(x.Pos(), "DEL", "delete assignment `"+snippet(src, off(x.Pos()), off(x.End()))+"`", edit{off(x.Pos()), off(x.End()), blank(src, off(x.Pos()), off(x.End()))})
					}
				}
			case *ast.UnaryExpr:
				if x.Op == token.NOT {
					add(x.Pos(), "NEG", "drop negation in `"+snippet(src, off(x.Pos()), off(x.End()))+"`", edit{off(x.OpPos), off(x.OpPos) + 1, " "})
				}
			}
			return true
		})
	}
	return out, nil
}

func typeName(e ast.Expr) string {
	switch x := e.(type) {
	case *ast.StarExpr:
		return typeName(x.X)
	case *ast.Ident:
		return x.Name
	case *ast.IndexExpr:
		return typeName(x.X)
	}
	return "?"
}

func snippet(src []byte, a, b int) string {
	s := strings.Join(strings.Fields(string(src[a:b])), " ")
	if len(s) > 70 {
		s = s[:70] + "…"
	}
	return s
}

var flip = map[token.Token]string{token.LSS: ">", token.GTR: "<", token.LEQ: ">=", token.GEQ: "<=", token.EQL: "==", token.NEQ: "!="}
var negRel = map[token.Token]string{token.LSS: ">=", token.GTR: "<=", token.LEQ: ">", token.GEQ: "<", token.EQL: "!=", token.NEQ: "=="}

func hasCall(e ast.Expr) bool {
	found := false
	ast.Inspect(e, func(n ast.Node) bool {
		if _, ok := n.(*ast.CallExpr); ok {
			found = true
		}
		return !found
	})
	return found
}

// Equivalents generates behaviour-preserving rewrites of the same functions (operands of a comparison swapped with the operator
// mirrored, a comparison written as the negation of its complement, if/else branches exchanged under a negated condition).
// A checker that reports any of them raises a false alarm: they are the counterpart of the mutants in the sensitivity audit.
func Equivalents(path string, lines map[int]bool) ([]Mutant, error) {
	src, err := os.ReadFile(path)
	if err != nil {
		return nil, err
	}
	fset := token.NewFileSet()
	f, err := parser.ParseFile(fset, path, src, parser.SkipObjectResolution)
	if err != nil {
		return nil, err
	}
	off := func(p token.Pos) int { return fset.Position(p).Offset }
	var out []Mutant
	for _, d := range f.Decls {
		fd, ok := d.(*ast.FuncDecl)
		if !ok || fd.Body == nil {
			continue
		}
		l0, l1 := fset.Position(fd.Pos()).Line, fset.Position(fd.End()).Line
		if lines != nil {
			hit := false
			for l := range lines {
				if l >= l0 && l <= l1 {
					hit = true
				}
			}
			if !hit {
				continue
			}
		}
		name := fd.Name.Name
		if fd.Recv != nil && len(fd.Recv.List) == 1 {
			name = typeName(fd.Recv.List[0].Type) + "." + name
		}
		add := func(pos token.Pos, op, desc string, es ...edit) {
			out = append(out, Mutant{File: path, Func: name, Line: fset.Position(pos).Line, Op: op, Desc: desc, Content: apply(src, es...)})
		}
		ast.Inspect(fd.Body, func(n ast.Node) bool {
			switch x := n.(type) {
			case *ast.BinaryExpr:
				if fl, ok := flip[x.Op]; ok && !(hasCall(x.X) && hasCall(x.Y)) {
					xs, ys := string(src[off(x.X.Pos()):off(x.X.End())]), string(src[off(x.Y.Pos()):off(x.Y.End())])
					if !strings.Contains(xs, "\n") && !strings.Contains(ys, "\n") {
						add(x.OpPos, "EQV-SWAP", fmt.Sprintf("`%s` written as `%s %s %s`", snippet(src, off(x.Pos()), off(x.End())), ys, fl, xs),
							edit{off(x.Pos()), off(x.End()), ys + " " + fl + " " + xs})
					}
				}
			case *ast.IfStmt:
				if be, ok := x.Cond.(*ast.BinaryExpr); ok {
					if ng, ok := negRel[be.Op]; ok {
						xs, ys := string(src[off(be.X.Pos()):off(be.X.End())]), string(src[off(be.Y.Pos()):off(be.Y.End())])
						if !strings.Contains(xs, "\n") && !strings.Contains(ys, "\n") {
							add(be.OpPos, "EQV-NEG", fmt.Sprintf("`%s` written as `!(%s %s %s)`", snippet(src, off(be.Pos()), off(be.End())), xs, ng, ys),
								edit{off(be.Pos()), off(be.End()), "!(" + xs + " " + ng + " " + ys + ")"})
						}
					}
				}
				if eb, ok := x.Else.(*ast.BlockStmt); ok && x.Init == nil {
					body := string(src[off(x.Body.Pos()):off(x.Body.End())])
					els := string(src[off(eb.Pos()):off(eb.End())])
					cond := string(src[off(x.Cond.Pos()):off(x.Cond.End())])
					add(x.Pos(), "EQV-BRANCH", "if/else branches exchanged under the negated condition `"+snippet(src, off(x.Cond.Pos()), off(x.Cond.End()))+"`",
						edit{off(x.Cond.Pos()), off(eb.End()), "!(" + cond + ") " + els + " else " + body})
				}
			}
			return true
		})
	}
	return out, nil
}
