package rules

import (
	"go/constant"
	"go/token"
	"go/types"
	"strings"

	"golang.org/x/tools/go/ssa"

	"lbcheck/eng"
	"lbcheck/ir"
)

// Rules written for defects that were demonstrated against the real code but whose repair is not a small safe patch (a wire
// format change, a redesign of recovery, behaviour pinned by existing tests). Each reports one named construct; the construct
// is listed in known_findings.json, so the check prints KNOWN-FINDING for it and stays green, and reports a violation again
// for any other construct the same rule finds.

// ruleEpochBoundaryMeansOneThing (R02.9): every place that records the start of a leader epoch records the same thing.
// NewLeaderEpoch (elected leader) records the offset BEFORE the epoch's first message; append (a replica that learns the epoch
// from replicated data) records the offset OF the first message. LastOffsetForLeaderEpoch + Truncate(answer+1) is right for
// one of them only.
func ruleEpochBoundaryMeansOneThing(c *eng.Ctx) {
	p := c.P
	kinds := map[string]string{}
	where := map[string]ssa.Instruction{}
	for _, k := range []string{cl + "(*commitLog).NewLeaderEpoch", cl + "(*commitLog).append"} {
		fn := c.Fn(k)
		if fn == nil {
			continue
		}
		for _, as := range eng.CallsIn(fn, cl+"leaderEpochCache.Assign") {
			a := as.Common().Args
			v := a[len(a)-1]
			kind := "other"
			switch {
			case eng.Call(-1, cl+"commitLog.NewestOffset")(v):
				kind = "the offset before the epoch's first message (NewestOffset())"
			case eng.LoadNamed("Offset", nil)(v):
				kind = "the offset of the epoch's first message (entry.Offset)"
			case eng.Bin(token.SUB, eng.LoadNamed("Offset", nil), eng.IntConst(1))(v):
				kind = "the offset before the epoch's first message (entry.Offset - 1)"
			}
			kinds[ir.FuncKey(fn)] = kind
			where[ir.FuncKey(fn)] = as.(ssa.Instruction)
		}
	}
	if len(kinds) < 2 {
		c.Unresolved("the Assign calls of NewLeaderEpoch and append")
		return
	}
	elected := kinds[cl+"(*commitLog).NewLeaderEpoch"]
	for k, kind := range kinds {
		if k == cl+"(*commitLog).NewLeaderEpoch" {
			c.OK("epoch boundary recorded by "+k, c.Pos(where[k]), kind+" — the reference: LastOffsetForLeaderEpoch answers it and followers truncate to answer+1")
			continue
		}
		same := kind == elected || (strings.HasPrefix(kind, "the offset before") && strings.HasPrefix(elected, "the offset before"))
		c.Check(same, "epoch boundary recorded by "+k, c.Pos(where[k]), "same definition as NewLeaderEpoch", "a replica that learns an epoch from replicated data records "+kind+", an elected leader records "+elected+": when the replica later leads, LastOffsetForLeaderEpoch answers one too high for the epochs it learned by replication, and a rejoining replica keeps one uncommitted message below its high watermark")
	}
	_ = p
}

// ruleNoBlindHWTruncation (R02.2 extension): a follower that cannot learn the end of its epoch from the leader does not
// truncate to its own high watermark (which lags what was committed).
func ruleNoBlindHWTruncation(c *eng.Ctx) {
	fn := c.Fn("server.(*partition).truncateUncommitted")
	if fn == nil {
		return
	}
	calls := eng.CallsIn(fn, "server.partition.truncateToHW")
	for _, call := range calls {
		c.Violate("high-watermark fallback in server.(*partition).truncateUncommitted", c.Pos(call.(ssa.Instruction)), "when the leader does not answer the epoch-offset request (during a fail-over the new leader has not subscribed yet: nats answers ErrNoResponders at once, which is not even retried) the follower truncates to its own high watermark: committed messages above it are cut, and the follower is still in the in-sync set")
	}
	if len(calls) == 0 {
		c.OK("high-watermark fallback in server.(*partition).truncateUncommitted", c.P.Pos(fn.Pos()), "no truncation to the follower's own high watermark")
	}
}

// ruleCompactionKeepsEpochBoundaries (R08.7 extension): compaction does not renumber offsets, so it has no business moving
// epoch boundaries; rebuilding the history from the surviving messages moves each boundary to the first SURVIVING offset.
func ruleCompactionKeepsEpochBoundaries(c *eng.Ctx) {
	fn := c.Fn(cl + "(*commitLog).Clean")
	if fn == nil {
		return
	}
	n := 0
	for _, f := range moduleReach(c, fn, 2) {
		for _, call := range eng.CallsIn(f, cl+"leaderEpochCache.Replace") {
			n++
			c.Violate("epoch history replaced after compaction in "+ir.FuncKey(f), c.Pos(call.(ssa.Instruction)), "Clean replaces the leader-epoch history by one rebuilt from the messages that survived compaction: an epoch's start moves to its first surviving offset, a compacted leader answers a too-high end offset for earlier epochs and a rejoining replica keeps uncommitted messages below its high watermark")
		}
	}
	if n == 0 {
		c.OK("epoch history replaced after compaction", c.P.Pos(fn.Pos()), "compaction leaves the leader-epoch history alone")
	}
}

// ruleOffsetRequestFenced (R02.4 extension, shared with C04): the server that answers a follower's epoch-offset request is
// not behind the follower.
func ruleOffsetRequestFenced(c *eng.Ctx) {
	fn := c.Fn("server.(*partition).handleLeaderOffsetRequest")
	if fn == nil {
		return
	}
	own := func(v ssa.Value) bool {
		return eng.LoadNamed("LeaderEpoch", eng.Or(eng.Param("p"), eng.LoadNamed("Partition", eng.Param("p"))))(v)
	}
	fenced := len(eng.CmpEdges(fn, eng.AnyV, own, eng.LT|eng.EQ|eng.GT)) > 0
	c.Check(fenced, "epoch-offset request answered only by a server that is not behind the asker", c.P.Pos(fn.Pos()), "the request's epoch is compared with the server's own leader epoch", "handleLeaderOffsetRequest answers whoever asks, on any server still subscribed: a deposed leader that has not applied the leader change yet answers with its own log end, the follower keeps the deposed leader's uncommitted tail and reports it as progress in the new epoch — the new leader acknowledges ALL-policy messages the follower stores differently")
}

// ruleResumeAllOnlyInFSM (R06.2 extension): state set by applying a replicated operation is changed only by applying
// replicated operations.
func ruleResumeAllOnlyInFSM(c *eng.Ctx) {
	p := c.P
	obj := "server.stream.SetResumeAll"
	n := 0
	applyReach := map[string]bool{}
	if ap := c.Fn("server.(*Server).apply"); ap != nil {
		for _, f := range moduleReach(c, ap, 8) {
			applyReach[ir.FuncKey(ir.Outermost(f))] = true
		}
	}
	for _, s := range eng.Index(p).Sites(obj) {
		n++
		outer := s.Outer()
		onApply := applyReach[outer]
		c.Check(onApply, "stream.SetResumeAll called from "+outer, c.Pos(s.Instr), "on the apply path", "stream.resumeAll is set by applying PAUSE_STREAM but cleared here, outside the state machine, on whichever server handles the publish that resumes the stream (and it is not part of the snapshot): replaying the same log, or restoring a snapshot, yields another value than the live server had")
	}
	if n == 0 {
		c.OK("stream.SetResumeAll call sites", "-", "no call outside the state machine")
	}
}

// ruleSnapshotCarriesAssignments (R06.4 extension, shared with C12): what a restore cannot recompute must be in the snapshot.
// Group assignments depend on the order in which members joined; the snapshot stores members (restored in id order) but not
// assignments.
func ruleSnapshotCarriesAssignments(c *eng.Ctx) {
	p := c.P
	t := p.NamedType("server/protocol", "Consumer")
	if t == nil {
		c.Unresolved("type server/protocol.Consumer")
		return
	}
	st, _ := t.Underlying().(*types.Struct)
	has := false
	for i := 0; st != nil && i < st.NumFields(); i++ {
		if st.Field(i).Name() == "Assignments" {
			has = true
		}
	}
	c.Check(has, "consumer group assignments are part of the snapshot", p.Pos(t.Obj().Pos()), "protocol.Consumer carries the member's assignments", "the snapshot stores a group's members but not their partition assignments; a restore re-adds the members in id order and balances again, while the live assignment depended on the order of the join entries: after a restart the same members hold other partitions under the same group epoch")
}

// ruleRestoredPartitionsAreStarted (R06.8 extension): the step that starts recovered partitions is reachable without a log
// entry having to be replayed.
func ruleRestoredPartitionsAreStarted(c *eng.Ctx) {
	p := c.P
	fn := c.Fn("server.(*Server).finishedRecovery")
	if fn == nil {
		c.OK("recovered partitions are started after a snapshot restore", "-", "finishedRecovery no longer exists: start-up is organised differently")
		return
	}
	obj, _ := fn.Object().(*types.Func)
	callers := map[string]bool{}
	for _, s := range eng.Index(p).Sites(eng.FuncRef(obj)) {
		callers[s.Outer()] = true
	}
	onlyApply := len(callers) > 0
	for k := range callers {
		if k != "server.(*Server).Apply" {
			onlyApply = false
		}
	}
	c.Check(!onlyApply, "recovered partitions are started after a snapshot restore", p.Pos(fn.Pos()), "finishedRecovery (or its successor) is reached from the restore / start path too", "finishedRecovery — the only place that starts partitions created with recovered = true — is called from Apply alone, for the last replayed entry: a server that restarts from a snapshot with no command entry after it never starts its partitions (leader = this server, isLeading = false), even after further live operations")
}

// ruleCursorKeyInjective (R11.7, known finding K13): the cursor key is the compaction key, the cache key and the hash input of a
// cursor; two different (cursor id, stream, partition) triples must not share one. Joining the raw strings with a separator
// that both may contain is not injective. Structural condition: every string component handed to the formatting call in
// getCursorKey went through an escaping / encoding call (or is formatted with %q).
func ruleCursorKeyInjective(c *eng.Ctx) {
	fn := c.Fn("server.(*cursorManager).getCursorKey")
	if fn == nil {
		return
	}
	sp := eng.CallsIn(fn, "fmt.Sprintf")
	if len(sp) != 1 {
		c.Unresolved("the formatting call of getCursorKey")
		return
	}
	raw := 0
	quoted := false
	if k, isK := sp[0].Common().Args[0].(*ssa.Const); isK && k.Value != nil && !strings.Contains(constant.StringVal(k.Value), "%s") {
		quoted = true
	}
	for _, e := range variadicElems(sp[0].Common().Args[1]) {
		v := e
		if mi, isMI := v.(*ssa.MakeInterface); isMI {
			v = mi.X
		}
		if par, isPar := v.(*ssa.Parameter); isPar && par.Type().String() == "string" {
			raw++
		}
	}
	c.Check(raw == 0 || quoted, "cursor key is an injective encoding of (cursor id, stream, partition)", c.P.Pos(fn.Pos()), "string components are escaped before they are joined", "getCursorKey joins the raw cursor id and stream name with `,`: (id `a,b`, stream `c`) and (id `a`, stream `b,c`) share the key `a,b,c,0` — one consumer's SetCursor is returned by the other's FetchCursor, and compaction keeps only one of the two cursors")
}

// ruleCleaningPassExcludesListRewrites (R08.8, known finding K14; C08 and C09): Clean works for its whole pass on a snapshot
// of l.segments and installs a list derived from it at the end. That is only right if nobody rewrites the list in between.
// Growth at the end (a roll) is rebased by Clean itself; every other writer of l.segments has to be excluded for the whole
// pass, i.e. hold — in write mode — a lock that Clean holds from its snapshot to its install.
func ruleCleaningPassExcludesListRewrites(c *eng.Ctx) {
	p := c.P
	fn := c.Fn(cl + "(*commitLog).Clean")
	segF := p.Field(clPkg, "commitLog", "segments")
	if fn == nil || segF == nil {
		return
	}
	var snap, inst ssa.Instruction
	eng.Instrs(fn, func(in ssa.Instruction) {
		switch x := in.(type) {
		case *ssa.UnOp:
			if snap == nil && eng.Load(segF, nil)(x) {
				snap = in
			}
		case *ssa.Store:
			if fa, ok := x.Addr.(*ssa.FieldAddr); ok && fieldIs(fa, segF) {
				inst = in
			}
		}
	})
	work := eng.CallsIn(fn, cl+"commitLog.clean")
	if snap == nil || inst == nil || len(work) != 1 {
		c.Unresolved("snapshot load / clean call / install store of l.segments in Clean")
		return
	}
	la := eng.LocksOf(p, fn, 0)
	held := map[string]int{}
	s1, s2, s3 := la.At(snap), la.At(work[0].(ssa.Instruction)), la.At(inst)
	for k, m := range s1 {
		if s2[k] >= 1 && s3[k] >= 1 {
			held[k] = m
			if s2[k] < held[k] {
				held[k] = s2[k]
			}
			if s3[k] < held[k] {
				held[k] = s3[k]
			}
		}
	}
	ctor := commitLogCtorPath(c)
	n := 0
	for _, w := range p.Funcs {
		k := ir.FuncKey(w)
		if w == fn || ctor[k] != "" || !strings.HasPrefix(k, cl) {
			continue
		}
		for _, st := range eng.FieldStores(w, func(fa *ssa.FieldAddr) bool { return fieldIs(fa, segF) }) {
			// growth at the end is what Clean rebases
			if ap, isCall := eng.Strip(st.Val).(*ssa.Call); isCall {
				if b, isB := ap.Common().Value.(*ssa.Builtin); isB && b.Name() == "append" && eng.Load(segF, nil)(ap.Common().Args[0]) {
					continue
				}
			}
			n++
			wl := eng.LocksOf(p, w, 0).At(st)
			excl := false
			for hk := range held {
				// same lock field, by its name relative to the receiver
				for wk, wm := range wl {
					if lockSuffix(hk) == lockSuffix(wk) && wm == 2 {
						excl = true
					}
				}
			}
			c.Check(excl, "a cleaning pass excludes the segment-list rewrite in "+ir.FuncKey(ir.Outermost(w)), c.Pos(st), "the writer holds, exclusively, a lock that Clean holds from its snapshot of l.segments to the install of the cleaned list", "Clean snapshots l.segments, works on the snapshot without any lock for the whole pass (compaction: minutes on a large log) and then installs a list derived from it; this function can rewrite l.segments in between: a follower's Truncate during a cleaning pass is undone by the install — the truncated active segment is un-listed in favour of the old, closed one, its files are deleted by name, the epoch history removed by the truncation is restored — and readers and appends fail from then on")
		}
	}
	if n == 0 {
		c.Unresolved("writers of commitLog.segments other than Clean and rolls (Truncate on the reference tree)")
	}
}

// lockSuffix: the last selector of a lock path ("l.mu" → "mu").
func lockSuffix(k string) string {
	if i := strings.LastIndex(k, "."); i >= 0 {
		return k[i+1:]
	}
	return k
}
