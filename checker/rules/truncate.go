package rules

import (
	"go/token"

	"golang.org/x/tools/go/ssa"

	"lbcheck/eng"
)

// ruleTruncateShapes (R01.12, shared with C02 and C05): Truncate(offset) removes exactly the messages at and above offset.
// Every comparison, bound and branch polarity of the function is one of the things that exactness depends on; the shapes
// below complement the bookkeeping checks of R01.8 and the "copied only below the offset" test of R01.1.
func ruleTruncateShapes(c *eng.Ctx) {
	p := c.P
	fn := c.Fn(cl + "(*commitLog).Truncate")
	if fn == nil {
		return
	}
	segF := p.Field(clPkg, "commitLog", "segments")
	list := eng.Load(segF, nil)
	seg := eng.Call(0, cl+"findSegment")
	idx := eng.Call(1, cl+"findSegment")
	off := eng.Param("offset")
	isPhi := func(v ssa.Value) bool { _, ok := v.(*ssa.Phi); return ok }

	// (1) nothing to truncate exactly when no segment holds the offset
	none := eng.CmpEdges(fn, seg, eng.NilConst, eng.EQ)
	some := eng.CmpEdges(fn, seg, eng.NilConst, eng.NE)
	ok1 := len(none) > 0 && len(some) > 0
	for _, r := range eng.Returns(fn) {
		rv := eng.RetVals(r)
		if len(rv) == 1 && eng.NilConst(rv[0]) {
			if g, _ := eng.GuardedBy(fn, r, none); !g {
				ok1 = false
			}
		}
	}
	for _, d := range eng.CallsIn(fn, cl+"segment.Delete", cl+"segment.Truncated", cl+"leaderEpochCache.ClearLatest") {
		if g, _ := eng.GuardedBy(fn, d.(ssa.Instruction), some); !g {
			ok1 = false
		}
	}
	c.Check(ok1, "Truncate does nothing exactly when no segment holds the offset", p.Pos(fn.Pos()), "seg == nil → return nil; everything else behind seg != nil", "Truncate's `nothing to truncate` exit is taken (or skipped) on the wrong branch of seg == nil")

	// (2) the later segments: l.segments[i] for idx+1 <= i < len(l.segments), each deleted
	var laterDel, segDel ssa.CallInstruction
	for _, d := range eng.CallsIn(fn, cl+"segment.Delete") {
		if ia := indexOfLoad(d.Common().Args[0]); ia != nil && list(ia.X) && isPhi(ia.Index) {
			laterDel = d
		} else if seg(d.Common().Args[0]) {
			segDel = d
		}
	}
	if laterDel == nil || segDel == nil {
		c.Unresolved("the two Delete calls of Truncate (later segments, the segment at the offset)")
		return
	}
	inRange := eng.CmpEdges(fn, isPhi, eng.Len(list), eng.LT)
	g2, _ := eng.GuardedBy(fn, laterDel.(ssa.Instruction), inRange)
	okRange := g2 && len(inRange) > 0 && eng.ExactCmp(fn, isPhi, eng.Len(list), eng.LT)
	if !okRange {
		// the same range walked from the newest end: i starts at len-1 and the body runs on i > idx
		idxV := func(v ssa.Value) bool { return eng.Call(1, cl+"findSegment")(v) || eng.Call(-1, cl+"findSegment")(v) }
		above, exact := aboveIndex(fn, isPhi, idxV)
		g3, _ := eng.GuardedBy(fn, laterDel.(ssa.Instruction), above)
		startsAtEnd := false
		if ia := indexOfLoad(laterDel.Common().Args[0]); ia != nil {
			if ph, ok := ia.Index.(*ssa.Phi); ok {
				for _, e := range ph.Edges {
					if eng.Bin(token.SUB, eng.Len(list), eng.IntConst(1))(e) {
						startsAtEnd = true
					}
				}
			}
		}
		okRange = g3 && len(above) > 0 && startsAtEnd && exact
	}
	c.Check(okRange, "later segments are deleted for i < len(l.segments)", c.Pos(laterDel.(ssa.Instruction)), "loop bound i < len(l.segments), body on the < edge", "the loop deleting the segments after the one holding the offset does not run exactly over idx+1 … len(l.segments)-1")

	// (3) the segment holding the offset is deleted exactly when it starts at the offset and is not the first one;
	// otherwise it is rewritten
	// decided on the reach conditions of the two calls over the atoms A = (seg.BaseOffset == offset), F = (idx == 0), so that
	// nested ifs, one boolean expression or a flag variable are all the same to the rule
	specs := []eng.AtomSpec{{A: eng.LoadNamed("BaseOffset", seg), B: off, Rel: eng.EQ}, {A: idx, B: eng.IntConst(0), Rel: eng.EQ}}
	tDel, okT1 := eng.ReachTable(fn, segDel.(ssa.Instruction), specs)
	ok3 := okT1 && eng.TableIs(tDel, func(bit func(int) bool) bool { return bit(0) && !bit(1) })
	c.Check(ok3, "the segment at the offset is deleted only when it starts there and is not the first", c.Pos(segDel.(ssa.Instruction)), "seg.Delete() is reached exactly for seg.BaseOffset == offset ∧ idx != 0", "Truncate deletes the segment that holds the offset although it contains messages below the offset, or deletes the only segment (or never deletes it)")
	ok3b := false
	if tr := eng.CallsIn(fn, cl+"segment.Truncated"); len(tr) == 1 {
		tRw, okT2 := eng.ReachTable(fn, tr[0].(ssa.Instruction), specs)
		ok3b = okT2 && eng.TableIs(tRw, func(bit func(int) bool) bool { return !(bit(0) && !bit(1)) })
	}
	c.Check(ok3b, "the segment at the offset is rewritten exactly when it is not deleted", p.Pos(fn.Pos()), "Truncated()/Replace is reached exactly for seg.BaseOffset != offset ∨ idx == 0", "Truncate's rewrite decision does not agree with the delete decision: the segment holding the offset is neither deleted nor rewritten (messages at and above the offset stay), or both")

	// (4) the kept prefix: segments[i] = l.segments[i] for i < idx, into a list of len(l.segments) - deleted
	var mk *ssa.MakeSlice
	eng.Instrs(fn, func(in ssa.Instruction) {
		if m, isM := in.(*ssa.MakeSlice); isM {
			mk = m
		}
	})
	ok4 := mk != nil && eng.Bin(token.SUB, eng.Len(list), isPhi)(mk.Len)
	kept := eng.CmpEdges(fn, isPhi, idx, eng.LT)
	copied := false
	if mk != nil {
		eng.Instrs(fn, func(in ssa.Instruction) {
			st, isSt := in.(*ssa.Store)
			if !isSt {
				return
			}
			dst, isIA := st.Addr.(*ssa.IndexAddr)
			if !isIA || dst.X != ssa.Value(mk) || !isPhi(dst.Index) {
				return
			}
			src := indexOfLoad(st.Val)
			if src == nil || !list(src.X) || src.Index != dst.Index {
				return
			}
			if g, _ := eng.GuardedBy(fn, st, kept); g && len(kept) > 0 {
				copied = true
			}
		})
	}
	exactLoop := eng.ExactCmp(fn, isPhi, idx, eng.LT)
	if mk != nil && !copied {
		// equally good: copy(segments, l.segments[:idx])
		eng.Instrs(fn, func(in ssa.Instruction) {
			call, isCall := in.(*ssa.Call)
			if !isCall {
				return
			}
			if b, isB := call.Call.Value.(*ssa.Builtin); !isB || b.Name() != "copy" {
				return
			}
			src, isSl := call.Call.Args[1].(*ssa.Slice)
			if call.Call.Args[0] == ssa.Value(mk) && isSl && list(src.X) && src.Low == nil && src.High != nil && idx(src.High) {
				copied, exactLoop = true, true
			}
		})
	}
	c.Check(ok4 && copied && exactLoop, "the segments before the offset's segment are kept", p.Pos(fn.Pos()), "new list of len(l.segments)-deleted; segments[i] = l.segments[i] for i < idx", "Truncate does not carry over exactly the segments before the one holding the offset: an older segment disappears from the list, or the slot of the rewritten segment is overwritten with the old one")

	// (5) the active segment is the last of the new list
	ok5 := false
	if mk != nil {
		for _, sp := range eng.CallsIn(fn, "sync/atomic.StorePointer") {
			v := sp.Common().Args[1]
			for {
				if cv, isCv := v.(*ssa.Convert); isCv {
					v = cv.X
					continue
				}
				break
			}
			if ia := indexOfLoad(v); ia != nil && ia.X == ssa.Value(mk) && eng.Bin(token.SUB, eng.Len(eng.Same(mk)), eng.IntConst(1))(ia.Index) {
				ok5 = true
			}
		}
	}
	c.Check(ok5, "the active segment is the last segment of the new list", p.Pos(fn.Pos()), "StorePointer(&vActiveSegment, segments[len(segments)-1])", "Truncate does not make the last segment of the truncated list the active one: appends go to a segment that is not the end of the log")

	// (6) the rewrite copies while the scanner delivers, and stops at the first message at or above the offset
	scanOK := eng.CmpEdges(fn, func(v ssa.Value) bool {
		if ph, isP := v.(*ssa.Phi); isP {
			for _, e := range ph.Edges {
				if eng.Call(2, cl+"segmentScanner.Scan")(e) {
					return true
				}
			}
		}
		return eng.Call(2, cl+"segmentScanner.Scan")(v)
	}, eng.NilConst, eng.EQ)
	ok6 := len(scanOK) > 0
	writes := eng.CallsIn(fn, cl+"segment.WriteMessageSet")
	for _, w := range writes {
		if g, _ := eng.GuardedBy(fn, w.(ssa.Instruction), scanOK); !g {
			ok6 = false
		}
	}
	// after a message at or above the offset no further message is copied: from the >= edge no write is reachable
	msgOff := func(v ssa.Value) bool {
		call, isCall := v.(*ssa.Call)
		return isCall && eng.CalleeRef(&call.Call) == cl+"messageSet.Offset"
	}
	past := eng.CmpEdges(fn, msgOff, off, eng.GE)
	if len(past) == 0 || len(writes) == 0 {
		ok6 = false
	} else {
		q := &eng.PathQuery{Fn: fn, FromEdges: past, Target: func(x ssa.Instruction) bool { return x == writes[0].(ssa.Instruction) }}
		if q.Find() != nil {
			ok6 = false
		}
	}
	c.Check(ok6, "the rewrite stops at the first message at or above the offset", p.Pos(fn.Pos()), "copy while Scan succeeds and ms.Offset() < offset; no copy after the first message past it", "Truncate goes on copying after it met a message at or above the offset (or copies what a failed Scan returned)")

	// (7) a failed step aborts: after each fallible call the new list is installed only over that call's err == nil edge
	var commits []ssa.Instruction
	for _, st := range eng.FieldStores(fn, func(fa *ssa.FieldAddr) bool { return fieldIs(fa, segF) }) {
		commits = append(commits, st)
	}
	ok7, why7 := len(commits) == 1, "the store of the new list was not found"
	for _, k := range []string{"segment.Delete", "segment.Truncated", "segment.WriteMessageSet", "segment.Replace"} {
		for _, call := range eng.CallsIn(fn, cl+k) {
			cv := call.(ssa.Value)
			errOf := func(v ssa.Value) bool {
				if v == cv {
					return true
				}
				e, isE := v.(*ssa.Extract)
				return isE && e.Tuple == cv && e.Type().String() == "error"
			}
			okEdge := eng.CmpEdges(fn, errOf, eng.NilConst, eng.EQ)
			q := &eng.PathQuery{Fn: fn, FromAfter: []ssa.Instruction{call.(ssa.Instruction)}, Target: func(x ssa.Instruction) bool { return len(commits) == 1 && x == commits[0] }, CutEdges: okEdge,
				CutInstr: func(x ssa.Instruction) bool { return x == call.(ssa.Instruction) }}
			if w := q.Find(); w != nil || len(okEdge) == 0 {
				ok7, why7 = false, "after "+k+" ("+c.Pos(call.(ssa.Instruction))+") the new segment list is installed without that call having succeeded"
			}
		}
	}
	c.Check(ok7, "a failed step of Truncate aborts it", p.Pos(fn.Pos()), "l.segments = segments is reached only over err == nil of every Delete / Truncated / WriteMessageSet / Replace before it", "Truncate: "+why7+": the log's segment list no longer describes the files on disk")
}

// aboveIndex: the edges on which a loop counter is above idx, written either as i > idx or as i >= idx+1 (the same test
// over the integers; the second form appears when the lower bound is handed to a helper as idx+1 — benign variant B59).
func aboveIndex(fn *ssa.Function, counter, idx eng.VM) ([]eng.Edge, bool) {
	gt := eng.CmpEdges(fn, counter, idx, eng.GT)
	next := eng.Bin(token.ADD, idx, eng.IntConst(1))
	ge := eng.CmpEdges(fn, counter, next, eng.GE)
	exact := true
	if len(gt) > 0 && !eng.ExactCmp(fn, counter, idx, eng.GT) {
		exact = false
	}
	if len(ge) > 0 && !eng.ExactCmp(fn, counter, next, eng.GE) {
		exact = false
	}
	return append(gt, ge...), exact
}
