package rules

import (
	"fmt"
	"os"
	"os/exec"
	"regexp"
	"sort"
	"strconv"
	"strings"

	"golang.org/x/tools/go/ssa"

	"lbcheck/eng"
	"lbcheck/ir"
)

var bceRE = regexp.MustCompile(`^(\S+\.go):(\d+):(\d+): Found (IsInBounds|IsSliceInBounds)`)

// bceCrossCheck (thorough tier): every bounds check the compiler's prove pass could not eliminate inside a function that
// handles untrusted bytes must have been seen by the analyser (an obligation of the current rule at that line), so that
// the site enumeration of the bounds rule is complete with respect to an independent oracle.
func bceCrossCheck(c *eng.Ctx, t *eng.Taint, pkgs []string) {
	if c.Tier != "thorough" || c.P.Overlay != nil {
		return
	}
	args := append([]string{"build", "-gcflags=-d=ssa/check_bce/debug=1"}, pkgs...)
	cmd := exec.Command("go", args...)
	cmd.Dir = c.P.Dir
	cmd.Env = append(os.Environ(), "GOFLAGS=-mod=mod", "GOPROXY=off", "GOWORK=off")
	out, _ := cmd.CombinedOutput()
	// line ranges of functions holding tainted values, and the lines on which a tainted slice is indexed/sliced
	type rng struct {
		file   string
		l0, l1 int
		key    string
	}
	var rs []rng
	for fn := range t.Funcs() {
		if fn.Syntax() == nil {
			continue
		}
		p0 := c.P.Fset.Position(fn.Syntax().Pos())
		p1 := c.P.Fset.Position(fn.Syntax().End())
		rs = append(rs, rng{strings.TrimPrefix(p0.Filename, c.P.Dir+"/"), p0.Line, p1.Line, ir.FuncKey(fn)})
	}
	seen := map[string]bool{}
	for _, o := range c.Obs {
		seen[o.Pos] = true
	}
	taintedLine := map[string]bool{}
	for fn := range t.Funcs() {
		eng.Instrs(fn, func(in ssa.Instruction) {
			var base ssa.Value
			switch x := in.(type) {
			case *ssa.IndexAddr:
				base = x.X
			case *ssa.Index:
				base = x.X
			case *ssa.Slice:
				base = x.X
			case *ssa.Lookup:
				base = x.X
			}
			if base != nil && t.Val[base] {
				taintedLine[c.Pos(in)] = true
			}
		})
	}
	n, miss := 0, 0
	var lines []string
	for _, l := range strings.Split(string(out), "\n") {
		m := bceRE.FindStringSubmatch(l)
		if m == nil || strings.HasSuffix(m[1], ".pb.go") {
			continue
		}
		line, _ := strconv.Atoi(m[2])
		pos := m[1] + ":" + m[2]
		for _, r := range rs {
			if r.file == m[1] && line >= r.l0 && line <= r.l1 {
				if !taintedLine[pos] {
					break // a bounds check on trusted memory inside such a function
				}
				n++
				if !seen[pos] {
					miss++
					lines = append(lines, pos+" in "+r.key)
				}
				break
			}
		}
	}
	sort.Strings(lines)
	if n == 0 {
		c.Note("compiler BCE cross-check: the compiler reported no unproven bounds checks on untrusted bytes (or the build with -d=ssa/check_bce failed)")
		return
	}
	c.Check(miss == 0, "compiler BCE cross-check", "-",
		fmt.Sprintf("all %d bounds checks on untrusted bytes that the compiler's prove pass could not eliminate are obligations of this rule", n),
		fmt.Sprintf("%d bounds check(s) on untrusted bytes that the compiler could not prove were not seen by the analyser: %s", miss, strings.Join(lines, ", ")))
}
