package rules

import (
	"go/token"
	"strings"

	"golang.org/x/tools/go/ssa"

	"lbcheck/eng"
)

// streamSetting is one per-stream setting and the names it has on its way from the CreateStream request to the commit log:
// request / protobuf StreamConfig field, server StreamsConfig field, commitlog.Options field ("" = not a log option).
type streamSetting struct{ proto, cfg, logOpt string }

// The table is the repository's own plumbing, read off getStreamConfig, ApplyOverrides and newPartition and frozen here;
// a setting that is dropped or wired to a different one on any hop silently changes what the stream does.
var streamSettings = []streamSetting{
	{"RetentionMaxAge", "RetentionMaxAge", "MaxLogAge"},
	{"RetentionMaxBytes", "RetentionMaxBytes", "MaxLogBytes"},
	{"RetentionMaxMessages", "RetentionMaxMessages", "MaxLogMessages"},
	{"CleanerInterval", "CleanerInterval", "CleanerInterval"},
	{"SegmentMaxBytes", "SegmentMaxBytes", "MaxSegmentBytes"},
	{"SegmentMaxAge", "SegmentMaxAge", "MaxSegmentAge"},
	{"CompactEnabled", "Compact", "Compact"},
	{"CompactMaxGoroutines", "CompactMaxGoroutines", "CompactMaxGoroutines"},
	{"AutoPauseTime", "AutoPauseTime", ""},
	{"AutoPauseDisableIfSubscribers", "AutoPauseDisableIfSubscribers", ""},
	{"MinIsr", "MinISR", ""},
	{"OptimisticConcurrencyControl", "ConcurrencyControl", "ConcurrencyControl"},
	{"Encryption", "Encryption", ""},
}

// derivesFromValueOf: v is computed (conversions, arithmetic with constants) from <base>.<field>.Value.
func derivesFromValueOf(v ssa.Value, field string, base eng.VM, depth int) bool {
	if depth > 4 {
		return false
	}
	v = eng.Strip(v)
	if f, b := eng.FieldRead(v); f != nil && f.Name() == "Value" {
		if f2, b2 := eng.FieldRead(b); f2 != nil && f2.Name() == field && (base == nil || base(b2)) {
			return true
		}
	}
	if bo, ok := v.(*ssa.BinOp); ok && (bo.Op == token.MUL || bo.Op == token.ADD) {
		return derivesFromValueOf(bo.X, field, base, depth+1) || derivesFromValueOf(bo.Y, field, base, depth+1)
	}
	return false
}

// ruleStreamConfigPlumbing (R16.8, shared): the listed per-stream settings travel request → protobuf → StreamsConfig → log
// options under their own names.
func ruleStreamConfigPlumbing(c *eng.Ctx, only ...string) {
	p := c.P
	want := map[string]bool{}
	for _, o := range only {
		want[o] = true
	}
	// any field-by-field copy of a configuration value on the way carries these settings
	var names []string
	for _, s := range streamSettings {
		if len(want) == 0 || want[s.proto] {
			names = append(names, s.proto, s.cfg, s.logOpt)
		}
	}
	rule, kind := c.CurrentRule()
	ruleCompleteCopies(c, rule, configTypes, names, "wherever the copy is used (resume after a pause, snapshot and restore, new partitions) the stream silently falls back to the default for that setting")
	c.Rule(rule, kind)
	gs := c.Fn("server.getStreamConfig")
	ao := c.Fn("server.(*StreamsConfig).ApplyOverrides")
	skipped := map[string]string{}
	np := c.Fn("server.(*Server).newPartition")
	for _, s := range streamSettings {
		if len(want) > 0 && !want[s.proto] {
			continue
		}
		// hop 1: request → protobuf StreamConfig
		if gs != nil {
			ok := false
			eng.Instrs(gs, func(in ssa.Instruction) {
				st, isSt := in.(*ssa.Store)
				if !isSt {
					return
				}
				fa, isFA := st.Addr.(*ssa.FieldAddr)
				if !isFA || ownerName(fa) != "StreamConfig" || eng.FieldNameOf(fa) != s.proto {
					return
				}
				// the stored Nullable* literal carries req.<same name>.Value
				if al, isAl := st.Val.(*ssa.Alloc); isAl && al.Referrers() != nil {
					for _, r := range *al.Referrers() {
						if vfa, isV := r.(*ssa.FieldAddr); isV && eng.FieldNameOf(vfa) == "Value" && vfa.Referrers() != nil {
							for _, rr := range *vfa.Referrers() {
								if vs, isVS := rr.(*ssa.Store); isVS && derivesFromValueOf(vs.Val, s.proto, eng.Param("req"), 0) {
									// ... on the branch where the request carries the setting
									present := eng.CmpEdges(gs, eng.LoadNamed(s.proto, eng.Param("req")), eng.NilConst, eng.NE)
									if g, _ := eng.GuardedBy(gs, st, present); g && len(present) > 0 {
										ok = true
									}
								}
							}
						}
					}
				}
			})
			c.Check(ok, "create request → stream config: "+s.proto, p.Pos(gs.Pos()), "config."+s.proto+" = {Value: req."+s.proto+".Value}", "getStreamConfig does not carry req."+s.proto+" into the replicated stream configuration under its own name: the per-stream setting is lost or lands in another setting")
		}
		// hop 2: protobuf StreamConfig → StreamsConfig
		if ao != nil {
			ok, wrong := false, ""
			eng.Instrs(ao, func(in ssa.Instruction) {
				st, isSt := in.(*ssa.Store)
				if !isSt {
					return
				}
				fa, isFA := st.Addr.(*ssa.FieldAddr)
				if !isFA || ownerName(fa) != "StreamsConfig" {
					return
				}
				if derivesFromValueOf(st.Val, s.proto, eng.Param("c"), 0) {
					present := eng.CmpEdges(ao, eng.LoadNamed(s.proto, eng.Param("c")), eng.NilConst, eng.NE)
					if g, _ := eng.GuardedBy(ao, st, present); !g || len(present) == 0 {
						return // applied on the branch where the override is absent: not an application
					}
					// present ⇒ applied, whatever the value: 0 is how a limit is switched off (the cursors stream relies on it)
					q := &eng.PathQuery{Fn: ao, FromEdges: present, Target: isReturn, CutInstr: func(x ssa.Instruction) bool { return x == ssa.Instruction(st) }}
					if w := q.Find(); w != nil {
						skipped[s.proto] = w.String()
					}
					if eng.FieldNameOf(fa) == s.cfg {
						ok = true
					} else {
						wrong = eng.FieldNameOf(fa)
					}
				}
			})
			detail := "ApplyOverrides does not apply the stream's " + s.proto + " override to StreamsConfig." + s.cfg
			if wrong != "" {
				detail += " (it is stored into StreamsConfig." + wrong + ")"
			}
			if w, isSkipped := skipped[s.proto]; isSkipped && ok {
				c.Check(false, "a present override is applied whatever its value: "+s.proto, p.Pos(ao.Pos()), "if c."+s.proto+" != nil { l."+s.cfg+" = … } with no further condition", "ApplyOverrides can skip a "+s.proto+" override that is present ("+w+"): a value the condition excludes — 0 is how a limit is switched off — leaves the server default in force; the cursors stream, whose retention limits are switched off this way, loses idle cursors to the delete cleaner")
			}
			c.Check(ok && wrong == "", "stream config → partition settings: "+s.proto, p.Pos(ao.Pos()), "l."+s.cfg+" = c."+s.proto+".Value", detail+": the partition runs with the server default (or a wrong limit) although the stream was created with its own value")
		}
		// hop 3: StreamsConfig → commitlog.Options
		if np != nil && s.logOpt != "" {
			ok, src := false, ""
			eng.Instrs(np, func(in ssa.Instruction) {
				st, isSt := in.(*ssa.Store)
				if !isSt {
					return
				}
				fa, isFA := st.Addr.(*ssa.FieldAddr)
				if !isFA || ownerName(fa) != "Options" || eng.FieldNameOf(fa) != s.logOpt {
					return
				}
				if f, _ := eng.FieldRead(eng.Strip(st.Val)); f != nil {
					src = f.Name()
					ok = f.Name() == s.cfg
				}
			})
			c.Check(ok, "partition settings → log options: "+s.logOpt, p.Pos(np.Pos()), "commitlog.Options."+s.logOpt+" = streamsConfig."+s.cfg, "newPartition fills commitlog.Options."+s.logOpt+" from "+strings.TrimSpace("streamsConfig."+src)+" instead of streamsConfig."+s.cfg)
		}
	}
}

// ruleRetentionOptionsReachCleaner (R16.8, hop 4, C09): the retention limits given to commitlog.New reach the delete
// cleaner under their own names, and the log hands exactly that cleaner its segments.
func ruleRetentionOptionsReachCleaner(c *eng.Ctx) {
	p := c.P
	fn := c.Fn(cl + "New")
	if fn == nil {
		return
	}
	for _, m := range []struct{ ret, opt string }{{"Bytes", "MaxLogBytes"}, {"Messages", "MaxLogMessages"}, {"Age", "MaxLogAge"}} {
		ok, src := false, "nothing"
		eng.Instrs(fn, func(in ssa.Instruction) {
			st, isSt := in.(*ssa.Store)
			if !isSt {
				return
			}
			fa, isFA := st.Addr.(*ssa.FieldAddr)
			if !isFA || eng.FieldNameOf(fa) != m.ret {
				return
			}
			// Retention.<ret> of the delete cleaner's options
			if inner, isIn := fa.X.(*ssa.FieldAddr); !isIn || eng.FieldNameOf(inner) != "Retention" {
				return
			}
			if f, _ := eng.FieldRead(eng.Strip(st.Val)); f != nil {
				src = "opts." + f.Name()
				ok = f.Name() == m.opt
			}
		})
		c.Check(ok, "log option "+m.opt+" reaches the retention cleaner", p.Pos(fn.Pos()), "cleanerOpts.Retention."+m.ret+" = opts."+m.opt, "commitlog.New fills the delete cleaner's Retention."+m.ret+" from "+src+" instead of opts."+m.opt+": the configured limit is not the one enforced")
	}
	// the cleaner built from those options is the one the log uses
	okUse := false
	eng.Instrs(fn, func(in ssa.Instruction) {
		st, isSt := in.(*ssa.Store)
		if !isSt {
			return
		}
		fa, isFA := st.Addr.(*ssa.FieldAddr)
		if isFA && ownerName(fa) == "commitLog" && eng.FieldNameOf(fa) == "deleteCleaner" && eng.Call(-1, cl+"newDeleteCleaner")(st.Val) {
			okUse = true
		}
	})
	c.Check(okUse, "the log uses the cleaner built from its options", p.Pos(fn.Pos()), "commitLog.deleteCleaner = newDeleteCleaner(cleanerOpts)", "the commit log's delete cleaner is not the one constructed from the log's retention options")
}
