package rules

import (
	"go/token"
	"go/types"
	"strings"

	"golang.org/x/tools/go/ssa"

	"lbcheck/eng"
)

// ruleReaderSegment (R01.9): the segment a reader reads from is always obtained by looking the reader's own position
// up in the segment list — by offset (findSegment / findSegmentContains with the offset the reader is about to deliver)
// or by moving to the segment that follows the current one (findSegmentByBaseOffset(segments, seg.BaseOffset+1)).
// A reader that takes its segment from somewhere else (the high-watermark segment, the active segment, an index into
// the list) skips or repeats messages whenever that other position is in a different segment.
func ruleReaderSegment(c *eng.Ctx) {
	p := c.P
	type rd struct{ typ, field string }
	readers := []rd{{"committedReader", "seg"}, {"uncommittedReader", "seg"}}
	lookup := func(v ssa.Value) (string, *ssa.Call) {
		v = eng.Strip(v)
		if ex, ok := v.(*ssa.Extract); ok {
			if ex.Index != 0 {
				return "", nil
			}
			v = ex.Tuple
		}
		call, ok := v.(*ssa.Call)
		if !ok {
			return "", nil
		}
		return eng.CalleeRef(&call.Call), call
	}
	var okValue func(fn *ssa.Function, v ssa.Value, typ string, depth int) (bool, string)
	okValue = func(fn *ssa.Function, v ssa.Value, typ string, depth int) (bool, string) {
		if depth > 4 {
			return false, "value too deep to classify"
		}
		if eng.NilConst(v) {
			return true, "nil (reader parked beyond the data)"
		}
		if ph, ok := v.(*ssa.Phi); ok {
			for _, e := range ph.Edges {
				if ok2, why := okValue(fn, e, typ, depth+1); !ok2 {
					return false, why
				}
			}
			return true, "phi of looked-up segments"
		}
		// segments[idx] with idx returned by a lookup
		if u, ok := eng.Strip(v).(*ssa.UnOp); ok && u.Op == token.MUL {
			if ia, ok := u.X.(*ssa.IndexAddr); ok {
				if ex, ok := ia.Index.(*ssa.Extract); ok && ex.Index == 1 {
					if call, ok := ex.Tuple.(*ssa.Call); ok && eng.RefIn(eng.CalleeRef(&call.Call), cl+"findSegment") {
						return true, "element at the index returned by findSegment"
					}
				}
			}
		}
		ref, call := lookup(v)
		switch ref {
		case cl + "findSegment", cl + "findSegmentContains":
			return true, "looked up by offset"
		case cl + "findSegmentByBaseOffset":
			// the successor of the segment being read: key = <reader>.seg.BaseOffset + 1
			segF := p.Field(clPkg, typ, "seg")
			if eng.Bin(token.ADD, eng.LoadNamed("BaseOffset", eng.Load(segF, nil)), eng.IntConst(1))(call.Call.Args[1]) {
				return true, "successor of the current segment"
			}
			return false, "findSegmentByBaseOffset is not keyed by <reader>.seg.BaseOffset+1"
		}
		return false, "the value is " + eng.Describe(v) + ", not the result of a segment lookup for the reader's position"
	}
	for _, r := range readers {
		f := p.Field(clPkg, r.typ, r.field)
		if f == nil {
			c.Unresolved("field " + r.typ + "." + r.field)
			continue
		}
		for _, fn := range p.Funcs {
			if fn.Pkg == nil || fn.Pkg != p.SSAPkg[clPkg] {
				continue
			}
			for _, st := range eng.FieldStores(fn, func(fa *ssa.FieldAddr) bool { return fieldIs(fa, f) }) {
				ok, why := okValue(fn, st.Val, r.typ, 0)
				c.Check(ok, "store to "+r.typ+".seg in "+fn.Name(), c.Pos(st), why, "a reader's segment is taken from somewhere other than a lookup of its own position: "+why+" — when that other position lies in a different segment the reader skips or repeats messages")
			}
		}
	}
	// moving on to the next segment: only to a segment that exists, and reading restarts at its beginning
	for _, r := range readers {
		segF := p.Field(clPkg, r.typ, "seg")
		posF := p.Field(clPkg, r.typ, "pos")
		if segF == nil || posF == nil {
			continue
		}
		for _, fn := range p.Funcs {
			if fn.Pkg == nil || fn.Pkg != p.SSAPkg[clPkg] {
				continue
			}
			for _, st := range eng.FieldStores(fn, func(fa *ssa.FieldAddr) bool { return fieldIs(fa, segF) }) {
				ref, call := lookup(st.Val)
				if ph, isPhi := st.Val.(*ssa.Phi); isPhi && len(ph.Edges) > 0 {
					ref, call = lookup(ph.Edges[0])
				}
				if ref != cl+"findSegmentByBaseOffset" || call == nil {
					continue
				}
				// (a) the successor exists
				stored := st.Val
				exists := eng.CmpEdges(fn, func(v ssa.Value) bool { return v == stored || eng.Strip(v) == eng.Strip(stored) }, eng.NilConst, eng.NE)
				g, w := eng.GuardedBy(fn, st, exists)
				// (b) the position is reset before the next read from the segment
				q := &eng.PathQuery{Fn: fn, FromAfter: []ssa.Instruction{st}, Target: eng.IsCallTo(cl + "segment.ReadAt"), CutInstr: func(x ssa.Instruction) bool {
					s2, ok := x.(*ssa.Store)
					if !ok {
						return false
					}
					fa, ok := s2.Addr.(*ssa.FieldAddr)
					return ok && fieldIs(fa, posF) && eng.IntConst(0)(s2.Val)
				}}
				w2 := q.Find()
				c.Check(g && len(exists) > 0 && w2 == nil, r.typ+" moves to an existing successor segment and restarts at position 0 ("+fn.Name()+")", c.Pos(st), "r.seg = nextSeg only on nextSeg != nil; r.pos = 0 before the next ReadAt", "the reader switches to the next segment without it existing (path "+w.String()+") or keeps its old position in the new segment (path "+w2.String()+"): it dereferences nil, or skips / mis-frames the first messages of the segment")
			}
		}
	}
	// the segment searches answer "no such segment" exactly when the search ran off the end
	for _, k := range []string{"findSegment", "findSegmentByBaseOffset"} {
		fn := c.Fn(cl + k)
		if fn == nil {
			continue
		}
		off := eng.CmpEdges(fn, eng.Call(-1, "sort.Search"), eng.Len(eng.Param("segments")), eng.EQ)
		in := eng.CmpEdges(fn, eng.Call(-1, "sort.Search"), eng.Len(eng.Param("segments")), eng.NE)
		ok := len(off) > 0 && len(in) > 0
		for _, r := range eng.Returns(fn) {
			rv := eng.RetVals(r)
			if eng.NilConst(rv[0]) {
				if g, _ := eng.GuardedBy(fn, r, off); !g {
					ok = false
				}
			} else if g, _ := eng.GuardedBy(fn, r, in); !g {
				ok = false
			}
		}
		c.Check(ok, k+" answers nil exactly when no segment qualifies", p.Pos(fn.Pos()), "idx == len(segments) ? nil : segments[idx]", k+" returns nil for a segment that exists or indexes past the end of the list")
	}
	// a Reader that has to re-open after its segment was replaced resumes right after the last message it returned
	if fn := c.Fn(cl + "(*Reader).ReadMessage"); fn != nil {
		of := p.Field(clPkg, "Reader", "offset")
		rm := eng.CallsIn(fn, cl+"readMessage")
		ok := len(rm) == 1
		if ok {
			got := func(v ssa.Value) bool {
				ex, isE := eng.Strip(v).(*ssa.Extract)
				return isE && ex.Index == 1 && ex.Tuple == rm[0].Value()
			}
			sts := eng.FieldStores(fn, func(fa *ssa.FieldAddr) bool { return fieldIs(fa, of) })
			ok = len(sts) == 1 && eng.Bin(token.ADD, got, eng.IntConst(1))(sts[0].Val)
			// re-initialisation starts from that remembered offset
			for _, k := range []string{cl + "commitLog.newReaderUncommitted", cl + "commitLog.newReaderCommitted"} {
				for _, nr := range eng.CallsIn(fn, k) {
					if !eng.Load(of, nil)(nr.Common().Args[1]) {
						ok = false
					}
				}
			}
		}
		c.Check(ok, "a re-opened Reader resumes after the last message it returned", p.Pos(fn.Pos()), "r.offset = (offset of the message just read) + 1; re-initialisation uses r.offset", "Reader.ReadMessage does not remember (offset of the returned message)+1 as its resume point (or does not re-open there): on a log with gaps, a reader whose segment is replaced by a compaction or truncation resumes too early and delivers messages twice, or too late and skips some")
	}
	// the committed reader that was parked beyond the watermark resumes at old watermark + 1
	if fn := c.Fn(cl + "(*committedReader).Read"); fn != nil {
		hwF := p.Field(clPkg, "committedReader", "hw")
		ok := false
		for _, fs := range eng.CallsIn(fn, cl+"findSegment") {
			a := fs.Common().Args[1]
			next := eng.Bin(token.ADD, eng.Load(hwF, nil), eng.IntConst(1))
			// the resume point is old watermark + 1, or the offset the reader was created for when that lies further on
			// (a start offset above the watermark but inside the log): max(hw+1, start), start taken only on start > hw+1
			resume := func(v ssa.Value) bool {
				if next(v) {
					return true
				}
				ph, isPhi := v.(*ssa.Phi)
				if !isPhi {
					return false
				}
				hasNext, okEdges := false, true
				for _, e := range ph.Edges {
					switch {
					case next(e):
						hasNext = true
					case eng.LoadNamed("start", nil)(e):
					default:
						okEdges = false
					}
				}
				further := eng.CmpEdges(fn, eng.LoadNamed("start", nil), next, eng.GT)
				return hasNext && okEdges && len(further) > 0
			}
			if resume(a) {
				// computed before r.hw is overwritten: no store to r.hw precedes the addition in its block path
				ok = true
				var bo *ssa.BinOp
				if b, isB := eng.Strip(a).(*ssa.BinOp); isB {
					bo = b
				} else if ph, isPhi := a.(*ssa.Phi); isPhi {
					for _, e := range ph.Edges {
						if b, isB := eng.Strip(e).(*ssa.BinOp); isB {
							bo = b
						}
					}
				}
				if isB := bo != nil; isB {
					for _, st := range eng.FieldStores(fn, func(fa *ssa.FieldAddr) bool { return fieldIs(fa, hwF) }) {
						q := &eng.PathQuery{Fn: fn, FromAfter: []ssa.Instruction{st}, Target: func(x ssa.Instruction) bool { return x == ssa.Instruction(bo) }}
						if q.Find() != nil {
							ok = false
						}
					}
				}
				// and the same offset positions the reader inside the segment
				same := false
				for _, fe := range eng.CallsIn(fn, cl+"segment.findEntry") {
					if fe.Common().Args[1] == a {
						same = true
					}
				}
				ok = ok && same
			}
		}
		c.Check(ok, "a parked committed reader resumes at its old watermark + 1", p.Pos(fn.Pos()), "findSegment(segments, r.hw+1) and findEntry(r.hw+1), r.hw read before it is updated", "the committed reader that waited beyond the watermark does not resume at (old watermark + 1): committed messages are skipped or delivered twice")
	}
}

// ruleScannerEntries (R01.10): the index scanners hand out a pointer to ONE entry object that the next Scan overwrites
// (indexScanner.entry / reverseIndexScanner.entry). A caller may use the entry until its next Scan call but must not
// retain it across iterations: a list of such pointers is a list of copies of the last entry, and a segment index
// written from it maps every offset to the last message.
func ruleScannerEntries(c *eng.Ctx) {
	p := c.P
	type src struct {
		ref string
		idx int
	}
	srcs := []src{{cl + "indexScanner.Scan", 0}, {cl + "reverseIndexScanner.Scan", 0}, {cl + "segmentScanner.Scan", 1}, {cl + "reverseSegmentScanner.Scan", 1}}
	n := 0
	for _, fn := range p.Funcs {
		if fn.Pkg == nil || !c.P.IsModuleFunc(fn) {
			continue
		}
		eng.Instrs(fn, func(in ssa.Instruction) {
			call, ok := in.(*ssa.Call)
			if !ok {
				return
			}
			ref := eng.CalleeRef(&call.Call)
			want := -1
			for _, s := range srcs {
				if s.ref == ref {
					want = s.idx
				}
			}
			if want < 0 || call.Referrers() == nil {
				return
			}
			// the scanners' own wrappers pass the entry through (segmentScanner.Scan returns indexScanner's entry)
			if strings.HasSuffix(fn.Name(), "Scan") && fn.Signature.Recv() != nil {
				return
			}
			for _, r := range *call.Referrers() {
				ex, ok := r.(*ssa.Extract)
				if !ok || ex.Index != want {
					continue
				}
				n++
				how := retainedAcrossIterations(ex, 0)
				c.Check(how == "", "entry from "+shortRef(ref)+" in "+fn.Name(), c.Pos(call), "used before the next Scan, not accumulated", "the *entry returned by "+shortRef(ref)+" is "+how+", but the scanner re-uses that one object for every Scan: all retained pointers end up describing the last entry scanned (an index written from them maps every offset of the segment to its last message)")
			}
		})
	}
	if n == 0 {
		c.OK("entries returned by index scanners", "-", "no caller takes the entry result")
	}
}

// retainedAcrossIterations reports how v is accumulated (appended to a slice that lives across loop iterations, stored
// into a map or into a field of a longer-lived object), or "".
func retainedAcrossIterations(v ssa.Value, depth int) string {
	if depth > 4 || v.Referrers() == nil {
		return ""
	}
	for _, r := range *v.Referrers() {
		switch x := r.(type) {
		case *ssa.Phi:
			if s := retainedAcrossIterations(x, depth+1); s != "" {
				return s
			}
		case *ssa.MapUpdate:
			if x.Value == v {
				return "stored in a map"
			}
		case *ssa.Store:
			if x.Val != v {
				continue
			}
			switch a := x.Addr.(type) {
			case *ssa.FieldAddr:
				return "stored in field " + eng.FieldNameOf(a)
			case *ssa.IndexAddr:
				// element of a literal / varargs array: follow the slice made from it
				if arr, ok := a.X.(*ssa.Alloc); ok && arr.Referrers() != nil {
					for _, ar := range *arr.Referrers() {
						sl, ok := ar.(*ssa.Slice)
						if !ok || sl.Referrers() == nil {
							continue
						}
						for _, sr := range *sl.Referrers() {
							ac, ok := sr.(*ssa.Call)
							if !ok {
								continue
							}
							if b, ok := ac.Call.Value.(*ssa.Builtin); ok && b.Name() == "append" && len(ac.Call.Args) == 2 && ac.Call.Args[1] == ssa.Value(sl) {
								// appended to something that is not a fresh literal: a list built over several Scans
								if _, fresh := ac.Call.Args[0].(*ssa.Const); !fresh {
									return "appended to a list that outlives the iteration"
								}
							}
						}
					}
				} else {
					return "stored in a slice element"
				}
			}
		}
	}
	return ""
}

// ruleNilMarker (R01.11): byteEncoder.PutBytes writes a nil slice as size -1, so every 32-bit size that the message
// decoder reads may be the nil marker. A decoded size is added to a position (and so ends up in slice bounds) only
// behind a test against -1 — keyOffsets and valueOffsets do that; every sibling decoder must too.
func ruleNilMarker(c *eng.Ctx) {
	p := c.P
	n := 0
	for _, fn := range p.Funcs {
		if fn.Pkg == nil || fn.Pkg != p.SSAPkg[clPkg] || fn.Signature.Recv() == nil {
			continue
		}
		if rt, ok := fn.Signature.Recv().Type().(*types.Named); !ok || rt.Obj().Name() != "SerializedMessage" {
			continue
		}
		eng.Instrs(fn, func(in ssa.Instruction) {
			call, ok := in.(*ssa.Call)
			if !ok || !strings.HasSuffix(eng.CalleeRef(&call.Call), ".Uint32") {
				return
			}
			size := ssa.Value(call)
			notNil := eng.CmpEdges(fn, eng.Same(size), eng.IntConst(-1), eng.NE)
			var adds []*ssa.BinOp
			var walk func(v ssa.Value, d int)
			walk = func(v ssa.Value, d int) {
				if d > 3 || v.Referrers() == nil {
					return
				}
				for _, r := range *v.Referrers() {
					switch x := r.(type) {
					case *ssa.Convert:
						walk(x, d+1)
					case *ssa.BinOp:
						if x.Op == token.ADD {
							adds = append(adds, x)
						}
					}
				}
			}
			walk(size, 0)
			for _, a := range adds {
				n++
				g, w := eng.GuardedBy(fn, a, notNil)
				c.Check(g && len(notNil) > 0, "decoded size in "+fn.Name()+" added to a position", c.Pos(a), "only behind size != -1 (the encoder's nil marker)", "a 32-bit size read from the message is added to a position without having been compared with -1 (path "+w.String()+"): the encoder writes a nil byte slice as size -1, so decoding such a field slices m[n : n-1] and panics")
			}
		})
	}
	if n == 0 {
		c.Unresolved("size arithmetic in the SerializedMessage decoders")
	}
}
